#!/bin/bash
# run every check once (default: quick) on the current tree
tier=${1:-quick}
cd "$(dirname "$0")"
for i in $(seq -w 1 20); do
  /usr/bin/time -f "C$i %es" ./check C$i --tier $tier 2>&1 | grep -E "^OK|^VIOLATION|^KNOWN|^C[0-9]+ [0-9.]+s"
done

#!/usr/bin/env python3
"""Run the quick checks against behaviour-preserving rewrites of /repo (seeded/_harmless/*):
every check must exit 0 (or, where a pinned skeleton is the tie, report `no-failing-input-found`,
which is recorded as such).  Usage: harmless_eval.py [R01 ...]"""
import json
import os
import shutil
import subprocess
import sys
import time

ROOT = os.path.dirname(os.path.dirname(os.path.abspath(__file__)))
REPO = os.environ.get("NXSLIB_REPO", "/repo")      # a private worktree when the evaluation runs in a copy of /verif
HDIR = os.path.join(ROOT, "seeded", "_harmless")
AFFECTED = {
    "serialframe.py": ["C01", "C02", "C03", "C14", "C17", "C20"],
    "parse.py": ["C04", "C05", "C06", "C07", "C15"],
    "parserecv.py": ["C02", "C05", "C06", "C14", "C15", "C17"],
    "iparse.py": ["C04", "C15"],
    "dev.py": ["C06", "C12", "C16", "C19"],
    "comm.py": ["C03", "C07", "C09", "C10", "C11", "C12"],
    "nxscope.py": ["C08", "C09", "C12"],
    "thread.py": ["C13", "C09", "C10"],
    "dummy.py": ["C14", "C16"],
    "iintf.py": ["C17", "C18"],
    "serial.py": ["C18"],
}


def sh(cmd, **kw):
    return subprocess.run(cmd, shell=True, capture_output=True, text=True, **kw)


def main():
    names = sys.argv[1:] or sorted(d for d in os.listdir(HDIR) if os.path.isdir(os.path.join(HDIR, d)))
    for name in names:
        d = os.path.join(HDIR, name)
        patch = os.path.join(d, "patch.diff")
        if sh("git -C %s status --porcelain" % REPO).stdout.strip():
            print("refusing: %s not clean" % REPO)
            return
        files = [l.split("/")[-1].strip() for l in open(patch) if l.startswith("+++ ")]
        props = sorted({p for f in files for p in AFFECTED.get(f, [])})
        if os.environ.get("HARMLESS_PROPS"):
            props = [p for p in props if p in os.environ["HARMLESS_PROPS"].split(",")]
        keep = "/var/tmp/evidence-keep-%d" % os.getpid()     # evidence files describe runs against /repo itself
        shutil.rmtree(keep, ignore_errors=True)
        shutil.copytree(os.path.join(ROOT, "evidence"), keep)
        r = sh("git -C %s apply %s" % (REPO, patch))
        res = {}
        try:
            if r.returncode != 0:
                print(name, "patch does not apply", r.stderr[:200])
                continue
            for p in props:
                t0 = time.time()
                c = sh("timeout 3000 ./check %s --tier quick" % p, cwd=ROOT)
                line = [x for x in c.stdout.split("\n") if x.startswith(("VIOLATION", "OK"))]
                res[p] = {"exit": c.returncode, "line": line[0] if line else c.stdout[-200:], "wall_s": round(time.time() - t0, 1)}
                print(name, p, c.returncode, (line[0] if line else "")[:140], flush=True)
        finally:
            sh("git -C %s checkout -- ." % REPO)
            sh("/venv/bin/python %s/tools/extract.py --quiet" % ROOT)
            for f in os.listdir(keep):
                shutil.copy(os.path.join(keep, f), os.path.join(ROOT, "evidence", f))
            shutil.rmtree(keep, ignore_errors=True)
        try:
            res = dict(json.load(open(os.path.join(d, "meta.json"))).get("checked", {}), **res)   # keep earlier runs
        except (OSError, ValueError):
            pass
        meta = {"files": files, "checked": res,
                "silent": sorted(p for p, v in res.items() if v["exit"] == 0),
                "alarm_no_failing_input": sorted(p for p, v in res.items() if v["exit"] != 0 and "no-failing-input-found" in v["line"]),
                "alarm_with_input": sorted(p for p, v in res.items() if v["exit"] != 0 and "no-failing-input-found" not in v["line"])}
        json.dump(meta, open(os.path.join(d, "meta.json"), "w"), indent=1)


if __name__ == "__main__":
    main()

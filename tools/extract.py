#!/venv/bin/python
"""Translator: nxslib sources -> coq/gen/Gen_*.v (regenerated on every run).

Fail-closed reader of the Python `ast`:

* every *modelled function* is reduced to a skeleton (docstrings, logging
  calls and annotations removed; every literal replaced by a numbered hole).
  The skeleton's hash is compared with the blessed one (tools/blessed.json,
  written by `extract.py --bless` when the hand-written Coq model of that
  function was last reviewed against the source).  Same skeleton: the
  literals found in the holes are emitted, under their semantic names, as Coq
  definitions -- the model's constants.  Different skeleton: the function is
  reported as `drift` (its blessed constants are emitted so that the model
  still builds) and the checks that depend on it escalate their differential
  run; nothing is silently defaulted.
* enums and the dsfmt / msfmt tables are read structurally and emitted whole.
* the CRC algorithm name is resolved to (poly, init, reverse, xor-out) through
  crcmod's own table of predefined algorithms.

Output: coq/gen/*.v (only rewritten when the text changes, so `make` rebuilds
only what depends on a changed constant) and coq/gen/status.json.
"""
import ast
import hashlib
import json
import os
import sys

SRC = os.environ.get("NXSLIB_SRC", "/repo/src")
HERE = os.path.dirname(os.path.abspath(__file__))
GEN = os.path.join(HERE, "..", "coq", "gen")
BLESSED = os.path.join(HERE, "blessed.json")


class ShapeError(Exception):
    pass


# ---------------------------------------------------------------------------
# source access


class Module:
    def __init__(self, rel):
        self.rel = rel
        self.path = os.path.join(SRC, "nxslib", rel)
        with open(self.path, encoding="utf-8") as f:
            self.text = f.read()
        self.tree = ast.parse(self.text)

    def klass(self, name):
        for n in self.tree.body:
            if isinstance(n, ast.ClassDef) and n.name == name:
                return n
        raise ShapeError("%s: class %s not found" % (self.rel, name))

    def func(self, qual):
        parts = qual.split(".")
        body = self.tree.body
        node = None
        for p in parts:
            node = None
            for n in body:
                if isinstance(n, (ast.ClassDef, ast.FunctionDef)) and n.name == p:
                    node = n
                    break
            if node is None:
                raise ShapeError("%s: %s not found" % (self.rel, qual))
            body = node.body
        if not isinstance(node, ast.FunctionDef):
            raise ShapeError("%s: %s is not a function" % (self.rel, qual))
        return node

    def enum(self, name):
        """NAME = <int expr> members of an Enum class, evaluated structurally."""
        out = []
        env = {}
        for n in self.klass(name).body:
            if isinstance(n, ast.Expr) and isinstance(n.value, ast.Constant):
                continue
            if isinstance(n, ast.Assign) and len(n.targets) == 1 and isinstance(
                    n.targets[0], ast.Name):
                v = _int_expr(n.value, env)
                env[n.targets[0].id] = v
                out.append((n.targets[0].id, v))
                continue
            if isinstance(n, ast.FunctionDef):
                continue
            raise ShapeError("%s: enum %s: unexpected statement %s" % (
                self.rel, name, ast.dump(n)[:80]))
        return out


def _int_expr(e, env):
    if isinstance(e, ast.Constant) and isinstance(e.value, int) and not isinstance(e.value, bool):
        return e.value
    if isinstance(e, ast.Name) and e.id in env:
        return env[e.id]
    if isinstance(e, ast.BinOp):
        a, b = _int_expr(e.left, env), _int_expr(e.right, env)
        if isinstance(e.op, ast.LShift):
            return a << b
        if isinstance(e.op, ast.Add):
            return a + b
        if isinstance(e.op, ast.BitOr):
            return a | b
    raise ShapeError("integer expression not recognised: %s" % ast.dump(e)[:80])


# ---------------------------------------------------------------------------
# skeletons


class _Normalise(ast.NodeTransformer):
    """Drop what cannot change behaviour; number every literal."""

    def __init__(self):
        self.consts = []

    def visit_FunctionDef(self, node):
        body = node.body
        if body and isinstance(body[0], ast.Expr) and isinstance(
                body[0].value, ast.Constant) and isinstance(body[0].value.value, str):
            body = body[1:]
        node.body = body
        node.returns = None
        node.decorator_list = []
        for a in node.args.args + node.args.kwonlyargs + node.args.posonlyargs:
            a.annotation = None
        if node.args.vararg:
            node.args.vararg.annotation = None
        if node.args.kwarg:
            node.args.kwarg.annotation = None
        self.generic_visit(node)
        node.body = node.body or [ast.Pass()]
        return node

    def visit_Expr(self, node):
        v = node.value
        if isinstance(v, ast.Call) and isinstance(v.func, ast.Attribute) and isinstance(
                v.func.value, ast.Name) and v.func.value.id == "logger":
            return None
        self.generic_visit(node)
        return node

    def visit_AnnAssign(self, node):
        if node.value is None:
            return None
        new = ast.copy_location(ast.Assign(targets=[node.target], value=node.value), node)
        self.generic_visit(new)
        return new

    def visit_JoinedStr(self, node):
        """f-string -> FSTR(part, part, ...) with literal parts numbered like any literal."""
        parts = []
        for v in node.values:
            if isinstance(v, ast.Constant):
                parts.append(self.visit_Constant(v))
            elif isinstance(v, ast.FormattedValue):
                if v.format_spec is not None or v.conversion != -1:
                    raise ShapeError("f-string with format spec / conversion")
                parts.append(self.visit(v.value))
            else:
                raise ShapeError("unexpected f-string part")
        return ast.copy_location(
            ast.Call(func=ast.Name(id="FSTR", ctx=ast.Load()), args=parts, keywords=[]), node)

    def visit_Constant(self, node):
        if node.value is None or isinstance(node.value, bool):
            return node
        self.consts.append(node.value)
        return ast.copy_location(ast.Name(id="HOLE%d" % (len(self.consts) - 1), ctx=ast.Load()), node)

    def _strip_empty(self, node):
        self.generic_visit(node)
        for fld in ("body", "orelse", "finalbody"):
            b = getattr(node, fld, None)
            if b is not None and fld == "body" and not b:
                setattr(node, fld, [ast.Pass()])
        return node

    visit_If = visit_While = visit_For = visit_With = visit_Try = _strip_empty


def _alpha(tree):
    """Rename the function's local variables (parameters other than self, assigned names, loop /
    comprehension / handler targets) to _v0, _v1, ... in order of first occurrence, so that a
    renamed local does not count as a change of shape."""
    local = set()
    fn = tree
    for a in fn.args.args + fn.args.kwonlyargs + fn.args.posonlyargs:
        if a.arg != "self":
            local.add(a.arg)
    for x in (fn.args.vararg, fn.args.kwarg):
        if x is not None:
            local.add(x.arg)
    for n in ast.walk(fn):
        if isinstance(n, ast.Name) and isinstance(n.ctx, (ast.Store, ast.Del)):
            local.add(n.id)
        elif isinstance(n, ast.ExceptHandler) and n.name:
            local.add(n.name)
    order = {}

    def name(x):
        if x not in order:
            order[x] = "_v%d" % len(order)
        return order[x]

    class R(ast.NodeTransformer):
        def visit_arg(self, node):
            if node.arg in local:
                node.arg = name(node.arg)
            return node

        def visit_Name(self, node):
            if node.id in local:
                node.id = name(node.id)
            return node

        def visit_ExceptHandler(self, node):
            self.generic_visit(node)
            if node.name in local:
                node.name = name(node.name)
            return node

        def visit_keyword(self, node):
            self.generic_visit(node)
            return node

    return R().visit(tree)


def skeleton(fn):
    import copy
    n = _Normalise()
    tree = n.visit(copy.deepcopy(fn))
    if isinstance(tree, (ast.FunctionDef, ast.AsyncFunctionDef)):
        tree = _alpha(tree)
    ast.fix_missing_locations(tree)
    text = ast.unparse(tree)
    return text, n.consts


# (module, qualified function) -> {hole index: constant name}; holes not
# listed are not model constants (they are still part of the emitted vector
# `<fn>_consts`, which the shape lemma pins).
MODELLED = {
    ("proto/serialframe.py", "SerialFrame.__init__"): {0: "crc_name"},
    ("proto/serialframe.py", "SerialFrame.hdr_len"): {},
    ("proto/serialframe.py", "SerialFrame.foot_len"): {},
    ("proto/serialframe.py", "SerialFrame.hdr_find"): {},
    ("proto/serialframe.py", "SerialFrame.hdr_decode"): {0: "hdr_decode_fmt"},
    ("proto/serialframe.py", "SerialFrame.foot_validate"): {0: "crc_residue"},
    ("proto/serialframe.py", "SerialFrame.frame_decode"): {0: "decode_foot_off"},
    ("proto/serialframe.py", "SerialFrame.frame_create"): {
        0: "create_fid_max", 1: "create_len_base", 2: "create_hdr_fmt",
        3: "create_foot_fmt"},
    ("proto/parserecv.py", "ParseRecv.recv_handle"): {},
    ("proto/parserecv.py", "ParseRecv._recv_cb_handle"): {},
    ("proto/parserecv.py", "ParseRecv._recv_cb_cmninfo"): {0: "cb_cmninfo_len"},
    ("proto/parserecv.py", "ParseRecv._recv_cb_chinfo"): {0: "cb_chinfo_len"},
    ("proto/parserecv.py", "ParseRecv._recv_cb_enable"): {0: "cb_enable_nlen"},
    ("proto/parserecv.py", "ParseRecv._recv_cb_div"): {0: "cb_div_nlen"},
    ("proto/parserecv.py", "ParseRecv._recv_cb_start"): {0: "cb_start_len"},
    ("proto/parse.py", "Parser._frame_set_data"): {1: "set_data_fmt"},
    ("proto/parse.py", "Parser._frame_set_single"): {},
    ("proto/parse.py", "Parser._frame_set_bulk"): {},
    ("proto/parse.py", "Parser._frame_set_all"): {},
    ("proto/parse.py", "Parser.frame_start"): {0: "start_fmt"},
    ("proto/parse.py", "Parser.frame_cmninfo"): {},
    ("proto/parse.py", "Parser.frame_chinfo"): {0: "chinfo_fmt"},
    ("proto/parse.py", "Parser.frame_enable"): {5: "enable_true_byte", 6: "enable_false_byte"},
    ("proto/parse.py", "Parser.frame_div"): {},
    ("proto/parserecv.py", "ParseRecv.frame_start_decode"): {0: "start_decode_fmt"},
    ("proto/parserecv.py", "ParseRecv.frame_set_decode"): {0: "set_decode_fmt"},
    ("proto/parserecv.py", "ParseRecv.frame_enable_decode"): {
        1: "en_bulk_code", 4: "en_single_fmt", 8: "en_all_fmt"},
    ("proto/parserecv.py", "ParseRecv.frame_div_decode"): {
        1: "div_bulk_code", 4: "div_single_fmt", 8: "div_all_fmt"},
    ("proto/parserecv.py", "ParseRecv._cmninfo_data_encode"): {1: "cmninfo_fmt"},
    ("proto/parserecv.py", "ParseRecv._chinfo_data_encode"): {
        1: "name_codec", 2: "chinfo_enc_prefix", 3: "chinfo_enc_suffix"},
    ("proto/parserecv.py", "ParseRecv.frame_cmninfo_encode"): {},
    ("proto/parserecv.py", "ParseRecv.frame_chinfo_encode"): {},
    ("proto/parserecv.py", "ParseRecv.frame_ack_encode"): {0: "ack_fmt"},
    ("proto/parse.py", "Parser.frame_cmninfo_decode"): {0: "cmninfo_dec_len", 1: "cmninfo_dec_fmt"},
    ("proto/parse.py", "Parser.frame_chinfo_decode"): {
        0: "chinfo_dec_hdr", 1: "chinfo_dec_prefix", 2: "chinfo_dec_suffix"},
    ("proto/parse.py", "Parser.frame_ack_decode"): {0: "ack_dec_fmt"},
    ("proto/parse.py", "Parser.frame_is_ack"): {},
    ("proto/parse.py", "Parser.frame_is_stream"): {},
    ("proto/iparse.py", "msfmt_get"): {10: "msfmt_default_suffix"},
    ("proto/iparse.py", "dsfmt_get"): {},
    ("proto/parse.py", "Parser._stream_data_get"): {0: "decode_unit_scale", 3: "decode_text_errors"},
    ("proto/parse.py", "Parser.frame_stream_decode"): {3: "stream_le_prefix", 4: "meta_le_prefix"},
    ("proto/parserecv.py", "ParseRecv._stream_bytes_get"): {
        0: "enc_le_prefix", 1: "enc_chan_code", 2: "enc_unit_scale", 4: "enc_text_codec"},
    ("proto/parserecv.py", "ParseRecv._stream_data_encode"): {2: "enc_flags_fmt"},
    ("proto/parserecv.py", "ParseRecv.frame_stream_encode"): {},
    ("comm.py", "CommHandler._read_hdr"): {},
    ("comm.py", "CommHandler._read_frame"): {},
    ("comm.py", "CommHandler._recv_thread"): {},
    ("comm.py", "CommHandler._nxslib_channels_enable"): {},
    ("comm.py", "CommHandler._nxslib_channels_div"): {},
    ("comm.py", "CommHandler._channel_enable"): {},
    ("comm.py", "CommHandler._channel_div"): {},
    ("comm.py", "CommHandler._get_ack"): {},
    ("comm.py", "CommHandler.channels_write"): {},
    ("comm.py", "CommHandler.ch_enable"): {},
    ("comm.py", "CommHandler.ch_disable"): {},
    ("comm.py", "CommHandler.ch_divider"): {},
    ("comm.py", "CommHandler.ch_enable_all"): {},
    ("comm.py", "CommHandler.ch_disable_all"): {},
    ("comm.py", "CommHandler.ch_is_enabled"): {},
    ("comm.py", "CommHandler.ch_div_get"): {},
    ("comm.py", "CommHandler.channels_default_cfg"): {},
    ("comm.py", "CommHandler._ch_divider_default"): {},
    ("comm.py", "CommHandler._channels_init"): {},
    ("comm.py", "CommHandler._devinfo_get"): {2: "chinfo_retries"},
    ("comm.py", "CommHandler._start"): {0: "connect_timeout"},
    ("comm.py", "CommHandler._stop"): {},
    ("comm.py", "CommHandler._drop_all_frames"): {},
    ("comm.py", "CommHandler._drop_all"): {},
    ("comm.py", "CommHandler._get_frame"): {},
    ("comm.py", "CommHandler._get_stream_frame"): {},
    ("comm.py", "CommHandler._nxslib_cmninfo"): {},
    ("comm.py", "CommHandler._nxslib_chinfo"): {},
    ("comm.py", "CommHandler.connect"): {},
    ("comm.py", "CommHandler.disconnect"): {},
    ("comm.py", "CommHandler.stream_start"): {},
    ("comm.py", "CommHandler.stream_stop"): {},
    ("comm.py", "CommHandler.stream_data"): {},
    ("nxscope.py", "NxscopeHandler.__init__"): {},
    ("nxscope.py", "NxscopeHandler.connect"): {},
    ("nxscope.py", "NxscopeHandler.disconnect"): {},
    ("nxscope.py", "NxscopeHandler.stream_start"): {},
    ("nxscope.py", "NxscopeHandler.stream_stop"): {},
    ("nxscope.py", "NxscopeHandler._stream_thread"): {},
    ("nxscope.py", "NxscopeHandler._stream_start"): {},
    ("nxscope.py", "NxscopeHandler._stream_stop"): {},
    ("nxscope.py", "NxscopeHandler.stream_sub"): {},
    ("nxscope.py", "NxscopeHandler.stream_unsub"): {},
    ("nxscope.py", "NxscopeHandler.channels_write"): {},
    ("nxscope.py", "NxscopeHandler.ch_enable"): {},
    ("nxscope.py", "NxscopeHandler.ch_disable"): {},
    ("nxscope.py", "NxscopeHandler.ch_disable_all"): {},
    ("nxscope.py", "NxscopeHandler.ch_divider"): {},
    ("nxscope.py", "NxscopeHandler.channels_default_cfg"): {},
    ("nxscope.py", "NxscopeHandler.dev_channel_get"): {},
    ("intf/dummy.py", "ChannelFunc0.reset"): {},
    ("intf/dummy.py", "ChannelFunc0.get"): {},
    ("intf/dummy.py", "ChannelFunc1.reset"): {},
    ("intf/dummy.py", "ChannelFunc1.get"): {},
    ("intf/dummy.py", "ChannelFunc2.reset"): {},
    ("intf/dummy.py", "ChannelFunc2.get"): {},
    ("intf/dummy.py", "ChannelFunc3.reset"): {},
    ("intf/dummy.py", "ChannelFunc3.get"): {},
    ("intf/dummy.py", "ChannelFunc4.reset"): {},
    ("intf/dummy.py", "ChannelFunc4.get"): {},
    ("intf/dummy.py", "ChannelFunc5.reset"): {},
    ("intf/dummy.py", "ChannelFunc5.get"): {},
    ("intf/dummy.py", "ChannelFunc6.reset"): {},
    ("intf/dummy.py", "ChannelFunc6.get"): {},
    ("intf/dummy.py", "ChannelFunc7.reset"): {},
    ("intf/dummy.py", "ChannelFunc7.get"): {},
    ("intf/dummy.py", "ChannelFunc8.reset"): {},
    ("intf/dummy.py", "ChannelFunc8.get"): {},
    ("intf/dummy.py", "ChannelFunc9.reset"): {},
    ("intf/dummy.py", "ChannelFunc9.get"): {},
    ("intf/dummy.py", "DummyDev.__init__"): {},
    ("intf/dummy.py", "DummyDev.start"): {},
    ("intf/dummy.py", "DummyDev.stop"): {},
    ("intf/dummy.py", "DummyDev._cmninfo_cb"): {},
    ("intf/dummy.py", "DummyDev._chinfo_cb"): {},
    ("intf/dummy.py", "DummyDev._enable_cb"): {},
    ("intf/dummy.py", "DummyDev._div_cb"): {},
    ("intf/dummy.py", "DummyDev._start_cb"): {},
    ("intf/dummy.py", "DummyDev._stream_data_get"): {},
    ("intf/dummy.py", "DummyDev._thread_stream"): {},
    ("intf/dummy.py", "DummyDev._thread_recv"): {},
    ("intf/dummy.py", "DummyDev._read"): {},
    ("intf/dummy.py", "DummyDev._write"): {},
    ("dev.py", "DeviceChannel.__init__"): {},
    ("dev.py", "DeviceChannel.reset"): {},
    ("dev.py", "DeviceChannel.data_get"): {},
    ("dev.py", "Device.__init__"): {},
    ("dev.py", "Device.reset"): {},
    ("dev.py", "Device.channel_get"): {},
    ("dev.py", "Device.en_channels_update"): {},
    ("dev.py", "Device.div_channels_update"): {},
    ("intf/serial.py", "SerialDevice.__init__"): {},
    ("intf/serial.py", "SerialDevice._read"): {},
    ("intf/serial.py", "SerialDevice._write"): {},
    ("intf/serial.py", "SerialDevice.drop_all"): {},
    ("intf/serial.py", "SerialDevice.start"): {},
    ("intf/serial.py", "SerialDevice.stop"): {},
    ("thread.py", "ThreadCommon.__init__"): {},
    ("thread.py", "ThreadCommon._stop_is_set"): {},
    ("thread.py", "ThreadCommon._thread_loop"): {},
    ("thread.py", "ThreadCommon._stop_clear"): {},
    ("thread.py", "ThreadCommon.stop_set"): {},
    ("thread.py", "ThreadCommon.thread_is_alive"): {},
    ("thread.py", "ThreadCommon.thread_stop"): {},
    ("thread.py", "ThreadCommon.thread_start"): {},
    ("intf/iintf.py", "CommInterfaceCommon.data_align"): {0: "align_pad_byte"},
    ("intf/iintf.py", "CommInterfaceCommon.write"): {},
    ("intf/iintf.py", "CommInterfaceCommon.read"): {},
    ("dev.py", "DDeviceChannelData.__post_init__"): {
        0: "mask_dtype", 1: "mask_critical", 2: "mask_res"},
    ("dev.py", "DDeviceChannelData.__setattr__"): {0: "chan_rw_a", 1: "chan_rw_b"},
    ("dev.py", "DDeviceData.__post_init__"): {},
    ("dev.py", "DDeviceData.__setattr__"): {},
}

# which properties' models depend on which functions (for drift escalation)
DEPENDS = {
    "C01": ["SerialFrame."],
    "C02": ["SerialFrame.", "ParseRecv.recv_handle", "ParseRecv._recv_cb"],
    "C13": ["ThreadCommon."],
    "C20": ["CommHandler._read_hdr", "CommHandler._read_frame", "ParseRecv.recv_handle", "Parser._frame_set",
            "Parser.frame_", "ParseRecv.frame_"],
    "C18": ["SerialDevice.", "CommInterfaceCommon."],
    "C12": ["CommHandler._nxslib_channels", "CommHandler.ch_", "CommHandler._channels_init", "CommHandler.channels_",
            "CommHandler._get_ack", "NxscopeHandler._stream_thread", "NxscopeHandler.stream_sub", "NxscopeHandler.stream_unsub",
            "Device.en_channels_update", "Device.div_channels_update", "Device.channel_get"],
    "C16": ["DummyDev.__init__", "DummyDev.start", "DummyDev.stop", "DeviceChannel.", "Device.reset", "Device.__init__",
            "ChannelFunc"],
    "C14": ["DummyDev.", "ParseRecv.", "DeviceChannel.data_get", "Device.channel_get"],
    "C10": ["CommHandler._devinfo_get", "CommHandler._start", "CommHandler._stop", "CommHandler._drop_all",
            "CommHandler._get_frame", "CommHandler._nxslib_c", "CommHandler.connect", "CommHandler.disconnect",
            "CommHandler._read_hdr", "CommHandler._read_frame", "CommHandler._recv_thread", "ThreadCommon."],
    "C09": ["NxscopeHandler.", "CommHandler._start", "CommHandler._stop", "CommHandler.connect", "CommHandler.disconnect",
            "CommHandler.stream_", "CommHandler._devinfo_get", "ThreadCommon."],
    "C03": ["CommHandler._read_hdr", "CommHandler._read_frame", "CommHandler._recv_thread", "SerialFrame."],
    "C07": ["CommHandler._nxslib_channels", "CommHandler._channel_", "CommHandler._get_ack", "CommHandler.channels_",
            "CommHandler.ch_", "CommHandler._ch_divider_default", "CommHandler._channels_init"],
    "C11": ["CommHandler._nxslib_channels", "CommHandler._channel_", "CommHandler._get_ack", "CommHandler.channels_write",
            "Parser.frame_ack_decode"],
    "C04": ["Parser.frame_stream_decode", "Parser._stream_data_get", "msfmt_get", "dsfmt_get"],
    "C15": ["ParseRecv._stream", "ParseRecv.frame_stream_encode", "Parser.frame_stream_decode", "Parser._stream_data_get",
            "msfmt_get", "dsfmt_get", "SerialFrame."],
    "C05": ["Parser.", "ParseRecv.frame_", "ParseRecv.recv_handle", "ParseRecv._recv_cb", "SerialFrame."],
    "C06": ["ParseRecv._cmninfo", "ParseRecv._chinfo", "ParseRecv.frame_cmninfo_encode", "ParseRecv.frame_chinfo_encode",
            "ParseRecv.frame_ack_encode", "Parser.frame_cmninfo_decode", "Parser.frame_chinfo_decode",
            "Parser.frame_ack_decode", "SerialFrame.", "DDeviceChannelData.", "DDeviceData."],
    "C17": ["CommInterfaceCommon.", "ParseRecv.recv_handle", "SerialFrame."],
    "C19": ["DDeviceChannelData.", "DDeviceData."],
}


def coq_string(s):
    return '"' + s.replace('"', '""') + '"%string'


def coq_const(name, v):
    if isinstance(v, bool):
        return "Definition %s : bool := %s." % (name, "true" if v else "false")
    if isinstance(v, int):
        return "Definition %s : Z := (%d)%%Z." % (name, v)
    if isinstance(v, float):
        if v != int(v):
            raise ShapeError("non-integral float constant %r for %s" % (v, name))
        return ("Definition %s : Z := (%d)%%Z. (* Python float literal %r *)\n"
                "Definition %s_is_float : bool := true." % (name, int(v), v, name))
    if isinstance(v, str):
        return "Definition %s : string := %s." % (name, coq_string(v))
    if isinstance(v, bytes):
        return "Definition %s : list N := [%s]%%N." % (name, "; ".join(str(b) for b in v))
    raise ShapeError("constant of unsupported type for %s: %r" % (name, v))


def json_safe(v):
    if isinstance(v, bytes):
        return {"bytes": list(v)}
    return v


def json_unsafe(v):
    if isinstance(v, dict) and "bytes" in v:
        return bytes(v["bytes"])
    return v


def crc_definition(name):
    import crcmod.predefined as pre
    for d in pre._crc_definitions:
        if d["name"] == name or d["identifier"] == name:
            poly = d["poly"]
            width = poly.bit_length() - 1
            return dict(width=width, poly=poly & ((1 << width) - 1), init=d["init"],
                        rev=bool(d["reverse"]), xorout=d["xor_out"], check=d["check"])
    raise ShapeError("CRC algorithm %r is not a crcmod predefined algorithm" % name)


# ---------------------------------------------------------------------------


def run(bless=False):
    mods = {}
    status = {"functions": {}, "errors": [], "drift": []}
    blessed = {}
    if os.path.exists(BLESSED):
        with open(BLESSED) as f:
            blessed = json.load(f)
    new_blessed = {}
    consts = {}       # name -> value
    vectors = {}      # fn key -> list of constants

    for (rel, qual), names in MODELLED.items():
        key = rel + "::" + qual
        try:
            m = mods.get(rel) or Module(rel)
            mods[rel] = m
            text, cs = skeleton(m.func(qual))
        except (ShapeError, SyntaxError, OSError) as e:
            status["errors"].append("%s: %s" % (key, e))
            text, cs = None, None
        h = hashlib.sha256(text.encode()).hexdigest()[:16] if text is not None else None
        if bless:
            if text is None:
                raise SystemExit("cannot bless: " + status["errors"][-1])
            new_blessed[key] = {"hash": h, "skeleton": text,
                                "consts": [json_safe(c) for c in cs]}
            b = new_blessed[key]
        else:
            b = blessed.get(key)
            if b is None:
                status["errors"].append("%s: not blessed" % key)
                continue
        if h is not None and h == b["hash"]:
            status["functions"][key] = "ok"
            use = cs
        else:
            status["functions"][key] = "drift"
            status["drift"].append(key)
            use = [json_unsafe(c) for c in b["consts"]]
        vectors[key] = use
        for idx, nm in names.items():
            if idx >= len(use):
                status["errors"].append("%s: hole %d missing" % (key, idx))
                continue
            consts[nm] = use[idx]

    if bless:
        with open(BLESSED, "w") as f:
            json.dump(new_blessed, f, indent=1, sort_keys=True)

    files = {}
    files.update(emit_shapes(vectors))
    try:
        files.update(emit_types(mods, consts, status))
    except ShapeError as e:
        status["errors"].append(str(e))
    if bless:
        write_pinned(vectors)
    try:
        files.update(emit_frame(mods, consts, status))
        files.update(emit_misc(mods, consts, status))
    except ShapeError as e:
        status["errors"].append(str(e))

    os.makedirs(GEN, exist_ok=True)
    for name, text in files.items():
        path = os.path.join(GEN, name)
        old = None
        if os.path.exists(path):
            with open(path) as f:
                old = f.read()
        if old != text:
            with open(path, "w") as f:
                f.write(text)
    status["depends"] = DEPENDS
    # PyLite: the abstract syntax of the protocol / record modules, regenerated in full
    try:
        import pylite
        pst = pylite.run(GEN, quiet=True)
        status["pylite"] = pst
        for k, v in sorted(pst.items()):
            if not v.startswith("ok"):
                status["errors"].append("pylite %s: %s" % (k, v))
    except Exception as e:  # noqa: BLE001
        status["errors"].append("pylite translator failed: %s: %s" % (type(e).__name__, e))
    with open(os.path.join(GEN, "status.json"), "w") as f:
        json.dump(status, f, indent=1, sort_keys=True)
    return status


HEADER = ("(* GENERATED by tools/extract.py from %s -- do not edit. *)\n"
          "From Coq Require Import String ZArith NArith List.\n"
          "Import ListNotations.\nOpen Scope Z_scope.\n\n")


def modtag(rel):
    return os.path.basename(rel)[:-3]


def fn_ident(key):
    rel, qual = key.split("::")
    return "c_%s_%s" % (modtag(rel), qual.replace(".", "_").replace("__", "U"))


def coq_pyc(v):
    if isinstance(v, bool):
        raise ShapeError("bool literal in constant vector")
    if isinstance(v, int):
        return "KI (%d)" % v
    if isinstance(v, float):
        return "KF %s" % coq_string(repr(v))
    if isinstance(v, str):
        return "KS %s" % coq_string(v)
    if isinstance(v, bytes):
        return "KB [%s]%%N" % "; ".join(str(b) for b in v)
    raise ShapeError("literal of unsupported type: %r" % (v,))


def shapes_text(vectors, lemma):
    """One file per source module: constant vectors (lemma=False) or their pins."""
    by = {}
    for key, vec in sorted(vectors.items()):
        by.setdefault(modtag(key.split("::")[0]), []).append((key, vec))
    out = {}
    for tag, items in by.items():
        if lemma:
            lines = ["(* GENERATED by tools/extract.py --bless: the literals of every modelled function as they",
                     "   were when the model was last reviewed (tools/blessed.json). *)",
                     "From Coq Require Import String ZArith NArith List.",
                     "From NX Require Import PyConst Gen_shapes_%s." % tag,
                     "Import ListNotations.\nOpen Scope Z_scope.\n"]
            for key, vec in items:
                lines.append("Lemma pin_%s : %s = [%s].\nProof. reflexivity. Qed." % (
                    fn_ident(key)[2:], fn_ident(key), "; ".join(coq_pyc(v) for v in vec)))
            out["Pinned_%s.v" % tag] = "\n".join(lines) + "\n"
        else:
            lines = [HEADER % ("src/nxslib/**/%s.py (all literals of the modelled functions, in source order)" % tag),
                     "From NX Require Import PyConst.\n"]
            for key, vec in items:
                lines.append("Definition %s : list pyc := [%s]." % (
                    fn_ident(key), "; ".join(coq_pyc(v) for v in vec)))
            out["Gen_shapes_%s.v" % tag] = "\n".join(lines) + "\n"
    return out


def emit_shapes(vectors):
    return shapes_text(vectors, lemma=False)


def write_pinned(vectors):
    d = os.path.join(HERE, "..", "coq", "proofs")
    for name, text in shapes_text(vectors, lemma=True).items():
        with open(os.path.join(d, name), "w") as f:
            f.write(text)


def emit_frame(mods, c, status):
    m = mods.get("proto/serialframe.py") or Module("proto/serialframe.py")
    mi = mods.get("proto/iframe.py") or Module("proto/iframe.py")
    hdr = dict(m.enum("ESerialFrameHdr"))
    for k in ("SOF", "END", "FOOT"):
        if k not in hdr:
            raise ShapeError("ESerialFrameHdr.%s missing" % k)
    ids = mi.enum("EParseId")
    errs = mi.enum("EParseError")
    crc = crc_definition(c["crc_name"])
    if crc["width"] != 16:
        raise ShapeError("CRC %s is not 16 bits wide" % c["crc_name"])
    out = [HEADER % "src/nxslib/proto/serialframe.py, iframe.py"]
    out.append("Definition sof : Z := %d." % hdr["SOF"])
    out.append("Definition hdr_end : Z := %d." % hdr["END"])
    out.append("Definition foot : Z := %d." % hdr["FOOT"])
    out.append("Definition parse_ids : list (string * Z) := [%s]." % "; ".join(
        "(%s, %d)" % (coq_string(n), v) for n, v in ids))
    out.append("Definition parse_errors : list (string * Z) := [%s]." % "; ".join(
        "(%s, %d)" % (coq_string(n), v) for n, v in errs))
    out.append("Definition crc_name : string := %s." % coq_string(c["crc_name"]))
    out.append("Definition crc_poly : N := %d%%N." % crc["poly"])
    out.append("Definition crc_init : N := %d%%N." % crc["init"])
    out.append("Definition crc_rev : bool := %s." % ("true" if crc["rev"] else "false"))
    out.append("Definition crc_xorout : N := %d%%N." % crc["xorout"])
    for nm in ("hdr_decode_fmt", "crc_residue", "decode_foot_off", "create_fid_max",
               "create_len_base", "create_hdr_fmt", "create_foot_fmt", "cb_cmninfo_len",
               "cb_chinfo_len", "cb_enable_nlen", "cb_div_nlen", "cb_start_len"):
        out.append(coq_const(nm, c[nm]))
    req = [HEADER % "src/nxslib/proto/parse.py, parserecv.py, iparse.py (request codecs)"]
    mp = mods.get("proto/iparse.py") or Module("proto/iparse.py")
    req.append("Definition set_flags : list (string * Z) := [%s]." % "; ".join(
        "(%s, %d)" % (coq_string(n), v) for n, v in mp.enum("EParseIdSetFlags")))
    req.append("Definition stream_flags : list (string * Z) := [%s]." % "; ".join(
        "(%s, %d)" % (coq_string(n), v) for n, v in mp.enum("EParseStreamFlags")))
    for nm in ("set_data_fmt", "start_fmt", "chinfo_fmt", "enable_true_byte", "enable_false_byte",
               "start_decode_fmt", "set_decode_fmt", "en_bulk_code", "en_single_fmt", "en_all_fmt",
               "div_bulk_code", "div_single_fmt", "div_all_fmt", "cmninfo_fmt", "name_codec",
               "chinfo_enc_prefix", "chinfo_enc_suffix", "ack_fmt", "cmninfo_dec_len", "cmninfo_dec_fmt",
               "chinfo_dec_hdr", "chinfo_dec_prefix", "chinfo_dec_suffix", "ack_dec_fmt"):
        req.append(coq_const(nm, c[nm]))
    return {"Gen_frame.v": "\n".join(out) + "\n", "Gen_req.v": "\n".join(req) + "\n"}


def emit_types(mods, c, status):
    """dsfmt_dict rows and msfmt_dict of proto/iparse.py, read structurally."""
    mp = mods.get("proto/iparse.py") or Module("proto/iparse.py")
    md = mods.get("dev.py") or Module("dev.py")
    types = dict(md.enum("EDeviceChannelType"))
    kinds = dict(mp.enum("EParseDataType"))
    fn = mp.func("dsfmt_get")
    table = None
    for n in ast.walk(fn):
        if isinstance(n, ast.Assign) and len(n.targets) == 1 and isinstance(n.targets[0], ast.Name) \
                and n.targets[0].id == "dsfmt_dict" and isinstance(n.value, ast.Dict):
            table = n.value
    if table is None:
        raise ShapeError("iparse.py: dsfmt_dict not found")
    rows = []
    for k, v in zip(table.keys, table.values):
        if not (isinstance(k, ast.Attribute) and k.attr == "value" and isinstance(k.value, ast.Attribute)
                and isinstance(k.value.value, ast.Name) and k.value.value.id == "EDeviceChannelType"):
            raise ShapeError("dsfmt_dict key not recognised: %s" % ast.dump(k)[:60])
        tval = types[k.value.attr]
        if not (isinstance(v, ast.Call) and isinstance(v.func, ast.Name) and v.func.id == "DsfmtItem"
                and len(v.args) == 4 and not v.keywords):
            raise ShapeError("dsfmt_dict row for %s not recognised" % k.value.attr)
        slen, fmt, scale, kind = v.args
        if not (isinstance(slen, ast.Constant) and isinstance(slen.value, int)):
            raise ShapeError("slen not a literal")
        if not (isinstance(fmt, ast.Constant) and isinstance(fmt.value, str)):
            raise ShapeError("dsfmt not a literal")
        if not isinstance(scale, ast.Constant):
            raise ShapeError("scale not a literal")
        sv = scale.value
        if sv is None:
            sc = "SNone"
        elif isinstance(sv, bool):
            raise ShapeError("bool scale")
        elif isinstance(sv, int):
            sc = "SInt (%d)" % sv
        elif isinstance(sv, float) and sv == int(sv):
            sc = "SFloat (%d)" % int(sv)
        else:
            raise ShapeError("scale %r not supported" % (sv,))
        if not (isinstance(kind, ast.Attribute) and isinstance(kind.value, ast.Name)
                and kind.value.id == "EParseDataType"):
            raise ShapeError("row kind not recognised")
        rows.append("(%d, mkRow %d %s (%s) %d)" % (tval, slen.value, coq_string(fmt.value), sc, kinds[kind.attr]))
    # msfmt_get
    fm = mp.func("msfmt_get")
    mtab = None
    for n in ast.walk(fm):
        if isinstance(n, ast.Assign) and isinstance(n.value, ast.Dict):
            mtab = n.value
    if mtab is None:
        raise ShapeError("iparse.py: msfmt_dict not found")
    mrows = []
    for k, v in zip(mtab.keys, mtab.values):
        if not (isinstance(k, ast.Constant) and isinstance(k.value, int) and isinstance(v, ast.Constant)
                and isinstance(v.value, str)):
            raise ShapeError("msfmt_dict entry not recognised")
        mrows.append("(%d, %s)" % (k.value, coq_string(v.value)))
    out = [HEADER % "src/nxslib/proto/iparse.py (dsfmt_dict, msfmt_dict), dev.py"]
    out.append("From NX Require Import StreamTypes.\n")
    out.append("Definition data_kinds : list (string * Z) := [%s]." % "; ".join(
        "(%s, %d)" % (coq_string(n), v) for n, v in kinds.items()))
    out.append("Definition dsfmt_rows : list (Z * row) :=\n  [%s]." % ";\n   ".join(rows))
    out.append("Definition msfmt_rows : list (Z * string) := [%s]." % "; ".join(mrows))
    for nm in ("msfmt_default_suffix", "stream_le_prefix", "meta_le_prefix", "decode_unit_scale", "decode_text_errors",
               "enc_le_prefix", "enc_chan_code", "enc_unit_scale", "enc_text_codec", "enc_flags_fmt"):
        if nm in c:
            out.append(coq_const(nm, c[nm]))
    return {"Gen_types.v": "\n".join(out) + "\n"}


LOCK_NAMES = {("comm.py", "_channels_lock"): "channels", ("dev.py", "_channels_lock"): "devinfo",
              ("nxscope.py", "_queue_lock"): "queue"}


def lock_graph(mods):
    """(outer, inner) pairs of locks that are ever held together, and the locks taken on the receive path.
    Calls are resolved by receiver: self.m() -> same class; self.dev / self._dev / dev -> Device;
    self._comm -> CommHandler; anything else (queues, channel objects, user callbacks) takes none of these locks.
    Fail-closed: an unknown `with` target is an error."""
    files = {}
    for rel in ("comm.py", "nxscope.py", "dev.py"):
        files[rel] = mods.get(rel) or Module(rel)
    classes = {}
    for rel, m in files.items():
        for cls in [n for n in m.tree.body if isinstance(n, ast.ClassDef)]:
            classes[cls.name] = (rel, {fn.name: fn for fn in cls.body if isinstance(fn, ast.FunctionDef)})

    def lock_of(rel, item):
        e = item.context_expr
        if isinstance(e, ast.Attribute) and isinstance(e.value, ast.Name) and e.value.id == "self":
            nm = LOCK_NAMES.get((rel, e.attr))
            if nm is None:
                raise ShapeError("%s: unknown lock in `with`: %s" % (rel, e.attr))
            return nm
        raise ShapeError("%s: `with` target not recognised: %s" % (rel, ast.dump(e)[:60]))

    def target_class(cur_cls, recv):
        if isinstance(recv, ast.Name) and recv.id == "self":
            return cur_cls
        if isinstance(recv, ast.Name) and recv.id == "dev":
            return "Device"
        if isinstance(recv, ast.Attribute) and isinstance(recv.value, ast.Name) and recv.value.id == "self":
            if recv.attr in ("dev", "_dev"):
                return "Device"
            if recv.attr == "_comm":
                return "CommHandler"
        return None

    def callees(cur_cls, node):
        """(class, method) pairs referenced by calls / property reads inside node"""
        out = []
        for n in ast.walk(node):
            if isinstance(n, ast.Attribute):
                tc = target_class(cur_cls, n.value)
                if tc and tc in classes and n.attr in classes[tc][1]:
                    out.append((tc, n.attr))
        return out

    memo = {}

    def acquires(cls, name, depth=0):
        key = (cls, name)
        if key in memo:
            return memo[key]
        memo[key] = set()
        rel, fns = classes[cls]
        fn = fns[name]
        out = set()
        for n in ast.walk(fn):
            if isinstance(n, ast.With):
                for it in n.items:
                    out.add(lock_of(rel, it))
        if depth < 8:
            for tc, m in callees(cls, fn):
                if (tc, m) != key:
                    out |= acquires(tc, m, depth + 1)
        memo[key] = out
        return out

    edges = set()
    for cls, (rel, fns) in classes.items():
        for name, fn in fns.items():
            for w in [n for n in ast.walk(fn) if isinstance(n, ast.With)]:
                outer = [lock_of(rel, it) for it in w.items]
                inner = set()
                for stmt in w.body:
                    for n in ast.walk(stmt):
                        if isinstance(n, ast.With):
                            for it in n.items:
                                inner.add(lock_of(rel, it))
                    for tc, m in callees(cls, stmt):
                        inner |= acquires(tc, m)
                for o in outer:
                    for i in inner:
                        edges.add((o, i))
    recv = set()
    for nm in ("_recv_thread", "_read_frame", "_read_hdr"):
        recv |= acquires("CommHandler", nm)
    return sorted(edges), sorted(recv)


PROTECTED = {("comm.py", "CommHandler"): "_channels_lock", ("dev.py", "Device"): "_channels_lock",
             ("nxscope.py", "NxscopeHandler"): "_queue_lock"}


def unguarded_access(mods):
    """"Class.method:field" for every access to a lock-protected field outside a `with self.<lock>` block.
    A field is lock-protected when some method of the class touches it under the lock (methods are not
    protected fields)."""
    out = []
    for (rel, cls), lock in sorted(PROTECTED.items()):
        m = mods.get(rel) or Module(rel)
        c = m.klass(cls)
        methods = {fn.name for fn in c.body if isinstance(fn, ast.FunctionDef)}

        def walk(node, held, acc):
            if isinstance(node, ast.With) and any(
                    isinstance(i.context_expr, ast.Attribute) and i.context_expr.attr == lock for i in node.items):
                for st in node.body:
                    walk(st, True, acc)
                return
            if isinstance(node, ast.Attribute) and isinstance(node.value, ast.Name) and node.value.id == "self":
                acc.append((node.attr, held))
            for ch in ast.iter_child_nodes(node):
                walk(ch, held, acc)

        per = {}
        for fn in c.body:
            if isinstance(fn, ast.FunctionDef):
                acc = []
                walk(fn, False, acc)
                per[fn.name] = acc
        protected = {a for acc in per.values() for a, h in acc if h and a not in methods and a != lock}
        for name, acc in per.items():
            for a in sorted({a for a, h in acc if not h and a in protected}):
                out.append("%s.%s:%s" % (cls, name, a))
    return sorted(out)


def dummy_default_alloc(mods):
    """How DummyDev.__init__ obtains the default channel list: 'true' if every
    instance gets a fresh copy (copy.deepcopy(...) / a factory call), 'false' if
    the module-level list itself is handed out."""
    m = mods.get("intf/dummy.py") or Module("intf/dummy.py")
    fn = m.func("DummyDev.__init__")
    found = None
    for n in ast.walk(fn):
        if isinstance(n, ast.Assign) and len(n.targets) == 1 and isinstance(n.targets[0], ast.Name) \
                and n.targets[0].id == "channels":
            v = n.value
            if isinstance(v, ast.Name):
                found = "false"                       # module-level object shared by all default instances
            elif isinstance(v, ast.Call) and isinstance(v.func, ast.Attribute) and v.func.attr == "deepcopy" \
                    and isinstance(v.func.value, ast.Name) and v.func.value.id == "copy" and len(v.args) == 1 \
                    and isinstance(v.args[0], ast.Name):
                found = "true"
            elif isinstance(v, ast.Call) and isinstance(v.func, ast.Name):
                found = "true"                        # factory function building fresh objects
            else:
                raise ShapeError("dummy.py: default channel list expression not recognised")
    if found is None:
        raise ShapeError("dummy.py: assignment of the default channel list not found")
    return found


def emit_misc(mods, c, status):
    out = [HEADER % "src/nxslib/intf/iintf.py, dev.py, comm.py"]
    out.append(coq_const("align_pad_byte", c["align_pad_byte"]))
    out.append("Definition dummy_default_fresh : bool := %s." % dummy_default_alloc(mods))
    edges, recv = lock_graph(mods)
    out.append("Definition lock_edges : list (string * string) := [%s]." % "; ".join(
        "(%s, %s)" % (coq_string(a), coq_string(b)) for a, b in edges))
    out.append("Definition recv_path_locks : list string := [%s]." % "; ".join(coq_string(x) for x in recv))
    out.append("Definition unguarded_access : list string := [%s]." % "; ".join(
        coq_string(x) for x in unguarded_access(mods)))
    out.append(coq_const("chinfo_retries", c["chinfo_retries"]))
    out.append(coq_const("connect_timeout", c["connect_timeout"]))
    for nm in ("mask_dtype", "mask_critical", "mask_res", "chan_rw_a", "chan_rw_b"):
        out.append(coq_const(nm, c[nm]))
    md = mods.get("dev.py") or Module("dev.py")
    types = md.enum("EDeviceChannelType")
    flags = md.enum("EDeviceFlags")
    out.append("Definition channel_types : list (string * Z) := [%s]." % "; ".join(
        "(%s, %d)" % (coq_string(n), v) for n, v in types))
    out.append("Definition device_flags : list (string * Z) := [%s]." % "; ".join(
        "(%s, %d)" % (coq_string(n), v) for n, v in flags))
    # dataclass field lists (declaration order) of the two description records
    for cls, nm in (("DDeviceChannelData", "chan_fields"), ("DDeviceData", "dev_fields")):
        fields = []
        for n in md.klass(cls).body:
            if isinstance(n, ast.AnnAssign) and isinstance(n.target, ast.Name):
                fields.append(n.target.id)
        out.append("Definition %s : list string := [%s]." % (
            nm, "; ".join(coq_string(f) for f in fields)))
    # non-numerical type list in __post_init__
    pi = md.func("DDeviceChannelData.__post_init__")
    nonnum = None
    for n in ast.walk(pi):
        if isinstance(n, ast.Compare) and len(n.ops) == 1 and isinstance(n.ops[0], ast.NotIn):
            lst = n.comparators[0]
            if isinstance(lst, ast.List):
                nonnum = []
                for e in lst.elts:
                    if (isinstance(e, ast.Attribute) and e.attr == "value" and isinstance(
                            e.value, ast.Attribute) and isinstance(e.value.value, ast.Name)
                            and e.value.value.id == "EDeviceChannelType"):
                        nonnum.append(dict(types)[e.value.attr])
                    else:
                        raise ShapeError("non-numerical list element not recognised")
    if nonnum is None:
        raise ShapeError("dev.py: is_numerical list not found")
    out.append("Definition non_numerical : list Z := [%s]." % "; ".join(map(str, nonnum)))
    return {"Gen_misc.v": "\n".join(out) + "\n"}


if __name__ == "__main__":
    st = run(bless="--bless" in sys.argv)
    if "--quiet" not in sys.argv:
        print(json.dumps({k: st[k] for k in ("errors", "drift")}, indent=1))
    sys.exit(1 if st["errors"] else 0)

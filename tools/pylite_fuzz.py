#!/venv/bin/python
"""Validation of PyLite's semantics against CPython on RANDOM programs of the subset
(independent of nxslib's code): a seeded generator writes a module of small functions and a
class with mutating / raising methods, tools/pylite.py translates it, the interpreter is
extracted together with that program, and every function is run on random arguments under both.

Deliberately NOT generated (documented limits of PyLite): two names for one mutable object,
mutation of a callee's non-receiver argument, a list mutated while it is being iterated (PyLite
iterates over a snapshot), floats other than exact power-of-two scaling.

usage: pylite_fuzz.py [--seed N] [--funcs K] [--inputs M] [--work DIR]
exit 0 = no disagreement; 1 = disagreement (printed)."""
import argparse
import importlib.util
import os
import random
import shutil
import subprocess
import sys

HERE = os.path.dirname(os.path.abspath(__file__))
ROOT = os.path.dirname(HERE)
sys.path.insert(0, HERE)

PRELUDE = '''
import struct
from dataclasses import dataclass
from enum import IntEnum


class Box:
    """a small mutable object: methods that mutate, then may raise"""

    def __init__(self, v):
        self.v = v
        self.log = []

    @property
    def size(self):
        return len(self.log)

    def put(self, x):
        self.log.append(x)
        if x < 0:
            raise ValueError
        self.v += x
        return self.v

    def take(self, i):
        y = self.log[i]
        self.log = self.log[:i] + self.log[i + 1:]
        return y

    def bump(self, k):
        self.v = self.v + k
        assert self.v < 1000
        return self

    def total(self):
        t = 0
        for x in self.log:
            t += x
        return t


class Outer:
    """an object holding another one, reached through a property; exceptions of the inner
    object's methods are caught here after the inner object has already changed"""

    def __init__(self, v):
        self._box = Box(v)
        self.n = 0
        self._lim = 5

    @property
    def box(self):
        return self._box

    @property
    def lim(self):
        return self._lim

    @lim.setter
    def lim(self, v):
        self._lim = v

    def feed(self, xs):
        for x in xs:
            try:
                self.box.put(x)
            except ValueError:
                self.n += 1
            if self.box.size > self.lim:
                break
        return self.box.v


class Shelf:
    """pl14: objects held in lists and mutated through the LOOP VARIABLE (translated to PyLite's for-loop with
    write-back, SForWB): over an attribute path, over an indexed path, with break / return / a raise after
    the mutation, with an attribute store through the variable"""

    def __init__(self, n):
        self.boxes = [Box(i) for i in range(n)]
        self.rows = [[Box(1), Box(2)], [], [Box(3)]]
        self.hits = 0

    def put_all(self, x):
        for bx in self.boxes:
            bx.put(x)
        return len(self.boxes)

    def bump_row(self, i, k):
        for bx in self.rows[i]:
            bx.bump(k)
            if bx.v > 40:
                break
        self.hits += 1
        return i

    def first_big(self, k):
        for bx in self.boxes:
            bx.v += k
            if bx.v > 20:
                return bx.v
        return -1

    def state(self):
        out = []
        for bx in self.boxes:
            out.append([bx.v, bx.log])
        for row in self.rows:
            for bx in row:
                out.append([bx.v, bx.log])
        out.append(self.hits)
        return out


class Kind(IntEnum):
    A = 0
    B = 1
    C = 2


@dataclass
class Rec:
    k: int
    name: str = "x"
    tags: tuple = ()
'''


class Gen:
    def __init__(self, rng):
        self.r = rng
        self.ints = ["a"]
        self.byts = ["b"]
        self.lists = ["c"]
        self.depth = 0

    def pick(self, xs):
        return self.r.choice(xs)

    # ---- expressions, by type
    def int_e(self, d=0):
        r = self.r.random()
        if d > 2 or r < 0.25:
            return self.pick(self.ints + [str(self.r.choice([0, 1, 2, 3, 7, 255, 256, -1, -5, 65535, 1 << 20]))])
        k = self.r.randrange(16)
        x, y = (lambda: self.int_e(d + 1)), (lambda: self.int_e(d + 1))
        if k == 0:
            return "(%s + %s)" % (x(), y())
        if k == 1:
            return "(%s - %s)" % (x(), y())
        if k == 2:
            return "((%s * %s) & 0xFFFFFF)" % (x(), self.pick(["2", "3", "-1", self.pick(self.ints)]))
        if k == 3:
            return "(%s // %s)" % (x(), self.pick(["2", "7", "-3", self.pick(self.ints)]))
        if k == 4:
            return "(%s %% %s)" % (x(), self.pick(["2", "5", "-4", "256", self.pick(self.ints)]))
        if k == 5:
            return "(%s & %s)" % (x(), self.pick(["0xFF", "0x1F", "1", y()]))
        if k == 6:
            return "(%s | %s)" % (x(), y())
        if k == 7:
            return "(%s ^ %s)" % (x(), y())
        if k == 8:
            return "((%s << %s) & 0xFFFFFFFF)" % (x(), self.pick(["1", "3", "8", "(%s & 7)" % self.pick(self.ints),
                                                                    "(%s %% 9)" % self.pick(self.ints)]))
        if k == 9:
            return "(%s >> %s)" % (x(), self.pick(["1", "4", "(%s & 15)" % self.pick(self.ints)]))
        if k == 10:
            return "len(%s)" % self.pick([self.bytes_e(d + 1), self.list_e(d + 1)])
        if k == 11:
            return "%s[%s]" % (self.pick(self.byts + self.lists), self.pick(["0", "-1", "1", x()]))
        if k == 12:
            return "(%s if %s else %s)" % (x(), self.bool_e(d + 1), y())
        if k == 13:
            return "int(%s)" % self.bool_e(d + 1)
        if k == 14:
            return "(-%s)" % x()
        return "struct.unpack(%s, %s)[%s]" % (self.pick(['"<H"', '">H"', '"<BB"', '"<i"', '"b"']),
                                              "%s[%s:%s]" % (self.pick(self.byts), self.pick(["0", "1", ""]),
                                                             self.pick(["2", "4", "3", ""])),
                                              self.pick(["0", "0", "1"]))

    def bool_e(self, d=0):
        k = self.r.randrange(9)
        if d > 2:
            k = self.r.randrange(3)
        if k == 0:
            return "(%s %s %s)" % (self.int_e(d + 1), self.pick(["<", "<=", ">", ">=", "==", "!="]), self.int_e(d + 1))
        if k == 1:
            return "(%s in %s)" % (self.int_e(d + 1), self.pick(self.lists + self.byts))
        if k == 2:
            return self.pick(["True", "False"])
        if k == 3:
            return "(%s and %s)" % (self.bool_e(d + 1), self.bool_e(d + 1))
        if k == 4:
            return "(%s or %s)" % (self.bool_e(d + 1), self.bool_e(d + 1))
        if k == 5:
            return "(not %s)" % self.bool_e(d + 1)
        if k == 6:
            return "(%s < %s <= %s)" % (self.int_e(d + 1), self.int_e(d + 1), self.int_e(d + 1))
        if k == 7:
            return "(%s == %s)" % (self.bytes_e(d + 1), self.bytes_e(d + 1))
        return "(not %s)" % self.pick(self.lists + self.byts)

    def bytes_e(self, d=0):
        k = self.r.randrange(8)
        if d > 2:
            k = 0
        if k == 0:
            return self.pick(self.byts + ['b""', 'b"\\x55\\x01"', 'b"abc"'])
        if k == 1:
            return "(%s + %s)" % (self.bytes_e(d + 1), self.bytes_e(d + 1))
        if k == 2:
            return "%s[%s:%s]" % (self.pick(self.byts), self.pick(["", "0", "1", "-2", self.int_e(d + 1)]),
                                  self.pick(["", "2", "-1", self.int_e(d + 1)]))
        if k == 3:
            return "bytes([%s])" % ", ".join(self.pick(["(%s & 255)" % self.int_e(d + 1), self.int_e(d + 1)])
                                             for _ in range(self.r.randrange(0, 3)))
        if k == 4:
            return "struct.pack(%s, %s)" % self.pick([('"<BH"', "%s, %s" % (self.int_e(d + 1), self.int_e(d + 1))),
                                                       ('">H"', self.int_e(d + 1)),
                                                       ('"<i"', self.int_e(d + 1)),
                                                       ('"BB"', "%s & 255, %s" % (self.int_e(d + 1), self.int_e(d + 1))),
                                                       ('"?"', self.bool_e(d + 1))])
        if k == 5:
            return "(%s * %s)" % (self.pick(['b"\\x00"', 'b"ab"']), self.pick(["0", "2", "(%s & 3)" % self.int_e(d + 1)]))
        if k == 6:
            return "bytes(%s)" % self.list_e(d + 1)
        return self.pick(self.byts)

    def list_e(self, d=0):
        k = self.r.randrange(7)
        if d > 2:
            k = 0
        if k == 0:
            return "list(%s)" % self.pick(self.lists)
        if k == 1:
            return "[%s]" % ", ".join(self.int_e(d + 1) for _ in range(self.r.randrange(0, 4)))
        if k == 2:
            return "(%s + %s)" % (self.list_e(d + 1), self.list_e(d + 1))
        if k == 3:
            return "%s[%s:%s]" % (self.pick(self.lists), self.pick(["", "1", "-1"]), self.pick(["", "2", "-1"]))
        if k == 4:
            return "list(range(%s))" % self.pick(["3", "0", "(%s & 7)" % self.int_e(d + 1)])
        if k == 5:
            return "[(x * 2 + %s) for x in %s]" % (self.pick(["1", self.pick(self.ints)]), self.pick(self.lists + self.byts))
        return "list(%s)" % self.pick(self.byts)

    # ---- statements
    def fresh(self, kind):
        pool = {"i": self.ints, "b": self.byts, "l": self.lists}[kind]
        name = "%s%d" % ({"i": "n", "b": "s", "l": "l"}[kind], len(pool))
        return name, pool

    def stmt(self, ind, d=0):
        p = "    " * ind
        k = self.r.randrange(19)
        if d > 1:
            k = self.r.randrange(8)
        out = []
        if k <= 1:
            name, pool = self.fresh("i")
            out.append(p + "%s = %s" % (name, self.int_e()))
            pool.append(name)
        elif k == 2:
            name, pool = self.fresh("b")
            out.append(p + "%s = %s" % (name, self.bytes_e()))
            pool.append(name)
        elif k == 3:
            name, pool = self.fresh("l")
            out.append(p + "%s = %s" % (name, self.list_e()))
            pool.append(name)
        elif k == 4:
            out.append(p + "%s %s= %s" % (self.pick(self.ints), self.pick(["+", "-", "|", "^"]), self.int_e(1)))
        elif k == 5:
            out.append(p + "%s.append(%s)" % (self.pick(self.lists), self.int_e(1)))
        elif k == 6:
            out.append(p + "%s[%s] = %s" % (self.pick(self.lists), self.pick(["0", "-1", "1", self.int_e(2)]), self.int_e(1)))
        elif k == 7:
            out.append(p + "box.%s" % self.pick(["put(%s)" % self.int_e(1), "bump(%s)" % self.int_e(1),
                                                 "take(%s)" % self.pick(["0", "-1", self.int_e(2)])]))
        elif k == 8:
            out.append(p + "if %s:" % self.bool_e())
            out += self.block(ind + 1, d + 1)
            if self.r.random() < 0.6:
                out.append(p + "else:")
                out += self.block(ind + 1, d + 1)
        elif k == 9:
            v = "i%d" % self.r.randrange(100)
            out.append(p + "for %s in %s:" % (v, self.pick(["range(%s)" % self.pick(["3", "(%s & 3)" % self.pick(self.ints)]),
                                                              "list(%s)" % self.pick(self.lists), self.pick(self.byts)])))
            self.ints.append(v)
            body = self.block(ind + 1, d + 1)
            if self.r.random() < 0.3:
                body.append("    " * (ind + 1) + "if %s:" % self.bool_e(1))
                body.append("    " * (ind + 2) + self.pick(["break", "continue"]))
            out += body
            self.ints.remove(v)
        elif k == 10:
            cnt = "w%d" % self.r.randrange(100)
            out.append(p + "%s = 0" % cnt)
            out.append(p + "while %s < %s:" % (cnt, self.pick(["3", "2", "(%s & 3)" % self.pick(self.ints)])))
            out.append("    " * (ind + 1) + "%s += 1" % cnt)
            self.ints.append(cnt)
            out += self.block(ind + 1, d + 1)
            self.ints.remove(cnt)
        elif k in (11, 12):
            out.append(p + "try:")
            out += self.block(ind + 1, d + 1)
            hs = self.r.sample(["IndexError", "ValueError", "ZeroDivisionError", "struct.error", "AssertionError", "TypeError"],
                               self.r.randrange(1, 3))
            for h in hs:
                out.append(p + "except %s:" % h)
                out += self.block(ind + 1, d + 2, allow_new=False)
        elif k == 13:
            out.append(p + "assert %s" % self.bool_e())
        elif k == 14:
            name, pool = self.fresh("i")
            out.append(p + "%s, q%s = struct.unpack(%s, %s)" % (name, name, self.pick(['"<BH"', '">HB"']),
                                                                "%s[:3]" % self.pick(self.byts)))
            pool.append(name)
            pool.append("q" + name)
        elif k == 15 and self.r.random() < 0.5:
            out.append(p + "if %s:" % self.bool_e(1))
            out.append("    " * (ind + 1) + "raise %s" % self.pick(["ValueError", "IndexError", "KeyError"]))
        else:
            kk = self.r.randrange(11)
            if kk == 0:
                out.append(p + "outer.feed(%s)" % self.list_e(1))
            elif kk == 1:
                out.append(p + "outer.lim = %s" % self.int_e(1))
            elif kk == 2:
                name, pool = self.fresh("i")
                out.append(p + "%s = Kind(%s).value + int(Kind(%s %% 3) == Kind.B) + int(Kind.C is Kind(%s & 3))" % (
                    name, self.pick(["0", "1", "2", self.int_e(2)]), self.int_e(2), self.int_e(2)))
                pool.append(name)
            elif kk == 3:
                name, pool = self.fresh("i")
                out.append(p + "%s = len(f\"{%s}-{%s}\" + str(%s)) + len(Rec(%s, f\"n{%s}\").name)" % (
                    name, self.int_e(2), self.pick(self.ints), self.int_e(2), self.int_e(2), self.int_e(2)))
                pool.append(name)
            elif kk == 4:
                name, pool = self.fresh("i")
                out.append(p + "%s = {1: %s, 2: %s, %s: 7}.get(%s)" % (name, self.int_e(2), self.int_e(2), self.int_e(2), self.int_e(2)))
                out.append(p + "if %s is None:" % name)
                out.append("    " * (ind + 1) + "%s = -1" % name)
                pool.append(name)
            elif kk == 5:
                out.append(p + "rec = Rec(%s, tags=(%s, %s))" % (self.int_e(1), self.int_e(2), self.int_e(2)))
                out.append(p + "rec.k += rec.tags[%s]" % self.pick(["0", "1", "-1", "2"]))
                self.recs = True
            elif kk == 6:
                out.append(p + "outer.box.bump(%s)" % self.int_e(1))
            elif kk == 7:
                out.append(p + "shelf.put_all(%s)" % self.int_e(1))
            elif kk == 8:
                out.append(p + "shelf.bump_row(%s, %s)" % (self.pick(["0", "2", "1", "(%s & 3)" % self.int_e(2)]), self.int_e(1)))
            elif kk == 9:
                name, pool = self.fresh("i")
                out.append(p + "%s = shelf.first_big(%s)" % (name, self.int_e(1)))
                pool.append(name)
            else:
                # a for-loop with write-back over a local list of objects
                out.append(p + "for bx in boxes:")
                out.append("    " * (ind + 1) + self.pick(["bx.put(%s)" % self.int_e(1), "bx.bump(%s)" % self.int_e(1),
                                                          "bx.v = bx.v + %s" % self.int_e(1)]))
                if self.r.random() < 0.4:
                    out.append("    " * (ind + 1) + "if %s:" % self.bool_e(1))
                    out.append("    " * (ind + 2) + self.pick(["break", "continue"]))
        return out

    def block(self, ind, d, allow_new=True):
        # variables introduced inside a block may be undefined afterwards: keep them local to it
        si, sb, sl = list(self.ints), list(self.byts), list(self.lists)
        out = []
        for _ in range(self.r.randrange(1, 3 if d else 5)):
            out += self.stmt(ind, d)
        if not out:
            out = ["    " * ind + "pass"]
        self.ints, self.byts, self.lists = si, sb, sl
        return out

    def function(self, name):
        self.ints, self.byts, self.lists = ["a"], ["b"], ["c"]
        lines = ["def %s(a, b, c):" % name, "    box = Box(a & 255)", "    outer = Outer(a & 63)", "    rec = Rec(0)",
                 "    shelf = Shelf(a & 3)", "    boxes = [Box(1), Box(a & 15)]"]
        for _ in range(self.r.randrange(3, 8)):
            lines += self.stmt(1, 0)
        lines.append("    return (%s)" % ", ".join(self.ints + self.byts + self.lists + ["box.v", "box.log", "box.size", "box.total()", "outer.box.v", "outer.box.log", "outer.n", "outer.lim",
                                                           "rec.k", "rec.name", "rec.tags", "shelf.state()", "[[bx.v, bx.log] for bx in boxes]"]))
        return "\n".join(lines)


def rand_args(rng):
    a = rng.choice([0, 1, -1, 2, 5, 7, 255, 256, -300, 1000, 65535, rng.randrange(-10, 300)])
    b = bytes(rng.randrange(256) for _ in range(rng.choice([0, 1, 2, 3, 4, 6, 9])))
    c = [rng.choice([0, 1, -2, 3, 255, 256, rng.randrange(-5, 300)]) for _ in range(rng.choice([0, 1, 2, 3, 5]))]
    return [a, b, c]


def main():
    ap = argparse.ArgumentParser()
    ap.add_argument("--seed", type=int, default=1)
    ap.add_argument("--funcs", type=int, default=150)
    ap.add_argument("--inputs", type=int, default=6)
    ap.add_argument("--work", default="/var/tmp/pylite-fuzz")
    a = ap.parse_args()
    rng = random.Random(a.seed)
    work = a.work
    shutil.rmtree(work, ignore_errors=True)
    coq = os.path.join(work, "coq")
    os.makedirs(os.path.join(coq, "gen"))
    os.makedirs(os.path.join(coq, "extract"))
    # the compiled interpreter and libraries of the main tree
    main_coq = os.path.join(ROOT, "coq")
    for sub in ("lib", "py"):
        shutil.copytree(os.path.join(main_coq, sub), os.path.join(coq, sub))
    for f in ("Extract_py.v", "pydriver.ml"):
        shutil.copy(os.path.join(main_coq, "extract", f), os.path.join(coq, "extract", f))
    g = Gen(rng)
    src = PRELUDE + "\n\n" + "\n\n\n".join(g.function("f%d" % i) for i in range(a.funcs)) + "\n"
    mod_path = os.path.join(work, "fuzz_mod.py")
    with open(mod_path, "w") as f:
        f.write(src)
    compile(src, mod_path, "exec")
    os.environ["NXS_PRELUDE"] = mod_path
    import pylite
    pylite.PRELUDE = mod_path
    pylite.MODULES = ["$prelude"]
    st = pylite.run(os.path.join(coq, "gen"), quiet=True)
    unsupported = {k: v for k, v in st.items() if not v.startswith("ok")}
    for step in (["coqc", "-Q", ".", "NX", "gen/Src_prelude.v"], ["coqc", "-Q", ".", "NX", "gen/Src_all.v"]):
        p = subprocess.run(["timeout", "900"] + step, cwd=coq, capture_output=True, text=True)
        if p.returncode != 0:
            print("coqc failed:", p.stderr[-800:])
            return 2
    p = subprocess.run(["bash", "-c", "cd extract && timeout 900 coqc -Q .. NX Extract_py.v >/dev/null 2>&1 && "
                        "ocamlfind ocamlopt -w -a -package zarith -linkpkg pymodel.mli pymodel.ml pydriver.ml -o pydriver"],
                       cwd=coq, capture_output=True, text=True)
    if p.returncode != 0:
        print("driver build failed:", (p.stdout + p.stderr)[-800:])
        return 2
    sys.path.insert(0, os.path.join(HERE))
    from harness import pyl
    spec = importlib.util.spec_from_file_location("fuzz_mod", mod_path)
    mod = importlib.util.module_from_spec(spec)
    spec.loader.exec_module(mod)
    drv = pyl.PyDriver(os.path.join(coq, "extract", "pydriver"))
    cmds, impls, who = [], [], []
    import copy
    import signal

    class Slow(BaseException):
        pass

    def on_alarm(signum, frame):
        raise Slow()

    signal.signal(signal.SIGALRM, on_alarm)
    slow = 0
    for i in range(a.funcs):
        fn = getattr(mod, "f%d" % i)
        for _ in range(a.inputs):
            args = rand_args(rng)
            # programs whose values explode (lists doubled in nested loops) are skipped on both sides
            signal.setitimer(signal.ITIMER_REAL, 1.0)
            try:
                r = pyl.impl_result(fn, *copy.deepcopy(args))
            except Slow:
                slow += 1
                continue
            finally:
                signal.setitimer(signal.ITIMER_REAL, 0)
            if len(r) > 20000:
                slow += 1
                continue
            cmds.append(pyl.fn_cmd("f%d" % i, args, fuel=60))
            impls.append(r)
            who.append((i, args))
    outs = drv.ask(cmds)
    bad, stats = 0, {}
    for c, im, o, w in zip(cmds, impls, outs, who):
        k = o.split(" ")[0] + (" " + o.split(" ")[1] if o.startswith(("exc", "unsupported")) else "")
        stats[k] = stats.get(k, 0) + 1
        if o.startswith("unsupported") or o == "fuel":
            continue
        if o != im:
            bad += 1
            if bad <= 5:
                print("DISAGREEMENT f%d%r\n  cpython:     %s\n  interpreter: %s" % (w[0], tuple(w[1]), im[:300], o[:300]))
    print("pylite-fuzz seed=%d functions=%d runs=%d disagreements=%d unsupported-functions=%d skipped-slow=%d" % (
        a.seed, a.funcs, len(cmds), bad, len(unsupported), slow))
    print("outcomes:", dict(sorted(stats.items(), key=lambda kv: -kv[1])[:12]))
    compared = sum(v for k, v in stats.items() if not k.startswith("unsupported") and k != "fuel")
    if compared * 2 < len(cmds):
        print("pylite-fuzz: fewer than half of the runs were inside the subset - the generator and the interpreter have drifted apart")
        return 1
    if bad == 0:
        shutil.rmtree(work, ignore_errors=True)
    return 1 if bad else 0


if __name__ == "__main__":
    sys.exit(main())

"""C11 - a rejected or unacknowledged request never advances the client's view."""
import time

from . import common
from . import config_util as cu
from .c07 import cases as c07_cases

RULE = ("random configuration histories on an ACK-capable reference device where every enable/divider request of every "
        "write is independently acknowledged, rejected with a non-zero code (1, -22, INT32_MAX), lost, or applied with "
        "its acknowledgement lost; after EVERY call the device state, the wire requests, ch_is_enabled and ch_div_get are "
        "compared with the Coq model (whose theorems say: the view stays at the last acknowledged state and an "
        "acknowledged write converges); each history ends with an acknowledged write after which device = client = "
        "requested is asserted directly; each call is bounded by a watchdog; non-trivial = distinct history with >= 1 "
        "failed request")


def main(run):
    run.regen()
    run.prove(extra_targets=["proofs/Pinned_comm.vo"])
    model_ok = run.build_model()
    run.run_findings()
    run.pylite(['config'])
    if model_ok:
        cs = c07_cases(run, adversarial=True, count=70 if not run.thorough else 800)
        for c in cs:
            c["cmd"] += ";W:A:A"
        # re-run implementation with the closing acknowledged write
        rng = common.Rng(run.seed)
        redo = []
        t0 = time.time()
        for c in cs:
            n, divsup, acksup, en0, div0, ops = c["key"]
            ops = list(ops) + ["W:A:A"]
            got = cu.run_history(n, divsup, acksup, list(en0), list(div0), ops)
            c["impl"] = got
            c["rerun"] = (lambda a=(n, divsup, acksup, list(en0), list(div0), list(ops)): cu.run_history(*a, scale=0.08))
            c["nontrivial"] = any(o.startswith("W") and o != "W:A:A" for o in ops)
            last = got.split(" / ")[-1]
            f = dict(kv.split("=") for kv in last.split(" ") if "=" in kv)
            if f.get("en") != f.get("now") or (divsup and f.get("div") != f.get("dnow")):
                run.violation("after an acknowledged write device and client differ", {"call": c["cmd"], "implementation": got})
            redo.append(c)
        run.cov["max_call_wall_s"] = round(time.time() - t0, 2)
        for what, c, m in run.differential(redo):
            run.violation(what, {"call": c["cmd"][:4000], "implementation": c["impl"][:4000], "model": m[:4000]})
    else:
        run.proof_ok = False
    return run.finish(rule=RULE, assumptions=[
        "a late acknowledgement arriving after its time-out is outside the property's three choices and not modelled",
        "bounded time is observed under the scaled clock with a watchdog; the model is a function, so every call terminates"])

"""C02 - only length-consistent, CRC-valid frames are ever accepted."""
from . import common
from .c01 import impl_decode
from .dispatch_util import make_recv, impl_dispatch, spec_dispatch
from harness import refcodec as rc

RULE = ("header sweep: declared length (quick: 0..40, 250..262, 65530..65535 + 200 random; thorough: all 2^16) x ids "
        "{0..8, 9, 85, 255} x supplied lengths, CRC forged to be valid over min(flen, len) bytes; random strings; valid "
        "frames with every 1-bit flip, sampled 2-bit flips, odd-weight patterns and bursts <= 16 bits outside the length "
        "field (thorough: every 1- and 2-bit flip of frames <= 24 bytes); the same strings with leading noise through the "
        "real recv_handle. Non-trivial = distinct strings reaching the CRC stage or accepted.")


def forge(body, flen):
    """Return body + 2 bytes such that CRC over the first min(flen, len) bytes is 0 when possible."""
    total = len(body) + 2
    k = min(flen, total)
    if k >= 2 and k == total:
        c = rc.crc16_xmodem(body)
        return bytes(body) + bytes([c >> 8, c & 255])
    if 2 <= k <= len(body):
        # forge inside: choose bytes k-2,k-1 so that crc(first k) == 0
        b = bytearray(body)
        c = rc.crc16_xmodem(b[:k - 2])
        b[k - 2], b[k - 1] = c >> 8, c & 255
        return bytes(b) + b"\x00\x00"
    return bytes(body) + b"\x00\x00"


def spec_decode(d):
    r = rc.accepts(d)
    return None if r is None else "ok %d %s" % (r[0], common.hexs(r[1]))


def cases(run):
    from nxslib.proto.serialframe import SerialFrame
    sf = SerialFrame()
    rng = common.Rng(run.seed)
    fired, pr = make_recv()
    out = []

    def add(d, kind, light=False):
        d = bytes(d)
        sp = spec_decode(d)
        out.append(dict(cmd="frame_decode " + common.hexs(d), impl=impl_decode(sf, d), oracle=sp,
                        reject=sp is None, kind="decode-" + kind, key=("d", d),
                        nontrivial=len(d) >= 4 and d[0] == 0x55))
        pres = (b"", b"\x00\x01", bytes([rng.randrange(256) for _ in range(3)]).replace(b"\x55", b"\x54"))
        for pre in (pres[rng.randrange(3)],) if light else pres:
            dd = pre + d
            out.append(dict(cmd="recv_dispatch " + common.hexs(dd), impl=impl_dispatch(pr, fired, dd),
                            oracle=spec_dispatch(dd), kind="dispatch-" + kind, key=("r", dd),
                            nontrivial=len(d) >= 6))

    flens = list(range(0, 41)) + list(range(250, 263)) + list(range(65530, 65536))
    flens += [rng.randrange(65536) for _ in range(200)]
    if run.thorough:
        flens = range(65536)
    ids = [0, 1, 2, 3, 4, 5, 6, 7, 8, 9, 85, 255]
    for flen in flens:
        for fid in (ids if (flen < 41 or not run.thorough) else (2, 6, 9)):
            for n in ((0, 3, 9) if flen < 41 else (rng.choice([0, 3, 9]),)):
                body = bytes([0x55, flen & 255, flen >> 8, fid]) + rng.bytes(n)
                add(forge(body, flen), "hdr-sweep", light=flen >= 41)
    for _ in range(400 if not run.thorough else 20000):
        n = rng.choice([0, 1, 2, 3, 4, 5, 6, 7, 8, 12, 20])
        d = bytearray(rng.bytes(n))
        if n and rng.random() < 0.7:
            d[0] = 0x55
        if n > 3 and rng.random() < 0.7:
            d[3] = rng.randrange(10)
        if n > 2 and rng.random() < 0.5:
            d[1], d[2] = rng.choice([n, n - 1, 6, 0, 4, 5, 7]) & 255, 0
        add(d, "random")

    # corruption of valid frames, length field intact
    def corrupt(fr, bits, kind):
        g = bytearray(fr)
        for b in bits:
            g[b // 8] ^= 0x80 >> (b % 8)
        add(g, kind, light=len(fr) > 24)

    frames = [rc.wire(fid, rng.bytes(n)) for fid, n in
              ((1, 0), (2, 0), (5, 1), (6, 3), (7, 12), (1, 18), (3, 1), (1, 250), (6, 1000), (1, 4089))]
    for fr in frames:
        nb = len(fr) * 8
        allowed = [b for b in range(nb) if not 8 <= b < 24]
        small = len(fr) <= 24
        big = len(fr) > 300
        scale = 1 if run.thorough else (0.1 if big else 0.5)
        ones = allowed if (small or run.thorough and len(fr) <= 300) else rng.sample(allowed, int(64 * scale) + 1)
        for b in ones:
            corrupt(fr, [b], "flip1")
        if small and run.thorough:
            for i, a in enumerate(allowed):
                for b in allowed[i + 1:]:
                    corrupt(fr, [a, b], "flip2")
        else:
            for _ in range(int(150 * scale) if not run.thorough else 3000):
                corrupt(fr, rng.sample(allowed, 2), "flip2")
        for _ in range(int(60 * scale) if not run.thorough else 1500):
            w = rng.choice([3, 5, 7, 9, 21])
            if w <= len(allowed):
                corrupt(fr, rng.sample(allowed, w), "odd")
        for _ in range(int(100 * scale) if not run.thorough else 3000):
            start = rng.randrange(nb)
            pat = [start] + [start + k for k in range(1, 16) if rng.random() < 0.5]
            pat = [b for b in pat if b < nb]
            if all(not 8 <= b < 24 for b in pat):
                corrupt(fr, pat, "burst16")
    return out


def main(run):
    run.regen()
    run.prove()
    model_ok = run.build_model()
    run.run_findings()
    run.pylite(['frame', 'device_side'])
    if model_ok:
        for what, c, m in run.differential(cases(run)):
            run.violation(what, {"call": c["cmd"][:4000], "implementation": c["impl"][:4000],
                                 "specification": (c.get("oracle") or "rejected")[:4000], "model": m[:4000]})
    else:
        run.proof_ok = False
    return run.finish(rule=RULE, assumptions=[
        "crcmod and struct are modelled; the dispatcher is judged at the first SOF (an error that destroys the SOF makes it "
        "resynchronise on a later 0x55, see DESIGN.md C02)"])

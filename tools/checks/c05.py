"""C05 - every client request means at the device exactly what the caller asked for."""
import struct

from . import common
from .dispatch_util import make_recv, impl_dispatch, spec_dispatch
from harness import refcodec as rc

RULE = ("device sizes n in {1,2,3,127,128,129,254,255} (thorough: + 8 random sizes): chinfo for every channel id 0..254, "
        "enable/divider single requests for every channel x values (dividers: boundaries, thorough all 0..255), full "
        "vectors (all-equal, random, one-off) in whichever compact form the client picks; each request is (a) compared "
        "byte for byte with the independent encoder, (b) sent through the real recv_handle, (c) decoded by the real "
        "device-side decoder on a device with a random current state and compared with the intended vector; out-of-range "
        "arguments must raise the same exception class in model and implementation")


def call(fn, *a):
    try:
        return "ok " + fn(*a)
    except struct.error:
        return "raise struct.error"
    except (ValueError, IndexError, AssertionError, TypeError, OverflowError) as e:
        return "raise " + type(e).__name__


def bools(l):
    return "".join("1" if b else "0" for b in l) or "-"


def ints(l):
    return ",".join(str(int(x)) for x in l) or "-"


def mkdev(en, div):
    from nxslib.dev import Device, DeviceChannel
    n = len(en)
    return Device(n, 3, 0, [DeviceChannel(i, 2, 1, "c", en=en[i], div=div[i]) for i in range(n)])


def cases(run):
    from nxslib.proto.parse import Parser
    rng = common.Rng(run.seed)
    ps = Parser()
    fired, pr = make_recv()
    out = []

    def client(cmd, fn, args, spec_frame, kind):
        """client builder: bytes vs independent encoder, then through recv_handle"""
        got = call(lambda: common.hexs(fn(*args)))
        out.append(dict(cmd=cmd, impl=got, oracle=("ok " + common.hexs(spec_frame)) if spec_frame is not None else None,
                        kind="client-" + kind, key=cmd))
        if got.startswith("ok") and spec_frame is not None:
            fr = bytes.fromhex(got[3:]) if got != "ok -" else b""
            out.append(dict(cmd="recv_dispatch " + common.hexs(fr), impl=impl_dispatch(pr, fired, fr),
                            oracle=spec_dispatch(spec_frame), kind="dispatch-" + kind, key=("rd", fr)))

    for v in (True, False):
        client("frame_start %d" % v, ps.frame_start, (v,), rc.req_start(v), "start")
        p = bytes([1 if v else 0])
        out.append(dict(cmd="start_decode " + common.hexs(p), impl=call(lambda: "1" if pr.frame_start_decode(p) else "0"),
                        oracle="ok %d" % v, kind="device-start", key=("sd", v)))
    client("frame_cmninfo", ps.frame_cmninfo, (), rc.req_cmninfo(), "cmninfo")
    for k in list(range(0, 256)) + [256, 300, -1]:
        client("frame_chinfo %d" % k, ps.frame_chinfo, (k,), rc.req_chinfo(k) if 0 <= k <= 255 else None, "chinfo")

    sizes = [1, 2, 3, 127, 128, 129, 254, 255]
    if run.thorough:
        sizes += [rng.randrange(4, 254) for _ in range(8)]
    dvals = list(range(256)) if run.thorough else [0, 1, 2, 126, 127, 128, 129, 200, 254, 255]
    for n in sizes:
        chans = range(n) if (run.thorough or n <= 3) else sorted(set([0, 1, n // 2, n - 2, n - 1] + [rng.randrange(n) for _ in range(6)]))
        for k in chans:
            cur_en = [rng.random() < 0.5 for _ in range(n)]
            cur_div = [rng.randrange(256) for _ in range(n)]
            for v in (True, False):
                pay = bytes([rc.SET_SINGLE, k, 1 if v else 0])
                client("frame_enable_single %d %d %d" % (n, k, v), ps.frame_enable, ((k, v), n),
                       rc.wire(rc.ID_ENABLE, pay), "enable-single")
                exp = list(cur_en)
                exp[k] = v
                out.append(dict(cmd="enable_decode %s %s" % (common.hexs(pay), bools(cur_en)),
                                impl=call(lambda: bools(pr.frame_enable_decode(pay, mkdev(cur_en, cur_div)))),
                                oracle="ok " + bools(exp), kind="device-enable-single", key=("es", n, k, v, tuple(cur_en))))
            for v in (dvals if k in (0, n - 1) else [rng.choice(dvals), 128, 255]):
                pay = bytes([rc.SET_SINGLE, k, v])
                client("frame_div_single %d %d %d" % (n, k, v), ps.frame_div, ((k, v), n),
                       rc.wire(rc.ID_DIV, pay), "div-single")
                exp = list(cur_div)
                exp[k] = v
                out.append(dict(cmd="div_decode %s %s" % (common.hexs(pay), ints(cur_div)),
                                impl=call(lambda: ints(pr.frame_div_decode(pay, mkdev(cur_en, cur_div)))),
                                oracle="ok " + ints(exp), kind="device-div-single", key=("ds", n, k, v, tuple(cur_div))))
        # vectors
        vecs_en = [[True] * n, [False] * n, [rng.random() < 0.5 for _ in range(n)], [i == n - 1 for i in range(n)]]
        vecs_div = [[0] * n, [255] * n, [128] * n, [rng.randrange(256) for _ in range(n)],
                    [200 if i == 0 else 7 for i in range(n)]]
        for _ in range(6 if run.thorough else 2):
            vecs_en.append([rng.random() < 0.5 for _ in range(n)])
            vecs_div.append([rng.choice(dvals) for _ in range(n)])
        for l in vecs_en:
            cur_en = [rng.random() < 0.5 for _ in range(n)]
            cur_div = [0] * n
            pay = bytes([rc.SET_ALL, 0, int(l[0])]) if len(set(l)) <= 1 else bytes([rc.SET_BULK, 0] + [int(b) for b in l])
            client("frame_enable_vec %d %s" % (n, bools(l)), ps.frame_enable, (list(l), n), rc.wire(rc.ID_ENABLE, pay), "enable-vec")
            out.append(dict(cmd="enable_decode %s %s" % (common.hexs(pay), bools(cur_en)),
                            impl=call(lambda: bools(pr.frame_enable_decode(pay, mkdev(cur_en, cur_div)))),
                            oracle="ok " + bools(l), kind="device-enable-vec", key=("ev", n, tuple(l), tuple(cur_en))))
        for l in vecs_div:
            cur_en = [False] * n
            cur_div = [rng.randrange(256) for _ in range(n)]
            pay = bytes([rc.SET_ALL, 0, l[0]]) if len(set(l)) <= 1 else bytes([rc.SET_BULK, 0] + list(l))
            client("frame_div_vec %d %s" % (n, ints(l)), ps.frame_div, (list(l), n), rc.wire(rc.ID_DIV, pay), "div-vec")
            out.append(dict(cmd="div_decode %s %s" % (common.hexs(pay), ints(cur_div)),
                            impl=call(lambda: ints(pr.frame_div_decode(pay, mkdev(cur_en, cur_div)))),
                            oracle="ok " + ints(l), kind="device-div-vec", key=("dv", n, tuple(l), tuple(cur_div))))
    # malformed / out-of-range: same exception class in model and implementation
    for cmd, fn, args in (("frame_div_single 3 1 256", ps.frame_div, ((1, 256), 3)),
                          ("frame_div_single 3 1 -1", ps.frame_div, ((1, -1), 3)),
                          ("frame_enable_single 3 256 1", ps.frame_enable, ((256, True), 3)),
                          ("frame_div_vec 3 1,2", ps.frame_div, ([1, 2], 3)),
                          ("frame_enable_vec 3 10", ps.frame_enable, ([True, False], 3)),
                          ("frame_div_vec 2 1,300", ps.frame_div, ([1, 300], 2))):
        out.append(dict(cmd=cmd, impl=call(lambda: common.hexs(fn(*args))), oracle=None, kind="client-malformed", key=cmd))
    for pay, cur in ((b"\x03\x00\x01", [0, 0]), (b"\x00\x05\x01", [0, 0]), (b"\x01\x00\x01", [0, 0]), (b"\x00", [0]),
                     (b"\x01\x00\x01\x02\x03", [0, 0])):
        out.append(dict(cmd="div_decode %s %s" % (common.hexs(pay), ints(cur)),
                        impl=call(lambda: ints(pr.frame_div_decode(pay, mkdev([False] * len(cur), cur)))),
                        oracle=None, kind="device-malformed", key=("dm", pay)))
        out.append(dict(cmd="enable_decode %s %s" % (common.hexs(pay), bools([False] * len(cur))),
                        impl=call(lambda: bools(pr.frame_enable_decode(pay, mkdev([False] * len(cur), cur)))),
                        oracle=None, kind="device-malformed", key=("em", pay)))
    return out


def main(run):
    run.regen()
    run.prove(extra_targets=["proofs/Pinned_parse.vo", "proofs/Pinned_parserecv.vo"])
    model_ok = run.build_model()
    run.run_findings()
    run.pylite(['requests', 'device_side'])
    if model_ok:
        for what, c, m in run.differential(cases(run)):
            run.violation(what, {"call": c["cmd"][:2000], "implementation": c["impl"][:3000],
                                 "specification": (c.get("oracle") or "")[:3000], "model": m[:3000]})
    else:
        run.proof_ok = False
    return run.finish(rule=RULE, assumptions=[
        "channels_en / channels_div return fresh copies of the device state (dev.py); Python bools reach bytes([..]) as 0/1"])

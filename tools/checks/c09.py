"""C09 - connect / stream / disconnect behave as a clean, repeatable life cycle."""
import itertools
import threading
import time

from . import common
from harness import refcodec as rc
from harness import refdev

RULE = ("call sequences over {connect, disconnect, stream_start, stream_stop, sub, unsub, enable, write} on the real "
        "NxscopeHandler against the reference device (scaled clock): ALL sequences of length <= 3 (quick) / <= 4 (thorough) "
        "and random sequences up to 14 calls, from an idle device and from a device left streaming with channels enabled; "
        "after every call: result class (returned / AssertionError / IndexError), connected / stream flags, library threads "
        "alive, whether the device is streaming, whether a device description is reported; after the closing disconnect: "
        "device not streaming, every channel disabled, handler.dev is None, no library thread; every reconnect must report the "
        "same static description; compared with the Coq model")

CALLS = ["connect", "disconnect", "stream_start", "stream_stop", "sub", "unsub", "enable", "write"]


def run_seq(calls, streaming, enabled, scale=0.01, lost_ack_at=None, nchan=2):
    from nxslib.nxscope import NxscopeHandler
    from nxslib.proto.parse import Parser
    refdev.install_fast_clock(scale)
    before = set(threading.enumerate())
    chans = refdev.simple_chans(nchan)
    for c in chans:
        c["en"] = enabled
    seen = []

    def policy(i, kind, payload):
        # optionally: the acknowledgement of the n-th enable request is lost (the request is applied)
        if kind == "enable":
            seen.append(i)
            if lost_ack_at is not None and len(seen) - 1 == lost_ack_at:
                return "lostack"
        return "ok"
    dev = refdev.RefDevice(chans, flags=3, streaming=streaming, policy=policy)
    nx = NxscopeHandler(dev, Parser())
    out, subs, descr = [], [], []
    extra = []
    for k in list(calls) + ["disconnect"]:
        try:
            def do():
                if k == "connect":
                    d = nx.connect()
                    descr.append((d.data.chmax, d.data.flags, d.data.rxpadding,
                                  tuple((c.data._type, c.data.vdim, c.data.name, c.data.mlen)
                                        for c in (d.channel_get(i) for i in range(d.data.chmax)))))
                elif k == "disconnect":
                    nx.disconnect()
                elif k == "stream_start":
                    nx.stream_start()
                elif k == "stream_stop":
                    nx.stream_stop()
                elif k == "sub":
                    subs.append(nx.stream_sub(0))
                elif k == "unsub":
                    if subs:
                        nx.stream_unsub(subs.pop())
                    else:
                        import queue
                        nx.stream_unsub(queue.Queue())
                elif k == "enable":
                    nx.ch_enable(1)
                elif k.startswith("enable_now"):
                    nx.ch_enable(int(k[10:]), True)
                else:
                    nx.channels_write()
            nreq = len(dev.log)
            was_connected = nx._connected
            fin, res = refdev.run_with_watchdog(do, 30)
            if not fin:
                out.append("call-did-not-return")
                break
            r = "ok" if not isinstance(res, BaseException) else type(res).__name__
            if not was_connected and len(dev.log) != nreq and k != "connect":
                extra.append("%s reached the device while disconnected" % k)
        except Exception as e:  # noqa: BLE001
            r = "harness-" + type(e).__name__
        time.sleep(0.002)
        thr = any(t.name == "stream" and t.is_alive() for t in threading.enumerate() if t not in before)
        rcv = any(t.name == "recv" and t.is_alive() for t in threading.enumerate() if t not in before)
        out.append("%s conn=%s stream=%s thr=%s recv=%s devstream=%s" % (
            r, str(nx._connected).lower(), str(nx._stream_started).lower(), str(thr).lower(), str(rcv).lower(),
            str(dev.streaming).lower()))
    # closing checks (independent of the model)
    if any(dev.en()) and "connect" in calls:
        extra.append("channels left enabled after disconnect: %r" % dev.en())
    if nx.dev is not None:
        extra.append("device description still reported after disconnect")
    if len(set(descr)) > 1:
        extra.append("reconnect reported a different static description")
    nx._thrd.stop_set()
    nx._comm._thrd.stop_set()
    return " / ".join(out), extra


def canon(calls):
    """enable on a disconnected handler only touches the request buffer (or raises): 'inert' either way"""
    ks = list(calls) + ["disconnect"]

    def f(res):
        parts = res.split(" / ")
        for i, p in enumerate(parts):
            if i < len(ks) and ks[i] in ("enable", "sub") and "conn=false" in p:
                parts[i] = "inert " + p.split(" ", 1)[1]
        return " / ".join(parts)
    return f


def cases(run):
    rng = common.Rng(run.seed)
    seqs = []
    maxlen = 4 if run.thorough else 3
    for n in range(1, maxlen + 1):
        seqs += list(itertools.product(CALLS, repeat=n))
    if not run.thorough:
        seqs = [s for s in seqs if len(s) < 3 or "connect" in s]
        seqs = seqs[:80] + rng.sample(seqs[80:], 100)
    for _ in range(25 if not run.thorough else 300):
        seqs.append(tuple(rng.choice(CALLS + ["connect", "stream_start"]) for _ in range(rng.randrange(4, 15))))
    out = []
    for i, s in enumerate(seqs):
        streaming = enabled = (i % 3 == 0)
        got, extra = run_seq(s, streaming, enabled)
        cf = canon(s)
        out.append(dict(cmd="lifecycle %d %d %s" % (streaming, enabled, ",".join(list(s) + ["disconnect"])), impl=cf(got),
                        mcanon=cf, rerun=(lambda s=s, st=streaming, en=enabled, cf=cf: cf(run_seq(s, st, en, scale=0.08)[0])),
                        oracle=None, kind="seq-len%d" % min(len(s), 5), key=(s, streaming), extra=extra,
                        nontrivial="connect" in s))
    return out


def lost_ack_cases(run):
    """a session in which one acknowledgement of an enable request is lost: whatever happened before, after the
    closing disconnect the device must have every channel disabled (closing checks of run_seq; no model)"""
    out = []
    seqs = [("connect", "enable_now0", "enable_now1"), ("connect", "enable_now0", "enable_now1", "stream_start"),
            ("connect", "enable_now1", "enable_now2", "enable_now0"), ("connect", "stream_start", "enable_now2", "enable_now0")]
    for s in seqs:
        for at in (0, 1, 2):
            got, extra = run_seq(s, False, False, lost_ack_at=at, nchan=3)
            run.count("lost-ack-session", (s, at))
            for e in extra:
                out.append((e, "lifecycle with the ACK of enable request #%d lost: %s,disconnect" % (at, ",".join(s)), got))
    return out


def died_worker_session(run):
    """a library thread that died on its own does not stop the life cycle: channel 0 has a user-defined type the
    default parser does not know, its first sample kills the stream thread (KeyError - on the unchanged library
    too); stream_stop / disconnect / connect / stream_start must then give a NEW live stream thread that delivers
    the samples of channel 1"""
    from nxslib.nxscope import NxscopeHandler
    from nxslib.proto.parse import Parser
    refdev.install_fast_clock(0.01)
    before = set(threading.enumerate())
    chans = refdev.simple_chans(2, typ=7, vdim=1)
    chans[0]["typ"] = 20                       # USER1
    dev = refdev.RefDevice(chans, flags=3)
    nx = NxscopeHandler(dev, Parser())
    out = []
    hook = threading.excepthook
    threading.excepthook = lambda a: None      # the dying thread's traceback is expected
    try:
        def sample(ch, v):
            return rc.wire(rc.ID_STREAM, bytes([0, ch]) + int(v).to_bytes(4, "little", signed=True))
        fin, res = refdev.run_with_watchdog(nx.connect, 20)
        if not fin or isinstance(res, BaseException):
            return ["connect failed: %r" % (res,)]
        nx.ch_enable([0, 1], True)
        nx.stream_start()
        dev.push(sample(0, 1))
        t0 = time.time()
        while nx._thrd.thread_is_alive() and time.time() - t0 < 2.0:
            time.sleep(0.002)
        died = not nx._thrd.thread_is_alive()
        for call in (nx.stream_stop, nx.disconnect, nx.connect):
            fin, res = refdev.run_with_watchdog(call, 20)
            if not fin or isinstance(res, BaseException):
                return ["%s after the stream thread died: %r" % (call.__name__, res if fin else "did not return")]
        nx.ch_enable(1, True)
        q = nx.stream_sub(1)
        nx.stream_start()
        time.sleep(0.01)
        alive = any(t.name == "stream" and t.is_alive() for t in threading.enumerate() if t not in before)
        for v in (5, 6, 7):
            dev.push(sample(1, v))
        got = []
        t0 = time.time()
        while len(got) < 3 and time.time() - t0 < 2.0:
            try:
                got += [s.data[0] for s in q.get(timeout=5)]
            except Exception:  # noqa: BLE001
                pass
        run.count("died-worker-session", ("died-worker", died))
        if not alive:
            out.append("second session after the stream thread had died: stream_start started no stream thread")
        elif got != [5, 6, 7]:
            out.append("second session after the stream thread had died: subscriber of channel 1 got %r instead of [5, 6, 7]" % (got,))
    finally:
        threading.excepthook = hook
        refdev.run_with_watchdog(nx.disconnect, 20)
        nx._thrd.stop_set()
        nx._comm._thrd.stop_set()
    return out


def main(run):
    run.regen()
    run.prove()
    model_ok = run.build_model()
    run.run_findings()
    run.pylite(["lifecycle"])
    if model_ok:
        cs = cases(run)
        for c in cs:
            for e in c["extra"][:1]:
                run.violation(e, {"call": c["cmd"], "implementation": c["impl"]})
        for what, c, m in run.differential(cs):
            run.violation(what, {"call": c["cmd"][:2000], "implementation": c["impl"][:3000], "model": m[:3000]})
        if not run.concrete():
            for e, call, got in lost_ack_cases(run)[:1]:
                run.violation(e, {"call": call, "implementation": got})
        if not run.concrete():
            for e in died_worker_session(run)[:1]:
                run.violation(e, {"call": "connect,enable,stream_start,<sample of an unknown user type kills the stream thread>,"
                                          "stream_stop,disconnect,connect,stream_start"})
    else:
        run.proof_ok = False
    return run.finish(rule=RULE, extra_cov={"exhaustive": True}, assumptions=[
        "PARTIAL on 'no library thread is left alive': proved as 'every handle is joined and cleared' in the model, observed "
        "as threading.enumerate() on the real interpreter",
        "the peer is the harness reference device (the simulated device's own residue after stop() is charged to C16)"])

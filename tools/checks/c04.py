"""C04 - stream samples decode to exactly the values the device put on the wire."""
import struct

from . import common
from . import stream_util as su

RULE = ("random layouts (1..8 channels, sometimes 128..255) over the 18 standard types + generated user NUM/CHAR/COMPLEX "
        "formats, vdim from {1,2,3,4,16,64,255} (0 for NONE), mlen from {0,1,2,3,4,5,8,16,255}; 0..6 samples per payload in "
        "random channel order; raw values: extremes, 0, +-1, 2^53+-1, random; floats: +-0, +-inf, NaNs, subnormals, max, "
        "random bit patterns (compared as bit patterns, all NaNs one class); char data: valid UTF-8 incl. NULs and 25% "
        "invalid byte strings; payloads built by an independent encoder (int.to_bytes), expected values stated directly "
        "(fixed-point: raw / 2**k as exact Fraction of the correctly rounded quotient); plus truncated payloads, unknown "
        "channel ids and unknown types (same exception class required); non-trivial = distinct payload with >= 1 sample")


def call(fn):
    try:
        return "ok " + fn()
    except struct.error:
        return "raise struct.error"
    except (AssertionError, KeyError, IndexError, ValueError, TypeError, UnicodeDecodeError, AttributeError) as e:
        return "raise " + type(e).__name__


def cases(run):
    from nxslib.proto.iframe import DParseFrame, EParseId
    from nxslib.proto.parse import Parser
    rng = common.Rng(run.seed)
    out = []
    nlay = 60 if not run.thorough else 1200
    for li in range(nlay):
        user = su.gen_user_types(rng, rng.choice([0, 1, 2, 3]))
        chans = su.gen_layout(rng, user, big=(li % 15 == 14))
        dev = su.mk_device(chans)
        ps = Parser(user_types=su.mk_user_types(user))
        for _ in range(6 if not run.thorough else 10):
            k = rng.choice([0, 1, 1, 2, 3, 6])
            flags = rng.choice([0, 0, 1, 0x80, 0xFF])
            samples = [su.gen_sample(rng, cid, chans[cid], user)
                       for cid in (rng.randrange(len(chans)) for _ in range(k))]
            payload = bytes([flags]) + b"".join(bytes([s["chid"]]) + s["data"] + s["meta"] for s in samples)
            exp = "ok %d | %s" % (flags, " ; ".join(
                su.sample_str(s["chid"], s["kind"], chans[s["chid"]].vdim, chans[s["chid"]].mlen, s["exp"], s["mexp"])
                for s in samples))
            raws = [s["data"] for s in samples]
            fr = DParseFrame(EParseId.STREAM, payload)
            got = call(lambda: su.canon_decoded(ps.frame_stream_decode(fr, dev), chans, user, raws))
            types = sorted(set(chans[s["chid"]].typ for s in samples))
            out.append(dict(cmd="stream_decode %s %s %s" % (su.layout_arg(chans), su.user_arg(user), common.hexs(payload)),
                            impl=got, oracle=exp, kind="decode-%dsamples" % min(k, 3), key=("p", payload, tuple(types)),
                            nontrivial=k > 0, types=types))
            # malformed variants: truncated, unknown channel
            if k and rng.random() < 0.5:
                cut = payload[:rng.randrange(1, len(payload))]
                frc = DParseFrame(EParseId.STREAM, cut)
                nraw = raws
                gotc = call(lambda: su.canon_decoded(ps.frame_stream_decode(frc, dev), chans, user, nraw))
                out.append(dict(cmd="stream_decode %s %s %s" % (su.layout_arg(chans), su.user_arg(user), common.hexs(cut)),
                                impl=gotc, oracle=None, kind="decode-truncated", key=("t", cut, li)))
            if rng.random() < 0.15 and len(chans) < 255:
                bad = bytes([0, len(chans) + rng.randrange(0, 3)]) + rng.bytes(3)
                frb = DParseFrame(EParseId.STREAM, bad)
                gotb = call(lambda: su.canon_decoded(ps.frame_stream_decode(frb, dev), chans, user, []))
                out.append(dict(cmd="stream_decode %s %s %s" % (su.layout_arg(chans), su.user_arg(user), common.hexs(bad)),
                                impl=gotb, oracle=None, kind="decode-unknown-channel", key=("b", bad, li)))
    # unknown / undefined types
    for t in (0, 20, 31):
        chans = [su.Chan(t, 1, 0)]
        dev = su.mk_device(chans)
        fr = DParseFrame(EParseId.STREAM, b"\x00\x00\x01")
        got = call(lambda: su.canon_decoded(Parser().frame_stream_decode(fr, dev), chans, {}, []))
        out.append(dict(cmd="stream_decode %s - 000001" % su.layout_arg(chans), impl=got, oracle=None,
                        kind="decode-unknown-type", key=("u", t)))
    return out


def main(run):
    run.regen()
    run.prove(extra_targets=["proofs/Pinned_parse.vo", "proofs/Pinned_iparse.vo"])
    model_ok = run.build_model()
    run.run_findings()
    run.pylite(['stream_decode', 'tables'])
    if model_ok:
        cs = cases(run)
        tcount = {}
        for c in cs:
            for t in c.get("types", []):
                tcount[t] = tcount.get(t, 0) + 1
        run.cov["samples_per_channel_type"] = tcount
        for what, c, m in run.differential(cs):
            run.violation(what, {"call": c["cmd"][:4000], "implementation": c["impl"][:3000],
                                 "specification": (c.get("oracle") or "")[:3000], "model": m[:3000]})
    else:
        run.proof_ok = False
    return run.finish(rule=RULE, assumptions=[
        "CPython struct, int->float rounding and the UTF-8 codec are modelled (lib/PyStruct.v, lib/Rn53.v, lib/Utf8.v)",
        "fixed-point values are Python floats: 'raw / 2^k' is read as the correctly rounded double of the quotient, which "
        "equals the exact quotient whenever |raw| <= 2^53 (DESIGN.md C04)"])

"""C15 - what the simulated device streams decodes back to what its channels produced."""
import struct

from . import common
from . import stream_util as su
from harness import refcodec as rc

RULE = ("random layouts over all 18 standard types (fixed-point rows included) and generated user types, channel ids up to "
        "254 (128..255-channel layouts included), vdim {1,2,3,4,16,64,255}, mlen {0,1,2,3,4,5,8,16,255}; sample lists of "
        "0..6 samples incl. samples with neither data nor metadata; values representable in the channel's type (integers "
        "in range incl. extremes, float bit patterns, fixed-point raw words with |raw| <= 2^53 given as raw/2^k, text that "
        "fills the channel); the frame built by the real device-side encoder is compared with the independent encoding and "
        "the model, then decoded by the real client decoder and compared with the samples; fixed-point grids: every raw "
        "word of UB8/B8 in thorough")


def call(fn):
    try:
        return "ok " + fn()
    except struct.error:
        return "raise struct.error"
    except (AssertionError, KeyError, IndexError, ValueError, TypeError, OverflowError, UnicodeError, AttributeError) as e:
        return "raise " + type(e).__name__


def py_value(tok, typ):
    k, v = tok
    if k == "i":
        return v
    if k == "f":
        return struct.unpack("<f", v.to_bytes(4, "little"))[0]
    if k == "d":
        return struct.unpack("<d", v.to_bytes(8, "little"))[0]
    if k == "X":
        return v / (1 << su.FIX_T[typ][2])
    if k == "T":
        return v
    return v


def model_tok(tok):
    k, v = tok
    if k in ("i", "X"):
        return "%s%d" % (k, v)
    if k in ("f", "d"):
        return "%s%d" % (k, v)
    if k == "T":
        return "T" + ".".join(str(ord(c)) for c in v)
    return "B" + (bytes(v).hex())


def representable(s, ch, user):
    """keep only samples the property quantifies over"""
    for k, v in s["enc"]:
        if k == "X" and abs(v) > (1 << 53):
            return False
        if k == "f" and ((v >> 23) & 0xFF) == 255 and (v & 0x7FFFFF) and v != 0x7FC00000:
            return False
        if k == "d" and ((v >> 52) & 0x7FF) == 2047 and (v & ((1 << 52) - 1)) and v != 0x7FF8000000000000:
            return False
        if k == "B" and (ch.typ in (18, 19) or (ch.typ in user and user[ch.typ][1] == "CHAR")):
            return False     # invalid text cannot be a Python str
    return True


def cases(run):
    from nxslib.proto.iframe import EParseError
    from nxslib.proto.iparse import DParseStreamData
    from nxslib.proto.iparserecv import ParseRecvCb
    from nxslib.proto.parse import Parser
    from nxslib.proto.parserecv import ParseRecv
    from nxslib.proto.serialframe import SerialFrame
    rng = common.Rng(run.seed)
    sf = SerialFrame()
    out = []
    nlay = 60 if not run.thorough else 1000
    for li in range(nlay):
        user = su.gen_user_types(rng, rng.choice([0, 1, 2]), for_encode=True)
        chans = su.gen_layout(rng, user, big=(li % 10 == 9))
        dev = su.mk_device(chans)
        ut = su.mk_user_types(user)
        pr = ParseRecv(ParseRecvCb(*([lambda d: None] * 5)), SerialFrame, ut)
        ps = Parser(user_types=ut)
        for _ in range(6 if not run.thorough else 10):
            k = rng.choice([0, 1, 1, 2, 3, 6])
            samples = []
            for cid in (rng.randrange(len(chans)) for _ in range(k)):
                for _try in range(20):
                    s = su.gen_sample(rng, cid, chans[cid], user, allow_invalid_text=False, ints_on_float=True)
                    if representable(s, chans[cid], user):
                        samples.append(s)
                        break
            dsd, toks = [], []
            for i, s in enumerate(samples):
                if rng.random() < 0.15:
                    # a channel function that produced nothing this round: neither data nor metadata,
                    # whatever dimension / metadata length the channel declares
                    s = dict(s, enc=[], data=b"", meta=b"", exp=[], mexp=[], empty=True)
                    samples[i] = s
            for s in samples:
                ch = chans[s["chid"]]
                data = tuple(py_value(t, ch.typ) for t in s["enc"])
                if s.get("empty"):
                    meta = ()
                elif ch.mlen in (1, 2, 4, 8):
                    meta = (int.from_bytes(s["meta"], "little"),)
                else:
                    meta = tuple(s["meta"])
                dsd.append(DParseStreamData(s["chid"], ch.typ, ch.vdim, ch.mlen, data, meta))
                toks.append("%d:%d:%d:%d:%s:%s" % (s["chid"], ch.typ, ch.vdim, ch.mlen,
                                                    ",".join(model_tok(t) for t in s["enc"]) or "-",
                                                    ",".join(str(m) for m in meta) or "-"))
            kept = [s for s in samples if s["data"] or s["meta"]]
            if kept:
                payload = bytes([0]) + b"".join(bytes([s["chid"]]) + s["data"] + s["meta"] for s in kept)
                exp = "ok " + common.hexs(rc.wire(1, payload))
            else:
                exp = "ok none"

            def enc():
                r = pr.frame_stream_encode(dsd)
                return "none" if r is None else common.hexs(r)
            got = call(enc)
            types = sorted(set(chans[s["chid"]].typ for s in samples))
            out.append(dict(cmd="stream_encode %s %s" % (su.user_arg(user), ";".join(toks) or "-"), impl=got, oracle=exp,
                            kind="encode-%dkept" % min(len(kept), 3), key=("e", tuple(toks)), nontrivial=bool(kept),
                            types=types))
            if got.startswith("ok ") and got != "ok none":
                fr = sf.frame_decode(bytes.fromhex(got[3:]))
                if fr.err is not EParseError.NOERR:
                    out.append(dict(cmd="frame_decode " + got[3:], impl="err", oracle="ok", kind="roundtrip", key=("x", got)))
                    continue
                expd = "ok 0 | %s" % " ; ".join(
                    su.sample_str(s["chid"], s["kind"], chans[s["chid"]].vdim, chans[s["chid"]].mlen, s["exp"], s["mexp"])
                    for s in kept)
                raws = [s["data"] for s in kept]
                gotd = call(lambda: su.canon_decoded(ps.frame_stream_decode(fr, dev), chans, user, raws))
                out.append(dict(cmd="stream_decode %s %s %s" % (su.layout_arg(chans), su.user_arg(user), common.hexs(fr.data)),
                                impl=gotd, oracle=expd, kind="roundtrip-decode", key=("r", fr.data)))
    # fixed-point grids
    for typ in (12, 13):
        size, signed, kk = su.FIX_T[typ]
        lo, hi = (-(1 << 15), 1 << 15) if signed else (0, 1 << 16)
        raws = range(lo, hi) if run.thorough else list(range(lo, lo + 40)) + list(range(hi - 40, hi)) + [rng.randrange(lo, hi) for _ in range(200)]
        pr = ParseRecv(ParseRecvCb(*([lambda d: None] * 5)))
        for r in raws:
            payload = bytes([0, 3]) + r.to_bytes(2, "little", signed=signed)
            d = [DParseStreamData(3, typ, 1, 0, (r / (1 << kk),), ())]
            out.append(dict(cmd="stream_encode - 3:%d:1:0:X%d:-" % (typ, r),
                            impl=call(lambda: common.hexs(pr.frame_stream_encode(d))),
                            oracle="ok " + common.hexs(rc.wire(1, payload)), kind="fixed-grid", key=("g", typ, r)))
    return out


def main(run):
    run.regen()
    run.prove(extra_targets=["proofs/Pinned_parse.vo", "proofs/Pinned_parserecv.vo", "proofs/Pinned_iparse.vo"])
    model_ok = run.build_model()
    run.run_findings()
    run.pylite(['stream_encode', 'stream_decode', 'tables'])
    if model_ok:
        cs = cases(run)
        tcount = {}
        for c in cs:
            for t in c.get("types", []):
                tcount[t] = tcount.get(t, 0) + 1
        run.cov["samples_per_channel_type"] = tcount
        for what, c, m in run.differential(cs):
            run.violation(what, {"call": c["cmd"][:4000], "implementation": c["impl"][:3000],
                                 "specification": (c.get("oracle") or "")[:3000], "model": m[:3000]})
    else:
        run.proof_ok = False
    return run.finish(rule=RULE, extra_cov={"exhaustive": False}, assumptions=[
        "CPython float arithmetic is modelled: for a fixed-point value x = raw/2^k that is a double, round(x * 2^k) = raw "
        "(exact scaling by a power of two); struct's double->single conversion is exact on representable values"])

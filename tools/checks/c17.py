"""C17 - write padding only appends zeros and is invisible to the device."""
from . import common
from .dispatch_util import make_recv, impl_dispatch, spec_dispatch
from harness import refcodec as rc
from harness.link import ScriptedIntf

RULE = ("data_align for paddings 0..255 x data lengths (quick: 0..48 and 590..600, thorough: all 0..600, exhaustive); "
        "every request kind (start/stop, cmninfo, chinfo, enable/div in single/all/bulk form) x paddings through the real "
        "recv_handle with recording callbacks, padded vs unpadded; padding-only writes; non-trivial = distinct (padding, bytes) "
        "whose result is not the empty write")


def spec_align(p, d):
    if p == 0:
        return bytes(d)
    k = (p - len(d) % p) % p
    return bytes(d) + b"\x00" * k


def requests(rng):
    from nxslib.proto.parse import Parser
    ps = Parser()
    out = [ps.frame_start(True), ps.frame_start(False), ps.frame_cmninfo()]
    for ch in (0, 1, 127, 128, 254):
        out.append(ps.frame_chinfo(ch))
    for n in (1, 2, 3, 11, 255):
        out.append(ps.frame_enable((rng.randrange(n), True), n))
        out.append(ps.frame_enable([True] * n, n))
        out.append(ps.frame_enable([rng.random() < 0.5 for _ in range(n)], n))
        out.append(ps.frame_div((rng.randrange(n), rng.randrange(256)), n))
        out.append(ps.frame_div([7] * n, n))
        out.append(ps.frame_div([rng.randrange(256) for _ in range(n)], n))
    return out


def cases(run):
    rng = common.Rng(run.seed)
    out = []
    intf = ScriptedIntf([])
    lens = range(0, 601) if run.thorough else list(range(0, 49)) + list(range(590, 601))
    pads = range(0, 256) if run.thorough else list(range(0, 20)) + [31, 32, 33, 63, 64, 100, 127, 128, 129, 200, 254, 255]
    for p in pads:
        intf.write_padding = p
        for n in lens:
            d = bytes([1 + (n * 7 + p) % 255]) * n
            got = intf.data_align(d)
            out.append(dict(cmd="data_align %d %s" % (p, common.hexs(d)), impl=common.hexs(got),
                            oracle=common.hexs(spec_align(p, d)), kind="align", key=("a", p, n),
                            nontrivial=n > 0))
    # bytes handed to the interface-specific _write
    for p in (0, 1, 7, 16, 255):
        intf.write_padding = p
        for n in (0, 1, 6, 15, 16, 17, 300):
            d = rng.bytes(n)
            intf.write(d)
            out.append(dict(cmd="data_align %d %s" % (p, common.hexs(d)), impl=common.hexs(intf.writes[-1]),
                            oracle=common.hexs(spec_align(p, d)), kind="write", key=("w", p, d)))
    fired, pr = make_recv()
    reqs = requests(rng)
    rpads = range(0, 256) if run.thorough else (0, 1, 2, 3, 7, 8, 16, 64, 255)
    for r in reqs:
        base = spec_dispatch(r)
        for p in rpads:
            a = spec_align(p, r)
            out.append(dict(cmd="recv_dispatch " + common.hexs(a), impl=impl_dispatch(pr, fired, a),
                            oracle=base, kind="padded-request", key=("r", p, r)))
    for k in list(range(0, 40)) + [255, 256, 600]:
        z = b"\x00" * k
        out.append(dict(cmd="recv_dispatch " + common.hexs(z), impl=impl_dispatch(pr, fired, z),
                        oracle="none", kind="padding-only", key=("z", k), nontrivial=k > 0))
    return out


def main(run):
    run.regen()
    run.prove()
    model_ok = run.build_model()
    run.run_findings()
    run.pylite(["pad", "device_side"])
    if model_ok:
        for what, c, m in run.differential(cases(run)):
            run.violation(what, {"call": c["cmd"][:4000], "implementation": c["impl"][:4000],
                                 "specification": (c.get("oracle") or "")[:4000], "model": m[:4000]})
    else:
        run.proof_ok = False
    return run.finish(rule=RULE, extra_cov={"exhaustive": bool(run.thorough)}, assumptions=[
        "the requests exercised are those Parser builds; C17_invisible itself covers every frame frame_create can emit"])

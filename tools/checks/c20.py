"""C20 - custom frame codecs plug in without changing client or device-side behaviour."""
import itertools

from . import common
from harness import famcodec
from harness import refcodec as rc
from harness import refdev
from harness.link import ScriptedIntf

RULE = ("codecs drawn from the parameterised family (start byte, header length 3..8 with length/id fields at any position, "
        "1- or 2-byte length in either endianness, footer XOR / sum of 1..4 bytes / CRC-32; the footer is positional and "
        "frame_decode takes exactly one frame, as the interface allows): quick 12 members, thorough 150; per member (a) real "
        "reassembly (CommHandler._read_frame with Parser(frame=Codec)) over scripted links: back-to-back frames, noise, "
        "truncated and damaged frames under random read compositions and every composition of short streams, vs the member's "
        "reference scan; (b) every request built by Parser(frame=Codec), padded to 0/4/16, through "
        "ParseRecv(frame=Codec).recv_handle, vs the reference acceptance; (c) a full CommHandler session (connect, enable, "
        "divider, stream_start, burst of stream frames delivered coalesced, stream_stop) against the reference device speaking "
        "that codec; the built-in SerialFrame runs through the same three stages as the control")


def run_impl(codec_cls, chunks):
    from nxslib.comm import CommHandler
    from nxslib.proto.parse import Parser
    intf = ScriptedIntf(chunks, read_budget=30 * (len(chunks) + sum(len(c) for c in chunks)) + 80)
    comm = CommHandler(intf, Parser(frame=codec_cls))
    out = []
    try:
        while True:
            exhausted = not intf.chunks
            before = comm._prev_read
            fr = comm._read_frame()
            if fr is not None:
                out.append((int(fr.fid), bytes(fr.data)))
            elif exhausted and len(comm._prev_read) == len(before):
                break
    except ScriptedIntf.Spin:
        return "spin"
    except Exception as e:  # noqa: BLE001
        return "raise " + type(e).__name__
    return out


MODEL_CASES = []


def reasm_cases(run, rng, m, cls):
    streams = []
    frames = [m.wire(fid, rng.bytes(n)) for fid, n in ((2, 0), (1, 3), (4, 4), (6, 7), (1, 40))]
    streams.append(frames[0] + frames[1] + frames[2])
    streams.append(b"\x00\x13" + frames[3] + frames[1][:4] + frames[4] + bytes([m.sof]) + frames[0])
    bad = bytearray(frames[3])
    bad[-1] ^= 0x40
    streams.append(bytes(bad) + frames[2] + frames[2])
    streams.append(bytes([m.sof, m.sof, 0, 1]) + frames[1] + frames[1])
    for s in streams:
        exp = m.scan(s)[0]
        comps = [[s], [bytes([b]) for b in s]]
        for _ in range(6):
            k = rng.randrange(1, min(10, len(s)))
            cuts = sorted(rng.sample(range(1, len(s)), k))
            ch = [s[a:b] for a, b in zip([0] + cuts, cuts + [len(s)])]
            for _ in range(rng.randrange(0, 3)):
                ch.insert(rng.randrange(len(ch) + 1), b"")
            comps.append(ch)
        for ch in comps:
            got = run_impl(cls, list(ch))
            run.count("reassembly", (m.key(), s, tuple(ch)))
            if getattr(m, "foot_kind", None) in ("xor", "sum") and isinstance(got, list):
                MODEL_CASES.append(dict(cmd="fam_recv_all %s %s" % (m.arg(), ",".join(common.hexs(c) for c in ch)),
                                        impl=";".join("%d:%s" % (f, common.hexs(p)) for f, p in got) or "-",
                                        oracle=None, kind="model-reassembly", key=("mr", m.key(), tuple(ch))))
            if got != exp:
                run.violation("reassembly with codec %s differs from the reference scan" % m.arg(),
                              {"codec": m.arg(), "chunks": [c.hex() for c in ch], "implementation": repr(got)[:600],
                               "specification": repr(exp)[:600]})
                return False
    # every composition of one short stream
    s = frames[0] + frames[1]
    if len(s) <= 16:
        exp = m.scan(s)[0]
        for bits in itertools.product((0, 1), repeat=len(s) - 1):
            cuts = [i + 1 for i, b in enumerate(bits) if b]
            ch = [s[a:b] for a, b in zip([0] + cuts, cuts + [len(s)])]
            got = run_impl(cls, list(ch))
            run.count("reassembly-exhaustive", (m.key(), tuple(ch)))
            if got != exp:
                run.violation("reassembly with codec %s depends on the read composition" % m.arg(),
                              {"codec": m.arg(), "chunks": [c.hex() for c in ch], "implementation": repr(got)[:400],
                               "specification": repr(exp)[:400]})
                return False
    return True


def dispatch_cases(run, rng, m, cls):
    from nxslib.intf.iintf import CommInterfaceCommon
    from nxslib.proto.iparserecv import ParseRecvCb
    from nxslib.proto.parse import Parser
    from nxslib.proto.parserecv import ParseRecv
    fired = []
    cb = ParseRecvCb(*[(lambda name: (lambda d: fired.append((name, bytes(d)))))(n) for n in ("cmninfo", "chinfo", "enable", "div", "start")])
    pr = ParseRecv(cb, cls)
    ps = Parser(frame=cls)
    reqs = [("cmninfo", ps.frame_cmninfo(), b""), ("chinfo", ps.frame_chinfo(200), bytes([200])),
            ("start", ps.frame_start(True), b"\x01"), ("enable", ps.frame_enable((2, True), 5), bytes([0, 2, 1])),
            ("enable", ps.frame_enable([True, False, True], 3), bytes([1, 0, 1, 0, 1])),
            ("div", ps.frame_div((1, 200), 3), bytes([0, 1, 200])), ("div", ps.frame_div([7, 7, 7], 3), bytes([2, 0, 7]))]
    sent = []
    common_if = CommInterfaceCommon(lambda: b"", sent.append)
    for name, fr, payload in reqs:
        for pad in (0, 4, 16):
            common_if.write_padding = pad
            del sent[:]
            common_if.write(fr)
            del fired[:]
            try:
                pr.recv_handle(sent[0])
            except Exception as e:  # noqa: BLE001
                fired.append(("raise", type(e).__name__.encode()))
            run.count("dispatch", (m.key(), name, pad, fr))
            if fired != [(name, payload)]:
                run.violation("request %s (padding %d) with codec %s dispatched as %r" % (name, pad, m.arg(), fired),
                              {"codec": m.arg(), "request": fr.hex(), "padding": pad, "expected": [name, payload.hex()]})
                return False
    # damaged / runt input must not reach any callback: random strings, and headers that declare a length
    # shorter than header + footer (searched for a combination whose "footer" happens to validate)
    import itertools
    probes = [rng.bytes(rng.randrange(1, 12)) for _ in range(20)]
    for flen in (range(m.hdr_len, m.hdr_len + m.foot_len) if hasattr(m, "len_bytes") else ()):
        found = 0
        for fid in (2, 3, 5, 6, 7):
            for fill in itertools.product(range(0, 256, 5), repeat=max(0, min(2, m.hdr_len - 2 - m.len_bytes))):
                h = bytearray(m.hdr_len)
                h[0] = m.sof
                h[m.len_pos:m.len_pos + m.len_bytes] = flen.to_bytes(m.len_bytes, "big" if m.len_be else "little")
                h[m.id_pos] = fid
                free = [i for i in range(1, m.hdr_len) if i != m.id_pos and not (m.len_pos <= i < m.len_pos + m.len_bytes)]
                for i, v in zip(free, fill):
                    h[i] = v
                d = bytes(h)[:flen]
                body, tail = d[:flen - m.foot_len], d[flen - m.foot_len:]
                if flen - m.foot_len >= 0 and m.foot(body) == tail:
                    probes.append(bytes(h) + rng.bytes(3))
                    found += 1
                if found >= 3:
                    break
            if found >= 3:
                break
    for d in probes:
        del fired[:]
        try:
            pr.recv_handle(d)
        except Exception as e:  # noqa: BLE001
            fired.append(("raise", type(e).__name__.encode()))
        i = d.find(bytes([m.sof]))
        exp = m.accepts(d[i:]) if i >= 0 else None
        run.count("dispatch-damaged", (m.key(), d))
        if exp is None and fired:
            run.violation("bytes %s that are not an acceptable frame of codec %s reached a callback: %r" % (d.hex(), m.arg(), fired),
                          {"codec": m.arg(), "input": d.hex()})
            return False
    return True


class Coalesce:
    """wraps the reference device: everything queued is handed out in ONE read (as a serial port would)"""

    def __init__(self, dev):
        self.dev = dev

    def __getattr__(self, k):
        return getattr(self.dev, k)


def session_case(run, rng, m, cls):
    from nxslib.comm import CommHandler
    from nxslib.proto.parse import Parser
    refdev.install_fast_clock(0.02)
    chans = [dict(en=False, typ=7, vdim=1, div=0, mlen=0, name=b"a"), dict(en=False, typ=2, vdim=2, div=0, mlen=1, name=b"b")]
    dev = refdev.RefDevice(chans, flags=3, codec=m)
    orig_read = dev._read

    def coalesced():
        with dev.rxlock:
            if dev.rx:
                out = b"".join(dev.rx)
                dev.rx.clear()
                return out
        return orig_read()
    dev._read = coalesced
    dev._fread = coalesced
    comm = CommHandler(dev, Parser(frame=cls))
    try:
        fin, res = refdev.run_with_watchdog(comm.connect, 30)
        if not fin or isinstance(res, BaseException):
            return "connect: %r" % (res,)
        d = comm.dev
        desc = [(c.data._type, c.data.vdim, c.data.mlen, c.data.name) for c in (d.channel_get(i) for i in range(2))]
        if desc != [(7, 1, 0, "a"), (2, 2, 1, "b")]:
            return "device description %r" % (desc,)
        comm.ch_enable(0)
        comm.ch_divider(1, 200)
        comm.channels_write()
        if dev.en() != [True, False] or dev.div() != [0, 200]:
            return "device state after write: %r %r" % (dev.en(), dev.div())
        # start: the ACK and a burst of stream frames arrive coalesced in one read
        burst = [m.wire(rc.ID_STREAM, bytes([0, 0]) + v.to_bytes(4, "little")) for v in range(1, 7)]
        pol = dev.policy

        def policy(i, kind, payload):
            if kind == "start" and payload[0] == 1:
                for f in burst:
                    dev.push(f)        # queued before the ACK? no: pushed here, the ACK follows -> one coalesced read
            return pol(i, kind, payload)
        dev.policy = policy
        a = comm.stream_start()
        if a is None or a.state is not True:
            return "start ACK lost: %r" % (a,)
        vals = []
        for _ in range(8):
            sd = comm.stream_data()
            if sd:
                vals += [s.data[0] for s in sd.samples]
            if len(vals) >= 6:
                break
        if vals != [1, 2, 3, 4, 5, 6]:
            return "stream samples %r" % (vals,)
        return None
    finally:
        refdev.run_with_watchdog(comm.disconnect, 30)
        comm._thrd.stop_set()


def main(run):
    run.regen()
    run.prove()
    run.run_findings()
    run.pylite(["reassembly"])
    rng = common.Rng(run.seed)
    from nxslib.proto.serialframe import SerialFrame

    class SerialRef:
        sof, hdr_len, foot_len = 0x55, 4, 2
        wire = staticmethod(rc.wire)
        scan = staticmethod(rc.scan)

        def accepts(self, d):
            return rc.accepts(d)

        def key(self):
            return ("serial",)

        def arg(self):
            return "SerialFrame"
    ms = [(SerialRef(), SerialFrame)] + [(m, m.codec_class()) for m in famcodec.members(rng, 12 if not run.thorough else 150)]
    for m, cls in ms:
        run.sample({"codec": m.arg()}, limit=8)
        if not reasm_cases(run, rng, m, cls):
            break
        if not dispatch_cases(run, rng, m, cls):
            break
        r = session_case(run, rng, m, cls)
        run.count("session", (m.key(), "session"))
        if r:
            run.violation("session with codec %s: %s" % (m.arg(), r), {"codec": m.arg()})
            break
    if not run.concrete() and run.build_model():
        for what, c, mm in run.differential(MODEL_CASES):
            run.violation(what, {"call": c["cmd"][:3000], "implementation": c["impl"][:2000], "model": mm[:2000]})
    return run.finish(rule=RULE, assumptions=[
        "the family's codec classes are harness code; what is under test is that comm.py / parse.py / parserecv.py use only the "
        "interface (hdr_len, foot_len, hdr_find, hdr_decode, foot_validate, frame_decode, frame_create)",
        "the Coq development proves the reassembly/dispatch/request theorems for the built-in codec; their generalisation to an "
        "arbitrary lawful codec is stated as the codec laws in DESIGN.md and tied by this run (see C20 in DESIGN.md)"])

"""C08 - stream samples reach every subscriber exactly once and in device order."""
import queue
import threading
import time

from . import common
from harness import refcodec as rc
from harness import refdev

RULE = ("real NxscopeHandler (receive thread + stream thread) against the reference device, which sends scripted stream "
        "frames: 0..5 samples per frame over 3 channels (one never enabled), overflow flag on/off, frames with the flags byte "
        "only; 1..3 queues per channel subscribed / unsubscribed at random points between frames; the final content of "
        "every queue is compared with the Coq model (sequential scripts); concurrent variant: bursts of frames while another "
        "thread subscribes/unsubscribes under a 10 us switch interval, judged by the monitor (each queue holds a gap-free, "
        "duplicate-free, in-order run of its channel's groups, nothing foreign); non-trivial = distinct script with >= 1 "
        "delivered group")

N = 3
EN = [True, True, False]


def frame(flags, samples):
    p = bytes([flags])
    for c, v in samples:
        p += bytes([c]) + int(v).to_bytes(4, "little", signed=True)
    return rc.wire(rc.ID_STREAM, p)


def setup(scale=0.01, en=None, pre=False):
    """en: the channels enabled in the client's view when the stream starts; pre: they are already enabled on the
    device when the client connects (a previous session left them so) instead of being enabled by this client"""
    from nxslib.nxscope import NxscopeHandler
    from nxslib.proto.parse import Parser
    en = EN if en is None else en
    refdev.install_fast_clock(scale)
    chans = refdev.simple_chans(N, typ=7, vdim=1)
    chans[1]["typ"] = 0x87          # the same data type with the "critical" flag set in the type byte
    if pre:
        for i in range(N):
            chans[i]["en"] = bool(en[i])
    dev = refdev.RefDevice(chans, flags=3)
    nx = NxscopeHandler(dev, Parser())
    fin, res = refdev.run_with_watchdog(nx.connect, 20)
    assert fin and not isinstance(res, BaseException), res
    if not pre:
        nx.ch_enable([i for i in range(N) if en[i]])
    nx.stream_start()
    return nx, dev


EN_PATTERNS = [[True, True, False], [False, True, True], [True, False, True], [True, True, True], [False, False, True],
               [True, False, False]]


def teardown(nx):
    refdev.run_with_watchdog(nx.disconnect, 20)
    nx._thrd.stop_set()
    nx._comm._thrd.stop_set()


def settle(nx, dev):
    t0 = time.time()
    while time.time() - t0 < 2.0:
        with dev.rxlock:
            pending = len(dev.rx)
        if not pending and nx._comm._q_stream.empty():
            break
        if not nx._thrd.thread_is_alive():
            break                    # the stream thread died: nothing will ever settle
        time.sleep(0.0005)
    time.sleep(0.004)


def content(q):
    groups = []
    while True:
        try:
            g = q.get_nowait()
        except queue.Empty:
            break
        groups.append(",".join(str(s.data[0]) for s in g))
    return "|".join(groups) or "-"


def gen_script(rng, length):
    script, live, nextq = [], [], 0
    val = 0
    for _ in range(length):
        k = rng.random()
        if k < 0.22 and nextq < 8:
            c = rng.randrange(N)
            script.append("S:%d:%d" % (c, nextq))
            live.append(nextq)
            nextq += 1
        elif k < 0.32 and live:
            q = live.pop(rng.randrange(len(live)))
            script.append("U:%d" % q)
        elif k < 0.42:
            # a buffered enable / disable that is NOT written: must not change what is delivered
            script.append("B:%d:%d" % (rng.randrange(N), rng.randrange(2)))
        else:
            ns = rng.choice([0, 0, 1, 2, 3, 5])
            samples = []
            for _ in range(ns):
                val += 1
                samples.append((rng.randrange(N), val))
            script.append("F:%d:%s" % (rng.choice([0, 0, 1]), "+".join("%d.%d" % s for s in samples)))
    return script


def run_script(script, en=None, pre=False):
    nx, dev = setup(en=en, pre=pre)
    qs = {}
    try:
        for it in script:
            p = it.split(":")
            if p[0] == "S":
                qs[int(p[2])] = nx.stream_sub(int(p[1]))
            elif p[0] == "U":
                nx.stream_unsub(qs[int(p[1])])
            elif p[0] == "B":
                (nx.ch_enable if p[2] == "1" else nx.ch_disable)(int(p[1]))
            else:
                samples = [tuple(int(x) for x in s.split(".")) for s in p[2].split("+")] if p[2] else []
                dev.push(frame(int(p[1]), samples))
                settle(nx, dev)
                if not nx._thrd.thread_is_alive():
                    break
        alive = nx._thrd.thread_is_alive()
        out = " ".join("q%d=%s" % (q, content(qs[q]) if q in qs else "-") for q in range(8))
        if not alive:
            out += " stream-thread-dead"
        return out
    finally:
        teardown(nx)


def concurrent(run, rng):
    """bursts while another thread subscribes / unsubscribes; judged by the monitor"""
    import sys
    nx, dev = setup()
    old = sys.getswitchinterval()
    sys.setswitchinterval(1e-5)
    subs = []          # (chan, queue)
    stop = threading.Event()
    lock = threading.Lock()

    def churn():
        r = common.Rng(rng.randrange(1 << 30))
        while not stop.is_set():
            c = r.randrange(2)
            q = nx.stream_sub(c)
            with lock:
                subs.append((c, q))
            time.sleep(r.choice([0, 0.0002, 0.001]))
            if r.random() < 0.4:
                with lock:
                    if subs:
                        cq = subs[r.randrange(len(subs))]
                nx.stream_unsub(cq[1])
    t = threading.Thread(target=churn, daemon=True)
    try:
        first = [(c, nx.stream_sub(c)) for c in (0, 1, 0)]
        t.start()
        counters = [0, 0, 0]
        sent = {0: [], 1: []}
        for burst in range(30):
            for _ in range(rng.randrange(1, 6)):
                samples = []
                for _ in range(rng.choice([0, 1, 2, 4])):
                    c = rng.randrange(N)
                    counters[c] += 1
                    samples.append((c, counters[c]))
                for c in (0, 1):
                    g = [v for cc, v in samples if cc == c]
                    if g:
                        sent[c].append(g)
                dev.push(frame(rng.choice([0, 1]), samples))
            time.sleep(rng.choice([0, 0.001, 0.003]))
        settle(nx, dev)
        stop.set()
        t.join(2)
        settle(nx, dev)
        bad = None
        if not nx._thrd.thread_is_alive():
            bad = "stream thread died"
        with lock:
            allq = first + list(subs)
        for c, q in allq:
            got = []
            while True:
                try:
                    got.append([s.data[0] for s in q.get_nowait()])
                except queue.Empty:
                    break
            run.count("concurrent-queue", ("cq", id(q)), nontrivial=bool(got))
            # must be a contiguous run of sent[c]
            if got:
                try:
                    i = sent[c].index(got[0])
                except ValueError:
                    bad = "queue of channel %d holds a group the device never sent for it: %r" % (c, got[0])
                    break
                if sent[c][i:i + len(got)] != got:
                    bad = "queue of channel %d is not a gap-free in-order run: got %r expected %r" % (
                        c, got[:6], sent[c][i:i + 6])
                    break
        for c, q in first:
            pass
        if bad:
            run.violation(bad, {"scenario": "concurrent bursts with subscribe/unsubscribe churn"})
        # the three queues subscribed before the first frame must hold everything
    finally:
        stop.set()
        sys.setswitchinterval(old)
        teardown(nx)


def enable_while_streaming(run, rng):
    """a channel is enabled (written at once) while the stream runs; the device applies the request, sends
    samples of that channel straight away and acknowledges a little later: the subscriber must get every
    sample the device sent for the channel, from the first one on"""
    import sys
    from nxslib.nxscope import NxscopeHandler
    from nxslib.proto.parse import Parser
    refdev.install_fast_clock(0.02)

    class Dev(refdev.RefDevice):
        burst = 0

        def _request(self, fid, payload):
            before = self.en()
            super()._request(fid, payload)
            after = self.en()
            if fid == rc.ID_ENABLE and after != before:
                for c in range(len(after)):
                    if after[c] and not before[c]:
                        for k in range(1, 6):
                            Dev.burst += 1
                            self.push(frame(0, [(c, 1000 * Dev.burst + k), (c, 1000 * Dev.burst + k + 500)]))
                            self.sent.setdefault(c, []).append([1000 * Dev.burst + k, 1000 * Dev.burst + k + 500])

    chans = refdev.simple_chans(N, typ=7, vdim=1)
    dev = Dev(chans, flags=3, ack_delay=0.006)
    dev.sent = {}
    nx = NxscopeHandler(dev, Parser())
    old = sys.getswitchinterval()
    sys.setswitchinterval(1e-5)
    try:
        fin, res = refdev.run_with_watchdog(nx.connect, 20)
        assert fin and not isinstance(res, BaseException), res
        nx.stream_start()
        qs = {c: nx.stream_sub(c) for c in range(N)}
        order = list(range(N))
        rng.shuffle(order)
        for c in order:
            fin, res = refdev.run_with_watchdog(lambda c=c: nx.ch_enable(c, writenow=True), 10)
            if not fin or isinstance(res, BaseException):
                run.violation("ch_enable(%d, writenow=True) while streaming: %r" % (c, res if fin else "did not return"),
                              {"scenario": "enable while streaming with a delayed ACK"})
                return
            time.sleep(0.002)
        settle(nx, dev)
        for c in range(N):
            got = []
            while True:
                try:
                    got.append([s.data[0] for s in qs[c].get_nowait()])
                except queue.Empty:
                    break
            run.count("enable-while-streaming", ("ews", c, len(got)), nontrivial=bool(got))
            if got != dev.sent.get(c, []):
                run.violation("channel %d enabled while streaming (ACK after the first samples): the subscriber got %r, "
                              "the device sent %r since it applied the request" % (c, got[:4], dev.sent.get(c, [])[:4]),
                              {"scenario": "enable while streaming with a delayed ACK", "channel": c})
                return
    finally:
        sys.setswitchinterval(old)
        teardown(nx)


def main(run):
    run.regen()
    run.prove()
    model_ok = run.build_model()
    run.run_findings()
    rng = common.Rng(run.seed)
    if model_ok:
        cases = []
        dead = 0
        for _ in range(25 if not run.thorough else 250):
            script = gen_script(rng, rng.randrange(4, 26))
            en = rng.choice(EN_PATTERNS)
            pre = rng.random() < 0.3
            got = run_script(script, en, pre)
            dead += got.endswith("stream-thread-dead")
            if dead > 3:
                break                # enough evidence; every further case would only wait for a dead thread
            cases.append(dict(cmd="deliver %s %s" % ("".join("1" if e else "0" for e in en), ";".join(script)), impl=got,
                              oracle=None, kind="script-pre" if pre else "script", key=(tuple(script), tuple(en), pre), nontrivial="|" in got or "," in got,
                              rerun=(lambda s=script, en=en, pre=pre: run_script(s, en, pre))))
        for what, c, m in run.differential(cases):
            run.violation(what, {"call": c["cmd"][:4000], "implementation": c["impl"][:3000], "model": m[:3000]})
        if not run.concrete():
            for _ in range(2 if not run.thorough else 15):
                concurrent(run, rng)
                if run.concrete():
                    break
            for _ in range(2 if not run.thorough else 12):
                if run.concrete():
                    break
                enable_while_streaming(run, rng)
        # pl14: the C08_*_src theorems are about the interpreted _recv_thread / stream_data / _stream_thread:
        # PyLite's reading of these methods against CPython (scripted link, stub queues, and real queue.Queue handles)
        if not run.concrete():
            run.pylite(["recvpath", "streamthread"])
    else:
        run.proof_ok = False
    return run.finish(rule=RULE, assumptions=[
        "queue.Queue is FIFO and put/get are atomic (primitives); 'eventually' is proved as termination of drain under "
        "fairness of the two library threads, the OS scheduler's fairness is assumed",
        "enable changes while a stream runs: one scenario (enable with immediate write, samples before the delayed ACK); the rest belongs to C07/C12"])

"""Case generators for the PyLite correspondence: the interpreter (extracted
from Coq) runs the abstract syntax regenerated from /repo, CPython runs the
real functions, on the same arguments.  A group is a function
(rng, n, ctx) -> list of (command, implementation result, label).

A disagreement means that PyLite's semantics (or the translator) misrepresents
what CPython does with this source: the tie between the theorems about
`call_method program ...` and the code is broken.
"""
import copy
import threading

from harness import pyl
from harness import prelude_py
from harness.prelude_py import RecCb


class Ctx:
    def __init__(self, drv):
        from nxslib.proto.serialframe import SerialFrame
        from nxslib.proto.parse import Parser
        self.drv = drv
        self.sf = SerialFrame()
        self.pa = Parser()
        self.sf_sx = drv.new("SerialFrame")
        self.pa_sx = drv.new("Parser")

    def pr_sx(self, pr):
        # the codec object holds a C-extension CRC function: take the interpreter's own construction of it
        return pyl.RawSx("(o ParseRecv (_recv_cb %s) (_frame %s) (_user_types %s))" % (
            pyl.sx(pr._recv_cb), self.sf_sx.text, pyl.sx(pr._user_types)))


def rb(rng, n):
    return bytes(rng.randrange(256) for _ in range(n))


def call(self_sx, obj, m, args, label=None, fuel=12):
    return (pyl.call_cmd(self_sx, m, args, fuel=fuel),
            pyl.impl_result(getattr(obj, m), *copy.deepcopy(args)), label or m)


def nolock(dev):
    d = copy.copy(dev)
    d.__dict__.pop("_channels_lock", None)
    return d


def relock(dev):
    d = copy.deepcopy(nolock(dev))
    d._channels_lock = threading.Lock()
    return d


def chan_args(rng, i):
    return [i, rng.randrange(0, 256), rng.randrange(0, 5), rng.choice(["", "ch%d" % i, "żółw", None]),
            rng.choice([True, False, 0, 1]), rng.randrange(0, 256), rng.randrange(0, 9)]


def mkdev(rng, n, flags=3):
    from nxslib.dev import Device, DeviceChannel
    return Device(n, flags, rng.randrange(0, 8), [DeviceChannel(*chan_args(rng, k)) for k in range(n)])


# ---------------------------------------------------------------- groups

def g_frame(rng, n, ctx):
    """SerialFrame: create / decode / header / footer."""
    from nxslib.proto.iframe import EParseId
    out = []
    sf, sx = ctx.sf, ctx.sf_sx
    for _ in range(n):
        fid = rng.choice([0, 1, 2, 3, 4, 5, 6, 7, 8, 9, 255, 256, -1])
        data = rng.choice([None, b"", rb(rng, rng.randrange(1, 20))])
        out.append(call(sx, sf, "frame_create", [fid, data]))
        out.append(call(sx, sf, "frame_create", [rng.choice(list(EParseId)), data]))
        fr = sf.frame_create(rng.randrange(0, 9), rb(rng, rng.randrange(0, 12)))
        mut = bytearray(fr)
        if rng.random() < 0.5:
            mut[rng.randrange(len(mut))] ^= 1 << rng.randrange(8)
        junk = rb(rng, rng.randrange(0, 4))
        out.append(call(sx, sf, "frame_decode", [bytes(mut)]))
        out.append(call(sx, sf, "frame_decode", [bytes(mut) + junk]))
        out.append(call(sx, sf, "frame_decode", [bytes(mut)[:rng.randrange(0, len(mut))]]))
        out.append(call(sx, sf, "hdr_decode", [bytes(mut)[:rng.randrange(0, 6)]]))
        out.append(call(sx, sf, "hdr_find", [junk + bytes(mut)]))
        out.append(call(sx, sf, "foot_validate", [bytes(mut)]))
    out.append(call(sx, sf, "hdr_decode", [None]))
    out.append(call(sx, sf, "frame_create", [5, rb(rng, 65529)]))
    out.append(call(sx, sf, "frame_create", [5, rb(rng, 65530)]))
    return out


def g_requests(rng, n, ctx):
    """Parser: request builders."""
    out = []
    pa, sx = ctx.pa, ctx.pa_sx
    for _ in range(n):
        chmax = rng.randrange(0, 8)
        out.append(call(sx, pa, "frame_start", [rng.choice([True, False, 0, 1, 2])]))
        out.append(call(sx, pa, "frame_cmninfo", []))
        out.append(call(sx, pa, "frame_chinfo", [rng.choice([0, 1, 255, 256, -1, 7])]))
        en = rng.choice([(rng.randrange(0, 300), rng.choice([True, False])),
                         [rng.choice([True, False]) for _ in range(chmax)],
                         [rng.choice([True, False]) for _ in range(rng.randrange(0, 9))],
                         [True] * chmax, [False] * chmax, [rng.choice([0, 1, True]) for _ in range(chmax)]])
        out.append(call(sx, pa, "frame_enable", [en, chmax]))
        dv = rng.choice([(rng.randrange(0, 300), rng.randrange(0, 300)),
                         [rng.randrange(0, 256) for _ in range(chmax)],
                         [rng.randrange(0, 300) for _ in range(rng.randrange(0, 9))],
                         [5] * chmax])
        out.append(call(sx, pa, "frame_div", [dv, chmax]))
    return out


def g_info_decode(rng, n, ctx):
    """Parser: cmninfo / chinfo / ack decoders and frame classifiers."""
    from nxslib.proto.iframe import EParseId, DParseFrame
    out = []
    pa, sx = ctx.pa, ctx.pa_sx
    for _ in range(n):
        fid = rng.choice(list(EParseId))
        fr = DParseFrame(fid=fid, data=rb(rng, rng.randrange(0, 12)))
        out.append(call(sx, pa, "frame_cmninfo_decode", [fr]))
        out.append(call(sx, pa, "frame_cmninfo_decode", [DParseFrame(fid=EParseId.CMNINFO, data=rb(rng, rng.choice([0, 2, 3, 3, 4])))]))
        out.append(call(sx, pa, "frame_ack_decode", [DParseFrame(fid=EParseId.ACK, data=rb(rng, rng.choice([0, 3, 4, 4, 4, 5])))]))
        out.append(call(sx, pa, "frame_ack_decode", [DParseFrame(fid=EParseId.ACK, data=bytes(4))]))
        out.append(call(sx, pa, "frame_ack_decode", [fr]))
        out.append(call(sx, pa, "frame_is_ack", [fr]))
        out.append(call(sx, pa, "frame_is_stream", [fr]))
        name = rng.choice([b"", b"abc", "żółw".encode(), b"ab\x00cd", b"\xff\xfe", b"x" * 40])
        body = bytes([rng.randrange(256) for _ in range(5)]) + name + bytes(rng.randrange(0, 3))
        out.append(call(sx, pa, "frame_chinfo_decode", [DParseFrame(fid=EParseId.CHINFO, data=body), rng.randrange(0, 256)]))
        out.append(call(sx, pa, "frame_chinfo_decode", [DParseFrame(fid=EParseId.CHINFO, data=body[:rng.randrange(0, 6)]), 0]))
        out.append(call(sx, pa, "frame_chinfo_decode", [fr, 1]))
    out.append(call(sx, pa, "frame_cmninfo_decode", [None]))
    out.append(call(sx, pa, "frame_ack_decode", [None]))
    return out


def g_tables(rng, n, ctx):
    """iparse: msfmt_get / dsfmt_get."""
    from nxslib.proto import iparse
    out = []
    for m in list(range(0, 12)) + [255, 256]:
        out.append((pyl.fn_cmd("msfmt_get", [m]), pyl.impl_result(iparse.msfmt_get, m), "msfmt_get"))
    ut = {20: iparse.DsfmtItem(1, "BB", None, iparse.EParseDataType.COMPLEX, (iparse.EParseDataType.NUM,), True),
          21: iparse.DsfmtItem(2, "H", None, iparse.EParseDataType.NUM, None, True),
          22: iparse.DsfmtItem(1, "B", 1, iparse.EParseDataType.NUM, None, True),
          23: iparse.DsfmtItem(1, "B", None, iparse.EParseDataType.NUM, None, False),
          24: iparse.DsfmtItem(1, "BB", None, iparse.EParseDataType.COMPLEX, None, True)}
    for t in range(0, 34):
        out.append((pyl.fn_cmd("dsfmt_get", [t]), pyl.impl_result(iparse.dsfmt_get, t), "dsfmt_get"))
        out.append((pyl.fn_cmd("dsfmt_get", [t, ut]), pyl.impl_result(iparse.dsfmt_get, t, ut), "dsfmt_get(user)"))
    return out


def g_records(rng, n, ctx):
    """dev.py: constructors, derived attributes, __setattr__ discipline, Device accessors."""
    from nxslib.dev import DeviceChannel, DDeviceChannelData, DDeviceData
    out = []
    names = ["chan", "_type", "vdim", "name", "en", "div", "mlen", "dtype", "type_res", "critical",
             "is_valid", "is_numerical", "_initdone", "foo", "x"]
    for i in range(n):
        a = chan_args(rng, i % 7)
        out.append(("new 12 DeviceChannel (%s)" % " ".join(pyl.sx(x) for x in a),
                    pyl.impl_result(lambda: DeviceChannel(*a)), "DeviceChannel()"))
        a2 = a[:4]
        out.append(("new 12 DDeviceChannelData (%s)" % " ".join(pyl.sx(x) for x in a2),
                    pyl.impl_result(lambda: DDeviceChannelData(*a2)), "DDeviceChannelData()"))
        d = DDeviceChannelData(*a2)
        nm = rng.choice(names)
        val = rng.choice([0, 1, True, False, 7, "s", None, 255])
        out.append((pyl.fn_cmd("set_attr", [d, nm, val]),
                    pyl.impl_result(prelude_py.set_attr, copy.deepcopy(d), nm, val), "setattr(channel)"))
        dd = DDeviceData(rng.randrange(0, 256), rng.randrange(0, 256), rng.randrange(0, 256))
        dn = rng.choice(["chmax", "flags", "rxpadding", "div_supported", "ack_supported", "zz"])
        out.append((pyl.fn_cmd("set_attr", [dd, dn, val]),
                    pyl.impl_result(prelude_py.set_attr, copy.deepcopy(dd), dn, val), "setattr(device)"))
        ch = DeviceChannel(*chan_args(rng, i % 7))
        at = ["dtype", "critical", "is_numerical", "is_valid", "type_res", "en", "div"]
        out.append((pyl.fn_cmd("get_attrs", [ch.data, at]), pyl.impl_result(prelude_py.get_attrs, ch.data, at), "derived"))
        ddn = ["div_supported", "ack_supported", "chmax"]
        out.append((pyl.fn_cmd("get_attrs", [dd, ddn]), pyl.impl_result(prelude_py.get_attrs, dd, ddn), "derived(device)"))
    for i in range(max(4, n // 3)):
        k = rng.randrange(0, 6)
        dev = mkdev(rng, k)
        dsx = pyl.RawSx(pyl.sx(nolock(dev)))

        def runm(m, *args):
            d2 = relock(dev)
            r = getattr(d2, m)(*args)
            return [r, nolock(d2)]

        for m, args in [("channel_get", [rng.randrange(-2, 7)]),
                        ("div_channels_update", [[rng.randrange(0, 256) for _ in range(rng.choice([k, k, k + 1]))]]),
                        ("en_channels_update", [[rng.choice([True, False]) for _ in range(rng.choice([k, k, max(k - 1, 0)]))]])]:
            try:
                r = runm(m, *args)
                impl = "ok " + pyl.sx(r[0]) + " " + pyl.sx(r[1])
            except Exception as e:  # noqa: BLE001
                impl = "exc " + pyl.exc_name(e)
            out.append((pyl.call_cmd(dsx, m, args), impl, "Device." + m + "+state"))
        an = ["channels_en", "channels_div"]
        out.append((pyl.fn_cmd("get_attrs", [dsx, an]), pyl.impl_result(prelude_py.get_attrs, relock(dev), an), "Device.channels_*"))
    return out


def g_device_side(rng, n, ctx):
    """ParseRecv: dispatcher (with recording callbacks), request decoders, info / ack encoders."""
    from nxslib.proto.parserecv import ParseRecv
    out = []
    sf = ctx.sf
    pr = ParseRecv(RecCb())
    prsx = ctx.pr_sx(pr)

    def full(m, args):
        o = ParseRecv(RecCb())
        try:
            r = getattr(o, m)(*copy.deepcopy(args))
        except Exception as e:  # noqa: BLE001
            return "exc " + pyl.exc_name(e)
        return "ok " + pyl.sx(r) + " " + ctx.pr_sx(o).text

    for _ in range(2 * n):
        fid = rng.choice([2, 3, 5, 6, 7, 1, 4, 0, 8])
        pay = rb(rng, rng.choice([0, 0, 1, 1, 2, 3, 5]))
        fr = sf.frame_create(fid, pay)
        mut = bytearray(fr)
        if rng.random() < 0.3:
            mut[rng.randrange(len(mut))] ^= 1 << rng.randrange(8)
        data = rb(rng, rng.choice([0, 0, 1, 3])) + bytes(mut) + rb(rng, rng.choice([0, 0, 2]))
        if rng.random() < 0.1:
            data = data[:rng.randrange(0, len(data))]
        out.append((pyl.call_cmd(prsx, "recv_handle", [data]), full("recv_handle", [data]), "recv_handle+callbacks"))
    out.append((pyl.call_cmd(prsx, "recv_handle", [None]), full("recv_handle", [None]), "recv_handle+callbacks"))
    for _ in range(n):
        k = rng.randrange(0, 6)
        dev = mkdev(rng, k)
        dsx = pyl.RawSx(pyl.sx(nolock(dev)))

        def devrun(m, data):
            return getattr(pr, m)(data, relock(dev))

        fl = rng.choice([0, 1, 2, 3])
        data = bytes([fl, rng.randrange(0, 7)]) + rb(rng, rng.choice([0, 1, k, k, k + 1]))
        out.append((pyl.call_cmd(prsx, "frame_enable_decode", [data, dsx]), pyl.impl_result(devrun, "frame_enable_decode", data), "frame_enable_decode"))
        out.append((pyl.call_cmd(prsx, "frame_div_decode", [data, dsx]), pyl.impl_result(devrun, "frame_div_decode", data), "frame_div_decode"))
        out.append((pyl.call_cmd(prsx, "frame_start_decode", [data]), pyl.impl_result(pr.frame_start_decode, data), "frame_start_decode"))
        out.append((pyl.call_cmd(prsx, "frame_cmninfo_encode", [dsx]), pyl.impl_result(pr.frame_cmninfo_encode, dev), "frame_cmninfo_encode"))
        if k:
            ch = dev.channel_get(rng.randrange(k))
            out.append((pyl.call_cmd(prsx, "frame_chinfo_encode", [pyl.RawSx(pyl.sx(ch))]), pyl.impl_result(pr.frame_chinfo_encode, ch), "frame_chinfo_encode"))
            frm = sf.frame_decode(pr.frame_chinfo_encode(ch))
            out.append(call(ctx.pa_sx, ctx.pa, "frame_chinfo_decode", [frm, ch.data.chan], "chinfo encode->decode"))
        ack = rng.choice([0, 1, -1, 2 ** 31 - 1, -2 ** 31, 2 ** 31, 77])
        out.append((pyl.call_cmd(prsx, "frame_ack_encode", [ack]), pyl.impl_result(pr.frame_ack_encode, ack), "frame_ack_encode"))
    return out


STREAM_TYPES = [1, 2, 3, 4, 5, 6, 7, 8, 9, 12, 13, 14, 15, 16, 17, 18, 19, 10, 11]


def mkstream_dev(rng, n, types=STREAM_TYPES):
    from nxslib.dev import Device, DeviceChannel
    chans = []
    for k in range(n):
        chans.append(DeviceChannel(chan=k, _type=rng.choice(types), vdim=rng.randrange(0, 4), name="c", en=True,
                                   div=0, mlen=rng.choice([0, 0, 1, 2, 3, 4, 8])))
    return Device(n, 3, 0, chans)


def g_stream_decode(rng, n, ctx):
    """Parser.frame_stream_decode over random layouts and payloads (valid, truncated, unknown channel)."""
    from nxslib.proto import iparse
    from nxslib.proto.iframe import EParseId, DParseFrame
    out = []
    pa, sx = ctx.pa, ctx.pa_sx
    for _ in range(n):
        k = rng.randrange(1, 5)
        dev = mkstream_dev(rng, k)
        dsx = pyl.RawSx(pyl.sx(nolock(dev)))
        payload = bytes([rng.choice([0, 1])])
        for _ in range(rng.randrange(0, 4)):
            c = dev.channel_get(rng.randrange(k))
            it = iparse.dsfmt_get(c.data.dtype)
            body = rb(rng, it.slen * c.data.vdim)
            if c.data.dtype in (18, 19) and rng.random() < 0.8:
                body = bytes(rng.choice(b"abcxyz \x00") for _ in range(len(body)))
            payload += bytes([c.data.chan]) + body + rb(rng, c.data.mlen)
        r = rng.random()
        if r < 0.15:
            payload = payload[:-1]
        elif r < 0.2:
            payload += bytes([k + 1])
        frm = DParseFrame(fid=rng.choice([EParseId.STREAM] * 9 + [EParseId.ACK]), data=payload)

        def dec(frm):
            return pa.frame_stream_decode(frm, relock(dev))

        out.append((pyl.call_cmd(sx, "frame_stream_decode", [frm, dsx], fuel=40), pyl.impl_result(dec, frm), "frame_stream_decode"))
    return out


def g_stream_encode(rng, n, ctx):
    """ParseRecv.frame_stream_encode (integers, fixed point by exact values, text, none)."""
    from nxslib.proto.parserecv import ParseRecv
    from nxslib.proto.iparse import DParseStreamData
    from nxslib.proto import iparse
    out = []
    pr = ParseRecv(RecCb())
    prsx = ctx.pr_sx(pr)
    rng_int = {2: (0, 255), 3: (-128, 127), 4: (0, 65535), 5: (-32768, 32767), 6: (0, 2 ** 32 - 1),
               7: (-2 ** 31, 2 ** 31 - 1), 8: (0, 2 ** 64 - 1), 9: (-2 ** 63, 2 ** 63 - 1)}
    fixed = {12: (8, 0, 65535), 13: (8, -32768, 32767), 14: (16, 0, 2 ** 32 - 1), 15: (16, -2 ** 31, 2 ** 31 - 1),
             16: (32, 0, 2 ** 53), 17: (32, -2 ** 53, 2 ** 53)}
    for _ in range(n):
        samples = []
        for _ in range(rng.randrange(0, 4)):
            t = rng.choice([1, 2, 3, 4, 5, 6, 7, 8, 9, 12, 13, 14, 15, 16, 17, 18, 10, 11])
            vdim = rng.randrange(0, 4)
            mlen = rng.choice([0, 0, 1, 2, 4, 8, 3])
            if t in rng_int:
                lo, hi = rng_int[t]
                data = tuple(rng.choice([lo, hi, rng.randint(lo, hi), hi + 1 if rng.random() < 0.05 else 0]) for _ in range(vdim))
            elif t in fixed:
                kbits, lo, hi = fixed[t]
                data = tuple(rng.choice([lo, hi, rng.randint(lo, hi)]) / 2 ** kbits for _ in range(vdim))
            elif t in (10, 11):
                # FLOAT / DOUBLE: floats (any finite double; 'f' rounds to single) and, as the simulated
                # device's counters do, plain integers
                data = tuple(rng.choice([0.5, 1.0, -2.75, 1e-3, 3.141592653589793, 1e10, -1e-30, 5e-324, 1.5e38,
                                         rng.randrange(-1000, 1000) / 8, rng.randrange(-1000, 1000),
                                         (1 << 60) + (1 << 36) + 1, rng.random()]) for _ in range(vdim))
            elif t == 18:
                data = ("".join(rng.choice("abcż ") for _ in range(vdim)),)
            else:
                data = ()
            if mlen in (1, 2, 4, 8):
                meta = (rng.randrange(0, 256 ** mlen),)
            else:
                meta = tuple(rng.randrange(256) for _ in range(mlen))
            samples.append(DParseStreamData(chan=rng.randrange(0, 256), dtype=t, vdim=vdim, mlen=mlen, data=data, meta=meta))
        out.append((pyl.call_cmd(prsx, "frame_stream_encode", [samples], fuel=40),
                    pyl.impl_result(pr.frame_stream_encode, samples), "frame_stream_encode"))
    return out


def g_pad(rng, n, ctx):
    """CommInterfaceCommon.data_align and the write_padding property."""
    from nxslib.intf.iintf import CommInterfaceCommon
    out = []
    for _ in range(n):
        pad = rng.choice([0, 0, 1, 2, 3, 4, 7, 8, 16, 64, rng.randrange(1, 40)])
        data = rb(rng, rng.choice([0, 1, pad, 2 * pad, rng.randrange(0, 70)]))
        obj = pyl.RawSx("(o CommInterfaceCommon (_write_padding i0) (_fread N) (_fwrite N))")

        def run(pad, data):
            c = CommInterfaceCommon(lambda: b"", lambda d: None)
            c.write_padding = pad
            return [c.data_align(data), c.write_padding]

        out.append((pyl.fn_cmd("pad_align", [obj, pad, data]), pyl.impl_result(run, pad, data), "data_align"))
    return out


def g_reassembly(rng, n, ctx):
    """CommHandler._read_hdr/_read_frame over a scripted link: frames, noise, damaged frames, any chunking."""
    from nxslib.comm import CommHandler
    from nxslib.proto.parse import Parser
    out = []
    for _ in range(n):
        custom = rng.random() < 0.4          # the custom codec of the prelude instead of the built-in one
        sf = prelude_py.XorFrame() if custom else ctx.sf
        sofb = 0x7E if custom else 0x55
        stream = b""
        for _ in range(rng.randrange(0, 5)):
            r = rng.random()
            fr = sf.frame_create(rng.randrange(0, 9), rb(rng, rng.randrange(0, 9)))
            if r < 0.15:
                fr = bytearray(fr)
                fr[rng.randrange(len(fr))] ^= 1 << rng.randrange(8)
                fr = bytes(fr)
            elif r < 0.3:
                fr = rb(rng, rng.randrange(1, 5)) + fr
            elif r < 0.4:
                fr = bytes([sofb] * rng.randrange(1, 3)) + fr
            stream += fr
        if rng.random() < 0.2:
            stream = stream[:rng.randrange(0, len(stream) + 1)]
        chunks = []
        i = 0
        while i < len(stream):
            k = rng.choice([1, 1, 2, 3, 5, 8, 64])
            chunks.append(stream[i:i + k])
            i += k
            if rng.random() < 0.15:
                chunks.append(b"")
        prev = rng.choice([b"", b"", bytes([sofb]), rb(rng, 2)])
        calls = rng.randrange(1, 8)
        pasx = "(o Parser (_frame (o XorFrame)) (_user_types N))" if custom else ctx.pa_sx.text
        csx = pyl.RawSx("(o CommHandler (_prev_read %s) (_intf (o ScriptedIntf (chunks %s))) (_parse %s))" % (
            pyl.sx(prev), pyl.sx(list(chunks)), pasx))

        def run(prev, chunks, calls, custom=custom):
            c = CommHandler(prelude_py.ScriptedIntf(list(chunks)), Parser(frame=prelude_py.XorFrame) if custom else Parser())
            c._prev_read = prev
            return prelude_py.read_frames(c, calls)

        out.append((pyl.fn_cmd("read_frames", [csx, calls], fuel=400), pyl.impl_result(run, prev, chunks, calls),
                    "_read_frame(custom codec)" if custom else "_read_frame"))
    return out


def g_config(rng, n, ctx):
    """CommHandler configuration logic (ch_enable/.../channels_write/stream_start...) with the frame
    queue and the link replaced by scripted stubs: whole histories, state compared after every call."""
    import struct
    from nxslib.comm import CommHandler
    from nxslib.proto.parse import Parser
    from nxslib.proto.iframe import DParseFrame, EParseId
    out = []
    for _ in range(n):
        k = rng.randrange(1, 6)
        flags = rng.choice([3, 3, 2, 1, 0])
        dev = mkdev(rng, k, flags)
        items = []
        for _ in range(rng.randrange(0, 12)):
            r = rng.random()
            if r < 0.65:
                items.append(DParseFrame(fid=EParseId.ACK, data=struct.pack("i", 0)))
            elif r < 0.8:
                items.append(DParseFrame(fid=EParseId.ACK, data=struct.pack("i", rng.choice([-1, 5, 1]))))
            elif r < 0.9:
                items.append(None)
            else:
                items.append(DParseFrame(fid=EParseId.CMNINFO, data=bytes([k, flags, 0])))
        ops = []
        for _ in range(rng.randrange(1, 10)):
            r = rng.random()
            ch = rng.choice([rng.randrange(k), rng.randrange(k), [rng.randrange(k) for _ in range(rng.randrange(0, 3))],
                             k + 1 if rng.random() < 0.1 else 0])
            if r < 0.25:
                ops.append(["enable", ch])
            elif r < 0.4:
                ops.append(["disable", ch])
            elif r < 0.55:
                ops.append(["divider", ch, rng.choice([0, 1, 7, 255, 256 if rng.random() < 0.1 else 3])])
            elif r < 0.8:
                ops.append(["write"])
            elif r < 0.84:
                ops.append(["default"])
            elif r < 0.88:
                ops.append(["enable_all"])
            elif r < 0.92:
                ops.append([rng.choice(["start", "stop"])])
            else:
                ops.append([rng.choice(["is_enabled", "div_get"]), rng.randrange(k)])

        def build():
            c = CommHandler(prelude_py.LogIntf(), Parser())
            c._q = prelude_py.ScriptQueue(list(items))
            c._dev = relock(dev)
            c._channels_init(c._dev)
            return c

        def run(ops):
            c = build()
            v = prelude_py.comm_run(c, ops)
            # locks cannot be serialised: compare the views only
            for x in v:
                pass
            return v

        c0 = build()
        csx = pyl.RawSx("(o CommHandler (_started F) (_intf (o LogIntf (written (l)))) (_parse %s) (_dev %s) (_q %s) (_channels %s))" % (
            ctx.pa_sx.text, pyl.sx(nolock(dev)), pyl.sx(c0._q), pyl.sx(c0._channels)))
        out.append((pyl.fn_cmd("comm_run", [csx, ops], fuel=200), pyl.impl_result(run, ops), "config history"))
    return out


def g_handshake(rng, n, ctx):
    """CommHandler._devinfo_get (common info, padding reconfiguration, drop_all, channel info with
    retries) with scripted frame queues: good answers, time-outs, wrong frames, malformed payloads."""
    from nxslib.comm import CommHandler
    from nxslib.proto.parse import Parser
    from nxslib.proto.parserecv import ParseRecv
    from nxslib.proto.iframe import DParseFrame, EParseId
    out = []
    pr = ParseRecv(RecCb())
    sf = ctx.sf
    for _ in range(n):
        k = rng.randrange(0, 4)
        dev = mkdev(rng, k, rng.choice([3, 1, 0]))
        rxpad = rng.choice([0, 0, 4, 16])
        items = []
        r = rng.random()
        if r < 0.75:
            items.append(DParseFrame(fid=EParseId.CMNINFO, data=bytes([k, dev.data.flags, rxpad])))
        elif r < 0.85:
            items.append(None)
        elif r < 0.93:
            items.append(DParseFrame(fid=EParseId.ACK, data=bytes(4)))
        else:
            items.append(DParseFrame(fid=EParseId.CMNINFO, data=bytes([k])))      # malformed
        items += [None] * rng.choice([4, 4, 4, 3, 5])                                 # what drop_all finds
        for ch in range(k):
            for _try in range(rng.choice([0, 0, 0, 1, 2, 7])):
                items.append(rng.choice([None, DParseFrame(fid=EParseId.ACK, data=bytes(4))]))
            c = dev.channel_get(ch)
            frm = sf.frame_decode(pr.frame_chinfo_encode(c))
            if rng.random() < 0.08:
                frm = DParseFrame(fid=EParseId.CHINFO, data=frm.data[:3])              # malformed
            items.append(frm)
        sitems = [None] * rng.choice([4, 4, 6])

        def build():
            c = CommHandler(prelude_py.LogIntf(), Parser())
            c._q = prelude_py.ScriptQueue(list(items))
            c._q_stream = prelude_py.ScriptQueue(list(sitems))
            return c

        def run():
            r = prelude_py.devinfo_run(build())
            if r[0] is not None:
                r[0] = nolock(r[0])
            return r

        c0 = build()
        csx = pyl.RawSx("(o CommHandler (_started F) (_intf %s) (_parse %s) (_dev N) (_q %s) (_q_stream %s))" % (
            pyl.sx(c0._intf), ctx.pa_sx.text, pyl.sx(c0._q), pyl.sx(c0._q_stream)))
        out.append((pyl.fn_cmd("devinfo_run", [csx], fuel=120), pyl.impl_result(run), "_devinfo_get"))
    return out


def g_lifecycle(rng, n, ctx):
    """NxscopeHandler / CommHandler life cycle (connect, disconnect, stream_start/stop, writes; connect
    failing with TimeoutError and cleaning up) with the threads, the frame queues and the link replaced
    by recording stubs: whole histories, state compared after every call."""
    import struct
    import nxslib.nxscope as nxm
    from nxslib.proto.parse import Parser
    from nxslib.proto.parserecv import ParseRecv
    from nxslib.proto.iframe import DParseFrame, EParseId
    out = []
    pr = ParseRecv(RecCb())
    sf = ctx.sf
    ack = DParseFrame(fid=EParseId.ACK, data=struct.pack("i", 0))
    for _ in range(n):
        k = rng.randrange(1, 4)
        dev = mkdev(rng, k, rng.choice([3, 3, 1, 0]))
        good = rng.random() < 0.8
        items = []
        if good:
            items += [None] * 4                          # what _start's drop_all finds
            items.append(DParseFrame(fid=EParseId.CMNINFO, data=bytes([k, dev.data.flags, 0])))
            items += [None] * 4                          # what _devinfo_get's drop_all finds
            for ch in range(k):
                items.append(sf.frame_decode(pr.frame_chinfo_encode(dev.channel_get(ch))))
            for _ in range(rng.randrange(0, 12)):
                items.append(rng.choice([ack, ack, ack, DParseFrame(fid=EParseId.ACK, data=struct.pack("i", 3))]))
            items += [None] * 12
        else:
            items += [None] * rng.randrange(0, 40)      # a silent device: connect gives up with TimeoutError
        sitems = [None] * 60
        ops = []
        for _ in range(rng.randrange(1, 7)):
            r = rng.random()
            if r < 0.3:
                ops.append(["connect"])
            elif r < 0.5:
                ops.append(["disconnect"])
            elif r < 0.62:
                ops.append(["stream_start"])
            elif r < 0.72:
                ops.append(["stream_stop"])
            elif r < 0.85:
                ops.append(["enable", rng.randrange(k), rng.choice([True, False])])
            elif r < 0.93:
                ops.append(["write"])
            else:
                ops.append(["default", rng.choice([True, False])])
        if rng.random() < 0.7 and ops[0][0] != "connect":
            ops.insert(0, ["connect"])

        def build():
            nx = nxm.NxscopeHandler(prelude_py.LogIntf(), Parser())
            nx._thrd = prelude_py.FakeThread()
            nx._comm._thrd = prelude_py.FakeThread()
            nx._comm._q = prelude_py.ScriptQueue(list(items))
            nx._comm._q_stream = prelude_py.ScriptQueue(list(sitems))
            return nx

        def run(ops):
            nx = build()
            try:
                return prelude_py.nx_run(nx, ops)
            finally:
                nx._connected = False          # keep __del__ quiet
                nx._comm._started = False

        n0 = build()
        csx = "(o CommHandler (_started F) (_thrd %s) (_intf %s) (_parse %s) (_prev_read b) (_dev N) (_q %s) (_q_stream %s))" % (
            pyl.sx(n0._comm._thrd), pyl.sx(n0._comm._intf), ctx.pa_sx.text, pyl.sx(n0._comm._q), pyl.sx(n0._comm._q_stream))
        nsx = pyl.RawSx("(o NxscopeHandler (_connected F) (_comm %s) (_thrd %s) (_sub_q (l)) (_stream_started F) (_ovf_cntr i0))" % (
            csx, pyl.sx(n0._thrd)))
        n0._connected = False
        out.append((pyl.fn_cmd("nx_run", [nsx, ops], fuel=400), pyl.impl_result(run, ops), "life cycle history"))
    return out


# ---- BEGIN pl15: nxslib/thread.py (ThreadCommon) with the event / thread / callback stubs of the prelude ----
def g_worker(rng, n, ctx):
    """ThreadCommon (thread.py, the real class; `nxslib.thread.threading` rebound to the prelude's SimEvent /
    SimThread): every sequence of thread_start / thread_stop up to length 5 from every parked worker state
    (no handle, created, each line of _thread_loop, done), random long histories (queries, parking, scripted
    flag, _thread_loop run sequentially, failing callbacks), and the constructor on good and bad arguments;
    the view (flag, script, handle state / name / joins / target, recorded calls) is compared after every call."""
    import itertools
    import types
    import nxslib.thread as thm
    P = prelude_py
    out = []
    BOUND = pyl.RawSx("(bi $bound _thread_loop)")

    def canon(v, w):
        if isinstance(v, types.MethodType):
            if v.__self__ is w and v.__func__ is thm.ThreadCommon._thread_loop:
                return BOUND
            raise pyl.NotRepresentable("method")
        if isinstance(v, list):
            return [canon(x, w) for x in v]
        return v

    def cb_sx(cb):
        return "N" if cb is None else pyl.sx(cb)

    def build(has_init, has_final, name):
        return thm.ThreadCommon(P.SimCb(), P.SimCb() if has_init else None, P.SimCb() if has_final else None, name)

    def history(has_init, has_final, name, ops, label):
        def run():
            w = build(has_init, has_final, name)
            return canon(P.worker_run(w, copy.deepcopy(ops)), w)
        w0 = build(has_init, has_final, name)
        wsx = pyl.RawSx("(o ThreadCommon (_target %s) (_init %s) (_final %s) (_thrd N) (_stop_flag %s) (_name %s))" % (
            cb_sx(w0._target), cb_sx(w0._init), cb_sx(w0._final), pyl.sx(w0._stop_flag), pyl.sx(name)))
        out.append((pyl.fn_cmd("worker_run", [wsx, ops], fuel=120), pyl.impl_result(run), label))

    saved = thm.threading
    thm.threading = types.SimpleNamespace(Event=P.SimEvent, Thread=P.SimThread)
    try:
        # 1. exhaustive: start/stop sequences up to length 5 from every parked state
        parks = [[]] + [[["start"], ["park", st]] for st in ["created", "init", "test", "target", "final", "done"]]
        for pre in parks:
            for k in range(1, 6):
                for seq in itertools.product(["start", "stop"], repeat=k):
                    history(True, True, "w", pre + [[x] for x in seq], "start/stop sequences")
        # 2. random long histories
        for _ in range(n):
            ops = []
            for _ in range(rng.randrange(5, 40)):
                r = rng.random()
                if r < 0.22:
                    ops.append(["start"])
                elif r < 0.44:
                    ops.append(["stop"])
                elif r < 0.52:
                    ops.append(["alive"])
                elif r < 0.57:
                    ops.append([rng.choice(["stop_set", "is_set", "clear"])])
                elif r < 0.72:
                    ops.append(["park", rng.choice(["created", "init", "test", "target", "final", "done"])])
                elif r < 0.84:
                    k = rng.randrange(0, 12)
                    tail = rng.choice([[True], [True, False, True], [True] + [rng.random() < 0.5 for _ in range(3)]])
                    ops.append(["script", [False] * k + tail])
                    if rng.random() < 0.8:
                        ops.append(["loop"])
                elif r < 0.92:
                    ops.append(["fail", rng.randrange(3), rng.randrange(0, 4)])
                else:
                    ops.append(["stop_set"])
                    ops.append(["loop"])          # exhausted script: the flag itself answers
            history(rng.random() < 0.7, rng.random() < 0.7, rng.choice([None, "w", "nxs-thread"]), ops, "worker history")
        # 3. the constructor and its assertions
        for _ in range(max(8, n // 2)):
            args = [rng.choice([P.SimCb()] * 16 + [None, 5, "x", 0]),
                    rng.choice([None, P.SimCb()] * 8 + [0, 7, "", "f"]),
                    rng.choice([None, P.SimCb()] * 8 + [0, 7, "", "f"]),
                    rng.choice([None, "w"])]
            out.append((pyl.fn_cmd("worker_new", args, fuel=20), pyl.impl_result(P.worker_new, *copy.deepcopy(args)),
                        "ThreadCommon()"))
    finally:
        thm.threading = saved
    return out
# ---- END pl15 ----


# ---------------------------------------------------------------- pl14: receive thread / stream path (begin)
def g_recvpath(rng, n, ctx):
    """CommHandler._recv_thread called repeatedly over a scripted link (valid frames of every id, stream
    frames, ACKs, with and without a device description, noise, damaged frames, any chunking): the content
    of the two queues; CommHandler.stream_data over scripted stream queues (valid payloads, empty payload,
    flags only, truncated, unknown channel, a frame that is not a stream frame, time-out)."""
    from nxslib.comm import CommHandler
    from nxslib.proto import iparse
    from nxslib.proto.parse import Parser
    from nxslib.proto.iframe import DParseFrame, EParseId
    out = []
    sf = ctx.sf
    for _ in range(n):
        stream = b""
        for _ in range(rng.randrange(0, 7)):
            r = rng.random()
            fid = rng.choice([0, 1, 2, 3, 4, 5, 6, 7, 8, 1, 1, 4, 4])
            fr = sf.frame_create(fid, rb(rng, rng.randrange(0, 9)))
            if r < 0.12:
                fr = bytearray(fr)
                fr[rng.randrange(len(fr))] ^= 1 << rng.randrange(8)
                fr = bytes(fr)
            elif r < 0.24:
                fr = rb(rng, rng.randrange(1, 5)) + fr
            elif r < 0.3:
                fr = bytes([0x55] * rng.randrange(1, 3)) + fr
            stream += fr
        if rng.random() < 0.2:
            stream = stream[:rng.randrange(0, len(stream) + 1)]
        chunks = []
        i = 0
        while i < len(stream):
            k = rng.choice([1, 1, 2, 3, 5, 8, 64])
            chunks.append(stream[i:i + k])
            i += k
            if rng.random() < 0.15:
                chunks.append(b"")
        prev = rng.choice([b"", b"", b"\x55", rb(rng, 2)])
        calls = rng.randrange(1, 12)
        dev = mkdev(rng, rng.randrange(0, 3)) if rng.random() < 0.5 else None
        q0 = [DParseFrame(fid=EParseId.ACK, data=bytes(4))] if rng.random() < 0.2 else []
        csx = pyl.RawSx("(o CommHandler (_prev_read %s) (_intf (o ScriptedIntf (chunks %s))) (_parse %s) (_dev %s) "
                        "(_q (o ScriptQueue (items %s))) (_q_stream (o ScriptQueue (items (l)))))" % (
                            pyl.sx(prev), pyl.sx(list(chunks)), ctx.pa_sx.text,
                            "N" if dev is None else pyl.sx(nolock(dev)), pyl.sx(list(q0))))

        def run(prev, chunks, calls, dev=dev, q0=q0):
            c = CommHandler(prelude_py.ScriptedIntf(list(chunks)), Parser())
            c._prev_read = prev
            c._dev = None if dev is None else relock(dev)
            c._q = prelude_py.ScriptQueue(list(q0))
            c._q_stream = prelude_py.ScriptQueue([])
            return prelude_py.recv_run(c, calls)

        out.append((pyl.fn_cmd("recv_run", [csx, calls], fuel=400), pyl.impl_result(run, prev, chunks, calls),
                    "_recv_thread"))
    for _ in range(n):
        k = rng.randrange(1, 5)
        dev = mkstream_dev(rng, k) if rng.random() < 0.93 else None
        items = []
        for _ in range(rng.randrange(0, 5)):
            r = rng.random()
            if dev is None or r < 0.1:
                items.append(rng.choice([None, DParseFrame(fid=EParseId.STREAM, data=b"\x00")]))
                continue
            payload = bytes([rng.choice([0, 1, 2, 3, 255])])
            for _ in range(rng.randrange(0, 4)):
                c = dev.channel_get(rng.randrange(k))
                it = iparse.dsfmt_get(c.data.dtype)
                body = rb(rng, it.slen * c.data.vdim)
                if c.data.dtype in (18, 19) and rng.random() < 0.8:
                    body = bytes(rng.choice(b"abcxyz \x00") for _ in range(len(body)))
                payload += bytes([c.data.chan]) + body + rb(rng, c.data.mlen)
            r = rng.random()
            if r < 0.12:
                payload = payload[:-1]               # truncated / empty payload
            elif r < 0.2:
                payload += bytes([k + rng.randrange(0, 3)])     # unknown channel (or a cut sample)
            elif r < 0.26:
                payload = payload[:1]                # flags only
            elif r < 0.3:
                payload = b""
            fid = rng.choice([EParseId.STREAM] * 12 + [EParseId.ACK, EParseId.CMNINFO])
            items.append(DParseFrame(fid=fid, data=payload))
        calls = rng.randrange(1, 6)
        csx = pyl.RawSx("(o CommHandler (_parse %s) (_dev %s) (_q_stream (o ScriptQueue (items %s))))" % (
            ctx.pa_sx.text, "N" if dev is None else pyl.sx(nolock(dev)), pyl.sx(list(items))))

        def run2(items, calls, dev=dev):
            c = CommHandler(prelude_py.ScriptedIntf([]), Parser())
            c._dev = None if dev is None else relock(dev)
            c._q_stream = prelude_py.ScriptQueue(list(items))
            return prelude_py.stream_data_run(c, calls)

        out.append((pyl.fn_cmd("stream_data_run", [csx, calls], fuel=200), pyl.impl_result(run2, items, calls),
                    "stream_data"))
    return out


def g_streamthread(rng, n, ctx):
    """NxscopeHandler._stream_thread called repeatedly over a scripted stream-frame queue, the subscriber
    queues being the SubQueue stub: zero to several subscribers per channel, channels enabled or not in the
    client's view, frames with no samples / samples of several channels / the overflow flag / damaged
    payloads / time-outs.  Label `(real queues)`: CPython runs the same history with REAL queue.Queue objects
    obtained from the real stream_sub (the application's handles, aliased with nx._sub_q) and the content of
    those handles is compared with the interpreter's stub queues inside nx._sub_q."""
    import struct
    import nxslib.nxscope as nxm
    from nxslib.proto import iparse
    from nxslib.proto.parse import Parser
    from nxslib.proto.iframe import DParseFrame, EParseId
    out = []
    for _ in range(n):
        k = rng.randrange(1, 5)
        dev = mkstream_dev(rng, k)
        if rng.random() < 0.05:
            dev._channels[rng.randrange(k)].data.__dict__["chan"] = k + rng.randrange(0, 2)   # a wrong channel number
        en = [rng.random() < 0.75 for _ in range(k)]
        subs = [rng.choice([0, 1, 1, 2, 3]) for _ in range(k)]
        items = []
        for _ in range(rng.randrange(1, 5)):
            if rng.random() < 0.1:
                items.append(None)
                continue
            payload = bytes([rng.choice([0, 1, 0, 1, 2, 3, 255])])
            for _ in range(rng.randrange(0, 5)):
                c = dev._channels[rng.randrange(k)]
                it = iparse.dsfmt_get(c.data.dtype)
                body = rb(rng, it.slen * c.data.vdim)
                if c.data.dtype in (18, 19):
                    body = bytes(rng.choice(b"abcxyz \x00") for _ in range(len(body)))
                payload += bytes([dev._channels.index(c)]) + body + rb(rng, c.data.mlen)
            r = rng.random()
            if r < 0.06:
                payload = payload[:-1]
            elif r < 0.1:
                payload += bytes([k + 1])
            fid = EParseId.STREAM if rng.random() < 0.97 else EParseId.ACK
            items.append(DParseFrame(fid=fid, data=payload))
        calls = rng.randrange(1, 6)
        real = rng.random() < 0.35

        def build(real=False):
            nx = nxm.NxscopeHandler(prelude_py.LogIntf(), Parser())
            nx._thrd = prelude_py.FakeThread()
            nx._comm._thrd = prelude_py.FakeThread()
            nx._comm._dev = relock(dev)
            nx._comm._channels_init(nx._comm._dev)
            nx._comm._channels.en_now = list(en)
            nx._comm._q_stream = prelude_py.ScriptQueue(list(items))
            nx._sub_q = [[] for _ in range(k)]
            handles = []
            serial = 0
            for ch in range(k):
                row = []
                for _ in range(subs[ch]):
                    if real:
                        q = nx.stream_sub(ch)            # a real queue.Queue, aliased with nx._sub_q[ch][-1]
                        assert q is nx._sub_q[ch][-1]
                        q.serial = serial
                    else:
                        q = prelude_py.SubQueue(serial)
                        nx._sub_q[ch].append(q)
                    row.append(q)
                    serial += 1
                handles.append(row)
            return nx, handles

        def run(calls, real=real):
            nx, handles = build(real)
            try:
                if real:
                    views = []
                    for _ in range(calls):
                        try:
                            nx._stream_thread()
                        except AssertionError:
                            views.append("AssertionError")
                        except struct.error:
                            views.append("struct.error")
                        except IndexError:
                            views.append("IndexError")
                        # what the application sees in the queues it holds
                        views.append(copy.deepcopy(
                            [[[[h.serial, list(h.queue)] for h in row] for row in handles], nx._ovf_cntr,
                             nx._comm._q_stream.items]))
                    return views
                views = prelude_py.stream_thread_run(nx, calls)
                # the queues the application holds are those inside nx._sub_q
                assert all(h is q for hr, qr in zip(handles, nx._sub_q) for h, q in zip(hr, qr))
                assert views[-1][0] == [[[h.serial, h.items] for h in row] for row in handles]
                return views
            finally:
                nx._connected = False
                nx._comm._started = False

        n0, _h = build(False)
        csx = "(o CommHandler (_parse %s) (_dev %s) (_q_stream %s) (_channels %s))" % (
            ctx.pa_sx.text, pyl.sx(nolock(dev)), pyl.sx(n0._comm._q_stream), pyl.sx(n0._comm._channels))
        nsx = pyl.RawSx("(o NxscopeHandler (_connected T) (_comm %s) (_sub_q %s) (_stream_started T) (_ovf_cntr i%d))" % (
            csx, pyl.sx(n0._sub_q), 0))
        n0._connected = False
        out.append((pyl.fn_cmd("stream_thread_run", [nsx, calls], fuel=300), pyl.impl_result(run, calls),
                    "_stream_thread(real queues)" if real else "_stream_thread"))
    return out
# ---------------------------------------------------------------- pl14 (end)


GROUPS = {
    "worker": g_worker,
    "recvpath": g_recvpath,
    "streamthread": g_streamthread,
    "lifecycle": g_lifecycle,
    "handshake": g_handshake,
    "config": g_config,
    "reassembly": g_reassembly,
    "pad": g_pad,
    "frame": g_frame,
    "requests": g_requests,
    "info_decode": g_info_decode,
    "tables": g_tables,
    "records": g_records,
    "device_side": g_device_side,
    "stream_decode": g_stream_decode,
    "stream_encode": g_stream_encode,
}

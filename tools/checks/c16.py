"""C16 - simulated devices are independent of each other and restart cleanly."""
import time

from . import common
from harness import refcodec as rc
from harness import refdev
from harness.findings import _Counter

RULE = ("pairs of real DummyDev instances in all four default/custom combinations: random request sequences (enable / "
        "divider in single, all, bulk form, start/stop of the stream) and start()/stop() cycles are applied to A through "
        "write(); B is then interrogated through its own write()/read() (common info, every channel info) and streamed, and "
        "must look exactly like a B that never had a neighbour: same descriptions, samples of its deterministic channels "
        "starting at the beginning of their sequence; object identity of channel objects and generator objects is checked "
        "directly; restart: after stop(); start() the read queue is empty and the first samples of deterministic channels are "
        "the first of their sequence; non-trivial = distinct (combination, request sequence)")


def mk(kind):
    from nxslib.dev import DeviceChannel
    from nxslib.intf.dummy import DummyDev
    if kind == "default":
        return DummyDev(rxpadding=0, stream_sleep=0.001, stream_snum=2)
    chans = [DeviceChannel(0, 7, 1, "c0", func=_Counter()), DeviceChannel(1, 7, 2, "c1", func=_Counter2()),
             DeviceChannel(2, 1, 0, "c2", mlen=0)]
    return DummyDev(chmax=3, channels=chans, rxpadding=0, stream_sleep=0.001, stream_snum=2)


class _Counter2(_Counter):
    def get(self, _):
        from nxslib.dev import DDeviceChannelFuncData
        self.n = self.n % 200 + 1
        return DDeviceChannelFuncData(data=(self.n, -self.n))


def drain(d, budget=0.5):
    out = []
    t0 = time.time()
    while time.time() - t0 < budget:
        r = d.read()
        if not r:
            break
        out.append(r)
    return out


def ask(d, req, want_id, tries=60):
    d.write(req)
    for _ in range(tries):
        r = d.read()
        fr = rc.accepts(r) if r else None
        if fr and fr[0] == want_id:
            return fr[1]
    return None


def describe(d, n):
    out = [ask(d, rc.req_cmninfo(), rc.ID_CMNINFO)]
    for i in range(n):
        out.append(ask(d, rc.req_chinfo(i), rc.ID_CHINFO))
    return [common.hexs(x) if x is not None else "none" for x in out]


def first_samples(d, chan, count=3):
    """enable chan, start the stream, return the first values of channel chan, stop"""
    d.write(rc.wire(rc.ID_ENABLE, [rc.SET_SINGLE, chan, 1]))
    d.write(rc.req_start(True))
    vals = []
    t0 = time.time()
    while len(vals) < count and time.time() - t0 < 3.0:
        r = d.read()
        fr = rc.accepts(r) if r else None
        if fr and fr[0] == rc.ID_STREAM:
            p = fr[1]
            # samples of one enabled channel: channel byte + fixed size
            vals.append(common.hexs(p[1:13]))
    d.write(rc.req_start(False))
    d.write(rc.wire(rc.ID_ENABLE, [rc.SET_ALL, 0, 0]))
    time.sleep(0.01)
    drain(d)
    return vals[:1]


def next_stream_frame(d):
    t0 = time.time()
    while time.time() - t0 < 3.0:
        r = d.read()
        fr = rc.accepts(r) if r else None
        if fr and fr[0] == rc.ID_STREAM:
            return common.hexs(fr[1][1:13])
    return None


def random_traffic(rng, d, n):
    for _ in range(rng.randrange(3, 12)):
        k = rng.random()
        if k < 0.3:
            d.write(rc.wire(rc.ID_ENABLE, [rc.SET_SINGLE, rng.randrange(n), rng.randrange(2)]))
        elif k < 0.45:
            d.write(rc.wire(rc.ID_ENABLE, [rc.SET_ALL, 0, rng.randrange(2)]))
        elif k < 0.6:
            d.write(rc.wire(rc.ID_DIV, [rc.SET_SINGLE, rng.randrange(n), rng.randrange(256)]))
        elif k < 0.7:
            d.write(rc.wire(rc.ID_DIV, [rc.SET_BULK, 0] + [rng.randrange(256) for _ in range(n)]))
        elif k < 0.85:
            d.write(rc.req_start(True))
            time.sleep(0.01)
        else:
            d.write(rc.req_start(False))
        if rng.random() < 0.15:
            d.stop()
            d.start()
    time.sleep(0.02)
    drain(d, 0.2)


def generator_reset_check(run):
    """every deterministic generator of the default device: after N samples and reset() it produces its sequence from the start"""
    import nxslib.intf.dummy as dm
    for name in ("ChannelFunc1", "ChannelFunc2", "ChannelFunc5", "ChannelFunc6", "ChannelFunc7", "ChannelFunc8", "ChannelFunc9"):
        cls = getattr(dm, name)
        for n in (1, 7, 999, 1000, 1001, 1500, 2001, 2600, 3100, 10001):
            g, fresh = cls(), cls()
            for i in range(n):
                g.get(i)
            g.reset()
            a = [repr(g.get(i)) for i in range(12)]
            b = [repr(fresh.get(i)) for i in range(12)]
            run.count("generator-reset", (name, n))
            if a != b:
                run.violation("%s: after %d samples and reset() the sequence does not begin again" % (name, n),
                              {"generator": name, "samples_before_reset": n, "after_reset": a[:4], "fresh": b[:4]})
                return


def disabled_restart_check(run, kind):
    """a channel that is disabled when the instance is restarted starts its sequence again as well"""
    a = mk(kind)
    try:
        a.start()
        a.write(rc.wire(rc.ID_ENABLE, [rc.SET_SINGLE, 1, 1])); a.write(rc.req_start(True)); time.sleep(0.04)
        a.write(rc.req_start(False)); a.write(rc.wire(rc.ID_ENABLE, [rc.SET_ALL, 0, 0])); time.sleep(0.02)
        a.stop(); a.start()
        ra = first_samples(a, 1)
        fresh = mk(kind); fresh.start()
        rf = first_samples(fresh, 1)
        fresh.stop()
        run.count("restart-disabled-%s" % kind, (kind, "disabled-restart"))
        if ra != rf or not ra:
            run.violation("a channel disabled at restart does not begin its sequence again",
                          {"kind": kind, "after_restart": ra, "fresh_instance": rf})
    finally:
        a.stop()


def crashed_worker_restart_check(run):
    """an instance whose request worker died (a channel-info request for channel id == chmax trips an assertion in
    the worker, on the unchanged library too) is revived by stop(); start(): it answers requests and streams its
    first channel from the beginning again"""
    import contextlib
    import io
    a = mk("default")
    try:
        a.start()
        chmax = a._dummydev.data.chmax
        with contextlib.redirect_stderr(io.StringIO()):
            a.write(rc.req_chinfo(chmax))
            t0 = time.time()
            while a._thrd_recv.thread_is_alive() and time.time() - t0 < 1.0:
                time.sleep(0.002)
        died = not a._thrd_recv.thread_is_alive()
        a.stop(); a.start()
        a.write(rc.req_cmninfo())
        got = None
        t0 = time.time()
        while got is None and time.time() - t0 < 1.5:
            r = a.read()
            fr = rc.accepts(r) if r else None
            if fr and fr[0] == rc.ID_CMNINFO:
                got = fr
        ra = first_samples(a, 1) if got else None
        fresh = mk("default"); fresh.start()
        rf = first_samples(fresh, 1)
        fresh.stop()
        run.count("restart-after-worker-died", ("crashed-worker", died))
        if got is None:
            run.violation("after stop(); start() an instance whose request worker had died does not answer the common-info "
                          "request", {"worker_died_before_restart": died})
        elif ra != rf or not ra:
            run.violation("after stop(); start() an instance whose request worker had died does not stream its sequence "
                          "from the beginning", {"after_restart": ra, "fresh_instance": rf})
    finally:
        a.stop()


def main(run):
    run.regen()
    run.prove()
    if getattr(run, "drift", []):
        run.proof_ok = False
        run.proof_log += "\nsource drift in functions the store model abstracts: %s" % run.drift
    run.run_findings()
    refdev.install_fast_clock(0.01)
    generator_reset_check(run)
    for kind in ("default", "custom"):
        if not run.concrete():
            disabled_restart_check(run, kind)
    if not run.concrete():
        crashed_worker_restart_check(run)
    rng = common.Rng(run.seed)
    rounds = 2 if not run.thorough else 12
    for ka, kb in (("default", "default"), ("default", "custom"), ("custom", "default"), ("custom", "custom")):
        for r in range(rounds):
            a, b, ctrl = mk(ka), mk(kb), mk(kb)
            nb = b._dummydev.data.chmax
            na = a._dummydev.data.chmax
            try:
                # object identity: nothing shared
                shared = [i for i in range(min(na, nb))
                          if a._dummydev.channel_get(i) is b._dummydev.channel_get(i)
                          or (a._dummydev.channel_get(i)._func is not None
                              and a._dummydev.channel_get(i)._func is b._dummydev.channel_get(i)._func)]
                if shared:
                    run.violation("instances share channel / generator objects", {"pair": [ka, kb], "channels": shared})
                    break
                a.start(); b.start(); ctrl.start()
                random_traffic(rng, a, na)
                # stream A's channel 1 for a while so its generator is far from the start
                a.write(rc.wire(rc.ID_ENABLE, [rc.SET_SINGLE, 1, 1])); a.write(rc.req_start(True))
                time.sleep(0.05)
                da, dc = describe(b, nb), describe(ctrl, nb)
                run.count("pair-%s-%s" % (ka, kb), (ka, kb, r, "describe"))
                if da != dc:
                    run.violation("B's description differs from a B that never had a neighbour",
                                  {"pair": [ka, kb], "with_neighbour": da, "alone": dc})
                    break
                sb, sc = first_samples(b, 1), first_samples(ctrl, 1)
                run.count("pair-%s-%s" % (ka, kb), (ka, kb, r, "samples"))
                run.sample({"pair": [ka, kb], "B_first_frame_ch1": sb})
                if sb != sc or not sb:
                    run.violation("B's first samples differ from a B that never had a neighbour",
                                  {"pair": [ka, kb], "with_neighbour": sb, "alone": sc})
                    break
                # restart of A: queue empty, sequence begins again
                a.stop()
                left = a._qread.qsize() + a._qwrite.qsize()
                # make the state before the restart definite: only channel 1 enabled, stream running
                a.start()
                a.write(rc.wire(rc.ID_ENABLE, [rc.SET_ALL, 0, 0])); a.write(rc.wire(rc.ID_ENABLE, [rc.SET_SINGLE, 1, 1]))
                a.write(rc.req_start(True)); time.sleep(0.03)
                a.stop()
                left += a._qread.qsize() + a._qwrite.qsize()
                a.start()
                ra = next_stream_frame(a)
                fresh = mk(ka); fresh.start()
                fresh.write(rc.wire(rc.ID_ENABLE, [rc.SET_SINGLE, 1, 1])); fresh.write(rc.req_start(True))
                rf = next_stream_frame(fresh)
                fresh.stop()
                run.count("restart-%s" % ka, (ka, kb, r, "restart"))
                if left or ra != rf:
                    run.violation("restarted instance does not begin its sequence again",
                                  {"kind": ka, "queued_after_stop": left, "after_restart": ra, "fresh_instance": rf})
                    break
            finally:
                a.stop(); b.stop(); ctrl.stop()
        if run.concrete():
            break
    return run.finish(rule=RULE, assumptions=[
        "Python object identity is not formalised: aliasing is decided by the translator's reading of the constructor "
        "(Gen_misc.dummy_default_fresh) and confirmed by the identity checks of this run",
        "'separately built' custom channel lists: a caller who hands the same list to two instances shares it by construction"])

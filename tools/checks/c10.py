"""C10 - connect and disconnect always terminate, whatever the link does."""
import threading
import time

from . import common
from harness import refcodec as rc
from harness import refdev

RULE = ("fault enumeration on the real CommHandler over the harness reference device (scaled clock, watchdogs): at EVERY "
        "request of the connect handshake (stop request, common-info, each channel-info; chmax 1..3) the device falls silent, "
        "answers with the wrong frame, an undecodable frame, garbage, or leaves a residue of 1..3 header bytes, a complete header, a header plus one byte, or noise ending in a header - once or from "
        "then on; plus random answer sequences; plus two hostile devices (one ignores the stop request and floods the link with stream frames that nobody reads, one keeps sending valid non-stream frames from the common-info answer on); compared with the Coq model: outcome class, number of requests sent, nothing "
        "left running after a failure; then disconnect() under a watchdog and a check that no library thread survives; "
        "non-trivial = distinct (chmax, fault position, fault kind, persistence)")

KINDS = {"S": "silent", "W": ("wrongframe",), "G": "ok"}


def malformed(kind):
    return ("raw", rc.wire(rc.ID_CMNINFO, [1]) if kind == "cmninfo" else rc.wire(rc.ID_CHINFO, [1, 2]))


def run_connect(chmax, answers, raw_as_silent, scale=0.01):
    """answers: string over G S W M (index = request number, 0 = the stop request); raw_as_silent: bytes pushed for 'S'"""
    from nxslib.comm import CommHandler
    from nxslib.proto.parse import Parser
    refdev.install_fast_clock(scale)
    before = set(threading.enumerate())
    pushed = []

    def policy(i, kind, payload):
        a = answers[i] if i < len(answers) else "G"
        if kind == "start":
            return "ok"
        if a == "M":
            return malformed(kind)
        if a == "S" and raw_as_silent and not pushed:
            pushed.append(1)             # the residue / noise arrives once, then the link is silent
            return ("raw", raw_as_silent)
        return KINDS[a]
    dev = refdev.RefDevice(refdev.simple_chans(chmax), flags=0, policy=policy)
    comm = CommHandler(dev, Parser())
    fin, res = refdev.run_with_watchdog(comm.connect, 30)
    if not fin:
        comm._thrd.stop_set()
        return "connect-did-not-return", None
    if isinstance(res, TimeoutError):
        out = "TimeoutError"
    elif isinstance(res, BaseException):
        out = "DecodeError"
    else:
        out = "Connected"
    nreq = sum(1 for k, _, _ in dev.log if k in ("start", "cmninfo", "chinfo"))
    running = comm._thrd.thread_is_alive()
    s = "%s reqs=%d running=%s" % (out, nreq, "true" if running else "false")
    if out != "Connected" and dev.stopped < dev.started:
        s += " intf-left-running"
    fin2, _ = refdev.run_with_watchdog(comm.disconnect, 30)
    time.sleep(0.01)
    left = [t.name for t in threading.enumerate() if t not in before and t.is_alive() and t.name in ("recv", "stream")]
    comm._thrd.stop_set()
    if not fin2:
        s += " disconnect-did-not-return"
    if left:
        s += " threads-left:%s" % ",".join(left)
    return s, dev


def cases(run):
    rng = common.Rng(run.seed)
    out = []
    residues = [b"", b"\x55", b"\x55\xff", b"\x55\xff\xff", b"\x00\x01\x02\x03\x04\x05\x06\x07", b"\x55\xff\xff\x55\xfe",
                # a COMPLETE header (valid start byte, length 16, id 1) and then nothing; with one more byte;
                # noise that ends in such a header candidate
                b"\x55\x10\x00\x01", b"\x55\x10\x00\x01\xaa", b"\x00\x01\x55\x10\x00\x01"]
    chmaxes = (1, 2, 3) if run.thorough else (2,)
    for chmax in chmaxes:
        nreq = 2 + chmax
        for pos in range(1, nreq):
            for kind in "SWM":
                for persistent in (False, True):
                    for raw in (residues if (kind == "S" and persistent) else [b""]):
                        answers = "G" * pos + (kind * 80 if persistent else kind)
                        got, _ = run_connect(chmax, answers, raw)
                        out.append(dict(cmd="connect %d %s" % (chmax, answers), impl=got, oracle=None,
                                        rerun=(lambda c=chmax, a=answers, r=raw: run_connect(c, a, r, scale=0.08)[0]),
                                        kind="fault-%s-%s" % (kind, "from-then-on" if persistent else "once"),
                                        key=(chmax, pos, kind, persistent, raw)))
    for _ in range(12 if not run.thorough else 150):
        chmax = rng.randrange(1, 4)
        answers = "G" + "".join(rng.choice("GGGSWSWM") for _ in range(rng.randrange(1, 40)))
        got, _ = run_connect(chmax, answers, b"")
        out.append(dict(cmd="connect %d %s" % (chmax, answers), impl=got, oracle=None, kind="random-oracle",
                        rerun=(lambda c=chmax, a=answers: run_connect(c, a, b"", scale=0.08)[0]),
                        key=(chmax, answers)))
    return out


def hostile_devices(run):
    """devices that keep talking: connect must return (either way) and disconnect must return, with nothing left
    running.  (a) a device that ignores the stop request and floods the link with valid stream frames - several
    thousand frames stay unread in the stream queue; (b) a device that, once it has answered the common-info
    request, keeps sending valid NON-stream frames faster than the drain's quiet period."""
    from nxslib.comm import CommHandler
    from nxslib.proto.parse import Parser
    out = []
    for kind in ("stream-flood", "babble"):
        refdev.install_fast_clock(0.01)
        before = set(threading.enumerate())
        stop = threading.Event()
        state = {"babble": False}

        def policy(i, k, payload):
            if k == "start":
                return "lostreq"                     # the stop request is ignored
            if k == "cmninfo":
                state["babble"] = True
            return "ok"
        dev = refdev.RefDevice(refdev.simple_chans(2), flags=3, policy=policy, streaming=True)
        sframe = rc.wire(rc.ID_STREAM, [0])
        aframe = rc.wire(rc.ID_CMNINFO, [2, 3, 0])     # (ACK frames would be dropped by the receive thread during connect)

        def talker():
            n = 0
            t_end = time.time() + 90.0
            while not stop.is_set() and time.time() < t_end:
                if kind == "stream-flood":
                    with dev.rxlock:
                        backlog = len(dev.rx)
                    if backlog < 400:
                        for _ in range(200):
                            dev.push(sframe)
                        n += 200
                    else:
                        time.sleep(0.0005)
                else:
                    with dev.rxlock:
                        backlog = len(dev.rx)
                    if state["babble"] and backlog < 40:
                        for _ in range(40):          # never a quiet period: the next frame is always there
                            dev.push(aframe)
                        n += 40
                    else:
                        time.sleep(0.0002)
        th = threading.Thread(target=talker, daemon=True)
        th.start()
        comm = CommHandler(dev, Parser())
        fin, res = refdev.run_with_watchdog(comm.connect, 40)
        what = None
        if not fin:
            what = "connect did not return within 40 s"
        else:
            if kind == "stream-flood":
                t0 = time.time()                      # let the unread stream frames pile up
                while time.time() - t0 < 1.5 and comm._q_stream.qsize() < 4000:
                    time.sleep(0.01)
            fin2, _ = refdev.run_with_watchdog(comm.disconnect, 30)
            if not fin2:
                what = "disconnect did not return within 30 s"
        stop.set()
        th.join(2)
        comm._thrd.stop_set()
        time.sleep(0.02)
        left = [t.name for t in threading.enumerate() if t not in before and t.is_alive() and t.name in ("recv", "stream")]
        if what is None and left:
            what = "threads left after disconnect: %s" % ",".join(left)
        run.count("hostile-" + kind, kind)
        if what:
            out.append(("%s device: %s" % (kind, what),
                        {"scenario": kind, "connect": repr(res)[:200] if fin else "-", "stream_queue": comm._q_stream.qsize()}))
            # free a receive thread that is blocked on a full queue so that the process can go on
            try:
                while True:
                    comm._q_stream.get_nowait()
            except Exception:  # noqa: BLE001
                pass
    return out


def main(run):
    run.regen()
    run.prove()
    model_ok = run.build_model()
    run.run_findings()
    run.pylite(["handshake"])
    if model_ok:
        for what, c, m in run.differential(cases(run)):
            run.violation(what, {"call": c["cmd"][:2000], "implementation": c["impl"][:2000], "model": m[:2000]})
        if not run.concrete():
            for what, detail in hostile_devices(run):
                run.violation(what, detail)
    else:
        run.proof_ok = False
    return run.finish(level="proof", rule=RULE, assumptions=[
        "PARTIAL: the logic (retry structure, buffer handling, stop/join protocol) is proved; real joins, GIL scheduling and "
        "wall-clock bounds are covered by this fault-enumeration run only (scaled clock, 30 s watchdogs)",
        "noise / header residues are chosen so that they cannot combine with the following frame into a plausible header "
        "(a residue like 55 06 would, by the scan semantics of C03, legitimately delay the next frames)"])

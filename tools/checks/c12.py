"""C12 - concurrent application threads see a consistent device and never deadlock."""
import queue
import sys
import threading
import time

from . import common
from harness import refcodec as rc
from harness import refdev

RULE = ("2..4 application threads run generated programs (buffered enable/disable/divider, writes with writenow, "
        "ch_is_enabled queries, subscribe/unsubscribe, queue reads) on one real NxscopeHandler against the ACK-capable "
        "reference device (acknowledgements delayed by 0..3 ms so that requests are in flight), concurrently with the "
        "receive thread, the stream thread and a stream of frames; 10 us GIL switch interval; monitor: every thread finishes "
        "(watchdog = deadlock detector), no exception, every ch_is_enabled answer equals the device's state whenever the "
        "device applied nothing between two reads taken around the query, and after all threads are done and one final "
        "write the device state equals the last requested state and what the client reports; non-trivial = distinct "
        "(program set, seed) with >= 1 write")


def scenario(run, rng, nthreads, nch=4):
    from nxslib.nxscope import NxscopeHandler
    from nxslib.proto.parse import Parser
    refdev.install_fast_clock(0.02)
    dev = refdev.RefDevice(refdev.simple_chans(nch, typ=7, vdim=1), flags=3, ack_delay=rng.choice([0.0, 0.001, 0.003]))
    nx = NxscopeHandler(dev, Parser())
    fin, res = refdev.run_with_watchdog(nx.connect, 20)
    if not fin or isinstance(res, BaseException):
        nx._comm._thrd.stop_set()
        return "connect failed: %r" % (res,)
    errors, mism = [], []
    nx.stream_start()
    stop_feed = threading.Event()

    def feed():
        v = 0
        while not stop_feed.is_set():
            v += 1
            p = bytes([0]) + b"".join(bytes([c]) + v.to_bytes(4, "little") for c in range(nch))
            dev.push(rc.wire(rc.ID_STREAM, p))
            time.sleep(0.001)

    def prog(seed):
        r = common.Rng(seed)
        subs = []
        try:
            for _ in range(r.randrange(10, 40)):
                k = r.random()
                c = r.randrange(nch)
                if k < 0.2:
                    nx.ch_enable(c, writenow=r.random() < 0.5)
                elif k < 0.4:
                    nx.ch_disable(c, writenow=r.random() < 0.5)
                elif k < 0.5:
                    nx.ch_divider(c, r.randrange(256), writenow=r.random() < 0.3)
                elif k < 0.6:
                    nx.channels_write()
                elif k < 0.8:
                    with dev.state_lock:
                        a0, s0 = dev.applied, dev.chans[c]["en"]
                    ans = nx._comm.ch_is_enabled(c)
                    with dev.state_lock:
                        a1, s1 = dev.applied, dev.chans[c]["en"]
                    if a0 == a1 and ans != s0:
                        mism.append("ch_is_enabled(%d) answered %r while the device had %r (nothing applied in between)" % (c, ans, s0))
                elif k < 0.9:
                    subs.append(nx.stream_sub(c))
                elif subs:
                    q = subs.pop()
                    try:
                        q.get(timeout=0.001)
                    except queue.Empty:
                        pass
                    nx.stream_unsub(q)
        except Exception as e:  # noqa: BLE001
            errors.append("%s: %s" % (type(e).__name__, e))
    old = sys.getswitchinterval()
    sys.setswitchinterval(1e-5)
    feeder = threading.Thread(target=feed, daemon=True)
    feeder.start()
    ts = [threading.Thread(target=prog, args=(rng.randrange(1 << 30),), daemon=True) for _ in range(nthreads)]
    try:
        for t in ts:
            t.start()
        deadline = time.time() + 30
        for t in ts:
            t.join(max(0.1, deadline - time.time()))
        if any(t.is_alive() for t in ts):
            return "deadlock or livelock: %d application thread(s) did not finish within 30 s" % sum(t.is_alive() for t in ts)
        if errors:
            return "exception in an application thread: " + errors[0]
        if mism:
            return mism[0]
        # quiescent: one final write, then device == requested == reported
        fin, res = refdev.run_with_watchdog(nx.channels_write, 20)
        if not fin:
            return "final write did not return"
        req = list(nx._comm._channels.en_new)
        rep = [nx._comm.ch_is_enabled(i) for i in range(nch)]
        if dev.en() != req or rep != req:
            return "after all threads finished and a final write: device %r requested %r reported %r" % (dev.en(), req, rep)
        dreq = list(nx._comm._channels.div_new)
        if dev.div() != dreq:
            return "dividers after final write: device %r requested %r" % (dev.div(), dreq)
        return None
    finally:
        stop_feed.set()
        sys.setswitchinterval(old)
        refdev.run_with_watchdog(nx.disconnect, 20)
        nx._thrd.stop_set()
        nx._comm._thrd.stop_set()


def main(run):
    run.regen()
    run.prove()
    run.run_findings()
    # "the answer equals the device's actual state": first without any concurrency - buffered and written
    # configuration histories on the real handler, ch_is_enabled / ch_div_get compared with the device and the Coq
    # model after every call (the histories of C07)
    if run.build_model():
        from . import c07
        for what, c, m in run.differential(c07.cases(run, count=14 if not run.thorough else 120)):
            run.violation(what, {"call": c["cmd"][:3000], "implementation": c["impl"][:3000], "model": m[:3000]})
    rng = common.Rng(run.seed)
    for i in range(10 if not run.thorough else 120):
        if run.concrete():
            break
        n = 2 + i % 3
        seed_state = rng.randrange(1 << 30)
        r = scenario(run, common.Rng(seed_state), n)
        run.count("scenario-%d-threads" % n, (n, seed_state))
        run.sample({"threads": n, "scenario_seed": seed_state}, limit=5)
        if r:
            run.violation(r, {"threads": n, "scenario_seed": seed_state})
            break
    return run.finish(rule=RULE, assumptions=[
        "proof at synchronisation-point granularity: the lock nesting is read from the source by the translator (receiver-"
        "based call resolution) and every shared field is assumed to be touched only under its lock",
        "real interleavings are sampled by the OS scheduler (10 us switch interval, delayed ACKs), not enumerated"])

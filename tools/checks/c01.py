"""C01 - emitted frames are the NxScope serial wire format and round-trip."""
import struct

from . import common
from harness import refcodec as rc

RULE = ("frame_create/frame_decode on ids 0..8 x payload lengths {0..40, 250..262, 65520..65540, 70000} "
        "with seeded random content, all 1-byte payloads for every id, None vs b''; a case is "
        "non-trivial when the call succeeds or raises the named exception and distinct by (call, id, payload)")


def impl_create(sf, fid, data):
    try:
        return "ok " + common.hexs(sf.frame_create(fid, data))
    except struct.error:
        return "raise struct.error"
    except AssertionError:
        return "raise AssertionError"


def impl_decode(sf, d):
    from nxslib.proto.iframe import EParseError
    try:
        r = sf.frame_decode(bytes(d))
    except struct.error:
        return "raise struct.error"
    if r.err is EParseError.NOERR:
        return "ok %d %s" % (int(r.fid), common.hexs(r.data))
    return "err " + r.err.name


def spec_create(fid, data):
    if fid > 255:
        return "raise AssertionError"
    try:
        return "ok " + common.hexs(rc.wire(fid, data))
    except OverflowError:
        return "raise struct.error"


def spec_decode(d):
    r = rc.accepts(d)
    if r is None:
        return None       # error class decided by model/impl agreement
    return "ok %d %s" % (r[0], common.hexs(r[1]))


def cases(run):
    from nxslib.proto.serialframe import SerialFrame
    sf = SerialFrame()
    rng = common.Rng(run.seed)
    lens = list(range(0, 41)) + list(range(250, 263))
    big = [65520, 65528, 65529, 65530, 65531, 65540, 70000]
    if run.thorough:
        lens += list(range(41, 250, 7)) + list(range(263, 2000, 97)) + [4089, 4095, 4096, 32768]
        big += list(range(65521, 65528))
    out = []
    for fid in list(range(0, 9)) + [9, 200, 255, 256, 2500]:
        ls = lens if fid <= 8 else [0, 3]
        for n in ls + (big if fid in (0, 1, 8) or run.thorough and fid <= 8 else []):
            data = rng.bytes(n)
            out.append(dict(cmd="frame_create %d %s" % (fid, common.hexs(data)),
                            impl=impl_create(sf, fid, data), oracle=spec_create(fid, data),
                            kind="create-len%s" % ("<=40" if n <= 40 else "<=262" if n <= 262 else ">=65520" if n >= 65520 else "mid"),
                            key=("c", fid, data)))
            if fid <= 255 and n <= 65529:
                w = rc.wire(fid, data)
                exp = spec_decode(w)
                out.append(dict(cmd="frame_decode " + common.hexs(w), impl=impl_decode(sf, w),
                                oracle=exp if fid <= 8 else "err HDR",
                                kind="decode-own", key=("d", w)))
    # None and b"" are the same frame
    for fid in range(0, 9):
        a, b = impl_create(sf, fid, None), impl_create(sf, fid, b"")
        out.append(dict(cmd="frame_create %d -" % fid, impl=a, oracle=b, kind="none-vs-empty", key=("n", fid)))
    # all 1-byte payloads, every id
    ids = range(0, 9) if run.thorough else (1, 5)
    for fid in ids:
        for b in range(256):
            data = bytes([b])
            out.append(dict(cmd="frame_create %d %s" % (fid, common.hexs(data)),
                            impl=impl_create(sf, fid, data), oracle=spec_create(fid, data),
                            kind="create-1byte", key=("c", fid, data)))
    if run.thorough:
        for b1 in range(256):
            for b2 in range(0, 256, 5):
                data = bytes([b1, b2])
                out.append(dict(cmd="frame_create 1 %s" % common.hexs(data),
                                impl=impl_create(sf, 1, data), oracle=spec_create(1, data),
                                kind="create-2byte", key=("c", 1, data)))
    return out


def main(run):
    run.regen()
    run.prove()
    model_ok = run.build_model()
    run.run_findings()
    run.pylite(['frame'])
    if model_ok:
        bad = run.differential(cases(run))
        for what, c, m in bad:
            run.violation(what, {"call": c["cmd"][:4000], "implementation": c["impl"][:4000],
                                 "specification": (c.get("oracle") or "")[:4000], "model": m[:4000]})
    else:
        run.proof_ok = False
    return run.finish(rule=RULE, assumptions=[
        "crcmod (C extension) and CPython struct are modelled; tied by this differential run against the bit-serial reference"])

"""C03 - frame reassembly depends on the bytes received, not on how reads split them."""
import itertools

from . import common
from harness import refcodec as rc
from harness.link import ScriptedIntf

RULE = ("byte streams made of valid frames of every id, noise (0x55-rich), truncated frames, bad-CRC frames, headers with "
        "huge/short declared length; for streams <= 10 bytes (quick) / <= 13 bytes (thorough): EVERY composition into read "
        "chunks (exhaustive, 2^(n-1)) plus variants with empty reads inserted; long streams: 40 random compositions each with "
        "random empty reads; the real CommHandler._read_frame is driven over a scripted link until the link is exhausted and "
        "compared (frames in order + final buffer) with the Coq model and with the independent one-pass scan of the "
        "concatenation; non-trivial = distinct (stream, composition) whose stream contains at least one SOF")


def run_impl(chunks):
    from nxslib.comm import CommHandler
    from nxslib.proto.parse import Parser
    intf = ScriptedIntf(chunks, read_budget=20 * (len(chunks) + sum(len(c) for c in chunks)) + 50)
    comm = CommHandler(intf, Parser())
    out = []
    try:
        while True:
            exhausted = not intf.chunks
            before = comm._prev_read
            fr = comm._read_frame()
            if fr is not None:
                out.append("%d:%s" % (int(fr.fid), common.hexs(fr.data)))
            elif exhausted and len(comm._prev_read) == len(before):
                break
    except ScriptedIntf.Spin:
        return "spin"
    except Exception as e:  # noqa: BLE001
        return "raise " + type(e).__name__
    return "%s | %s" % (";".join(out) or "-", common.hexs(comm._prev_read))


def crop(res):
    """only bytes from the first SOF on are pending; junk before it is dropped sooner or later"""
    if " | " not in res:
        return res
    fr, rest = res.split(" | ")
    b = bytes.fromhex(rest) if rest != "-" else b""
    i = b.find(b"\x55")
    return "%s | %s" % (fr, common.hexs(b[i:] if i >= 0 else b""))


def spec(stream):
    frames, rest = rc.scan(stream)
    return "%s | %s" % (";".join("%d:%s" % (f, common.hexs(p)) for f, p in frames) or "-", common.hexs(rest))


def compositions(n):
    for bits in itertools.product((0, 1), repeat=n - 1):
        cuts = [i + 1 for i, b in enumerate(bits) if b]
        yield [0] + cuts + [n]


def split(stream, bounds):
    return [stream[a:b] for a, b in zip(bounds, bounds[1:])]


def small_streams(rng, maxlen):
    f2 = rc.wire(2, [])                 # 6 bytes
    f1 = rc.wire(1, [7])                # 7 bytes
    bad = f2[:-1] + bytes([f2[-1] ^ 1])
    out = [f2, f1, b"\x00" + f2, b"\x55" + f2, f2[:3] + f2, bad, b"\x55\x55" + f2, f2 + b"\x55", f2[:5],
           b"\x00\x00\x00\x55", b"\x55\x06\x00", b"\x55\xff\xff\x01" + f2, b"\x55\x00\x00\x02" + f2[:4],
           b"\x55\x04\x00\x02" + f2, b"\x55\x05\x00\x03\x00" + f2, bad[:6] + f2[:4]]
    out += [f2 + f2[:maxlen - 12]] if maxlen >= 12 else []
    out += [f2 + f1] if maxlen >= 13 else []
    for _ in range(12):
        n = rng.randrange(4, maxlen + 1)
        s = bytearray(rng.choice([0x55, 0x06, 0x00, 0x02, 0x5b, 0x9c]) for _ in range(n))
        out.append(bytes(s))
    return [s[:maxlen] for s in out]


def long_stream(rng):
    parts = []
    for _ in range(rng.randrange(3, 9)):
        k = rng.random()
        fr = rc.wire(rng.randrange(0, 9), rng.bytes(rng.choice([0, 1, 3, 10, 40, 300])))
        if k < 0.45:
            parts.append(fr)
        elif k < 0.6:
            parts.append(bytes(rng.choice([0x55, 0x00, 0x55, rng.randrange(256)]) for _ in range(rng.randrange(1, 9))))
        elif k < 0.75:
            parts.append(fr[:rng.randrange(1, len(fr))])
        elif k < 0.9:
            b = bytearray(fr)
            b[rng.randrange(3, len(b))] ^= 1 << rng.randrange(8)
            parts.append(bytes(b))
        else:
            parts.append(bytes([0x55, rng.choice([0, 3, 5, 200]), rng.choice([0, 0, 1]), rng.randrange(0, 10)]))
    return b"".join(parts)


def cases(run):
    rng = common.Rng(run.seed)
    out = []
    maxlen = 13 if run.thorough else 10

    def add(stream, chunks, kind):
        out.append(dict(cmd="recv_all " + ",".join(common.hexs(c) for c in chunks), impl=crop(run_impl(list(chunks))),
                        mcanon=crop, oracle=spec(stream), kind=kind, key=(stream, tuple(chunks)), nontrivial=b"\x55" in stream))
    for s in small_streams(rng, maxlen):
        for bounds in compositions(len(s)):
            ch = split(s, bounds)
            add(s, ch, "small-exhaustive")
            if rng.random() < 0.08:
                e = list(ch)
                for _ in range(rng.randrange(1, 4)):
                    e.insert(rng.randrange(len(e) + 1), b"")
                add(s, e, "small-with-empty-reads")
    for _ in range(40 if not run.thorough else 600):
        s = long_stream(rng)
        add(s, [s], "long-one-read")
        add(s, [bytes([b]) for b in s] if len(s) < 400 else [s[:1], s[1:]], "long-bytewise")
        for _ in range(40 if not run.thorough else 60):
            k = rng.randrange(1, min(12, len(s)))
            cuts = sorted(rng.sample(range(1, len(s)), k))
            ch = split(s, [0] + cuts + [len(s)])
            for _ in range(rng.randrange(0, 3)):
                ch.insert(rng.randrange(len(ch) + 1), b"")
            add(s, ch, "long-random-composition")
    return out


def main(run):
    run.regen()
    run.prove(extra_targets=["proofs/Pinned_comm.vo"])
    model_ok = run.build_model()
    run.run_findings()
    run.pylite(["reassembly", "frame"])
    if model_ok:
        cs = cases(run)
        for what, c, m in run.differential(cs):
            run.violation(what, {"call": c["cmd"][:4000], "implementation": c["impl"][:3000],
                                 "specification": (c.get("oracle") or "")[:3000], "model": m[:3000]})
    else:
        run.proof_ok = False
    return run.finish(rule=RULE, extra_cov={"exhaustive": True}, assumptions=[
        "a header-valid candidate whose declared length exceeds the bytes received so far stays pending (no online decoder "
        "can decide it); the comparison is made when the link is exhausted",
        "routing of decoded frames to the response/stream queue (frame id test) is covered by C08/C09 runs"])

"""C13 - a worker runs until stopped, never after stop returns, and can be restarted."""
import threading
import time

from . import common

RULE = ("real ThreadCommon with recording init/target/final callbacks driven by random start/stop sequences (length <= 8; in a third of them some stops are requested through stop_set() first, so that thread_stop() finds a worker that already finished) "
        "with random gaps, targets lasting 0 / 1 ms / 30 ms, optional slow init; GIL switch interval lowered to 10 us so the "
        "interpreter pre-empts between lines; the event log is judged by the monitor the Coq model is proved against (init once "
        "before the first target, final once after the last, no target after stop returned until the next start, one "
        "incarnation at a time, start/stop no-ops, restartable, alive and calling target while started, stop returns in "
        "bounded time); thorough tier and any source drift add heavy scenarios (target blocking 3 s, stop during a 0.5 s "
        "init); non-trivial = distinct scenario with >= 1 start")


class Rec:
    def __init__(self, tdelay, idelay):
        self.log = []
        self.lock = threading.Lock()
        self.tdelay, self.idelay = tdelay, idelay
        self.tls = threading.local()
        self.n = 0

    def ev(self, what):
        with self.lock:
            if not hasattr(self.tls, "tok"):
                self.n += 1
                self.tls.tok = self.n          # unique per thread (object ids / idents are reused)
            self.log.append((what, self.tls.tok, time.monotonic()))

    def init(self):
        self.ev("init")
        if self.idelay:
            time.sleep(self.idelay)

    def target(self):
        self.ev("target")
        time.sleep(self.tdelay if self.tdelay else 0.0002)
        self.ev("target_end")

    def final(self):
        self.ev("final")


def scenario(calls, tdelay, idelay, with_init, with_final, gaps, stop_budget=5.0):
    from nxslib.thread import ThreadCommon
    rec = Rec(tdelay, idelay)
    tc = ThreadCommon(rec.target, rec.init if with_init else None, rec.final if with_final else None)
    bad = []
    started = False
    for call, gap in zip(calls, gaps):
        if call == "start":
            rec.ev("start_call")
            tc.thread_start()
            rec.ev("start_ret")
            if not tc.thread_is_alive():
                bad.append("not alive right after thread_start returned")
            started = True
        else:
            rec.ev("stop_call")
            if call == "stop2":
                # the stop is requested through the public stop_set() first and the worker is given the time to
                # finish on its own; thread_stop() then finds a worker that is no longer alive
                tc.stop_set()
                t0 = time.monotonic()
                while tc.thread_is_alive() and time.monotonic() - t0 < stop_budget:
                    time.sleep(0.0005)
            box = {}
            t = threading.Thread(target=lambda: (tc.thread_stop(), box.setdefault("ok", 1)), daemon=True)
            t.start()
            t.join(stop_budget)
            if "ok" not in box:
                bad.append("thread_stop did not return within %.1f s" % stop_budget)
                tc.stop_set()
                return bad, rec.log
            rec.ev("stop_ret")
            if tc.thread_is_alive():
                bad.append("alive after thread_stop returned")
            started = False
        time.sleep(gap)
    if started:
        # keeps calling target while started
        n0 = sum(1 for e in rec.log if e[0] == "target")
        time.sleep(max(0.02, 2.5 * tdelay))
        n1 = sum(1 for e in rec.log if e[0] == "target")
        if n1 <= n0 and idelay < 0.02:
            bad.append("started worker stopped calling target (%d -> %d)" % (n0, n1))
        rec.ev("stop_call")
        tc.thread_stop()
        rec.ev("stop_ret")
    time.sleep(0.03 + 1.2 * tdelay if tdelay < 1 else 0.05)
    rec.ev("end")
    return bad + judge(rec.log, with_init, with_final), rec.log


def judge(log, with_init, with_final):
    bad = []
    # no target between stop_ret and the next start_call / end
    forbidden = False
    for what, tid, _ in log:
        if what == "stop_ret":
            forbidden = True
        elif what == "start_call":
            forbidden = False
        elif what in ("target", "target_end", "init", "final") and forbidden:
            bad.append("%s observed after thread_stop returned and before the next start" % what)
            break
    # per incarnation order, and no interleaving of incarnations
    order = []
    per = {}
    for what, tid, _ in log:
        if what in ("init", "target", "target_end", "final"):
            per.setdefault(tid, []).append(what)
            if not order or order[-1] != tid:
                order.append(tid)
    if len(order) != len(set(order)):
        bad.append("two incarnations were active at the same time (interleaved events)")
    for tid, evs in per.items():
        core = [e for e in evs if e != "target_end"]
        if with_init and (core.count("init") != 1 or core[0] != "init"):
            bad.append("init not exactly once before the first target: %r" % core[:5])
        if not with_init and "init" in core:
            bad.append("init called although none was given")
        if with_final and (core.count("final") != 1 or core[-1] != "final"):
            bad.append("final not exactly once after the last target: %r" % core[-5:])
    # start on a running worker creates no new incarnation: count incarnations <= number of effective starts
    eff, running = 0, False
    for what, _, _ in log:
        if what == "start_call" and not running:
            eff, running = eff + 1, True
        elif what == "stop_ret":
            running = False
    if len(per) > eff:
        bad.append("%d incarnations for %d effective starts" % (len(per), eff))
    return bad


def main(run):
    import sys
    run.regen()
    run.prove(extra_targets=["proofs/Pinned_thread.vo"])
    drift = bool(getattr(run, "drift", []))
    if drift:
        run.proof_ok = False
        run.proof_log += "\nthread.py no longer has the line structure the model (coq/model/Worker.v) was written against: %s" % run.drift
    run.run_findings()
    # pl15: thread.py interpreted (PyLite) vs CPython with the event / thread / callback stubs
    # (tools/checks/pyl_cases.py g_worker); the theorems proofs/Src_worker_*.v are about that interpretation
    run.pylite(["worker"])
    rng = common.Rng(run.seed)
    old = sys.getswitchinterval()
    sys.setswitchinterval(1e-5)
    try:
        n = 45 if not run.thorough else 400
        for i in range(n):
            k = rng.randrange(1, 9)
            calls = [rng.choice(["start", "stop", "start", "stop2"] if i % 3 == 0 else ["start", "stop", "start"])
                     for _ in range(k)]
            if "start" not in calls:
                calls[0] = "start"
            td = rng.choice([0, 0, 0.001, 0.03])
            idl = rng.choice([0, 0, 0, 0.02])
            wi, wf = rng.random() < 0.6, rng.random() < 0.6
            gaps = [rng.choice([0, 0, 0.0005, 0.002, 0.01]) for _ in calls]
            bad, log = scenario(calls, td, idl, wi, wf, gaps)
            run.count("scenario-%d-calls" % min(k, 4), (tuple(calls), td, idl, wi, wf, tuple(gaps)))
            run.sample({"calls": calls, "target_s": td, "init_s": idl, "events": len(log)}, limit=6)
            for b in bad[:1]:
                run.violation(b, {"calls": calls, "target_delay": td, "init_delay": idl, "with_init": wi, "with_final": wf,
                                  "gaps": gaps, "events": [e[0] for e in log][:200]})
            if run.concrete():
                break
        if (run.thorough or drift or run.proof_ok is False) and not run.violations:
            heavy = [(["start", "stop", "start", "stop"], 3.0, 0, True, True, [0.2, 0.0, 0.2, 0.0], 12.0),
                     (["start", "stop"], 0.001, 0.5, True, True, [0.0, 0.0], 8.0),
                     (["start", "stop", "start", "stop"], 0.001, 0.3, True, False, [0.0, 0.0, 0.0, 0.0], 8.0),
                     (["start", "start", "stop", "stop", "start", "stop"], 1.2, 0, False, True, [0.1] * 6, 8.0)]
            for calls, td, idl, wi, wf, gaps, budget in heavy:
                bad, log = scenario(calls, td, idl, wi, wf, gaps, stop_budget=budget)
                run.count("heavy-scenario", (tuple(calls), td, idl))
                for b in bad[:1]:
                    run.violation(b, {"calls": calls, "target_delay": td, "init_delay": idl, "with_init": wi,
                                      "with_final": wf, "gaps": gaps, "events": [e[0] for e in log][:200]})
                if run.concrete():
                    break
    finally:
        sys.setswitchinterval(old)
    run.cov["states"] = 39
    return run.finish(rule=RULE, extra_cov={"abstract_states": 39}, assumptions=[
        "the Coq model is the line structure of thread.py (skeletons pinned in tools/blessed.json; any other source makes "
        "the obligation fail); threading.Event/Thread.start/join are primitives of the model (start returns with the worker "
        "alive, join is enabled only when the worker has finished)",
        "one controlling thread (the property's quantifier); a target that raises and racing controllers are out of scope",
        "real interleavings are sampled by the OS scheduler with a 10 us switch interval, not enumerated"])

"""Run the real ParseRecv.recv_handle with recording callbacks."""
from harness import refcodec as rc
from . import common


def make_recv(frame_cls=None):
    from nxslib.proto.iparserecv import ParseRecvCb
    from nxslib.proto.parserecv import ParseRecv
    fired = []
    cb = ParseRecvCb(
        cmninfo=lambda d: fired.append(("cmninfo", bytes(d))),
        chinfo=lambda d: fired.append(("chinfo", bytes(d))),
        enable=lambda d: fired.append(("enable", bytes(d))),
        div=lambda d: fired.append(("div", bytes(d))),
        start=lambda d: fired.append(("start", bytes(d))),
    )
    pr = ParseRecv(cb) if frame_cls is None else ParseRecv(cb, frame_cls)
    return fired, pr


def impl_dispatch(pr, fired, data):
    del fired[:]
    try:
        pr.recv_handle(bytes(data))
    except AssertionError:
        return "assert"
    except Exception as e:  # noqa: BLE001
        return "raise " + type(e).__name__
    if not fired:
        return "none"
    if len(fired) > 1:
        return "multiple " + repr(fired)
    return "call %s %s" % (fired[0][0], common.hexs(fired[0][1]))


REQ = {rc.ID_CMNINFO: ("cmninfo", lambda n: n == 0), rc.ID_CHINFO: ("chinfo", lambda n: n == 1),
       rc.ID_START: ("start", lambda n: n == 1), rc.ID_ENABLE: ("enable", lambda n: n != 0),
       rc.ID_DIV: ("div", lambda n: n != 0)}


def spec_dispatch(data):
    """Independent specification of the dispatcher."""
    data = bytes(data)
    i = data.find(b"\x55")
    if i < 0 or len(data) - i < 6:
        return "none"
    r = rc.accepts(data[i:])
    if r is None:
        return "none"
    fid, p = r
    if fid not in REQ:
        return "assert"
    name, ok = REQ[fid]
    if not ok(len(p)):
        return "assert"
    return "call %s %s" % (name, common.hexs(p))

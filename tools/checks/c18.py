"""C18 - the serial-port interface is a transparent, non-blocking byte pipe."""
import os
import select
import threading
import time

from . import common
from harness import refcodec as rc
from harness import refdev

RULE = ("real SerialDevice (pyserial) on the slave side of an os.openpty() pseudo-terminal, the harness on the master side: "
        "every byte value 0..255 in both directions singly and in one 256-byte block, bursts of 1..4096 random bytes, single writes of 32 KiB (thorough: up to 256 KiB) read concurrently at the far end, writer "
        "pacing varied (one write, split writes with pauses), idle reads timed, write padding 0/3/16 observed at the far end; "
        "a full client session (connect, enable, stream, samples) over the pty against the reference device compared with the "
        "same session over the ideal in-process link; non-trivial = distinct (direction, payload, pacing)")


class Pty:
    def __init__(self):
        from nxslib.intf.serial import SerialDevice
        self.master, self.slave = os.openpty()
        self.dev = SerialDevice(os.ttyname(self.slave))

    def close(self):
        try:
            self.dev._ser.close()
        except Exception:  # noqa: BLE001
            pass
        self.dev._ser = None
        os.close(self.master)
        os.close(self.slave)

    def master_read(self, n, timeout=2.0):
        out = b""
        t0 = time.time()
        while len(out) < n and time.time() - t0 < timeout:
            r, _, _ = select.select([self.master], [], [], 0.05)
            if r:
                out += os.read(self.master, 65536)
        return out

    def dev_read(self, n, timeout=2.0):
        out = b""
        t0 = time.time()
        while len(out) < n and time.time() - t0 < timeout:
            d = self.dev.read()
            if d:
                out += d
            else:
                time.sleep(0.001)
        return out


def pipe_checks(run, rng):
    p = Pty()
    try:
        # idle read returns at once with nothing
        t0 = time.time()
        d = p.dev.read()
        dt = time.time() - t0
        run.count("idle-read", ("idle",))
        if d != b"" or dt > 0.3:
            run.violation("read on an idle line returned %r after %.2f s" % (d, dt), {"case": "idle read"})
            return
        # every byte value, both directions
        for b in range(256):
            one = bytes([b])
            os.write(p.master, one)
            got = p.dev_read(1, 1.0)
            run.count("dev<-far-1byte", ("in", b))
            if got != one:
                run.violation("byte 0x%02x sent by the other end was read as %r" % (b, got), {"direction": "to client", "byte": b})
                return
            p.dev.write(one)
            got = p.master_read(1, 1.0)
            run.count("dev->far-1byte", ("out", b))
            if got != one:
                run.violation("byte 0x%02x written by the client arrived as %r" % (b, got), {"direction": "to device", "byte": b})
                return
        allb = bytes(range(256))
        sizes = [1, 2, 7, 64, 255, 256, 1000, 4096] + ([rng.randrange(1, 4097) for _ in range(6)] if run.thorough else [])
        for n in sizes:
            data = (allb * (n // 256 + 1))[:n] if n % 2 else rng.bytes(n)
            for pacing in ("one", "split"):
                if pacing == "one":
                    os.write(p.master, data)
                else:
                    def w(data=data, r=common.Rng(rng.randrange(1 << 30))):
                        i = 0
                        while i < len(data):
                            k = r.randrange(1, 200)
                            os.write(p.master, data[i:i + k])
                            i += k
                            time.sleep(r.choice([0, 0.0005, 0.002]))
                    wt = threading.Thread(target=w, daemon=True)
                    wt.start()
                got = p.dev_read(n, 5.0)
                run.count("burst-in-%s" % pacing, ("bin", n, pacing, data[:8]))
                if got != data:
                    run.violation("burst of %d bytes from the other end was altered (first difference at %d)" % (
                        n, next((i for i, (a, b) in enumerate(zip(got, data)) if a != b), min(len(got), len(data)))),
                        {"direction": "to client", "size": n, "pacing": pacing, "received": len(got)})
                    return
            p.dev.write(data)
            got = p.master_read(n, 5.0)
            run.count("burst-out", ("bout", n, data[:8]))
            if got != data:
                run.violation("burst of %d bytes written by the client was altered" % n, {"direction": "to device", "size": n, "received": len(got)})
                return
        # large writes: more than the tty accepts at once; the far end reads concurrently
        for n in ([32768] if not run.thorough else [16384, 65536, 262144]):
            data = rng.bytes(n)
            box = {}

            def rd(n=n):
                box["got"] = p.master_read(n, 10.0)
            rt = threading.Thread(target=rd, daemon=True)
            rt.start()
            try:
                p.dev.write(data)
            except Exception as e:  # noqa: BLE001
                box["exc"] = "%s: %s" % (type(e).__name__, e)
            rt.join(12)
            got = box.get("got", b"")
            run.count("large-write", ("lw", n))
            if "exc" in box or got != data:
                run.violation("a write of %d bytes by the client did not arrive intact (%d bytes arrived%s)" % (
                    n, len(got), ", write raised " + box["exc"] if "exc" in box else ""),
                    {"direction": "to device", "size": n, "received": len(got)})
                return
        # a far end that stops reading for longer than the write time-out while more than the tty buffers hold is
        # outstanding: the write may fail LOUDLY (an exception tells the caller) - it must not return normally
        # with bytes missing
        data = rng.bytes(65536)
        box = {}

        def slow_rd():
            time.sleep(1.6)
            box["got"] = p.master_read(len(data), 3.0)
        rt = threading.Thread(target=slow_rd, daemon=True)
        rt.start()
        try:
            p.dev.write(data)
            box["returned"] = True
        except Exception as e:  # noqa: BLE001
            box["exc"] = "%s" % type(e).__name__
        rt.join(8)
        got = box.get("got", b"")
        run.count("stalled-reader", ("stalled", len(data)))
        if box.get("returned") and got != data:
            run.violation("a write of %d bytes to a far end that paused 1.6 s returned normally although only %d bytes "
                          "arrived" % (len(data), len(got)), {"direction": "to device", "size": len(data), "received": len(got)})
            return
        while p.master_read(4096, 0.2):      # drain what is left of a write that failed loudly
            pass
        # padding
        for pad in (0, 3, 16):
            p.dev.write_padding = pad
            for n in (1, 5, 16, 17):
                data = rng.bytes(n).replace(b"\x00", b"\x01")
                p.dev.write(data)
                exp = data + b"\x00" * ((pad - n % pad) % pad if pad else 0)
                got = p.master_read(len(exp), 2.0)
                extra = p.master_read(1, 0.05)
                run.count("padding", ("pad", pad, n))
                if got != exp or extra:
                    run.violation("write padding %d: %d byte write arrived as %d bytes" % (pad, n, len(got) + len(extra)),
                                  {"padding": pad, "size": n})
                    return
        p.dev.write_padding = 0
    finally:
        p.close()


def session(link_kind, rng_seed):
    """full client session; returns (description, first samples of channel 1)"""
    from nxslib.nxscope import NxscopeHandler
    from nxslib.proto.parse import Parser
    refdev.install_fast_clock(0.05)
    chans = [dict(en=False, typ=7, vdim=1, div=0, mlen=0, name=b"alpha"), dict(en=False, typ=0x8A, vdim=2, div=3, mlen=1, name="żółw".encode()),
             dict(en=False, typ=18, vdim=4, div=0, mlen=0, name=b"txt")]
    ref = refdev.RefDevice(chans, flags=3, rxpadding=0)
    stop = threading.Event()
    if link_kind == "ideal":
        intf, p = ref, None
    else:
        p = Pty()
        intf = p.dev

        def bridge():
            while not stop.is_set():
                r, _, _ = select.select([p.master], [], [], 0.01)
                if r:
                    try:
                        ref._write(os.read(p.master, 65536))
                    except OSError:
                        return
                with ref.rxlock:
                    out = list(ref.rx)
                    ref.rx.clear()
                for o in out:
                    os.write(p.master, o)
        threading.Thread(target=bridge, daemon=True).start()
    nx = NxscopeHandler(intf, Parser())
    try:
        fin, res = refdev.run_with_watchdog(nx.connect, 40)
        if not fin or isinstance(res, BaseException):
            return "connect failed: %r" % (res,), None
        d = nx.dev
        desc = (d.data.chmax, d.data.flags, d.data.rxpadding,
                tuple((c.data.en, c.data._type, c.data.vdim, c.data.div, c.data.mlen, c.data.name, c.data.critical)
                      for c in (d.channel_get(i) for i in range(d.data.chmax))))
        q = nx.stream_sub(0)
        nx.ch_enable(0)
        nx.stream_start()
        vals = []
        for v in range(1, 30):
            f = rc.wire(rc.ID_STREAM, bytes([0, 0]) + (v * 1000003 % 2**31).to_bytes(4, "little") + bytes([0x55, 0x11, 0x13, 0x0a][v % 4:v % 4 + 0]))
            ref.push(f)
        t0 = time.time()
        while len(vals) < 29 and time.time() - t0 < 5:
            try:
                for s in q.get(timeout=0.2):
                    vals.append(s.data[0])
            except Exception:  # noqa: BLE001
                pass
        return desc, vals
    finally:
        refdev.run_with_watchdog(nx.disconnect, 40)
        nx._thrd.stop_set()
        nx._comm._thrd.stop_set()
        stop.set()
        if p:
            time.sleep(0.05)
            p.close()


def main(run):
    run.regen()
    run.prove()
    run.run_findings()
    rng = common.Rng(run.seed)
    pipe_checks(run, rng)
    if not run.concrete():
        a = session("ideal", run.seed)
        b = session("pty", run.seed)
        run.count("session", ("session",))
        run.sample({"session_over_pty_samples": (b[1] or [])[:5], "description": repr(b[0])[:200]})
        if a != b or not a[1]:
            run.violation("client session over the pseudo-terminal differs from the ideal link",
                          {"ideal": repr(a)[:1500], "pty": repr(b)[:1500]})
    return run.finish(level="proof", rule=RULE, assumptions=[
        "PARTIAL: that pyserial + the kernel tty/pty layer are a FIFO byte pipe (raw mode, no XON/XOFF, no CR/LF or control "
        "character translation, in_waiting semantics) is operating-system behaviour; it is covered by this run on a "
        "pseudo-terminal only, not proved; the Coq theorems cover the client-side logic and reduce the session claim to it",
        "a pty is not a UART: baud rate, parity and hardware flow control are not exercised"])

"""C07 - buffered channel configuration reaches the device exactly at write time."""
from . import common
from . import config_util as cu

RULE = ("random histories (length <= 25 quick / <= 60 thorough) of enable / disable / divider / enable-all / disable-all / "
        "default-cfg calls interleaved with writes on a real CommHandler (and NxscopeHandler) connected to the harness "
        "reference device under a scaled clock; channel counts 1..12 (and 255), all four combinations of divider/ACK "
        "support, rx paddings {0,1,7,16,255}, initial device states incl. channels already enabled, dividers set and a "
        "stream left running; after EVERY call: device enable/divider vectors, the new requests on the wire (decoded by "
        "the independent codec), ch_is_enabled and ch_div_get are compared with the Coq model; non-trivial = distinct "
        "history containing at least one write")


def cases(run, adversarial=False, count=None):
    rng = common.Rng(run.seed + (1 if adversarial else 0))
    out = []
    count = count or (70 if not run.thorough else 800)
    for i in range(count):
        n = rng.choice([1, 2, 2, 3, 3, 4, 5, 8, 12]) if i % 25 != 24 else 255
        divsup, acksup = (i % 4) in (0, 1), (i % 4) in (0, 2)
        if adversarial:
            acksup = True
        fresh = rng.random() < 0.4
        en0 = [False] * n if fresh else [rng.random() < 0.5 for _ in range(n)]
        div0 = [0] * n if fresh else [rng.choice([0, 0, 1, 5, 200, 255]) for _ in range(n)]
        ops = cu.gen_history(rng, n, adversarial, rng.randrange(3, 26 if not run.thorough else 61))
        pad = rng.choice([0, 0, 1, 7, 16, 255])
        strm, hi = (not fresh and rng.random() < 0.5), rng.random() < 0.5
        got = cu.run_history(n, divsup, acksup, en0, div0, ops, rxpadding=pad, streaming=strm, high=hi)
        out.append(dict(cmd="config %d %d %s %s %s" % (divsup, acksup, cu.bools(en0), cu.ints(div0), ";".join(ops)),
                        impl=got, oracle=None, kind="history-n%d-div%d-ack%d" % (min(n, 13), divsup, acksup),
                        rerun=(lambda a=(n, divsup, acksup, list(en0), list(div0), list(ops)), p=pad, st=strm, hi=hi:
                               cu.run_history(*a, rxpadding=p, streaming=st, high=hi, scale=0.08)),
                        key=(n, divsup, acksup, tuple(en0), tuple(div0), tuple(ops)),
                        nontrivial=any(o.startswith("W") for o in ops)))
    return out


def main(run):
    run.regen()
    run.prove(extra_targets=["proofs/Pinned_comm.vo"])
    model_ok = run.build_model()
    run.run_findings()
    run.pylite(['config'])
    if model_ok:
        for what, c, m in run.differential(cases(run)):
            run.violation(what, {"call": c["cmd"][:4000], "implementation": c["impl"][:4000], "model": m[:4000]})
    else:
        run.proof_ok = False
    return run.finish(rule=RULE, assumptions=[
        "requests travel as their meaning in the model; that the bytes mean exactly that at the device is C05",
        "on a device without ACK support the reference device consumes the request synchronously (as the property states)"])

"""C14 - the simulated device answers like a conforming NxScope device."""
import time

from . import common
from harness import refcodec as rc
from harness import refdev
from harness.findings import _Counter

RULE = ("random device definitions (1..12 channels, sometimes 200+, flags 0..3, types incl. critical/reserved bits, non-ASCII "
        "names, rx padding) on the real DummyDev; random sequences of well-formed requests (common info, channel info, "
        "enable/divider in single/all/bulk form, start/stop) each padded to a random write padding, interleaved with "
        "padding-only writes, noise and CRC-damaged requests; after every write the responses read back and the device's "
        "enable/divider/stream state are compared with the Coq model; a streaming scenario with counter generators checks "
        "that frames carry only enabled channels and that each channel's values are consecutive across frames; "
        "non-trivial = distinct (definition, request sequence)")


def mkdev(rng, n, flags, rxpad, counters=False):
    from nxslib.dev import DeviceChannel
    from nxslib.intf.dummy import DummyDev
    chans, desc = [], []
    for i in range(n):
        ty = rng.choice([2, 3, 7, 10, 0x82, 0x47, 18, 1])
        vd = 0 if (ty & 31) == 1 else rng.choice([1, 2, 3])
        ml = rng.choice([0, 0, 1, 4])
        name = rng.choice(["c%d" % i, "żółw%d" % i, "", "x" * 20, "日本"])
        dv = rng.choice([0, 0, 5, 200, 255])
        en = False
        chans.append(DeviceChannel(i, ty, vd, name, en, dv, ml, func=_Counter() if counters else None))
        desc.append("%d:%d:%d:%d:%d:%s" % (en, ty, vd, dv, ml, ".".join(str(ord(c)) for c in name) or "-"))
    d = DummyDev(chmax=n, flags=flags, channels=chans, rxpadding=rxpad, stream_sleep=0.001, stream_snum=2)
    return d, ";".join(desc)


def settle(d):
    t0 = time.time()
    while not d._qwrite.empty() and time.time() - t0 < 2.0:
        time.sleep(0.0005)
    time.sleep(0.003)


def responses(d):
    out = []
    while True:
        try:
            out.append(d._qread.get_nowait())
        except Exception:  # noqa: BLE001
            break
    return out


def state(d, resp):
    n = d._dummydev.data.chmax
    return "[%s] en=%s div=%s st=%s" % (
        ",".join(common.hexs(r) for r in resp),
        "".join("1" if d._dummydev.channel_get(i).data.en else "0" for i in range(n)) or "-",
        ",".join(str(d._dummydev.channel_get(i).data.div) for i in range(n)) or "-",
        "true" if d._stream_started.is_set() else "false")


def gen_writes(rng, n, count):
    out = []
    for _ in range(count):
        k = rng.random()
        if k < 0.12:
            f = rc.req_cmninfo()
        elif k < 0.3:
            f = rc.req_chinfo(rng.randrange(n))
        elif k < 0.42:
            f = rc.wire(rc.ID_ENABLE, [rc.SET_SINGLE, rng.randrange(n), rng.randrange(2)])
        elif k < 0.5:
            f = rc.wire(rc.ID_ENABLE, [rc.SET_ALL, 0, rng.randrange(2)])
        elif k < 0.58:
            f = rc.wire(rc.ID_ENABLE, [rc.SET_BULK, 0] + [rng.randrange(2) for _ in range(n)])
        elif k < 0.68:
            f = rc.wire(rc.ID_DIV, [rc.SET_SINGLE, rng.randrange(n), rng.choice([0, 1, 127, 128, 200, 255])])
        elif k < 0.74:
            f = rc.wire(rc.ID_DIV, [rc.SET_ALL, 0, rng.randrange(256)])
        elif k < 0.8:
            f = rc.wire(rc.ID_DIV, [rc.SET_BULK, 0] + [rng.randrange(256) for _ in range(n)])
        elif k < 0.88:
            f = rc.req_start(rng.random() < 0.5)
        elif k < 0.92:
            out.append(b"\x00" * rng.randrange(1, 40))
            continue
        elif k < 0.96:
            out.append(bytes(rng.choice([0, 1, 0x54, 0x56, 0xff, rng.randrange(256)]) for _ in range(rng.randrange(1, 20))).replace(b"\x55", b"\x50"))
            continue
        else:
            g = bytearray(rc.wire(rc.ID_ENABLE, [rc.SET_ALL, 0, 1]))
            g[rng.randrange(4, len(g))] ^= 1 << rng.randrange(8)
            out.append(bytes(g))
            continue
        p = rng.choice([0, 0, 4, 7, 16])
        if p:
            f = f + b"\x00" * ((p - len(f) % p) % p)
        out.append(f)
    return out


def streaming_scenario(run, rng, cycles=4):
    d, _ = mkdev(rng, 4, 3, 0, counters=True)
    # all channels INT32-like counters: force simple types
    from nxslib.dev import DeviceChannel
    from nxslib.intf.dummy import DummyDev
    chans = [DeviceChannel(i, 7, 1, "c%d" % i, func=_Counter()) for i in range(4)]
    d = DummyDev(chmax=4, flags=3, channels=chans, rxpadding=0, stream_sleep=0.001, stream_snum=60)
    d.start()
    try:
        seen = {i: [] for i in range(4)}
        enabled = [False] * 4
        bad = None
        for step in range(12):
            k = rng.randrange(4)
            v = rng.random() < 0.6
            d.write(rc.wire(rc.ID_ENABLE, [rc.SET_SINGLE, k, int(v)]))
            settle(d)
            enabled[k] = v
            if step == 1:
                d.write(rc.req_start(True))
            elif step > 1 and rng.random() < 0.5:
                # stop / start cycles: nothing sampled may be lost across them
                for _ in range(cycles):
                    time.sleep(rng.choice([0.0005, 0.001, 0.002, 0.004]))
                    d.write(rc.req_start(False))
                    time.sleep(rng.choice([0.0, 0.001, 0.003]))
                    d.write(rc.req_start(True))
            time.sleep(0.02)
            for r in responses(d):
                fr = rc.accepts(r)
                if fr and fr[0] == rc.ID_STREAM:
                    p = fr[1][1:]
                    for j in range(0, len(p), 5):
                        ch, val = p[j], int.from_bytes(p[j + 1:j + 5], "little", signed=True)
                        seen[ch].append(val)
            # channels enabled at any time so far may appear; a never-enabled channel must not
        d.write(rc.req_start(False))
        settle(d)
        for ch, vals in seen.items():
            exp = [(i % 200) + 1 for i in range(len(vals))]
            run.count("stream-channel", ("stream", ch, len(vals)))
            if vals != exp:
                bad = "channel %d samples are not its generator's sequence without loss or repetition: %r" % (ch, vals[:12])
        if bad:
            run.violation(bad, {"seen": {k: v[:40] for k, v in seen.items()}})
    finally:
        d.stop()


def main(run):
    run.regen()
    run.prove()
    model_ok = run.build_model()
    run.run_findings()
    refdev.install_fast_clock(0.01)
    rng = common.Rng(run.seed)
    if model_ok:
        cases = []
        for i in range(25 if not run.thorough else 300):
            n = rng.choice([1, 2, 3, 4, 6, 12]) if i % 12 != 11 else rng.choice([200, 255])
            flags, rxpad = rng.randrange(4), rng.choice([0, 4, 16])
            d, desc = mkdev(rng, n, flags, rxpad)
            writes = gen_writes(rng, n, rng.randrange(4, 22))
            d.start()
            outs = []
            try:
                for w in writes:
                    d.write(w)
                    settle(d)
                    outs.append(state(d, responses(d)))
            finally:
                d.stop()
            cases.append(dict(cmd="dummy %d %d %s %s" % (flags, rxpad, desc, ",".join(common.hexs(w) for w in writes)),
                              impl=" / ".join(outs), oracle=None, kind="sequence-n%d-flags%d" % (min(n, 13), flags),
                              key=(desc, tuple(writes))))
        for what, c, m in run.differential(cases):
            run.violation(what, {"call": c["cmd"][:4000], "implementation": c["impl"][:4000], "model": m[:4000]})
        if not run.concrete():
            drift = bool(getattr(run, "drift", []))
            for _ in range(3 if not (run.thorough or drift) else 25):
                streaming_scenario(run, rng, cycles=4 if not drift else 12)
                if run.concrete():
                    break
    else:
        run.proof_ok = False
    return run.finish(rule=RULE, assumptions=[
        "the two device threads are exercised under the OS scheduler (responses are collected after the request queue is "
        "empty); the sampling loop is modelled per round, the generator classes themselves are covered by C16",
        "an accepted frame that is not a request (STREAM / ACK / id 0 / id 8 with a valid CRC) makes recv_handle raise "
        "AssertionError as the test-suite demands; such frames are neither noise nor corrupted requests and are not generated"])

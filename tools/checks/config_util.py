"""Run configuration histories on the real CommHandler / NxscopeHandler against the harness reference device."""
import threading

from . import common
from harness import refcodec as rc
from harness import refdev

ANS = {"A": "ok", "LR": "lostreq", "LA": "lostack"}


def bools(l):
    return "".join("1" if b else "0" for b in l) or "-"


def ints(l):
    return ",".join(str(int(x)) for x in l) or "-"


def log_entry(kind, payload, n):
    fl, ch, vals = payload[0], payload[1], list(payload[2:])
    if kind == "enable":
        if fl == rc.SET_SINGLE:
            return "es:%d:%d" % (ch, vals[0])
        vec = vals[:n] if fl == rc.SET_BULK else [vals[0]] * n
        return "ev:" + bools(vec)
    if fl == rc.SET_SINGLE:
        return "ds:%d:%d" % (ch, vals[0])
    vec = vals[:n] if fl == rc.SET_BULK else [vals[0]] * n
    return "dv:" + ints(vec)


def run_history(n, divsup, acksup, en0, div0, ops, rxpadding=0, streaming=False, high=False, scale=0.01):
    """ops: list of op strings as the model driver takes them. Returns the per-op observation string."""
    from nxslib.comm import CommHandler
    from nxslib.nxscope import NxscopeHandler
    from nxslib.proto.parse import Parser
    refdev.install_fast_clock(scale)
    answers = []          # answers for the requests of the current write

    def policy(i, kind, payload):
        if kind in ("enable", "div") and answers:
            a = answers.pop(0)
            if a[0] == "N":
                return ("nack", int(a[1:]))
            return ANS[a]
        return "ok"
    chans = [dict(en=en0[i], typ=2, vdim=1, div=div0[i], mlen=0, name=b"c%d" % i) for i in range(n)]
    dev = refdev.RefDevice(chans, flags=(1 if divsup else 0) | (2 if acksup else 0), rxpadding=rxpadding,
                           policy=policy, streaming=streaming, block_rx=True)
    h = NxscopeHandler(dev, Parser()) if high else CommHandler(dev, Parser())
    comm = h._comm if high else h
    fin, res = refdev.run_with_watchdog(h.connect, 20)
    if not fin or isinstance(res, BaseException):
        comm._thrd.stop_set()
        return "connect-failed %r" % (res,)
    out = []
    try:
        base = len(dev.log)
        for o in ops:
            p = o.split(":")
            before = len(dev.log)
            if p[0] == "E":
                cs = [int(x) for x in p[1].split(",")]
                h.ch_enable(cs if len(cs) > 1 else cs[0])
            elif p[0] == "D":
                cs = [int(x) for x in p[1].split(",")]
                h.ch_disable(cs if len(cs) > 1 else cs[0])
            elif p[0] == "V":
                cs = [int(x) for x in p[1].split(",")]
                h.ch_divider(cs if len(cs) > 1 else cs[0], int(p[2]))
            elif p[0] == "EA":
                comm.ch_enable_all()
            elif p[0] == "DA":
                h.ch_disable_all()
            elif p[0] == "DF":
                h.channels_default_cfg()
            elif p[0] == "W":
                del answers[:]
                if divsup:
                    answers.append(p[1])
                answers.append(p[2])
                fin, res = refdev.run_with_watchdog(h.channels_write, 20)
                if not fin:
                    out.append("write-did-not-return")
                    break
                if isinstance(res, BaseException):
                    out.append("write-raised-" + type(res).__name__)
                    break
            # the model's log holds the requests the device applied
            new = [log_entry(k, pl, n) for k, pl, act in dev.log[before:]
                   if k in ("enable", "div") and act in ("ok", "lostack")]
            out.append("en=%s div=%s now=%s dnow=%s log=%s" % (
                bools(dev.en()), ints(dev.div()), bools(comm.ch_is_enabled(i) for i in range(n)),
                ints(comm.ch_div_get(i) for i in range(n)), "+".join(new) or "-"))
    finally:
        refdev.run_with_watchdog(h.disconnect, 20)
        comm._thrd.stop_set()
    if dev.misaligned:
        out.append("misaligned-writes:%s" % ",".join("%d" % len(w) for w in dev.misaligned[:5]))
    return " / ".join(out)


def gen_history(rng, n, adversarial, length):
    ops = []
    for _ in range(length):
        k = rng.random()
        cs = sorted(set(rng.randrange(n) for _ in range(rng.choice([1, 1, 1, 2, 3]))))
        if k < 0.25:
            ops.append("E:" + ",".join(map(str, cs)))
        elif k < 0.45:
            ops.append("D:" + ",".join(map(str, cs)))
        elif k < 0.62:
            ops.append("V:%s:%d" % (",".join(map(str, cs)), rng.choice([0, 1, 2, 127, 128, 200, 255])))
        elif k < 0.66:
            ops.append("EA")
        elif k < 0.70:
            ops.append("DA")
        elif k < 0.73:
            ops.append("DF")
        else:
            if adversarial:
                a = [rng.choice(["A", "A", "A", "N1", "N-22", "N2147483647", "LR", "LA"]) for _ in range(2)]
            else:
                a = ["A", "A"]
            ops.append("W:%s:%s" % tuple(a))
    return ops

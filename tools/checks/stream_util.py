"""Generators, independent encoder and canonicalisation for stream samples (C04, C15)."""
import math
import struct
from fractions import Fraction

from . import common

INT_T = {2: ("B", 1, False), 3: ("b", 1, True), 4: ("H", 2, False), 5: ("h", 2, True), 6: ("I", 4, False),
         7: ("i", 4, True), 8: ("Q", 8, False), 9: ("q", 8, True)}
FIX_T = {12: (2, False, 8), 13: (2, True, 8), 14: (4, False, 16), 15: (4, True, 16), 16: (8, False, 32),
         17: (8, True, 32)}
KIND = {"NONE": 0, "NUM": 1, "CHAR": 2, "COMPLEX": 3}
MSF = {0: "", 1: "B", 2: "H", 4: "I", 8: "Q"}
CODE_SZ = {"b": 1, "B": 1, "h": 2, "H": 2, "i": 4, "I": 4, "l": 4, "L": 4, "q": 8, "Q": 8, "f": 4, "d": 8, "c": 1, "?": 1}
CODE_SIGNED = set("bhilq")


def dyad(fr):
    """canonical 'q num/e' of an exact dyadic rational"""
    fr = Fraction(fr)
    if fr == 0:
        return "q0/0"
    num, den = fr.numerator, fr.denominator
    e = den.bit_length() - 1
    assert den == 1 << e
    while num % 2 == 0:
        num //= 2
        e -= 1
    return "q%d/%d" % (num, e)


def f32tok(bits):
    e, m = (bits >> 23) & 0xFF, bits & 0x7FFFFF
    return "f32:nan" if e == 255 and m else "f32:%d" % bits


def f64tok(bits):
    e, m = (bits >> 52) & 0x7FF, bits & ((1 << 52) - 1)
    return "f64:nan" if e == 2047 and m else "f64:%d" % bits


def cps_tok(s):
    return "t" + ".".join(str(ord(c)) for c in s)


class Chan:
    def __init__(self, typ, vdim, mlen):
        self.typ, self.vdim, self.mlen = typ, vdim, mlen


def parse_user_fmt(fmt):
    """[(count, code)] of a user format string (digits + codes)."""
    out, cnt = [], ""
    for ch in fmt:
        if ch.isdigit():
            cnt += ch
        else:
            out.append((int(cnt) if cnt else 1, ch))
            cnt = ""
    return out


def user_size(fmt):
    return sum(c * (1 if k == "s" else CODE_SZ[k]) for c, k in parse_user_fmt(fmt))


def gen_user_types(rng, n, for_encode=False):
    """dict type -> (fmt, kind) ; slen 1, user True, scale None"""
    out = {}
    for t in rng.sample(range(20, 32), n):
        k = rng.randrange(1, 5)
        parts = []
        for _ in range(k):
            code = rng.choice("bBhHiIqQfdc?s")
            cnt = rng.choice(["", "", "2", "3"]) if code != "s" else str(rng.randrange(1, 6))
            parts.append(cnt + code)
        fmt = "".join(parts)
        kind = rng.choice(["NUM", "CHAR", "COMPLEX"])
        if kind == "CHAR":
            # a text type is made of bytes items
            fmt = "".join(rng.choice(["c", "2c", "3c"]) for _ in range(rng.randrange(2, 4))) \
                if (rng.random() < 0.5 and not for_encode) else "%ds" % rng.randrange(1, 9)
        out[t] = (fmt, kind)
    return out


def rand_raw(rng, size, signed):
    lo, hi = (-(1 << (8 * size - 1)), (1 << (8 * size - 1)) - 1) if signed else (0, (1 << (8 * size)) - 1)
    picks = [lo, hi, 0, 1, -1 if signed else 1, lo + 1, hi - 1, (1 << 53) + 1, (1 << 53) - 1, -(1 << 53) - 1]
    picks = [p for p in picks if lo <= p <= hi]
    return rng.choice(picks) if rng.random() < 0.4 else rng.randrange(lo, hi + 1)


def rand_f(rng, bits):
    special32 = [0, 0x80000000, 0x3F800000, 0x7F800000, 0xFF800000, 0x7FC00000, 0x7F800001, 1, 0x007FFFFF, 0x7F7FFFFF]
    special64 = [0, 1 << 63, 0x3FF0000000000000, 0x7FF0000000000000, 0xFFF0000000000000, 0x7FF8000000000000,
                 0x7FF0000000000001, 1, 0x000FFFFFFFFFFFFF, 0x7FEFFFFFFFFFFFFF]
    if rng.random() < 0.4:
        return rng.choice(special32 if bits == 32 else special64)
    return rng.getrandbits(bits)


def rand_text_bytes(rng, n, valid=True):
    """n bytes of (valid) UTF-8, possibly with NULs"""
    out = b""
    while len(out) < n:
        room = n - len(out)
        ch = chr(rng.choice([rng.randrange(0, 128), rng.randrange(0x80, 0x800), rng.randrange(0x800, 0xD800),
                             rng.randrange(0xE000, 0x10000), rng.randrange(0x10000, 0x110000), 0, 0x41]))
        b = ch.encode("utf-8")
        if len(b) <= room:
            out += b
        else:
            out += b"\x00" * room
    if not valid and n:
        i = rng.randrange(n)
        out = out[:i] + bytes([rng.choice([0xFF, 0xFE, 0xC0, 0x80, 0xED])]) + out[i + 1:]
    return out


def gen_sample(rng, chid, ch, user, allow_invalid_text=True, ints_on_float=False):
    """returns dict(bytes=wire bytes after the channel byte, expect=[tokens], meta bytes, meta expect, model tokens)"""
    t, vd = ch.typ, ch.vdim
    data_b, exp, enc = b"", [], []
    if t == 1:
        kind = "NONE"
    elif t in INT_T:
        code, size, signed = INT_T[t]
        kind = "NUM"
        for _ in range(vd):
            r = rand_raw(rng, size, signed)
            data_b += r.to_bytes(size, "little", signed=signed)
            exp.append("i%d" % r)
            enc.append(("i", r))
    elif t in (10, 11):
        kind = "NUM"
        as_int = ints_on_float and rng.random() < 0.4     # what the simulated device's counters do
        for _ in range(vd):
            if as_int:
                import struct as _st
                z = rng.choice([0, 1, -1, 5, 1000, (1 << 24) + 1, (1 << 53) + 1, (1 << 60) + (1 << 36) + 1,
                                rng.randrange(-(1 << 70), 1 << 70), rng.randrange(-2000, 2000)])
                b = _st.pack("<f" if t == 10 else "<d", z)
                bits = int.from_bytes(b, "little")
                data_b += b
                exp.append(f32tok(bits) if t == 10 else f64tok(bits))
                enc.append(("i", z))
                continue
            bits = rand_f(rng, 32 if t == 10 else 64)
            data_b += bits.to_bytes(4 if t == 10 else 8, "little")
            exp.append(f32tok(bits) if t == 10 else f64tok(bits))
            enc.append(("f" if t == 10 else "d", bits))
    elif t in FIX_T:
        size, signed, k = FIX_T[t]
        kind = "NUM"
        for _ in range(vd):
            r = rand_raw(rng, size, signed)
            data_b += r.to_bytes(size, "little", signed=signed)
            exp.append(dyad(Fraction(r / (1 << k))))     # int / int: correctly rounded quotient
            enc.append(("X", r))
    elif t in (18, 19):
        kind = "CHAR"
        valid = not (allow_invalid_text and rng.random() < 0.25)
        data_b = rand_text_bytes(rng, vd, valid)
        try:
            s = data_b.decode("utf-8")
            exp.append(cps_tok(s))
            enc.append(("T", s))
        except UnicodeDecodeError:
            exp.append("lossy")
            enc.append(("B", data_b))
    else:
        fmt, kind = user[t]
        items = parse_user_fmt(fmt)
        if kind == "CHAR" and len(items) == 1 and items[0][1] == "s":
            valid = not (allow_invalid_text and rng.random() < 0.25)
            data_b = rand_text_bytes(rng, items[0][0], valid)
            try:
                sx = data_b.decode("utf-8")
                exp.append(cps_tok(sx))
                enc.append(("T", sx))
            except UnicodeDecodeError:
                exp.append("lossy")
                enc.append(("B", data_b))
            items = []
        for cnt, code in items:
            if code == "s":
                b = rng.bytes(cnt)
                data_b += b
                exp.append("x" + common.hexs(b))
                enc.append(("B", b))
                continue
            for _ in range(cnt):
                if code == "c":
                    b = rng.bytes(1)
                    data_b += b
                    exp.append("x" + common.hexs(b))
                    enc.append(("B", b))
                elif code == "?":
                    v = rng.choice([0, 1, 2, 255] if allow_invalid_text else [0, 1])
                    data_b += bytes([v])
                    exp.append("b%d" % (1 if v else 0))
                    enc.append(("i", 1 if v else 0))
                elif code in "fd":
                    bits = rand_f(rng, 32 if code == "f" else 64)
                    data_b += bits.to_bytes(CODE_SZ[code], "little")
                    exp.append(f32tok(bits) if code == "f" else f64tok(bits))
                    enc.append((code, bits))
                else:
                    r = rand_raw(rng, CODE_SZ[code], code in CODE_SIGNED)
                    data_b += r.to_bytes(CODE_SZ[code], "little", signed=code in CODE_SIGNED)
                    exp.append("i%d" % r)
                    enc.append(("i", r))
        if kind == "CHAR" and len(exp) == 1 and exp[0].startswith("x"):
            raw = bytes.fromhex(exp[0][1:]) if exp[0] != "x-" else b""
            try:
                exp = [cps_tok(raw.decode("utf-8"))]
            except UnicodeDecodeError:
                exp = ["lossy"]
    # metadata
    ml = ch.mlen
    meta_b = rng.bytes(ml)
    if ml in (1, 2, 4, 8):
        mexp = ["i%d" % int.from_bytes(meta_b, "little")]
    else:
        mexp = ["i%d" % b for b in meta_b]
    return dict(chid=chid, kind=KIND[kind], data=data_b, exp=exp, meta=meta_b, mexp=mexp, enc=enc)


def sample_str(chan, kind, vdim, mlen, vals, meta):
    return "%d %d %d %d [%s] [%s]" % (chan, kind, vdim, mlen, ",".join(vals), ",".join(meta))


def gen_layout(rng, user, big=False):
    n = rng.choice([1, 2, 3, 4, 6, 8]) if not big else rng.choice([128, 200, 255])
    chans = []
    for _ in range(n):
        t = rng.choice(list(range(1, 20)) + list(user) * 2)
        if t == 1:
            vd = 0
        elif t in user:
            vd = user_size(user[t][0])
        else:
            vd = rng.choice([1, 1, 2, 3, 4, 16, 64, 255])
        ml = rng.choice([0, 0, 0, 1, 2, 3, 4, 5, 8, 16, 255])
        chans.append(Chan(t, vd, ml))
    return chans


def layout_arg(chans):
    return ";".join("%d:%d:%d:%d" % (c.typ, c.vdim, c.mlen, i) for i, c in enumerate(chans)) or "-"


def user_arg(user):
    return ";".join("%d:1:%s:%d:1:N" % (t, f or "_", KIND[k]) for t, (f, k) in sorted(user.items())) or "-"


def mk_device(chans):
    from nxslib.dev import Device, DeviceChannel
    return Device(len(chans), 3, 0, [DeviceChannel(i, c.typ, c.vdim, "c", mlen=c.mlen) for i, c in enumerate(chans)])


def mk_user_types(user):
    from nxslib.proto.iparse import DsfmtItem, EParseDataType
    out = {}
    for t, (f, k) in user.items():
        kd = EParseDataType[k]
        out[t] = DsfmtItem(1, f, None, kd, tuple([EParseDataType.NUM]) if k == "COMPLEX" else None, True)
    return out or None


def canon_value(v, typ, user, code=None, raw=None):
    """canonical token of one decoded Python value"""
    if isinstance(v, bool):
        return "b%d" % v
    if isinstance(v, int):
        return "i%d" % v
    if isinstance(v, float):
        if typ == 10 or code == "f":
            return f32tok(int.from_bytes(struct.pack("<f", v), "little")) if not math.isnan(v) else "f32:nan"
        if typ == 11 or code == "d":
            return f64tok(int.from_bytes(struct.pack("<d", v), "little")) if not math.isnan(v) else "f64:nan"
        return dyad(Fraction(v))
    if isinstance(v, str):
        if raw is not None and v.encode("utf-8", "surrogatepass") != raw:
            return "lossy"
        return cps_tok(v)
    if isinstance(v, (bytes, bytearray)):
        return "x" + common.hexs(v)
    return "?" + repr(v)


def canon_decoded(res, chans, user, raws):
    """canonical string of a DParseStream; raws[i] = wire bytes of sample i's data (for text validity)"""
    out = []
    for i, s in enumerate(res.samples):
        ch = chans[s.chan]
        codes = None
        if ch.typ in user:
            codes = []
            for cnt, code in parse_user_fmt(user[ch.typ][0]):
                codes += [code] * (1 if code == "s" else cnt)
        vals = []
        for j, v in enumerate(s.data):
            code = codes[j] if codes and j < len(codes) else None
            vals.append(canon_value(v, ch.typ, user, code, raws[i] if i < len(raws) else None))
        meta = [canon_value(m, None, user) for m in s.meta]
        out.append(sample_str(s.chan, int(s.dtype), s.vdim, s.mlen, vals, meta))
    return "%d | %s" % (res.flags, " ; ".join(out))

"""Shared machinery of the per-property checks (see DESIGN.md sections 1, 7)."""
import fcntl
import glob
import json
import os
import re
import subprocess
import sys
import time

ROOT = os.path.normpath(os.path.join(os.path.dirname(os.path.abspath(__file__)), "..", ".."))
COQ = os.path.join(ROOT, "coq")
TOOLS = os.path.join(ROOT, "tools")
REPO = os.environ.get("NXSLIB_REPO", "/repo")
os.environ.setdefault("NXSLIB_SRC", os.path.join(REPO, "src"))
os.environ["PYTHONHASHSEED"] = "0"
sys.path.insert(0, TOOLS)
sys.path.insert(0, os.environ["NXSLIB_SRC"])

FORBIDDEN = re.compile(
    r"\b(Admitted|admit|Axiom|Axioms|Parameter|Parameters|Conjecture|Abort All|"
    r"Unset\s+Guard\s+Checking|Unset\s+Positivity\s+Checking|Unset\s+Universe\s+Checking|"
    r"bypass_check|Admit\s+Obligations|native_compute)\b")
STD_AXIOMS = ()   # the development is axiom-free; anything reported is an error

TRUSTED_BASE = [
    "Coq 8.16.1 kernel (coqc, full .vo builds; vm_compute used for finite sweeps; no native_compute)",
    "tools/extract.py: translator regenerating coq/gen/*.v from /repo/src on every run (fail-closed ast reader; skeleton hashes in tools/blessed.json)",
    "tools/pylite.py: translator regenerating the abstract syntax of the protocol / record modules (coq/gen/Src_*.v) on every run; coq/py/PyLite.v: modelled semantics of the Python subset, validated by the extracted interpreter against CPython (Run.pylite)",
    "extraction: Require Extraction + ExtrOcamlBasic only (bool, option, list, prod, unit, sumbool -> OCaml); no Extract Constant / Extract Inductive of our own; OCaml 4.13.1 + zarith in coq/extract/driver.ml (correspondence only)",
    "correspondence harness tools/harness + tools/checks (case generators, independent reference codec/device)",
    "modelled, not verified: CPython struct / bytes slicing / int->float, crcmod (C extension), queue/threading primitives",
]


def log(*a):
    print(*a, file=sys.stderr, flush=True)


class CoqLock:
    def __enter__(self):
        self.f = open(os.path.join(COQ, ".lock"), "w")
        fcntl.flock(self.f, fcntl.LOCK_EX)
        return self

    def __exit__(self, *a):
        fcntl.flock(self.f, fcntl.LOCK_UN)
        self.f.close()


class Model:
    """Line-oriented conversation with the extracted model (OCaml driver)."""

    def __init__(self):
        self.path = os.path.join(COQ, "extract", "driver")

    def ask(self, lines, timeout=1800, workers=12):
        """Answers in order; large batches are sharded over parallel driver processes."""
        if not lines:
            return []
        if len(lines) < 64:
            return self._ask1(lines, timeout)
        from concurrent.futures import ThreadPoolExecutor
        # interleave so that every shard gets a similar mix of cheap and expensive commands
        shards = [lines[i::workers] for i in range(workers)]
        with ThreadPoolExecutor(max_workers=workers) as ex:
            outs = list(ex.map(lambda sh: self._ask1(sh, timeout), shards))
        res = [None] * len(lines)
        for i, o in enumerate(outs):
            res[i::workers] = o
        return res

    def _ask1(self, lines, timeout):
        if not lines:
            return []
        inp = "\n".join(lines) + "\n"
        p = subprocess.run(["bash", "-c", "ulimit -s unlimited 2>/dev/null; exec " + self.path],
                           input=inp, capture_output=True, text=True, timeout=timeout)
        out = p.stdout.split("\n")
        if out and out[-1] == "":
            out.pop()
        if len(out) != len(lines):
            raise RuntimeError("model driver answered %d lines for %d commands (rc=%s, stderr=%s)" % (
                len(out), len(lines), p.returncode, p.stderr[-300:]))
        return out


def hexs(b):
    b = bytes(b)
    return b.hex() if b else "-"


class Run:
    def __init__(self, prop, tier, seed, replay=None):
        self.prop = prop
        self.tier = tier
        self.seed = seed
        self.t0 = time.time()
        self.violations = []       # (text, replay_path)
        self.known = []
        self.notes = []
        self.cov = {}
        self.samples = []
        self.dist = {}
        self.evaluations = 0
        self.nontrivial = set()
        self.proof_ok = None
        self.proof_log = ""
        self.translator = None
        self.assumption_text = {}
        self.replay = replay
        self.model = Model()
        self.thorough = tier == "thorough"

    # -- translator --------------------------------------------------------
    def regen(self):
        sys.path.insert(0, TOOLS)
        import extract
        with CoqLock():
            st = extract.run()
        self.translator = st
        deps = st.get("depends", {}).get(self.prop, [])
        self.drift = [k for k in st.get("drift", []) if any(d in k for d in deps)]
        self.translator_errors = list(st.get("errors", []))
        if self.drift:
            self.notes.append("source shape drift in modelled functions: %s -> differential escalated" % self.drift)
        return st

    # -- coq -------------------------------------------------------------
    def build(self, targets, timeout=1500):
        """Full .vo build of the cone of the given targets; returns ok."""
        with CoqLock():
            mk = os.path.join(COQ, "Makefile.coq")
            cp = os.path.join(COQ, "_CoqProject")
            if (not os.path.exists(mk)) or os.path.getmtime(mk) < os.path.getmtime(cp):
                subprocess.run(["coq_makefile", "-f", "_CoqProject", "-o", "Makefile.coq"],
                               cwd=COQ, check=True, capture_output=True)
            cmd = ["timeout", str(timeout), "make", "-f", "Makefile.coq", "-j16"] + targets
            p = subprocess.run(cmd, cwd=COQ, capture_output=True, text=True)
            self.checker_cmd = "cd coq && " + " ".join(cmd)
            if p.returncode != 0 or not self.proof_log:
                self.proof_log += "\n[" + " ".join(targets)[:200] + "]\n" + (p.stdout + p.stderr)[-6000:]
            return p.returncode == 0

    def build_model(self):
        """(Re)build the model files and the extracted driver."""
        ok = self.build(["model"] if False else self._model_targets())
        if not ok:
            return False
        with CoqLock():
            drv = os.path.join(COQ, "extract", "driver")
            newest = max(os.path.getmtime(p) for p in
                         glob.glob(os.path.join(COQ, "model", "*.vo")) +
                         glob.glob(os.path.join(COQ, "gen", "*.vo")) +
                         glob.glob(os.path.join(COQ, "lib", "*.vo")) +
                         [os.path.join(COQ, "extract", "Extract.v"),
                          os.path.join(COQ, "extract", "driver.ml")])
            if (not os.path.exists(drv)) or os.path.getmtime(drv) < newest:
                p = subprocess.run(["bash", os.path.join(COQ, "extract", "build.sh")],
                                   capture_output=True, text=True)
                if p.returncode != 0:
                    self.proof_log += "\n[driver build]\n" + (p.stdout + p.stderr)[-3000:]
                    return False
        return True

    # -- PyLite: the interpreter of the regenerated source ASTs ------------
    def build_pymodel(self):
        ok = self.build(["py/PyLite.vo", "gen/Src_all.vo"])
        if not ok:
            return False
        with CoqLock():
            drv = os.path.join(COQ, "extract", "pydriver")
            newest = max(os.path.getmtime(p) for p in
                         glob.glob(os.path.join(COQ, "gen", "Src_*.vo")) +
                         [os.path.join(COQ, "py", "PyLite.vo"),
                          os.path.join(COQ, "extract", "Extract_py.v"),
                          os.path.join(COQ, "extract", "pydriver.ml")])
            if (not os.path.exists(drv)) or os.path.getmtime(drv) < newest:
                p = subprocess.run(["bash", os.path.join(COQ, "extract", "build_py.sh")],
                                   capture_output=True, text=True)
                if p.returncode != 0:
                    self.proof_log += "\n[pydriver build]\n" + (p.stdout + p.stderr)[-3000:]
                    return False
        return True

    def pylite(self, groups, n=None):
        """Correspondence of PyLite's semantics with CPython on the regenerated source:
        the extracted interpreter runs the ASTs, CPython runs the functions, same arguments."""
        import logging
        from harness import pyl
        from checks import pyl_cases
        if not self.build_pymodel():
            self.violation("the PyLite interpreter / regenerated source ASTs do not build",
                           {"log": self.proof_log[-2000:]}, nofail=True)
            return
        logging.disable(logging.CRITICAL)
        try:
            drv = pyl.PyDriver()
            ctx = pyl_cases.Ctx(drv)
            rng = Rng(self.seed ^ 0x5EED)
            n = n or (400 if self.thorough else 60)
            for g in groups:
                cs = pyl_cases.GROUPS[g](rng.r, n, ctx)
                outs = drv.ask([c[0] for c in cs])
                for (cmd, impl, lab), o in zip(cs, outs):
                    o2 = o
                    if cmd.startswith("call") and impl.startswith("ok ") and not lab.endswith(("+state", "+callbacks")):
                        o2 = pyl.split_call_result(o)
                    kind = "pylite:%s:%s" % (lab, o2.split(" ")[0])
                    if o2.startswith("unsupported") or o2 == "fuel":
                        self.dist[kind] = self.dist.get(kind, 0) + 1     # outside the subset: not compared
                        continue
                    self.count(kind, ("pylite", cmd))
                    if o2 != impl:
                        self.violation("CPython and the PyLite interpretation of the same source differ (%s)" % lab,
                                       {"call": cmd[:4000], "implementation": impl[:4000], "interpreter": o2[:4000],
                                        "kind": "pylite"}, nofail=True)
                        return
        finally:
            logging.disable(logging.NOTSET)

    def pylite_fuzz(self, funcs=120, inputs=5):
        """random programs of the subset under CPython and under the extracted interpreter"""
        work = "/var/tmp/pylite-fuzz-%s-%d" % (self.prop, os.getpid())
        p = subprocess.run(["timeout", "1500", "/venv/bin/python", os.path.join(TOOLS, "pylite_fuzz.py"),
                            "--seed", str(self.seed & 0xFFFFFF), "--funcs", str(funcs), "--inputs", str(inputs),
                            "--work", work], capture_output=True, text=True)
        line = [x for x in p.stdout.split("\n") if x.startswith("pylite-fuzz")]
        self.notes.append(line[0] if line else "pylite-fuzz: no summary (rc=%s)" % p.returncode)
        m = re.search(r"runs=(\d+) disagreements=(\d+)", p.stdout)
        if m:
            self.dist["pylite-fuzz-runs"] = int(m.group(1))
            self.evaluations += int(m.group(1))
        if p.returncode != 0:
            self.violation("random programs: CPython and the PyLite interpreter disagree (or the run failed)",
                           {"output": (p.stdout + p.stderr)[-3000:], "kind": "pylite-fuzz"}, nofail=True)
        subprocess.run(["rm", "-rf", work])

    def _model_targets(self):
        out = []
        with open(os.path.join(COQ, "_CoqProject")) as f:
            for line in f:
                line = line.strip()
                if line.endswith(".v") and line.split("/")[0] in ("lib", "gen", "model"):
                    out.append(line[:-2] + ".vo")
        return out

    def cone(self, vfile):
        """.v files the given file depends on (from coq_makefile's dependency file)."""
        dep = os.path.join(COQ, ".Makefile.coq.d")
        deps = {}
        if os.path.exists(dep):
            with open(dep) as f:
                for line in f:
                    if ":" not in line:
                        continue
                    lhs, rhs = line.split(":", 1)
                    tg = [t for t in lhs.split() if t.endswith(".vo")]
                    if not tg:
                        continue
                    deps[tg[0]] = [r for r in rhs.split() if r.endswith(".vo")]
        seen, todo = set(), [vfile[:-2] + ".vo"]
        while todo:
            t = todo.pop()
            if t in seen:
                continue
            seen.add(t)
            todo.extend(deps.get(t, []))
        return sorted(s[:-1] for s in seen if not s.startswith("/"))

    def prove(self, propfile=None, extra_targets=()):
        """Build props/<P>.vo; count obligations; Print Assumptions; hygiene."""
        propfile = propfile or "props/%s.v" % self.prop
        # props/<P>_thorough.v: theorems whose proofs are too slow to re-check on every change (long
        # sequential chains of symbolic executions); obligations of the thorough tier only
        deep = "props/%s_thorough.v" % self.prop
        deep = deep if (self.thorough and os.path.exists(os.path.join(COQ, deep))) else None
        ok = self.build([propfile + "o"] + ([deep + "o"] if deep else []) + list(extra_targets))
        self.proof_ok = ok
        files = self.cone(propfile)
        if deep:
            files = sorted(set(files) | set(self.cone(deep)))
        decl = re.compile(r"^\s*(?:Local\s+|Global\s+|#\[[^\]]*\]\s*)*(Theorem|Lemma|Corollary|Example|Fact|Proposition|Remark)\s+([A-Za-z0-9_']+)", re.M)
        obligations, discharged, hygiene = 0, 0, []
        for vf in files:
            path = os.path.join(COQ, vf)
            if not os.path.exists(path):
                continue
            with open(path) as f:
                text = f.read()
            n = len(decl.findall(text))
            obligations += n
            if os.path.exists(path + "o") and os.path.getmtime(path + "o") >= os.path.getmtime(path):
                discharged += n
            stripped = re.sub(r"\(\*.*?\*\)", "", text, flags=re.S)
            for m in FORBIDDEN.finditer(stripped):
                hygiene.append("%s: %s" % (vf, m.group(0)))
        self.cov["obligations"] = obligations
        self.cov["discharged"] = discharged
        self.cov["cone_files"] = files
        if hygiene:
            self.proof_ok = False
            self.proof_log += "\nforbidden constructs: %s" % hygiene
        # theorems of the property file + their assumptions
        thms = []
        for pf in [propfile] + ([deep] if deep else []):
            ppath = os.path.join(COQ, pf)
            if os.path.exists(ppath):
                with open(ppath) as f:
                    thms += [m[1] for m in decl.findall(f.read())]
        self.cov["theorems"] = thms
        if ok and thms:
            modname = "NX." + propfile[:-2].replace("/", ".")
            tmp = os.path.join(COQ, "props", "Assum_%s.v" % self.prop)
            with open(tmp, "w") as f:
                f.write("From NX Require Import %s.\n" % propfile[:-2].split("/")[-1])
                if deep:
                    f.write("From NX Require Import %s.\n" % deep[:-2].split("/")[-1])
                for t in thms:
                    f.write('Goal True. idtac "@@%s". Abort.\nPrint Assumptions %s.\n' % (t, t))
            with CoqLock():
                p = subprocess.run(["timeout", "900", "coqc", "-Q", ".", "NX", tmp], cwd=COQ,
                                   capture_output=True, text=True)
            for ext in ("", "o", "ok", "os"):
                try:
                    os.remove(tmp + ext)
                except OSError:
                    pass
            try:
                os.remove(os.path.join(COQ, "props", "Assum_%s.glob" % self.prop))
            except OSError:
                pass
            out = p.stdout
            cur = None
            for line in out.split("\n"):
                if line.startswith("@@"):
                    cur = line[2:]
                    self.assumption_text[cur] = ""
                elif cur is not None and line.strip():
                    self.assumption_text[cur] += line.strip() + " "
            bad = [t for t in thms if "Closed under the global context" not in self.assumption_text.get(t, "")]
            if p.returncode != 0 or bad:
                self.proof_ok = False
                self.proof_log += "\nPrint Assumptions not closed for %s: %s %s" % (
                    bad, {t: self.assumption_text.get(t) for t in bad}, p.stderr[-500:])
        return self.proof_ok

    # -- differential ----------------------------------------------------
    def count(self, kind, key=None, nontrivial=True):
        self.evaluations += 1
        self.dist[kind] = self.dist.get(kind, 0) + 1
        if nontrivial and key is not None:
            self.nontrivial.add(key)

    def sample(self, s, limit=12):
        if len(self.samples) < limit:
            self.samples.append(s)

    def differential(self, cases, label="diff", stop_after=5):
        """cases: list of dicts {cmd, impl (str), oracle (str|None), kind, key}.
        Runs all cmds through the extracted model and compares the three."""
        if getattr(self, "replay_call", None):
            # replay: only the recorded case (same seed and tier regenerate it)
            cases = [c for c in cases if c["cmd"][:len(self.replay_call)] == self.replay_call]
            log("replay: %d matching case(s)" % len(cases))
            for c in cases:
                log("  call:", c["cmd"][:300])
                log("  implementation:", c["impl"][:300])
                log("  specification:", str(c.get("oracle"))[:300])
        outs = self.model.ask([c["cmd"] for c in cases])
        bad = []
        for c, m in zip(cases, outs):
            if c.get("mcanon"):
                m = c["mcanon"](m)
            self.count(c.get("kind", label), c.get("key", c["cmd"]), c.get("nontrivial", True))
            exp = c.get("oracle")
            if c.get("rerun") and (c["impl"] != m or (exp is not None and c["impl"] != exp)):
                # timing-sensitive case: confirm on a slower clock before believing it
                c["impl_first"] = c["impl"]
                c["impl"] = c["rerun"]()
                self.dist["reruns"] = self.dist.get("reruns", 0) + 1
            if m.startswith("driver-error"):
                bad.append(("model driver error", c, m))
            elif c.get("reject") and (c["impl"].startswith("ok") or c["impl"].startswith("call")):
                bad.append(("implementation accepts a string the specification rejects", c, m))
            elif exp is not None and c["impl"] != exp:
                bad.append(("implementation differs from the independent specification", c, m))
            elif c["impl"] != m:
                bad.append(("implementation differs from the Coq model", c, m))
            elif exp is not None and m != exp:
                bad.append(("model differs from the independent specification", c, m))
        for c in cases[:3]:
            self.sample({"cmd": c["cmd"][:200], "impl": c["impl"][:200]})
        return bad[:stop_after] if stop_after else bad

    # -- verdicts --------------------------------------------------------
    def violation(self, what, replay_obj, nofail=False):
        os.makedirs(os.path.join(ROOT, "replays"), exist_ok=True)
        path = os.path.join(ROOT, "replays", "%s_%s_%d.json" % (
            self.prop, self.tier, len(self.violations)))
        obj = {"property": self.prop, "what": what, "seed": self.seed, "tier": self.tier}
        obj.update(replay_obj)
        with open(path, "w") as f:
            json.dump(obj, f, indent=1, default=repr)
        self.violations.append((what, path, nofail))

    def concrete(self):
        """violations that come with a failing input (a broken proof or correspondence alone is not one: the
        search for a failing input goes on after it)"""
        return [v for v in self.violations if not v[2]]

    def run_findings(self):
        """Witnesses of fixed / known findings of this property run first."""
        from harness import findings
        with open(os.path.join(ROOT, "known_findings.json")) as f:
            kf = json.load(f)["findings"]
        status = {k["id"]: k for k in kf}
        for fid, (prop, fn) in findings.ALL.items():
            if prop != self.prop:
                continue
            try:
                r = fn()
            except Exception as e:  # noqa: BLE001
                r = "witness raised %s: %s" % (type(e).__name__, e)
            self.count("finding-witness", fid)
            if r is None:
                continue
            ent = status.get(fid)
            if ent and ent["status"] == "known":
                self.known.append("%s %s" % (fid, r))
            else:
                self.violation("witness %s of a repaired defect fails again: %s" % (fid, r),
                               {"witness": "tools/harness/findings.py::" + fid, "observed": r})

    def finish(self, level="proof", rule="", extra_cov=None, assumptions=None):
        if self.proof_ok is False and not any(not nf for _, _, nf in self.violations):
            # a proof obligation / the translator no longer checks and no failing input was found
            self.violation(
                "proof obligation or translator no longer checks; no failing input found",
                {"theorems": self.cov.get("theorems"), "log": self.proof_log[-3000:],
                 "translator_errors": getattr(self, "translator_errors", [])}, nofail=True)
        cov = dict(self.cov)
        cov.update({
            "evaluations": self.evaluations,
            "distinct_nontrivial": len(self.nontrivial),
            "rule": rule,
            "samples": self.samples or [{"note": "no differential cases in this run"}],
            "distribution": self.dist,
            "checker_cmd": getattr(self, "checker_cmd", "make -f Makefile.coq"),
            "trusted_base": TRUSTED_BASE + [
                "Print Assumptions %s: %s" % (k, v.strip()) for k, v in self.assumption_text.items()],
            "translator": {"errors": getattr(self, "translator_errors", []),
                           "drift": getattr(self, "drift", [])},
            "notes": self.notes,
            "known_findings": self.known,
        })
        if self.proof_ok is False:
            cov["discharged"] = min(cov.get("discharged", 0), max(cov.get("obligations", 1) - 1, 0))
        if extra_cov:
            cov.update(extra_cov)
        ev = {
            "property_id": self.prop, "tier": self.tier, "seed": self.seed, "level": level,
            "coverage": cov,
            "assumptions": assumptions or [],
            "wall_s": round(time.time() - self.t0, 2),
            "violations": len(self.violations),
        }
        os.makedirs(os.path.join(ROOT, "evidence"), exist_ok=True)
        with open(os.path.join(ROOT, "evidence", "%s.json" % self.prop), "w") as f:
            json.dump(ev, f, indent=1, default=repr)
        for k in self.known:
            print("KNOWN-FINDING: property=%s %s" % (self.prop, k))
        for what, path, nofail in self.violations:
            log("violation:", what)
        if self.violations:
            real = [v for v in self.violations if not v[2]]
            what, path, nofail = (real or self.violations)[0]
            print("VIOLATION property=%s replay=%s%s" % (
                self.prop, path, " no-failing-input-found" if nofail else ""))
            return 1
        print("OK property=%s tier=%s evaluations=%d obligations=%s wall=%.1fs" % (
            self.prop, self.tier, self.evaluations, cov.get("obligations"), time.time() - self.t0))
        return 0


class Rng:
    """Single PRNG all random choices of a check derive from."""

    def __init__(self, seed):
        import random
        self.r = random.Random(seed)

    def __getattr__(self, k):
        return getattr(self.r, k)

    def bytes(self, n):
        return bytes(self.r.getrandbits(8) for _ in range(n))

"""C19 - device and channel descriptions are read-only apart from enable and divider."""
from . import common

RULE = ("every declared, derived and private attribute of both records + dunder and random (incl. non-ASCII) names x a "
        "palette of value kinds x type bytes (quick: 40 incl. all boundaries, thorough: all 256) on DDeviceChannelData / "
        "DDeviceData built directly and reached through DeviceChannel.data / Device.channel_get; the record's __dict__ before "
        "and after the assignment is compared with the model's; non-trivial = distinct (record, name, value kind)")


def pv(v):
    if isinstance(v, bool):
        return "bT" if v else "bF"
    if isinstance(v, int):
        return "i%d" % v
    if isinstance(v, str):
        return "s" + common.hexs(v.encode("utf-8"))
    return "o0"


def dump(obj):
    return ",".join(sorted("%s=%s" % (common.hexs(k.encode("utf-8")), pv(v)) for k, v in obj.__dict__.items()))


VALUES = {"int": 7, "bool": True, "str": "v", "other": None}


def attempt(obj, name, val):
    before = dump(obj)
    try:
        setattr(obj, name, val)
        out = "done"
    except TypeError:
        out = "TypeError"
    except Exception as e:  # noqa: BLE001
        out = "raise-" + type(e).__name__
    return before + " | " + out + " | " + dump(obj)


def oracle(before_obj_dump, name, val, allowed):
    """Independent statement of the property on one case."""
    items = dict(kv.split("=", 1) for kv in before_obj_dump.split(","))
    if allowed:
        items[common.hexs(name.encode("utf-8"))] = pv(val)
        after = ",".join(sorted("%s=%s" % kv for kv in items.items()))
        return before_obj_dump + " | done | " + after
    return before_obj_dump + " | TypeError | " + before_obj_dump


def cases(run):
    from nxslib.dev import DDeviceChannelData, DDeviceData, Device, DeviceChannel
    rng = common.Rng(run.seed)
    chan_fields = ["chan", "_type", "vdim", "name", "en", "div", "mlen", "dtype", "type_res", "critical",
                   "is_valid", "is_numerical", "_initdone"]
    dev_fields = ["chmax", "flags", "rxpadding", "div_supported", "ack_supported", "_initdone"]
    extra = ["__dict__", "__class__", "foo", "EN", "en ", "divx", "", "żółw", "data", "_data"]
    extra += ["".join(chr(rng.choice([rng.randrange(33, 127), rng.randrange(0xA0, 0x800)]))
                      for _ in range(rng.randrange(1, 9))) for _ in range(10)]
    types = list(range(256)) if run.thorough else sorted(set(
        [0, 1, 2, 17, 18, 19, 20, 31, 32, 33, 63, 64, 95, 96, 127, 128, 129, 130, 146, 159, 160, 191, 192, 224, 254, 255]
        + [rng.randrange(256) for _ in range(14)]))
    out = []
    for t in types:
        names = chan_fields + extra
        for i, name in enumerate(names):
            kinds = list(VALUES) if (run.thorough or name in ("en", "div", "vdim")) else [list(VALUES)[(i + t) % 4]]
            for kind in kinds:
                chan, vdim, en, div, mlen = rng.randrange(255), rng.randrange(256), rng.random() < 0.5, rng.randrange(256), rng.randrange(256)
                how = (i + t) % 3
                if how == 0:
                    obj = DDeviceChannelData(chan, t, vdim, "n", en, div, mlen)
                elif how == 1:
                    obj = DeviceChannel(chan, t, vdim, "n", en, div, mlen).data
                else:
                    obj = Device(1, 3, 0, [DeviceChannel(chan, t, vdim, "n", en, div, mlen)]).channel_get(0).data
                before = dump(obj)
                got = attempt(obj, name, VALUES[kind])
                out.append(dict(
                    cmd="chan_rec %d %d %d %d %d %d %s %s" % (chan, t, vdim, 1 if en else 0, div, mlen,
                                                             common.hexs(name.encode("utf-8")), kind),
                    impl=got, oracle=oracle(before, name, VALUES[kind], name in ("en", "div")),
                    kind="chan-" + ("allowed" if name in ("en", "div") else "declared" if name in chan_fields else "other"),
                    key=("c", t, name, kind)))
    for flags in (range(256) if run.thorough else [0, 1, 2, 3, 4, 7, 128, 254, 255]):
        for name in dev_fields + extra[:6]:
            chmax, rx = rng.randrange(256), rng.randrange(256)
            obj = DDeviceData(chmax, flags, rx) if flags % 2 else Device(0, flags, rx, []).data
            if flags % 2 == 0:
                chmax = 0
            before = dump(obj)
            got = attempt(obj, name, 7)
            out.append(dict(cmd="dev_rec %d %d %d %s" % (chmax, flags, rx, common.hexs(name.encode("utf-8"))),
                            impl=got, oracle=oracle(before, name, 7, False), kind="dev", key=("v", flags, name)))
    return out


def main(run):
    run.regen()
    run.prove()
    model_ok = run.build_model()
    run.run_findings()
    run.pylite(['records'])
    if run.thorough:
        run.pylite_fuzz()
    if model_ok:
        for what, c, m in run.differential(cases(run)):
            run.violation(what, {"call": c["cmd"][:2000], "implementation": c["impl"][:3000],
                                 "specification": (c.get("oracle") or "")[:3000], "model": m[:3000]})
    else:
        run.proof_ok = False
    return run.finish(rule=RULE, assumptions=[
        "bypasses (obj.__dict__[...], object.__setattr__, del) are not 'assigning to a field' and are out of scope",
        "`is not` between small ints is modelled as !=; dataclass __init__ assigns fields in declaration order"])

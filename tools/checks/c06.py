"""C06 - the device description read by the client equals the device's configuration."""
import struct
import types

from . import common
from harness import refcodec as rc

RULE = ("cmninfo: every value 0..255 of each field (each field swept, others random); chinfo: configurations with fields "
        "from {0,1,127,128,200,255,random}, type bytes incl. critical/reserved bits, names from ASCII / 2- / 3- / 4-byte "
        "code points, empty, long (up to 2000 chars), with 0..3 trailing NULs; ack: boundary and random 32-bit codes; each "
        "case runs device-side encode -> SerialFrame.frame_decode -> client-side decode on the real code and is compared "
        "with the model and with the configuration itself (independent expectation); malformed payloads must raise alike")


def call(fn):
    try:
        return "ok " + fn()
    except struct.error:
        return "raise struct.error"
    except (UnicodeEncodeError, UnicodeDecodeError, ValueError, IndexError, AssertionError, TypeError) as e:
        return "raise " + type(e).__name__


def cps(s):
    return ",".join(str(ord(ch)) for ch in s) or "-"


def rand_name(rng, n):
    pools = [(0x20, 0x7E), (0xA0, 0x7FF), (0x800, 0xD7FF), (0xE000, 0xFFFF), (0x10000, 0x10FFFF)]
    out = []
    for _ in range(n):
        lo, hi = rng.choice(pools)
        out.append(chr(rng.randrange(lo, hi + 1)))
    return "".join(out)


def cases(run):
    from nxslib.dev import DeviceChannel
    from nxslib.proto.iframe import DParseFrame, EParseId
    from nxslib.proto.iparserecv import ParseRecvCb
    from nxslib.proto.parse import Parser
    from nxslib.proto.parserecv import ParseRecv
    from nxslib.proto.serialframe import SerialFrame
    rng = common.Rng(run.seed)
    ps, sf = Parser(), SerialFrame()
    pr = ParseRecv(ParseRecvCb(*([lambda d: None] * 5)))
    out = []

    def through(frame_hex):
        fr = sf.frame_decode(bytes.fromhex(frame_hex))
        assert fr.err == 0
        return fr

    # --- cmninfo
    triples = [(v, rng.randrange(256), rng.randrange(256)) for v in range(256)]
    triples += [(rng.randrange(256), v, rng.randrange(256)) for v in range(256)]
    triples += [(rng.randrange(256), rng.randrange(256), v) for v in range(256)]
    triples += [(256, 0, 0), (0, -1, 0)]
    for a, b, c in triples:
        dev = types.SimpleNamespace(data=types.SimpleNamespace(chmax=a, flags=b, rxpadding=c))
        enc = call(lambda: common.hexs(pr.frame_cmninfo_encode(dev)))
        ok = 0 <= a < 256 and 0 <= b < 256 and 0 <= c < 256
        out.append(dict(cmd="cmninfo_encode %d %d %d" % (a, b, c), impl=enc,
                        oracle=("ok " + common.hexs(rc.cmninfo(a, b, c))) if ok else None,
                        kind="cmninfo-encode", key=("ce", a, b, c)))
        if enc.startswith("ok"):
            fr = through(enc[3:])

            def dec():
                r = ps.frame_cmninfo_decode(fr)
                return "%d %d %d" % (r.chmax, r.flags, r.rxpadding)
            out.append(dict(cmd="cmninfo_decode %d %s" % (int(fr.fid), common.hexs(fr.data)), impl=call(dec),
                            oracle="ok %d %d %d" % (a, b, c), kind="cmninfo-decode", key=("cd", a, b, c)))
    # --- chinfo
    vals = [0, 1, 127, 128, 200, 255]
    names = ["", "a", "chan0", "żółw", "é", "a€b", "\U0001F600x", "日本語のチャンネル", "x" * 300, rand_name(rng, 2000)]
    names += [rand_name(rng, rng.randrange(1, 12)) for _ in range(60 if not run.thorough else 1500)]
    for i, name in enumerate(names):
        for nul in ((0, 1, 3) if i < 12 else (rng.choice([0, 0, 1, 2]),)):
            for _ in range(2 if i < 12 else 1):
                en = rng.random() < 0.5
                ty = rng.choice(vals + [2, 10, 18, 0x82, 0x92, 0x60, 0xFF, rng.randrange(256)])
                vd, dv, ml = (rng.choice(vals + [rng.randrange(256)]) for _ in range(3))
                full = name + "\x00" * nul
                ch = DeviceChannel(rng.randrange(255), ty, vd, full, en, dv, ml)
                enc = call(lambda: common.hexs(pr.frame_chinfo_encode(ch)))
                nb = full.encode("utf-8")
                out.append(dict(cmd="chinfo_encode %d %d %d %d %d %s" % (en, ty, vd, dv, ml, cps(full)), impl=enc,
                                oracle="ok " + common.hexs(rc.chinfo(en, ty, vd, dv, ml, nb)),
                                kind="chinfo-encode", key=("he", en, ty, vd, dv, ml, full)))
                if enc.startswith("ok"):
                    fr = through(enc[3:])

                    def dec():
                        d = ps.frame_chinfo_decode(fr, 7).data
                        return "%d %d %d %d %d %s" % (d.en, d._type, d.vdim, d.div, d.mlen, cps(d.name))
                    out.append(dict(cmd="chinfo_decode %d %s" % (int(fr.fid), common.hexs(fr.data)), impl=call(dec),
                                    oracle="ok %d %d %d %d %d %s" % (en, ty, vd, dv, ml, cps(name)),
                                    kind="chinfo-decode-%dB" % max((len(c.encode()) for c in name), default=0),
                                    key=("hd", en, ty, vd, dv, ml, full)))
    # lone surrogate cannot be encoded
    ch = DeviceChannel(0, 2, 1, "a\ud800", False, 0, 0)
    out.append(dict(cmd="chinfo_encode 0 2 1 0 0 97,55296", impl=call(lambda: common.hexs(pr.frame_chinfo_encode(ch))),
                    oracle=None, kind="chinfo-malformed", key="sur"))
    # malformed chinfo payloads / wrong ids on the client side
    for fid, data in ((3, b""), (3, b"\x01\x02\x03\x04"), (3, b"\x01\x02\x03\x04\x05"), (3, b"\x01\x02\x03\x04\x05\xff\xfe"),
                      (3, b"\x00\x02\x01\x00\x00\xc3"), (3, b"\x00\x02\x01\x00\x00\xed\xa0\x80"),
                      (3, b"\x00\x02\x01\x00\x00\xc0\x80"), (3, b"\x00\x02\x01\x00\x00\xf4\x90\x80\x80"),
                      (3, b"\x00\x02\x01\x00\x00\xf0\x9f\x98\x80"), (2, b"\x00\x00\x00\x00\x00\x00"),
                      (3, b"\x05\x02\x01\x00\x00ab\x00cd")):
        fr = DParseFrame(EParseId(fid), data)

        def dec():
            r = ps.frame_chinfo_decode(fr, 7)
            if r is None:
                return "none"
            d = r.data
            return "%d %d %d %d %d %s" % (d.en, d._type, d.vdim, d.div, d.mlen, cps(d.name))
        out.append(dict(cmd="chinfo_decode %d %s" % (fid, common.hexs(data)), impl=call(dec), oracle=None,
                        kind="chinfo-malformed", key=("hm", fid, data)))
    for _ in range(100 if not run.thorough else 3000):
        data = bytes([rng.randrange(2), rng.randrange(256), 1, 0, 0]) + rng.bytes(rng.randrange(0, 6))
        fr = DParseFrame(EParseId(3), data)

        def dec():
            d = ps.frame_chinfo_decode(fr, 7).data
            return "%d %d %d %d %d %s" % (d.en, d._type, d.vdim, d.div, d.mlen, cps(d.name))
        out.append(dict(cmd="chinfo_decode 3 %s" % common.hexs(data), impl=call(dec), oracle=None,
                        kind="chinfo-random-name-bytes", key=("hr", data)))
    # --- derived attributes of the records the client builds (every type byte / flags byte)
    from nxslib.dev import Device
    for t in range(256):
        fr = through(common.hexs(pr.frame_chinfo_encode(DeviceChannel(0, t, 1, "n"))))
        d = ps.frame_chinfo_decode(fr, 0).data
        from .c19 import pv
        got = " ".join(pv(x) for x in (d._type, d.dtype, d.critical, d.type_res, d.is_valid, d.is_numerical))
        low = t & 31
        exp = " ".join(pv(x) for x in (t, low, t >= 128, t & 0x60, low != 0, low not in (0, 1, 18, 19)))
        out.append(dict(cmd="chan_derived %d" % t, impl=got, oracle=exp, kind="derived-channel", key=("dc", t)))
    for f in range(256):
        d = Device(0, f, 0, []).data
        from .c19 import pv
        got = " ".join(pv(x) for x in (d.flags, d.div_supported, d.ack_supported))
        exp = " ".join(pv(x) for x in (f, bool(f & 1), bool(f & 2)))
        out.append(dict(cmd="dev_derived %d" % f, impl=got, oracle=exp, kind="derived-device", key=("dd", f)))
    # --- ack
    rs = [0, 1, -1, 2, -2, 2**31 - 1, -2**31, 255, 256, -22, 2**31, -2**31 - 1] + [rng.randrange(-2**31, 2**31) for _ in range(40)]
    for r in rs:
        enc = call(lambda: common.hexs(pr.frame_ack_encode(r)))
        inr = -2**31 <= r < 2**31
        out.append(dict(cmd="ack_encode %d" % r, impl=enc, oracle=("ok " + common.hexs(rc.ack(r))) if inr else None,
                        kind="ack-encode", key=("ae", r)))
        if enc.startswith("ok"):
            fr = through(enc[3:])

            def dec():
                a = ps.frame_ack_decode(fr)
                return ("T " if a.state else "F ") + str(a.retcode)
            out.append(dict(cmd="ack_decode %d %s" % (int(fr.fid), common.hexs(fr.data)), impl=call(dec),
                            oracle="ok %s %d" % ("T" if r == 0 else "F", r), kind="ack-decode", key=("ad", r)))
    for data in (b"", b"\x00", b"\x00\x00\x00", b"\x00\x00\x00\x00\x00"):
        fr = DParseFrame(EParseId(4), data)
        out.append(dict(cmd="ack_decode 4 %s" % common.hexs(data),
                        impl=call(lambda: str(ps.frame_ack_decode(fr))), oracle=None, kind="ack-malformed", key=("am", data)))
    return out


def main(run):
    run.regen()
    run.prove(extra_targets=["proofs/Pinned_parse.vo", "proofs/Pinned_parserecv.vo", "proofs/Pinned_dev.vo"])
    model_ok = run.build_model()
    run.run_findings()
    run.pylite(['info_decode', 'device_side'])
    if model_ok:
        for what, c, m in run.differential(cases(run)):
            run.violation(what, {"call": c["cmd"][:2000], "implementation": c["impl"][:3000],
                                 "specification": (c.get("oracle") or "")[:3000], "model": m[:3000]})
    else:
        run.proof_ok = False
    return run.finish(rule=RULE, assumptions=[
        "CPython's UTF-8 codec is modelled by lib/Utf8.v (tied by the random-name-bytes cases)",
        "the native-mode 'i' of the ACK is 4 bytes little-endian on this host (asserted by the differential run)"])

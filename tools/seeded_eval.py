#!/usr/bin/env python3
"""Import, confirm and evaluate seeded changes (mutations) written by sub-agents.

  seeded_eval.py import  C05          copy /tmp/mut-C05-out/{A,B}.* to /verif/seeded/C05_A, C05_B
  seeded_eval.py confirm C05_A ...    in a scratch worktree: demo fails with the change, passes without, test suite passes
  seeded_eval.py detect  C05_A ...    apply to /repo, run ./check <prop> quick (and thorough if quick is silent and SEEDED_THOROUGH=1), undo
"""
import json
import os
import shutil
import subprocess
import sys
import time

ROOT = os.path.dirname(os.path.dirname(os.path.abspath(__file__)))
SEED = os.path.join(ROOT, "seeded")
PY = "/venv/bin/python"


def sh(cmd, **kw):
    return subprocess.run(cmd, shell=True, capture_output=True, text=True, **kw)


def load_meta(d):
    p = os.path.join(d, "meta.json")
    return json.load(open(p)) if os.path.exists(p) else {}


def save_meta(d, m):
    json.dump(m, open(os.path.join(d, "meta.json"), "w"), indent=1)


def do_import(pid, round2=False, round3=False):
    src = "/tmp/mut-%s-out" % pid
    variants = "AB"
    if round3:
        src = "/tmp/mut3-%s-out" % pid      # third round: variants E and F
        variants = "EF"
    elif round2:
        src = "/tmp/mut2-%s-out" % pid      # second round: variants C and D
        variants = "CD"
    for v in variants:
        if not os.path.exists(os.path.join(src, v + ".diff")):
            continue
        d = os.path.join(SEED, "%s_%s" % (pid, v))
        os.makedirs(d, exist_ok=True)
        shutil.copy(os.path.join(src, v + ".diff"), os.path.join(d, "patch.diff"))
        shutil.copy(os.path.join(src, v + "_demo.py"), os.path.join(d, "demo.py"))
        m = load_meta(d)
        try:
            a = json.load(open(os.path.join(src, v + ".json")))
        except Exception:  # noqa: BLE001
            a = {}
        m.update({"property": pid, "summary": a.get("summary"), "needs": a.get("needs"), "agent_report": a})
        save_meta(d, m)
        print("imported", d)


def do_confirm(name):
    d = os.path.join(SEED, name)
    m = load_meta(d)
    wt = "/var/tmp/seed-%s" % name
    sh("git -C /repo worktree remove --force %s" % wt)
    r = sh("git -C /repo worktree add --detach %s HEAD" % wt)
    try:
        r = sh("git apply %s" % os.path.join(d, "patch.diff"), cwd=wt)
        m["applies"] = r.returncode == 0
        env = dict(os.environ, NXSLIB_SRC=wt + "/src", PYTHONPATH=wt + "/src")
        r1 = sh("timeout 120 %s %s" % (PY, os.path.join(d, "demo.py")), env=env)
        clean = wt + "-clean"
        sh("git -C /repo worktree remove --force %s" % clean)
        sh("git -C /repo worktree add --detach %s HEAD" % clean)
        env0 = dict(os.environ, NXSLIB_SRC=clean + "/src", PYTHONPATH=clean + "/src")
        r0 = sh("timeout 120 %s %s" % (PY, os.path.join(d, "demo.py")), env=env0)
        sh("git -C /repo worktree remove --force %s" % clean)
        m["demo_with_change_exit"] = r1.returncode
        m["demo_with_change_out"] = (r1.stdout + r1.stderr)[-400:]
        m["demo_without_exit"] = r0.returncode
        rt = sh("timeout 900 %s -m pytest -q -rf -p no:cacheprovider tests 2>&1 | tail -8" % PY, cwd=wt, env=env)
        out = rt.stdout
        ok = " passed" in out and "failed" not in out
        if not ok and "test_nxscope_channels_thread" in out and out.count("FAILED") <= 1:
            r2 = sh("timeout 300 %s -m pytest -q -p no:cacheprovider tests/test_nxscope.py::test_nxscope_channels_thread 2>&1 | tail -1"
                    % PY, cwd=wt, env=env)
            ok = " passed" in r2.stdout and "failed" not in r2.stdout
            out += " | rerun flaky: " + r2.stdout.strip()
        m["tests_pass"] = ok
        m["tests_out"] = out.strip()[-300:]
        m["confirmed"] = bool(m["applies"] and r1.returncode != 0 and r0.returncode == 0 and ok)
        m["ran"] = ["git apply patch.diff (scratch worktree)", "demo.py with NXSLIB_SRC=<worktree>/src (must fail)",
                    "demo.py on /repo/src (must pass)", "pytest tests (must pass; known-flaky thread test rerun alone)"]
    finally:
        sh("git -C /repo worktree remove --force %s" % wt)
    save_meta(d, m)
    print(name, "confirmed" if m.get("confirmed") else "NOT confirmed", m.get("demo_with_change_exit"),
          m.get("demo_without_exit"), m.get("tests_pass"))


def do_detect(name, props=None):
    d = os.path.join(SEED, name)
    m = load_meta(d)
    st = sh("git -C /repo status --porcelain").stdout.strip()
    if st:
        print("refusing: /repo not clean:", st)
        return
    props = props or [m["property"]]
    # evidence files describe runs against /repo itself: keep them out of reach of runs on a changed tree
    keep = "/var/tmp/evidence-keep-%d" % os.getpid()
    shutil.rmtree(keep, ignore_errors=True)
    shutil.copytree(os.path.join(ROOT, "evidence"), keep)
    r = sh("git -C /repo apply %s" % os.path.join(d, "patch.diff"))
    res = {}
    try:
        if r.returncode != 0:
            print(name, "patch does not apply:", r.stderr[:200])
            return
        for p in props:
            for tier in (("quick", "thorough") if os.environ.get("SEEDED_THOROUGH") else ("quick",)):
                t0 = time.time()
                c = sh("timeout 3000 ./check %s --tier %s" % (p, tier), cwd=ROOT)
                line = [x for x in c.stdout.split("\n") if x.startswith("VIOLATION") or x.startswith("OK")]
                rep = None
                if line and line[0].startswith("VIOLATION"):
                    path = line[0].split("replay=")[1].split()[0]
                    try:
                        rp = json.load(open(path))
                        rep = {k: (str(v)[:300]) for k, v in rp.items() if k in ("what", "call", "implementation", "specification", "model", "witness", "observed")}
                    except Exception:  # noqa: BLE001
                        pass
                res["%s/%s" % (p, tier)] = {"exit": c.returncode, "line": line[0] if line else c.stdout[-200:],
                                            "wall_s": round(time.time() - t0, 1), "replay": rep}
                if c.returncode != 0:
                    break
    finally:
        sh("git -C /repo checkout -- .")
        sh("%s %s/tools/extract.py --quiet" % (PY, ROOT))
        for f in os.listdir(keep):
            shutil.copy(os.path.join(keep, f), os.path.join(ROOT, "evidence", f))
        shutil.rmtree(keep, ignore_errors=True)
    det = {k: v for k, v in m.get("detection", {}).items() if k.split("/")[0] not in props}   # drop stale results
    det.update(res)
    m["detection"] = det
    m["detected_by"] = sorted(k for k, v in m["detection"].items() if v["exit"] == 1)
    save_meta(d, m)
    for k, v in res.items():
        print(name, k, v["exit"], v["line"][:150], "%.0fs" % v["wall_s"])


def do_summary():
    """seeded/DETECTION.md: one line per seeded change, from the meta.json files"""
    rows = []
    for name in sorted(os.listdir(SEED)):
        d = os.path.join(SEED, name)
        if name.startswith("_") or not os.path.isdir(d):
            continue
        m = load_meta(d)
        det = m.get("detection", {})
        hit = [(k, v) for k, v in sorted(det.items()) if v.get("exit") == 1]
        if hit:
            k, v = hit[0]
            how = "no-failing-input-found" if "no-failing-input-found" in v["line"] else "concrete input"
            what = ((v.get("replay") or {}).get("what") or "")[:90]
            rows.append("| %s | %s | %s | %s | %ss | %s |" % (name, "yes" if m.get("confirmed") else "?", k, how, v.get("wall_s"), what))
        else:
            rows.append("| %s | %s | **missed** (%s) | | | |" % (name, "yes" if m.get("confirmed") else "?", ",".join(sorted(det)) or "not run"))
    with open(os.path.join(SEED, "DETECTION.md"), "w") as f:
        f.write("# Seeded changes and the check that reports them\n\n"
                "Generated by `tools/seeded_eval.py summary` from `seeded/*/meta.json` (each written by `detect`: patch applied to\n"
                "/repo, `./check <property>` quick then thorough, patch undone). `_A/_B` first round, `_C/_D` second round.\n\n"
                "| change | confirmed | first tier that reports it | replay | wall | what |\n|---|---|---|---|---|---|\n")
        f.write("\n".join(rows) + "\n")
    print("%d changes, %d missed" % (len(rows), sum("missed" in r for r in rows)))


if __name__ == "__main__":
    cmd = sys.argv[1]
    if cmd == "summary":
        do_summary()
    for a in sys.argv[2:]:
        if cmd == "import":
            do_import(a)
        elif cmd == "import2":
            do_import(a, round2=True)
        elif cmd == "import3":
            do_import(a, round3=True)
        elif cmd == "confirm":
            do_confirm(a)
        elif cmd == "detect":
            if ":" in a:
                n, ps = a.split(":")
                do_detect(n, ps.split(","))
            else:
                do_detect(a)

#!/usr/bin/env python3
"""Translator: Python source of nxslib -> PyLite abstract syntax (Coq).

Fail-closed: a construct outside the subset turns the whole function into a
body that raises `$Unsupported:<reason>` (so every theorem about it breaks)
and is listed in the status dictionary.  Docstrings, annotations and
`logger.*(...)` statements are dropped (logging has no effect on results).
"""
import ast
import os
import sys

SRC = os.path.join(os.environ.get("NXSLIB_SRC", "/repo/src"), "nxslib")


class Unsupported(Exception):
    pass


def cstr(s):
    """Coq term of type string for the Python str s."""
    if all(32 <= ord(c) <= 126 for c in s):
        return '"' + s.replace('"', '""') + '"'
    # text is represented by its UTF-8 bytes
    return "(string_of_list_ascii (map ascii_of_N [%s]))" % "; ".join("%d%%N" % b for b in s.encode("utf-8"))


def cbytes(b):
    return "[" + "; ".join("%d%%N" % x for x in b) + "]"


def clist(items):
    return "[" + "; ".join(items) + "]"


# pl15: see expr(); part of the trusted base
THREADING_STUBS = {"Event": "SimEvent", "Thread": "SimThread"}

BINOPS = {ast.Add: "OAdd", ast.Sub: "OSub", ast.Mult: "OMul", ast.FloorDiv: "OFloorDiv",
          ast.Mod: "OMod", ast.LShift: "OShl", ast.RShift: "OShr", ast.BitAnd: "OBitAnd",
          ast.BitOr: "OBitOr", ast.BitXor: "OBitXor", ast.Div: "ODiv"}
CMPOPS = {ast.Eq: "CEq", ast.NotEq: "CNe", ast.Lt: "CLt", ast.LtE: "CLe", ast.Gt: "CGt",
          ast.GtE: "CGe", ast.Is: "CIs", ast.IsNot: "CIsNot", ast.In: "CIn", ast.NotIn: "CNotIn"}


def const(v):
    if v is None:
        return "PNone"
    if v is True:
        return "(PBool true)"
    if v is False:
        return "(PBool false)"
    if isinstance(v, int):
        return "(PInt (%d)%%Z)" % v
    if isinstance(v, float):
        if v != v or v in (float("inf"), float("-inf")):
            raise Unsupported("non-finite float literal")
        num, den = v.as_integer_ratio()
        e = den.bit_length() - 1
        while num != 0 and num % 2 == 0:
            num //= 2
            e -= 1
        if num == 0:
            e = 0
        return "(PDy (%d)%%Z (%d)%%Z)" % (num, e)
    if isinstance(v, str):
        return "(PStr %s)" % cstr(v)
    if isinstance(v, bytes):
        return "(PBytes %s)" % cbytes(v)
    raise Unsupported("constant %r" % (v,))


def exprs(es):
    out = "Enil"
    for e in reversed(es):
        out = "(Econs %s %s)" % (expr(e), out)
    return out


def oexpr(e):
    return "ONone" if e is None else "(OSome %s)" % expr(e)


def expr(e):
    if isinstance(e, ast.Constant):
        return "(EConst %s)" % const(e.value)
    if isinstance(e, ast.Name):
        return "(EName %s)" % cstr(e.id)
    if isinstance(e, ast.Attribute):
        # --- BEGIN pl15: TRUSTED MAPPING for nxslib/thread.py -------------------------------------------
        # `threading.Event` -> the class SimEvent, `threading.Thread` -> the class SimThread of
        # tools/harness/prelude_py.py (translated like the rest of the program; under CPython the
        # correspondence group rebinds `nxslib.thread.threading` to a namespace holding the very same
        # classes).  Any other attribute of the module `threading` is refused (fail-closed).
        if isinstance(e.value, ast.Name) and e.value.id == "threading":
            if e.attr in THREADING_STUBS:
                return "(EName %s)" % cstr(THREADING_STUBS[e.attr])
            raise Unsupported("threading." + e.attr)
        # --- END pl15 ----------------------------------------------------------------------------------
        return "(EAttr %s %s)" % (expr(e.value), cstr(e.attr))
    if isinstance(e, ast.Starred):
        return "(EStar %s)" % expr(e.value)
    if isinstance(e, ast.Dict):
        if any(k is None for k in e.keys):
            raise Unsupported("dict unpacking")
        # key1, value1, key2, value2, ...: the order in which CPython (>= 3.8) evaluates a dict display
        return "(EDict %s Enil)" % exprs([x for kv in zip(e.keys, e.values) for x in kv])
    if isinstance(e, ast.Call):
        if any(k.arg is None for k in e.keywords):
            raise Unsupported("** arguments")
        kws = "Knil"
        for k in reversed(e.keywords):
            kws = "(Kcons %s %s %s)" % (cstr(k.arg), expr(k.value), kws)
        return "(ECall %s %s %s)" % (expr(e.func), exprs(e.args), kws)
    if isinstance(e, ast.BinOp):
        if type(e.op) not in BINOPS:
            raise Unsupported("operator " + type(e.op).__name__)
        return "(EBin %s %s %s)" % (BINOPS[type(e.op)], expr(e.left), expr(e.right))
    if isinstance(e, ast.UnaryOp):
        if isinstance(e.op, ast.Not):
            return "(ENot %s)" % expr(e.operand)
        if isinstance(e.op, ast.USub):
            if isinstance(e.operand, ast.Constant) and isinstance(e.operand.value, int) \
                    and not isinstance(e.operand.value, bool):
                return "(EConst (PInt (%d)%%Z))" % (-e.operand.value)
            return "(ENeg %s)" % expr(e.operand)
        raise Unsupported("unary " + type(e.op).__name__)
    if isinstance(e, ast.BoolOp):
        ctor = "EAnd" if isinstance(e.op, ast.And) else "EOr"
        out = expr(e.values[-1])
        for v in reversed(e.values[:-1]):
            out = "(%s %s %s)" % (ctor, expr(v), out)
        return out
    if isinstance(e, ast.Compare):
        cs = "Cnil"
        for op, c in reversed(list(zip(e.ops, e.comparators))):
            cs = "(Ccons %s %s %s)" % (CMPOPS[type(op)], expr(c), cs)
        return "(ECmp %s %s)" % (expr(e.left), cs)
    if isinstance(e, ast.Subscript):
        s = e.slice
        if isinstance(s, ast.Slice):
            if s.step is not None:
                raise Unsupported("slice step")
            return "(ESlice %s %s %s)" % (expr(e.value), oexpr(s.lower), oexpr(s.upper))
        if isinstance(s, ast.Tuple):
            raise Unsupported("tuple subscript")
        return "(EIndex %s %s)" % (expr(e.value), expr(s))
    if isinstance(e, ast.Tuple):
        return "(ETuple %s)" % exprs(e.elts)
    if isinstance(e, ast.List):
        return "(EList %s)" % exprs(e.elts)
    if isinstance(e, ast.IfExp):
        return "(EIf %s %s %s)" % (expr(e.test), expr(e.body), expr(e.orelse))
    if isinstance(e, ast.JoinedStr):
        parts = []
        for v in e.values:
            if isinstance(v, ast.Constant):
                parts.append(v)
            elif isinstance(v, ast.FormattedValue):
                if v.conversion != -1 or v.format_spec is not None:
                    raise Unsupported("f-string conversion")
                parts.append(v.value)
            else:
                raise Unsupported("f-string part")
        return "(EFStr %s)" % exprs(parts)
    if isinstance(e, (ast.GeneratorExp, ast.ListComp)):
        if len(e.generators) != 1:
            raise Unsupported("nested comprehension")
        g = e.generators[0]
        if g.ifs or g.is_async or not isinstance(g.target, ast.Name):
            raise Unsupported("comprehension form")
        return "(EComp KList %s %s %s)" % (expr(e.elt), cstr(g.target.id), expr(g.iter))
    raise Unsupported("expression " + type(e).__name__)


def target(t):
    if isinstance(t, ast.Name):
        return "(TName %s)" % cstr(t.id)
    if isinstance(t, ast.Attribute):
        return "(TAttr %s %s)" % (expr(t.value), cstr(t.attr))
    if isinstance(t, ast.Tuple) and all(isinstance(x, ast.Name) for x in t.elts):
        return "(TNames %s)" % clist(cstr(x.id) for x in t.elts)
    if isinstance(t, ast.Subscript) and not isinstance(t.slice, (ast.Slice, ast.Tuple)):
        if isinstance(t.value, ast.Attribute) and t.value.attr == "__dict__":
            return "(TRaw %s %s)" % (expr(t.value.value), expr(t.slice))
        return "(TIndex %s %s)" % (expr(t.value), expr(t.slice))
    raise Unsupported("assignment target " + type(t).__name__)


def is_logger_call(e):
    return (isinstance(e, ast.Call) and isinstance(e.func, ast.Attribute)
            and isinstance(e.func.value, ast.Name) and e.func.value.id == "logger")


def is_docstring(s):
    return isinstance(s, ast.Expr) and isinstance(s.value, ast.Constant) and isinstance(s.value.value, str)


def is_lock_with(s):
    """`with <something>_lock:` -- a threading.Lock; a no-op in the sequential semantics."""
    if not isinstance(s, ast.With) or len(s.items) != 1 or s.items[0].optional_vars is not None:
        return False
    c = s.items[0].context_expr
    return isinstance(c, ast.Attribute) and c.attr.endswith("_lock")


def flatten(body):
    out = []
    for s in body:
        if is_lock_with(s):
            out.extend(flatten(s.body))
        else:
            out.append(s)
    return out


def stmts(body):
    out = "Snil"
    for s in reversed(flatten(body)):
        t = stmt(s)
        if t is not None:
            out = "(Scons %s %s)" % (t, out)
    return out


def exc_name(t):
    if isinstance(t, ast.Name):
        return t.id
    if isinstance(t, ast.Attribute) and isinstance(t.value, ast.Name):
        return t.value.id + "." + t.attr
    raise Unsupported("exception class expression")


CLASS_INFO = {}   # class name -> (bases, has __init__), over all translated modules
CUR_CLASS = [None]


def is_trivial_super_init(e):
    """super().__init__() where no base class in the program defines __init__."""
    if not (isinstance(e, ast.Call) and not e.args and not e.keywords
            and isinstance(e.func, ast.Attribute) and e.func.attr == "__init__"
            and isinstance(e.func.value, ast.Call) and isinstance(e.func.value.func, ast.Name)
            and e.func.value.func.id == "super" and not e.func.value.args):
        return False

    def has_init(c, depth=0):
        if c in ("ABC", "object"):
            return False
        if c not in CLASS_INFO or depth > 8:
            raise Unsupported("super().__init__ into unknown base " + c)
        bases, init = CLASS_INFO[c]
        return init or any(has_init(b, depth + 1) for b in bases)

    cur = CUR_CLASS[0]
    if cur is None:
        raise Unsupported("super() outside a class")
    if any(has_init(b) for b in CLASS_INFO[cur][0]):
        raise Unsupported("super().__init__ with a base that defines __init__")
    return True


# ---------------------------------------------------------------- pl14: for-loop with write-back (begin)
# TRUSTED MAPPING.  `for x in <path>: body` is translated to PyLite's `SForWB x <path> body` (after every
# iteration the final value of x is written back to <path>[k]) instead of the plain `SFor` exactly when the
# body mutates the object bound to x (PyLite's values are trees: without the write-back the mutation would be
# lost, in Python the loop variable IS the element).  Syntactic conditions, all checked here:
#   1. the target is a plain name x and the iterable is an l-value path rooted at a name: names, attribute
#      chains, subscripts whose index is a name / constant / attribute chain (its evaluation has no effects);
#   2. the body mutates through x: a method call whose receiver is a path rooted at x (x.m(..), x.a.m(..),
#      x[i].m(..)), a store / augmented store to an attribute or item of such a path, or setattr(x, ..);
#   3. the body never rebinds x (no assignment, augmented assignment, for / with / except target, del,
#      walrus, nested function, comprehension variable of that name);
#   4. the body binds none of the names the iterable mentions and does not mention the root name of the
#      iterable at all (so the iterated list cannot change under the loop, and nothing reads the stale
#      copy of the element through the path while x holds the fresh one).
# A loop that satisfies 2 but not 1, 3, 4 is refused (fail-closed) instead of being translated to `SFor`.
FORWB_SEEN = []


def path_root(e):
    """root name of an l-value path, or None if e is not one"""
    if isinstance(e, ast.Name):
        return e.id
    if isinstance(e, ast.Attribute):
        return path_root(e.value)
    if isinstance(e, ast.Subscript) and not isinstance(e.slice, (ast.Slice, ast.Tuple)):
        i = e.slice
        ok = (isinstance(i, ast.Name) or (isinstance(i, ast.Constant) and isinstance(i.value, int))
              or (isinstance(i, ast.Attribute) and path_root(i) is not None and not has_subscript(i)))
        return path_root(e.value) if ok else None
    return None


def has_subscript(e):
    return any(isinstance(n, ast.Subscript) for n in ast.walk(e))


def mutates_through(body, x):
    for b in body:
        for n in ast.walk(b):
            if isinstance(n, ast.Call):
                f = n.func
                if isinstance(f, ast.Attribute) and path_root(f.value) == x:
                    return True
                if isinstance(f, ast.Name) and f.id == "setattr" and n.args and path_root(n.args[0]) == x:
                    return True
            tgts = []
            if isinstance(n, ast.Assign):
                tgts = n.targets
            elif isinstance(n, (ast.AugAssign, ast.AnnAssign)):
                tgts = [n.target]
            for t in tgts:
                if isinstance(t, (ast.Attribute, ast.Subscript)) and path_root(t) == x:
                    return True
    return False


def bound_names(body):
    out = set()
    for b in body:
        for n in ast.walk(b):
            if isinstance(n, ast.Name) and isinstance(n.ctx, (ast.Store, ast.Del)):
                out.add(n.id)
            elif isinstance(n, ast.ExceptHandler) and n.name:
                out.add(n.name)
            elif isinstance(n, (ast.FunctionDef, ast.Lambda, ast.ClassDef, ast.AsyncFunctionDef, ast.Global, ast.Nonlocal)):
                out.add("$scope")
    return out


def forwb_pattern(s):
    """True: translate to SForWB; False: plain SFor; raises Unsupported for a mutating loop outside the pattern."""
    if not isinstance(s.target, ast.Name):
        xs = [t.id for t in ast.walk(s.target) if isinstance(t, ast.Name)]
        if any(mutates_through(s.body, x) for x in xs):
            raise Unsupported("for loop mutating an element through a tuple target")
        return False
    x = s.target.id
    if not mutates_through(s.body, x):
        return False
    root = path_root(s.iter)
    if root is None:
        raise Unsupported("for loop mutating its variable over an iterable that is not an l-value path")
    bound = bound_names(s.body)
    if x in bound or "$scope" in bound:
        raise Unsupported("for loop mutating and rebinding its variable")
    it_names = {n.id for n in ast.walk(s.iter) if isinstance(n, ast.Name)}
    if bound & it_names:
        raise Unsupported("for loop with write-back: the body binds a name of the iterable")
    if any(isinstance(n, ast.Name) and n.id == root for b in s.body for n in ast.walk(b)):
        raise Unsupported("for loop with write-back: the body mentions the root of the iterable")
    if x in it_names:
        raise Unsupported("for loop with write-back: the variable occurs in the iterable")
    return True
# ---------------------------------------------------------------- pl14: for-loop with write-back (end)


def stmt(s):
    if is_docstring(s):
        return None
    if isinstance(s, ast.Expr):
        if is_logger_call(s.value):
            return None
        if is_trivial_super_init(s.value):
            return None
        v = s.value
        if (isinstance(v, ast.Call) and isinstance(v.func, ast.Name) and v.func.id == "setattr"
                and len(v.args) == 3 and not v.keywords):
            return "(SAssign (TDyn %s %s) %s)" % (expr(v.args[0]), expr(v.args[1]), expr(v.args[2]))
        return "(SExpr %s)" % expr(s.value)
    if isinstance(s, ast.Assign):
        if len(s.targets) != 1:
            raise Unsupported("chained assignment")
        if (isinstance(s.value, ast.Call) and isinstance(s.value.func, ast.Name)
                and s.value.func.id in ("Lock", "RLock") and isinstance(s.targets[0], ast.Attribute)
                and s.targets[0].attr.endswith("_lock")):
            return None      # a lock object: no-op in the sequential semantics
        return "(SAssign %s %s)" % (target(s.targets[0]), expr(s.value))
    if isinstance(s, ast.AnnAssign):
        if s.value is None:
            return None
        return "(SAssign %s %s)" % (target(s.target), expr(s.value))
    if isinstance(s, ast.AugAssign):
        if type(s.op) not in BINOPS:
            raise Unsupported("operator " + type(s.op).__name__)
        return "(SAug %s %s %s)" % (target(s.target), BINOPS[type(s.op)], expr(s.value))
    if isinstance(s, ast.If):
        return "(SIf %s %s %s)" % (expr(s.test), stmts(s.body), stmts(s.orelse))
    if isinstance(s, ast.While):
        if s.orelse:
            raise Unsupported("while-else")
        return "(SWhile %s %s)" % (expr(s.test), stmts(s.body))
    if isinstance(s, ast.For):
        if s.orelse:
            raise Unsupported("for-else")
        if forwb_pattern(s):
            FORWB_SEEN.append(ast.unparse(s).split("\n")[0])
            return "(SForWB %s %s %s)" % (cstr(s.target.id), expr(s.iter), stmts(s.body))
        return "(SFor %s %s %s)" % (target(s.target), expr(s.iter), stmts(s.body))
    if isinstance(s, ast.Return):
        return "(SReturn %s)" % oexpr(s.value)
    if isinstance(s, ast.Raise):
        if s.exc is None and s.cause is None:
            return "(SRaise (EName %s))" % cstr("$reraise")     # bare raise: the exception being handled
        if s.cause is not None:
            raise Unsupported("raise ... from")
        x = s.exc
        name = exc_name(x.func if isinstance(x, ast.Call) else x)
        return "(SRaise (EName %s))" % cstr(name)
    if isinstance(s, ast.Assert):
        return "(SAssert %s)" % expr(s.test)
    if isinstance(s, ast.Try):
        if s.orelse or s.finalbody:
            raise Unsupported("try-else/finally")
        hs = "Hnil"
        for h in reversed(s.handlers):
            if h.type is None:
                name = "Exception"
            else:
                name = exc_name(h.type)
            if h.name is not None and any(isinstance(n, ast.Name) and n.id == h.name
                                          for b in h.body for n in ast.walk(b)
                                          if not (isinstance(b, ast.Expr) and is_logger_call(b.value))):
                raise Unsupported("exception object used")
            hs = "(Hcons %s %s %s)" % (cstr(name), stmts(h.body), hs)
        return "(STry %s %s)" % (stmts(s.body), hs)
    if isinstance(s, ast.Pass):
        return "SPass"
    if isinstance(s, ast.Break):
        return "SBreak"
    if isinstance(s, ast.Continue):
        return "SContinue"
    raise Unsupported("statement " + type(s).__name__)


def decorators(fn):
    out = []
    for d in fn.decorator_list:
        if isinstance(d, ast.Name):
            out.append(d.id)
        elif isinstance(d, ast.Attribute):
            out.append(d.attr)
        else:
            out.append("?")
    return out


def func(fn, status, qual):
    decs = decorators(fn)
    a = fn.args
    try:
        if a.vararg or a.kwarg or a.kwonlyargs or a.posonlyargs:
            raise Unsupported("parameter kinds")
        if any(d not in ("property", "abstractmethod", "setter") for d in decs):
            raise Unsupported("decorator " + ",".join(decs))
        nd = len(a.defaults)
        params = []
        for i, p in enumerate(a.args):
            j = i - (len(a.args) - nd)
            d = "None" if j < 0 else "(Some %s)" % expr(a.defaults[j])
            params.append("(%s, %s)" % (cstr(p.arg), d))
        body = stmts(fn.body)
        status[qual] = "ok"
    except Unsupported as e:
        params = ["(%s, None)" % cstr(p.arg) for p in a.args]
        body = "(Scons (SRaise (EName %s)) Snil)" % cstr("$Unsupported: " + str(e))
        status[qual] = "unsupported: " + str(e)
    if "setter" in decs:
        return "(mkFunc %s %s false %s)" % (cstr(fn.name + "$setter"), clist(params), body)
    return "(mkFunc %s %s %s %s)" % (cstr(fn.name), clist(params),
                                     "true" if "property" in decs else "false", body)


def fold_int(e):
    """Constant integer expression (enum values like 1 << 0)."""
    if isinstance(e, ast.Constant) and isinstance(e.value, int) and not isinstance(e.value, bool):
        return e.value
    if isinstance(e, ast.BinOp):
        a, b = fold_int(e.left), fold_int(e.right)
        ops = {ast.LShift: lambda: a << b, ast.BitOr: lambda: a | b, ast.Add: lambda: a + b,
               ast.Sub: lambda: a - b, ast.Mult: lambda: a * b}
        if type(e.op) in ops:
            return ops[type(e.op)]()
    if isinstance(e, ast.UnaryOp) and isinstance(e.op, ast.USub):
        return -fold_int(e.operand)
    raise Unsupported("enum value")


def dataclass_field(s):
    """AnnAssign of a dataclass -> (name, default ast or None, init)."""
    v = s.value
    if isinstance(v, ast.Call) and isinstance(v.func, ast.Name) and v.func.id == "field":
        default, init = None, True
        for k in v.keywords:
            if k.arg == "default":
                default = k.value
            elif k.arg == "init":
                init = bool(k.value.value)
            elif k.arg in ("repr", "compare", "hash"):
                pass
            else:
                raise Unsupported("field(%s=...)" % k.arg)
        return s.target.id, default, init, True
    return s.target.id, v, True, False


def ident(s):
    return "".join(c if c.isalnum() else "_" for c in s)


PRELUDE = os.environ.get("NXS_PRELUDE") or os.path.join(os.path.dirname(os.path.abspath(__file__)), "harness", "prelude_py.py")


def src_path(rel):
    return PRELUDE if rel == "$prelude" else os.path.join(SRC, rel)


def translate_module(rel, status):
    """-> (coq text, [class def names], [func def names], [const entries])."""
    path = src_path(rel)
    with open(path) as f:
        tree = ast.parse(f.read())
    mod = "prelude" if rel == "$prelude" else ident(os.path.splitext(os.path.basename(rel))[0])
    out = []
    class_names, func_names, consts = [], [], []
    for node in tree.body:
        if isinstance(node, ast.ClassDef):
            bases = [b.id if isinstance(b, ast.Name) else "?" for b in node.bases]
            CUR_CLASS[0] = node.name
            decs = decorators(node)
            is_enum = any(b in ("Enum", "IntEnum") for b in bases)
            is_dc = "dataclass" in decs
            members, dfields, cconsts, methods, mnames = [], [], [], [], []
            complex_dc = False
            for s in node.body:
                if is_docstring(s) or isinstance(s, ast.Pass):
                    continue
                if isinstance(s, ast.FunctionDef):
                    if "abstractmethod" in decorators(s):
                        continue
                    only = ONLY.get(rel, {}).get(node.name)
                    if only is not None and s.name not in only:
                        continue
                    suffix = "_setter" if "setter" in decorators(s) else ""
                    dn = "%s_%s%s" % (node.name, s.name.replace("__", "D"), suffix)
                    out.append("Definition %s : func := %s." % (dn, func(s, status, "%s:%s.%s%s" % (rel, node.name, s.name, suffix))))
                    methods.append(dn)
                    mnames.append(s.name)
                elif isinstance(s, ast.Assign) and len(s.targets) == 1 and isinstance(s.targets[0], ast.Name):
                    name = s.targets[0].id
                    if is_enum:
                        try:
                            members.append("(%s, (%d)%%Z)" % (cstr(name), fold_int(s.value)))
                        except Unsupported as e:
                            status["%s:%s.%s" % (rel, node.name, name)] = "unsupported: " + str(e)
                    else:
                        try:
                            cconsts.append("(%s, %s)" % (cstr(name), expr(s.value)))
                        except Unsupported as e:
                            status["%s:%s.%s" % (rel, node.name, name)] = "unsupported: " + str(e)
                elif isinstance(s, ast.AnnAssign) and isinstance(s.target, ast.Name):
                    if not is_dc:
                        if s.value is not None:
                            try:
                                cconsts.append("(%s, %s)" % (cstr(s.target.id), expr(s.value)))
                            except Unsupported as e:
                                status["%s:%s.%s" % (rel, node.name, s.target.id)] = "unsupported: " + str(e)
                        continue
                    try:
                        name, default, init, viaf = dataclass_field(s)
                        complex_dc = complex_dc or viaf
                        dfields.append((name, None if default is None else expr(default), init))
                    except Unsupported as e:
                        status["%s:%s.%s" % (rel, node.name, s.target.id)] = "unsupported: " + str(e)
                        dfields.append((s.target.id, "(EName %s)" % cstr("$Unsupported"), True))
                else:
                    status["%s:%s" % (rel, node.name)] = "unsupported: class statement " + type(s).__name__
            enum = "None"
            if is_enum:
                enum = "(Some (%s, %s))" % ("true" if "IntEnum" in bases else "false", clist(members))
            flds = "None"
            if is_dc:
                complex_dc = complex_dc or "__post_init__" in mnames or "__setattr__" in mnames
                for name, d, init in dfields:
                    if d is not None:
                        cconsts.append("(%s, %s)" % (cstr(name), d))
                if not complex_dc:
                    flds = "(Some %s)" % clist("(%s, %s)" % (cstr(n), "None" if d is None else "(Some %s)" % d)
                                               for n, d, _ in dfields)
                else:
                    # the __init__ that @dataclass generates, written out
                    params = ["(%s, None)" % cstr("self")] + [
                        "(%s, %s)" % (cstr(n), "None" if d is None else "(Some %s)" % d)
                        for n, d, init in dfields if init]
                    body = "Snil"
                    if "__post_init__" in mnames:
                        body = "(Scons (SExpr (ECall (EAttr (EName %s) %s) Enil Knil)) Snil)" % (
                            cstr("self"), cstr("__post_init__"))
                    for n, d, init in reversed(dfields):
                        if init:
                            body = "(Scons (SAssign (TAttr (EName %s) %s) (EName %s)) %s)" % (
                                cstr("self"), cstr(n), cstr(n), body)
                        # a field with init=False is not assigned: reads fall through to the class attribute
                    dn = "%s_DinitD" % node.name
                    out.append("Definition %s : func := (mkFunc %s %s false %s)." % (
                        dn, cstr("__init__"), clist(params), body))
                    methods.append(dn)
                    status["%s:%s.__init__" % (rel, node.name)] = "ok (synthesised from the dataclass fields)"
            dn = "class_%s" % node.name
            out.append("Definition %s : class := mkClass %s %s %s %s %s %s." % (
                dn, cstr(node.name), clist(cstr(b) for b in bases if b not in ("ABC", "Enum", "IntEnum")),
                enum, flds, clist(cconsts), clist(methods)))
            class_names.append(dn)
        elif isinstance(node, ast.FunctionDef):
            dn = "fn_%s" % node.name.replace("__", "D")
            out.append("Definition %s : func := %s." % (dn, func(node, status, "%s:%s" % (rel, node.name))))
            func_names.append(dn)
        elif isinstance(node, ast.Assign) and len(node.targets) == 1 and isinstance(node.targets[0], ast.Name):
            try:
                consts.append("(%s, %s)" % (cstr(node.targets[0].id), expr(node.value)))
            except Unsupported as e:
                status["%s:%s" % (rel, node.targets[0].id)] = "unsupported: " + str(e)
    hdr = ("(* GENERATED by tools/pylite.py from %s -- do not edit. *)\n"
           "From Coq Require Import String Ascii List ZArith NArith.\n"
           "From NX Require Import PyLite.\nImport ListNotations.\n"
           "Open Scope string_scope.\nOpen Scope list_scope.\n\n" % rel)
    txt = hdr + "\n".join(out) + "\n\n"
    txt += "Definition classes : list class := %s.\n" % clist(class_names)
    txt += "Definition funcs : list func := %s.\n" % clist(func_names)
    txt += "Definition consts : list (string * expr) := %s.\n" % clist(consts)
    return mod, txt


# modules of which only some methods are inside the sequential subset (the rest uses threads / queues)
ONLY = {"comm.py": {"CommHandler": [
    "_read_hdr", "_read_frame",
    # the configuration logic, sequential once the frame queue is a scripted stub
    "_get_frame", "_get_ack", "_channel_enable", "_channel_div", "_nxslib_channels_enable",
    "_nxslib_channels_div", "_ch_divider_default", "_channels_init", "dev", "flags_is_overflow",
    "stream_start", "stream_stop", "channels_write", "ch_enable", "ch_disable", "ch_divider",
    "ch_enable_all", "ch_disable_all", "ch_is_enabled", "ch_div_get", "channels_default_cfg",
    "_nxslib_cmninfo", "_nxslib_chinfo",
    # the description phase of the handshake (the frame queues and the link are scripted stubs)
    "_devinfo_get", "_drop_all", "_drop_all_frames", "_get_stream_frame",
    # connect / disconnect (the receive thread is a recording stub)
    "_start", "_stop", "connect", "disconnect",
    # pl14: the receive thread body (one call = one reassembly step + routing; the two queues are the
    # ScriptQueue stub) and the stream path (next stream frame -> Parser.frame_stream_decode)
    "_recv_thread", "stream_data"]},
    "nxscope.py": {"NxscopeHandler": [
        "_stream_start", "_stream_stop", "_reset_stats", "dev", "connect", "disconnect", "dev_channel_get",
        "stream_start", "stream_stop", "channels_default_cfg", "ch_enable", "ch_disable", "ch_disable_all",
        "ch_divider", "channels_write",
        # pl14: the body of the stream thread (fan-out of the decoded samples to the subscriber queues, which are
        # the SubQueue stub of the prelude; `for que in self._sub_q[chan]: que.put(..)` is an SForWB loop)
        "_stream_thread"]}}

MODULES = ["proto/iframe.py", "proto/serialframe.py", "dev.py", "proto/iparse.py", "proto/parse.py",
           "proto/iparserecv.py", "proto/parserecv.py", "intf/iintf.py", "comm.py", "nxscope.py",
           "thread.py",      # pl15: ThreadCommon, whole class (threading.Event/Thread -> SimEvent/SimThread, see expr())
           "$prelude"]


def crc_table():
    """16-bit crcmod predefined definitions: name -> (poly, init, rev, xorout) as crcmod applies them."""
    try:
        import crcmod.predefined as cp
    except ImportError:
        return None

    rows = []
    for d in cp._crc_definitions:
        poly = d["poly"]
        if poly >> 16 != 1:
            continue
        rows.append('(%s, mkCrc %d%%N %d%%N %s %d%%N)' % (
            cstr(d["name"]), poly & 0xFFFF, d["init"], "true" if d["reverse"] else "false", d["xor_out"]))
    return rows


def run(gen_dir, quiet=False):
    status = {}
    mods = []
    CLASS_INFO.clear()
    for rel in MODULES:
        with open(src_path(rel)) as f:
            for node in ast.parse(f.read()).body:
                if isinstance(node, ast.ClassDef):
                    CLASS_INFO[node.name] = (
                        [b.id if isinstance(b, ast.Name) else "?" for b in node.bases],
                        any(isinstance(x, ast.FunctionDef) and x.name == "__init__" for x in node.body))
    for rel in MODULES:
        mod, txt = translate_module(rel, status)
        path = os.path.join(gen_dir, "Src_%s.v" % mod)
        old = open(path).read() if os.path.exists(path) else None
        if old != txt:
            with open(path, "w") as f:
                f.write(txt)
        mods.append(mod)
    allv = ("(* GENERATED by tools/pylite.py -- do not edit. *)\n"
            "From Coq Require Import String List ZArith NArith.\n"
            "From NX Require Import Crc PyLite %s.\nImport ListNotations.\nOpen Scope string_scope.\n\n"
            % " ".join("Src_" + m for m in mods))
    rows = crc_table()
    if rows is None:
        raise RuntimeError("crcmod is not importable: run the translator with /venv/bin/python")
    allv += "Definition crcs : list (string * crc_params) := %s.\n\n" % clist(rows)
    allv += "Definition program : prog := mkProg\n  (%s)\n  (%s)\n  (%s)\n  crcs.\n" % (
        " ++ ".join("Src_%s.classes" % m for m in mods),
        " ++ ".join("Src_%s.funcs" % m for m in mods),
        " ++ ".join("Src_%s.consts" % m for m in mods))
    path = os.path.join(gen_dir, "Src_all.v")
    old = open(path).read() if os.path.exists(path) else None
    if old != allv:
        with open(path, "w") as f:
            f.write(allv)
    if not quiet:
        for k, v in sorted(status.items()):
            print(k, v)
    return status


if __name__ == "__main__":
    run(os.path.join(os.path.dirname(os.path.abspath(__file__)), "..", "coq", "gen"),
        quiet="--quiet" in sys.argv)

#!/usr/bin/env python3
"""Regenerates MANIFEST.json from the table below (keeps it valid at all times)."""
import json
import os

ROOT = os.path.dirname(os.path.dirname(os.path.abspath(__file__)))
NOTE_BASE = ("Trusted: Coq 8.16.1 kernel (+vm_compute), the translator tools/extract.py, ExtrOcamlBasic extraction + OCaml driver "
             "(correspondence only), the harness; CPython struct/bytes/float, crcmod, queue/threading are modelled and tied by the "
             "differential run. Theorems are closed under the global context (Print Assumptions in evidence).")

CHECKS = {
    "C01": dict(
        text="Coq theorems C01_layout / C01_roundtrip / C01_refuse over the model of SerialFrame whose constants (formats, SOF, length base, CRC parameters resolved through crcmod's table) are regenerated from the source on every run; all payload contents and lengths at once. Tied to the code by the translator and by a differential run model vs implementation vs an independent bit-serial reference encoder.",
        design="3/C01", technique="Coq proof (induction, 2^16 CRC state sweep lifted by lemma) + translator-regenerated constants + differential correspondence"),
    "C02": dict(
        text="Coq theorems: frame_decode d = Ok(fid,p) <-> accepts d fid p for every well-formed byte string (C02_decode_iff), totality of the error classification, soundness and completeness of the device-side dispatcher w.r.t. the same acceptance predicate, and the detection theorem C02_detect: every valid frame <= 4095 bytes xor every error pattern that leaves the length field intact and has weight 1, weight 2, odd weight or is a burst <= 16 bits is rejected (CRC algebra: linearity, injectivity of the zero-bit step, parity invariant, orbit of x^16 mod g, each finite sweep lifted by a lemma). Differential: header sweep with forged CRCs, random strings, corrupted frames, dispatcher with recording callbacks.",
        design="3/C02", technique="Coq proof (CRC algebra over GF(2), iff-characterisation) + translator-regenerated constants + differential correspondence"),
    "C17": dict(
        text="Coq theorems: data_align p d = d ++ zeros(pad_count p |d|) for every p >= 0 and d, pad_count is the unique k < p making the length a multiple of p (0 for p = 0); for every frame frame_create can emit and every padding, recv_dispatch(padded) = recv_dispatch(unpadded); padding-only writes dispatch nothing. Differential: all paddings x lengths (exhaustive in thorough), every request kind x paddings through the real recv_handle.",
        design="3/C17", technique="Coq proof (arithmetic + dispatcher characterisation) + translator-regenerated constants + differential correspondence"),
    "C19": dict(
        text="Coq theorems over a model of the two dataclasses as finite maps with the regenerated __setattr__ allow-list and __post_init__ masks: for every constructor argument, every attribute name (any string) and every value, assignment on a constructed channel record raises and leaves the record unchanged unless the name is en/div, in which case exactly that attribute changes; on the device record it always raises; derived attributes equal their defining functions for all 256 type bytes / flag bytes (sweep lifted by lemma). Differential: real records (direct, via DeviceChannel.data, via Device.channel_get) x names x value kinds x type bytes, __dict__ before/after compared.",
        design="3/C19", technique="Coq proof (all names/values; 256-value sweeps lifted) + translator-regenerated constants + differential correspondence"),
    "C05": dict(
        text="Coq theorems over models of the client builders (parse.py) and the device-side decoders (parserecv.py) with regenerated format strings and flag values: for every device size 1..255, every current state, every channel, every 8-bit value and every vector, the emitted bytes are wire(id, spec payload), the device-side receiver hands exactly that payload to the right callback, and the decoder returns exactly the intended per-channel vector, whichever compact form (single/all/bulk) was chosen. Differential: builders vs independent encoder, real recv_handle, real decoders on devices with random current state.",
        design="3/C05", technique="Coq proof (induction over vectors; struct round-trip lemmas) + translator-regenerated constants + differential correspondence"),
    "C06": dict(
        text="Coq theorems: for every value 0..255 of each one-byte field, every NUL-free Unicode text that fits a frame followed by any number of NUL terminators, and every 32-bit return code, the response built by the device-side encoder is wire(id, payload), decodes through the frame codec, and the client-side decoder returns exactly the configuration (name = text before the first NUL; ACK success iff r = 0, r preserved); derived attributes of the client record follow from the type byte / flags for all 256 values. Needs the UTF-8 round-trip theorem (lib/Utf8.v). Differential: encode -> frame_decode -> decode on the real code vs model vs the configuration itself, incl. 2/3/4-byte code points and malformed payloads.",
        design="3/C06", technique="Coq proof (struct + UTF-8 round-trip lemmas; 256-value sweeps lifted) + translator-regenerated constants + differential correspondence"),
    "C04": dict(
        text="Coq theorems over the model of frame_stream_decode/_stream_data_get/msfmt_get/dsfmt_get with the regenerated type table: C04_payload (flags byte + any sequence of well-formed encoded samples in any channel order decodes to exactly those samples, in wire order, consuming the payload to its end), C04_any_row (any row, standard or user-defined, per its struct format), and per kind: integers exactly (8 rows, vdim 1..255), fixed-point = rn53(raw)/2^k and = raw/2^k exactly for |raw| <= 2^53, IEEE bit patterns exactly, char data never fails (arbitrary bytes) and valid UTF-8 gives its text, data-less type, metadata 1/2/4/8 -> one unsigned integer else byte tuple (mlen 0..255). Differential: random layouts incl. user formats, extremes, NaN/inf, invalid UTF-8, truncated payloads, vs independent encoder/expectation.",
        design="3/C04", technique="Coq proof (induction over sample lists; format-string sweeps over vdim/mlen 0..255 lifted by lemma) + translator-regenerated type table + differential correspondence"),
    "C15": dict(
        text="Coq theorems over the model of _stream_data_encode/_stream_bytes_get: samples with neither data nor metadata are skipped, no frame iff none remain, the payload is flags 0 + encoded samples; for any row format the encoder's '<B'+format bytes are the channel byte followed by bytes the decoder's '<'+format reads back as the same canonical values with exact size (struct round-trip theorem), same for metadata (native vs '<'); composed with the C04 decode theorems. The per-kind closed-form round trip is proved for the decode side (C04) and tied on the encode side by the differential run (all 18 types, fixed-point grids, channel ids up to 254, user types). Known finding listed in known_findings.json.",
        design="3/C15", technique="Coq proof (struct pack/unpack round-trip for every format) + translator-regenerated constants + differential correspondence"),
    "C03": dict(
        text="Coq theorem C03_chunking (refinement): for every list of read chunks (empty reads included) the frames delivered by the model of _read_hdr/_read_frame driven to exhaustion equal fst(scan(concat chunks)) where scan is an independent one-pass specification (skip to next SOF, accept a complete valid frame and continue after it, otherwise advance one byte, stay pending on an incomplete candidate); the loop never runs out of fuel and never raises; per-call lemmas in front of arbitrary future bytes; corollaries: back-to-back valid frames delivered once and in order, a frame after SOF-free noise is not lost. Differential: EVERY composition of small streams (exhaustive), random compositions of long streams with empty reads, real CommHandler._read_frame over a scripted link vs model vs independent scan.",
        design="3/C03", technique="Coq proof (refinement to a one-pass scan by induction on fuel/measure) + exhaustive small-scope differential correspondence"),
    "C07": dict(
        text="Coq theorems over the model of the buffered configuration state machine (setters, channels_write, diff-based single/full request choice, en_sync/div_sync) against an abstract device: invariant preserved by every operation and answer; no operation other than a write touches the device; after any history an acknowledged write leaves device = requested = reported (dividers iff supported); writing again changes nothing; no divider request is ever sent to a device without divider support. Induction over arbitrary op lists, any channel count and initial state. Differential: random histories on the real CommHandler/NxscopeHandler against the reference device, compared after every call.",
        design="3/C07", technique="Coq proof (invariant by induction over operation histories) + differential correspondence on real handlers"),
    "C11": dict(
        text="Coq theorems over the same state machine with a per-request adversary (acknowledge / reject with any code / lose the request / lose the acknowledgement): failed requests leave the reported state where it was; after ANY such history a write that is acknowledged brings device and client to the requested state (C11_converges, by the sync-flag invariant); worked example of the repaired defect F16. Differential: adversarial histories on the real CommHandler under a scaled clock with watchdogs.",
        design="3/C11", technique="Coq proof (invariant over adversarial histories) + differential correspondence on the real handler"),
    "C13": dict(
        text="Coq theorem C13_safe over a line-granularity transition system of thread_start / thread_stop / _thread_loop (controller pc, stop flag, handle, worker incarnations incl. a leaked one, monitor): for every start/stop sequence and every interleaving of any length the target never runs after stop returned and before the next start, at most one incarnation is alive, and after stop returns none is; obtained from an in-kernel closed-set computation (39 abstract states) lifted by the proved lemma closed_safe; start/stop no-ops, restartability, loop shape (init, target*, final) and progress as separate theorems. Tie: thread.py skeletons pinned (the model is its line structure) + exploration of the real ThreadCommon under a 10 us switch interval judged by the same monitor; heavy scenarios on drift.",
        design="3/C13", technique="Coq proof (finite closed set computed in the kernel, lifted to all traces by a proved lemma) + pinned source skeleton + monitored exploration of real threads"),
    "C09": dict(
        text="Coq theorems over a state-machine model of the high-level handler (connected / stream flags, thread handles, comm state, device streaming / enabled): invariant over every finite call sequence from every initial device state; connect and disconnect idempotent; every call other than connect made while disconnected leaves the whole state (device included) unchanged; after disconnect the device has been told to stop and to disable every channel, no description, no thread handle. Tie: real NxscopeHandler against the reference device, ALL call sequences up to length 3/4 plus random longer ones, result class / flags / live threads / device streaming compared after every call; same static description on every reconnect. PARTIAL: 'no library thread left alive' is proved as 'handles joined and cleared', observed with threading.enumerate().",
        design="3/C09", technique="Coq proof (invariant over call histories) + exhaustive short-sequence differential on the real handler"),
    "C10": dict(
        text="Coq theorems: connect is defined by structural recursion on the regenerated retry counters (so it terminates by construction) and for EVERY oracle (silent / wrong frame / undecodable frame at any request) returns after at most 1 + A(1 + chmax R) requests and time-outs with nothing left running unless it succeeded (C10_connect_bounded); the receive routine always returns for every buffer and read sequence (from the C03 refinement: never out of fuel), so the stop flag is observed; once the flag is set the worker finishes within three steps and the join is enabled (C13 model). PARTIAL: real joins, GIL scheduling and wall-clock bounds are covered by the fault-enumeration run (every handshake point x fault kind x once/from-then-on, header residues 1..3 bytes, noise), not proved.",
        design="3/C10", technique="Coq proof (structural termination + explicit bounds for all oracles) + fault enumeration on the real handler", category="proof"),
    "C16": dict(
        text="Coq theorems over an object-store model of simulated-device instances (channel objects at locations; an instance owns a list of locations; how the default channel set is obtained is regenerated from DummyDev.__init__): frame rule - any sequence of requests, samples and start/stop cycles on one instance leaves every object of a disjoint instance unchanged; instances built by the constructor own disjoint objects in all default/custom combinations (needs the regenerated constant dummy_default_fresh = true); stop;start empties the read queue and resets every generator of the instance and nothing else. Tie: translator reading of the constructor, pinned skeletons of the generator classes / Device.reset / DummyDev.start/stop (drift = obligation broken), and real pairs of DummyDev (identity checks, B vs a B without neighbour, restart with enabled and with disabled channels, every generator: N samples + reset = fresh sequence).",
        design="3/C16", technique="Coq proof (frame rule over an object store, induction over operation sequences) + translator-decided aliasing + differential on real instance pairs"),
    "C14": dict(
        text="Coq theorems over the model of the simulated device's request handling (ParseRecv dispatch + the five callbacks, composed from the C02/C05/C06/C17 models): rejected input (padding, noise without an accepted frame, damaged requests) changes nothing and answers nothing; every well-formed request, padded for any write padding, is handled like the unpadded one; enable/divider requests in single/all/bulk form land on exactly the addressed channels with one ACK iff ACK support is advertised; start/stop set the stream flag; common-info / channel-info responses are this device's info (which decodes on the client to the configuration by C06); sampling round: samples only of enabled channels, every enabled generator advances by exactly one. Differential: random device definitions and request sequences with padding/noise/damaged requests on the real DummyDev, responses and state compared after every write; streaming scenario with stop/start cycles checking per-channel continuity.",
        design="3/C14", technique="Coq proof (composition of the request/info/dispatch theorems; induction over channels for sampling) + differential correspondence on the real simulated device"),
    "C08": dict(
        text="Coq theorems over the model of the fan-out loop and of subscribe/unsubscribe: one frame appends to every queue exactly the groups of the enabled channels it is subscribed to, once per subscription, and changes nothing else; for ANY sequence of frames the queue holds, after what it held, the groups in frame order (no gap, no duplicate, nothing foreign); frames without samples / with foreign or disabled channels only / with just the overflow flag disturb nothing; an unsubscribed queue receives nothing; the two hops in front (receive thread routing, stream queue) are FIFO for every interleaving (delivered ++ waiting = sent); progress and termination of draining (eventual delivery under fairness of the two library threads). Tie: scripted frame sequences with subscribe/unsubscribe/buffered-unwritten changes on the real NxscopeHandler compared with the model; concurrent bursts with subscription churn judged by the run monitor. PARTIAL on 'eventually': OS fairness assumed.",
        design="3/C08", technique="Coq proof (induction over frame sequences and pipeline traces) + differential on the real handler + monitored concurrent exploration"),
    "C12": dict(
        text="Coq theorems: the lock-nesting relation regenerated from comm.py / nxscope.py / dev.py by the translator respects one rank order (channels lock -> device-info lock only, C12_lock_order, recomputed on every run); the receive path takes no lock; in any system where locks are requested in increasing rank there is no wait-for cycle among any number of threads (C12_no_deadlock); on an acknowledging device, after any history of configuration operations (all threads' operations, serialised by the channels lock) what the client reports equals the device's state (C12_consistent_reads, by the sync invariant); a final acknowledged write leaves the device at the last requested state. Tie + exploration: 2..4 real application threads with generated programs, delayed ACKs, a running stream and a 10 us switch interval; watchdog as deadlock detector, exceptions, every ch_is_enabled answer checked against the device, final state checked. PARTIAL: synchronisation-point granularity; real interleavings sampled, not enumerated.",
        design="3/C12", technique="Coq proof (rank argument for deadlock freedom; invariant for consistent reads) + translator-regenerated lock graph + monitored exploration of real threads"),
    "C18": dict(
        text="PARTIAL. Proved in Coq: over a FIFO with ANY chunking oracle (how many waiting bytes the OS reports per read, possibly 0) the reads concatenated equal the bytes sent, an idle read is empty, the bytes written are data_align p d, and - composing with the C03 refinement - a client extracts over any chunking exactly the frames it extracts over the ideal one-read link (C18_session_equivalent), which reduces the property's session claim to the pipe being a FIFO. NOT proved, explored only: that pyserial + the kernel tty layer are such a FIFO - real SerialDevice on an os.openpty() pseudo-terminal, all 256 byte values both ways, bursts up to 4096 bytes, varied writer pacing, idle-read latency, padding observed at the far end, and a full client session over the pty compared with the ideal link.",
        design="3/C18", technique="Coq proof of the client-side logic and of the reduction to a FIFO + exploration of pyserial on a pseudo-terminal (the OS half is not provable)", category="proof",
        note="Trusted for the proved half: Coq kernel, translator, C03 refinement. The OS/pyserial half is tested on a pty, not proved; a pty is not a UART (no baud/parity/hardware flow control)."),
    "C20": dict(
        text="Coq theorems: the client's frame reassembly written over an ARBITRARY codec record refines the one-pass scan with that codec's framing for every chunking, provided the codec honours the interface laws lawful2 (C20_reassembly_any_codec - the C03 refinement proof ported to the laws; two of the laws were discovered while porting, with counterexample codecs proved in the file: a negative declared length or an accepted empty frame break chunking-independence); the built-in codec is lawful and the generic model instantiated with it is the C03 model; every member of the parameterised family (start byte, header 3..8 with fields at any position, 1/2-byte length in either endianness, XOR or sum footer of 1..4 bytes) is lawful, hence reassembly behaves with each as with the built-in codec. Device-side dispatch and whole sessions with custom codecs (incl. CRC-32 footers, which have no Coq model) are covered by the harness: family members as ICommFrame subclasses through the real _read_frame (incl. all compositions), recv_handle with padded requests, and full CommHandler sessions with coalesced reads against a reference device speaking the codec; XOR/sum members are additionally compared with the extracted generic model.",
        design="3/C20", technique="Coq proof (refinement generalised to a codec record with interface laws; family lawfulness) + harness with a family of real ICommFrame codecs"),
}
PENDING = {}

ALL = ["C%02d" % i for i in range(1, 21)]


def main():
    checks = []
    for pid in ALL:
        if pid not in CHECKS:
            continue
        c = CHECKS[pid]
        checks.append({
            "property_id": pid,
            "quick_cmd": "./check %s --tier quick" % pid,
            "thorough_cmd": "./check %s --tier thorough" % pid,
            "evidence_file": "evidence/%s.json" % pid,
            "replay_cmd_template": "./check %s --replay {path}" % pid,
            "engine": "coq+diff",
            "level_claimed": {"category": c.get("category", "proof"), "text": c["text"],
                              "design_ref": "DESIGN.md section " + c["design"]},
            "level_note": c.get("note", NOTE_BASE),
            "technique": c["technique"],
        })
    na = [{"property_id": p, "reason": PENDING.get(p, "check not built yet (work in progress; see DESIGN.md section 8)")}
          for p in ALL if p not in CHECKS]
    m = {
        "version": 1,
        "setup_cmd": "bash setup.sh",
        "hooks": {
            "guard": "NXSLIB_VERIF",
            "enable": "no source hooks are used: checks import /repo/src directly (PYTHONPATH) and rebind the names nxslib modules imported inside the harness process",
            "baseline_off_cmd": "cd /repo && /venv/bin/python -m pytest -ra -q -p no:cacheprovider --timeout=900 --continue-on-collection-errors",
            "source_commits": [],
            "add_only": True,
        },
        "engines": [{"name": "coq+diff", "path": "check", "serves_properties": sorted(CHECKS),
                     "kind_free_text": "Coq 8.16 development (coq/) + translator (tools/extract.py) + extracted OCaml model + differential harness (tools/)"}],
        "checks": checks,
        "not_applicable": na,
        "notes": "See DESIGN.md. known_findings.json lists the 17 repaired defects (all status=fixed).",
    }
    with open(os.path.join(ROOT, "MANIFEST.json"), "w") as f:
        json.dump(m, f, indent=1)


if __name__ == "__main__":
    main()

"""Witnesses of the defects found on the pinned commit (DESIGN.md section 5).

Each function replays one witness on the real code and returns None when the
property holds on it, or a short description of what fails.  After the
corresponding `fix:` commit they act as the regression corpus that every check
runs first (a `fixed` entry in known_findings.json suppresses nothing).
"""
import threading

from . import link
from . import refcodec as rc
from . import refdev

from nxslib.comm import CommHandler
from nxslib.dev import Device, DeviceChannel
from nxslib.proto.iframe import DParseFrame, EParseError, EParseId
from nxslib.proto.iparse import DParseStreamData
from nxslib.proto.iparserecv import ParseRecvCb
from nxslib.proto.parse import Parser
from nxslib.proto.parserecv import ParseRecv
from nxslib.proto.serialframe import SerialFrame


def _recorder():
    fired = []
    cb = ParseRecvCb(
        cmninfo=lambda d: fired.append(("cmninfo", bytes(d))),
        chinfo=lambda d: fired.append(("chinfo", bytes(d))),
        enable=lambda d: fired.append(("enable", bytes(d))),
        div=lambda d: fired.append(("div", bytes(d))),
        start=lambda d: fired.append(("start", bytes(d))),
    )
    return fired, ParseRecv(cb)


def F1():
    sf = SerialFrame()
    bad = []
    d = bytes([0x55, 0, 0, 1, 0xAA, 0xBB, 0xCC])
    if sf.frame_decode(d).err is EParseError.NOERR:
        bad.append("flen=0 accepted: " + d.hex())
    body = bytes([0x55, 20, 0, 1, 9, 9])
    c = rc.crc16_xmodem(body)
    d = body + bytes([c >> 8, c & 255])
    r = sf.frame_decode(d)
    if r.err is EParseError.NOERR:
        bad.append("flen>len accepted: %s payload=%s" % (d.hex(), r.data.hex()))
    fired, pr = _recorder()
    try:
        pr.recv_handle(bytes([0x55, 0, 0, 2, 0, 0]))
    except AssertionError:
        pass
    if fired:
        bad.append("dispatcher fired %r on 550000020000" % (fired,))
    return "; ".join(bad) or None


def _frames_over(chunks, budget=200):
    intf = link.ScriptedIntf(chunks, read_budget=budget)
    comm = CommHandler(intf, Parser())
    out = []
    try:
        idle = 0
        while idle < 3:
            fr = comm._read_frame()
            if fr is not None:
                out.append((int(fr.fid), bytes(fr.data)))
                idle = 0
            elif not intf.chunks:
                idle += 1
    except link.ScriptedIntf.Spin:
        return "spin", out
    finally:
        comm._started = False
    return "ok", out


def F2():
    f = rc.wire(1, [7, 8])
    st1, a = _frames_over([b"\x00\x00\x00\x55", f[1:]])
    st2, b = _frames_over([b"\x00\x00\x00", f])
    if st1 != "ok" or a != [(1, bytes([7, 8]))] or a != b:
        return "chunking [000000 55][rest] -> %r (%s) but [000000][frame] -> %r" % (a, st1, b)
    return None


def F3():
    for k in (1, 2, 3):
        intf = link.ScriptedIntf([rc.wire(1, [1])[:k]], read_budget=60)
        comm = CommHandler(intf, Parser())
        try:
            r = comm._read_frame()
            if r is not None:
                return "frame from %d header bytes" % k
        except link.ScriptedIntf.Spin:
            return "%d buffered header byte(s) + silent link: _read_frame never returns (>60 reads)" % k
    return None


def _connect_outcome(dev, seconds=8.0, scale=0.002):
    refdev.install_fast_clock(scale)
    before = set(threading.enumerate())
    comm = CommHandler(dev, Parser())
    fin, res = refdev.run_with_watchdog(comm.connect, seconds)
    return comm, fin, res, before


def F4():
    # answers cmninfo, then silent on chinfo
    pol = lambda i, k, p: "silent" if k == "chinfo" else "ok"  # noqa: E731
    dev = refdev.RefDevice(refdev.simple_chans(2), flags=0, policy=pol)
    comm, fin, res, _ = _connect_outcome(dev, seconds=6.0)
    comm._thrd.stop_set()
    if not fin:
        return "device silent after cmninfo: connect() still running after %d chinfo requests" % (
            sum(1 for k, _, _ in dev.log if k == "chinfo"))
    return None


def F5():
    dev = refdev.RefDevice(refdev.simple_chans(2), flags=0,
                           policy=lambda i, k, p: "silent")
    comm, fin, res, before = _connect_outcome(dev, seconds=10.0)
    if not fin:
        comm._thrd.stop_set()
        return "silent device: connect() did not return"
    if not isinstance(res, TimeoutError):
        comm._thrd.stop_set()
        return "silent device: connect() returned %r" % (res,)
    fin2, _ = refdev.run_with_watchdog(comm.disconnect, 5.0)
    import time
    time.sleep(0.05)
    alive = [t.name for t in threading.enumerate()
             if t not in before and t.name == "recv" and t.is_alive()]
    comm._thrd.stop_set()
    if alive or dev.stopped < dev.started:
        return "after failed connect + disconnect: threads alive %r, intf start/stop %d/%d" % (
            alive, dev.started, dev.stopped)
    return None


def _dev_of(types_vdims, mlen=0):
    chans = [DeviceChannel(i, t, v, "c%d" % i, mlen=mlen)
             for i, (t, v) in enumerate(types_vdims)]
    return Device(len(chans), 3, 0, chans)


def F6():
    dev = _dev_of([(8, 1), (9, 1)])
    p = Parser()
    pay = bytes([0, 0]) + (2**64 - 1).to_bytes(8, "little") + bytes([1]) + (
        (-(2**63) + 1) & (2**64 - 1)).to_bytes(8, "little")
    r = p.frame_stream_decode(DParseFrame(EParseId.STREAM, pay), dev)
    got = [s.data[0] for s in r.samples]
    exp = [2**64 - 1, -(2**63) + 1]
    if [int(g) for g in got] != exp or any(
            isinstance(g, float) and int(g) != e for g, e in zip(got, exp)):
        return "uint64/int64 extremes decode to %r, expected %r" % (got, exp)
    return None


def F7():
    dev = _dev_of([(18, 3)])
    p = Parser()
    pay = bytes([0, 0, 0xFF, 0xFE, 0x41])
    try:
        p.frame_stream_decode(DParseFrame(EParseId.STREAM, pay), dev)
    except UnicodeDecodeError as e:
        return "char sample fffe41 raises %s" % type(e).__name__
    return None


def F8():
    p = Parser()
    for ch in (128, 200, 254):
        try:
            f = p.frame_chinfo(ch)
        except Exception as e:  # noqa: BLE001
            return "frame_chinfo(%d) raises %s" % (ch, type(e).__name__)
        if f != rc.req_chinfo(ch):
            return "frame_chinfo(%d) = %s" % (ch, f.hex())
    return None


def F9():
    _, pr = _recorder()
    dev = _dev_of([(2, 1)] * 3)
    bad = []
    for payload, exp in (([0, 1, 200], [0, 200, 0]), ([2, 0, 255], [255] * 3),
                         ([1, 0, 128, 5, 250], [128, 5, 250])):
        got = pr.frame_div_decode(bytes(payload), dev)
        if got != exp:
            bad.append("div payload %r -> %r, expected %r" % (payload, got, exp))
    return "; ".join(bad) or None


def F10():
    _, pr = _recorder()
    p = Parser()
    sf = SerialFrame()
    for name in ("żółw", "é", "a€b", "\U0001F600x"):
        ch = DeviceChannel(0, 2, 1, name)
        fr = sf.frame_decode(pr.frame_chinfo_encode(ch))
        try:
            got = p.frame_chinfo_decode(fr, 0).data.name
        except Exception as e:  # noqa: BLE001
            return "name %r: client decode raises %s" % (name, type(e).__name__)
        if got != name:
            return "name %r arrives as %r" % (name, got)
    return None


def F11():
    _, pr = _recorder()
    p = Parser()
    sf = SerialFrame()
    ch = DeviceChannel(0, 0x82, 1, "x")
    fr = sf.frame_decode(pr.frame_chinfo_encode(ch))
    got = p.frame_chinfo_decode(fr, 0).data
    if got._type != 0x82 or got.critical is not True:
        return "type byte 0x82 arrives as 0x%02x (critical=%r)" % (got._type, got.critical)
    return None


def F12():
    """Stream frame carrying only the flags byte must not kill the stream thread."""
    from nxslib.nxscope import NxscopeHandler
    refdev.install_fast_clock(0.002)
    dev = refdev.RefDevice(refdev.simple_chans(2), flags=3)
    nx = NxscopeHandler(dev, Parser())
    errs = []
    old = threading.excepthook
    threading.excepthook = lambda a: errs.append(a.exc_type.__name__)
    try:
        fin, res = refdev.run_with_watchdog(nx.connect, 10)
        if not fin or isinstance(res, BaseException):
            return "connect failed: %r" % (res,)
        q = nx.stream_sub(0)
        nx.ch_enable(0)
        nx.stream_start()
        dev.push(rc.wire(1, [0]))
        dev.push(rc.wire(1, [0, 0, 42]))
        import queue as _q
        try:
            got = q.get(timeout=2.0)
        except _q.Empty:
            got = None
        alive = nx._thrd.thread_is_alive()
        refdev.run_with_watchdog(nx.disconnect, 10)
        if errs or got is None or not alive:
            return "flags-only stream frame: stream thread raised %r, next sample delivered=%r" % (
                errs, got is not None)
        return None
    finally:
        threading.excepthook = old
        nx._thrd.stop_set()
        nx._comm._thrd.stop_set()


def F13():
    _, pr = _recorder()
    bad = []
    for typ, val in ((12, 1.5), (13, -2.25), (14, 3.0), (15, -0.5), (16, 7.0), (17, -7.125)):
        try:
            r = pr.frame_stream_encode([DParseStreamData(0, typ, 1, 0, (val,), ())])
            assert r is not None
        except Exception as e:  # noqa: BLE001
            bad.append("type %d value %r raises %s" % (typ, val, type(e).__name__))
    return "; ".join(bad) or None


def F14():
    _, pr = _recorder()
    for ch in (128, 254):
        try:
            r = pr.frame_stream_encode([DParseStreamData(ch, 2, 1, 0, (5,), ())])
        except Exception as e:  # noqa: BLE001
            return "stream sample on channel %d raises %s" % (ch, type(e).__name__)
        if rc.accepts(r) != (1, bytes([0, ch, 5])):
            return "stream sample on channel %d encodes to %s" % (ch, r.hex())
    return None


def F15():
    from nxslib.intf.dummy import DummyDev
    a, b = DummyDev(), DummyDev()
    shared = [i for i in range(a._dummydev.data.chmax)
              if a._dummydev.channel_get(i) is b._dummydev.channel_get(i)]
    a._dummydev.channel_get(1).data.en = True
    leaked = b._dummydev.channel_get(1).data.en
    a._dummydev.channel_get(1).data.en = False
    if shared or leaked:
        return "two default DummyDev share channel objects %r; enabling ch1 on A shows on B: %r" % (
            shared, leaked)
    return None


def F17():
    from nxslib.intf.dummy import DummyDev
    import time
    refdev.install_fast_clock(0.01)
    d = DummyDev(chmax=1, channels=[DeviceChannel(0, 2, 1, "c", func=_Counter())],
                 stream_sleep=0.0, stream_snum=1, rxpadding=0)
    d.start()
    d.write(rc.wire(rc.ID_ENABLE, [2, 0, 1]))
    d.write(rc.req_start(True))
    time.sleep(0.15)
    for _ in range(6):
        d.read()
    d.stop()
    left = d._qread.qsize() + d._qwrite.qsize()
    d.start()
    first = None
    t0 = time.time()
    while time.time() - t0 < 2.0:
        r = d.read()
        fr = rc.accepts(r) if r else None
        if fr and fr[0] == 1:
            first = fr[1][2]
            break
    d.stop()
    if left or first not in (None, 1):
        return "stop() left %d queued items; first sample after restart = %r (fresh sequence starts at 1)" % (
            left, first)
    return None


def F19():
    """connect() to a device that is streaming and does not get the stop request: the frame drain of
    _drop_all_frames never saw four consecutive empty reads and connect() never returned.  Needs the
    REAL clock: with scaled time-outs shorter than the GIL switch interval the drain sees empty reads."""
    import time
    from nxslib.comm import CommHandler
    from nxslib.proto.parse import Parser
    refdev.install_fast_clock(1.0)
    try:
        class StreamingDev(refdev.RefDevice):
            def _read(self):
                with self.rxlock:
                    if self.rx:
                        return self.rx.popleft()
                if self.streaming:
                    time.sleep(0.0005)
                    return self.codec.wire(rc.ID_STREAM, [0, 0, 7])
                time.sleep(self.idle_sleep)
                return b""

        chans = refdev.simple_chans(2, typ=2, vdim=1)
        chans[0]["en"] = True
        dev = StreamingDev(chans, policy=lambda i, k, p: "lostreq" if k == "start" else "ok", streaming=True)
        comm = CommHandler(dev, Parser())
        t0 = time.time()
        fin, res = refdev.run_with_watchdog(comm.connect, 12)
        el = time.time() - t0
        dev.streaming = False
        if fin and not isinstance(res, BaseException):
            refdev.run_with_watchdog(comm.disconnect, 5)
        if not fin:
            return ("connect() to a streaming device whose stop request was lost did not return within 12 s "
                    "(requests seen: %s)" % [k for k, p, a in dev.log])
        if isinstance(res, BaseException) and not isinstance(res, TimeoutError):
            return "connect() raised %s: %s after %.1f s" % (type(res).__name__, res, el)
        return None
    finally:
        refdev.install_fast_clock(0.01)


class _Counter:
    """Deterministic generator 1,2,3,... (mod 200) for custom channels."""

    def __init__(self):
        self.n = 0

    def reset(self):
        self.n = 0

    def get(self, _):
        from nxslib.dev import DDeviceChannelFuncData
        self.n = self.n % 200 + 1
        return DDeviceChannelFuncData(data=(self.n,))


def F16():
    """Lost ACK then single-channel diff must still converge on an acknowledged write."""
    refdev.install_fast_clock(0.002)
    acts = {}
    dev = refdev.RefDevice(refdev.simple_chans(2), flags=2,
                           policy=lambda i, k, p: acts.get(i, "ok"))
    comm = CommHandler(dev, Parser())
    fin, res = refdev.run_with_watchdog(comm.connect, 10)
    if not fin or isinstance(res, BaseException):
        comm._thrd.stop_set()
        return "connect failed: %r" % (res,)
    try:
        comm.ch_enable(0)
        acts[dev.nreq] = "lostack"
        comm.channels_write()
        comm.ch_disable(0)
        comm.ch_enable(1)
        comm.channels_write()
        client = [comm.ch_is_enabled(0), comm.ch_is_enabled(1)]
        if dev.en() != [False, True] or client != [False, True]:
            return "after lost ACK then acknowledged write: device %r client %r requested [False, True]" % (
                dev.en(), client)
        return None
    finally:
        refdev.run_with_watchdog(comm.disconnect, 10)
        comm._thrd.stop_set()


def F18():
    """A user-defined CHAR type made of several items decodes on the client but cannot be encoded by the device side."""
    from nxslib.proto.iparse import DsfmtItem, EParseDataType
    ut = {20: DsfmtItem(1, "ccc", None, EParseDataType.CHAR, None, True)}
    pr = ParseRecv(ParseRecvCb(*([lambda d: None] * 5)), SerialFrame, ut)
    try:
        r = pr.frame_stream_encode([DParseStreamData(0, 20, 3, 0, (b"a", b"b", b"c"), ())])
    except Exception as e:  # noqa: BLE001
        return ("user CHAR type 'ccc': frame_stream_encode of the sample (b'a', b'b', b'c') that "
                "frame_stream_decode returns raises %s" % type(e).__name__)
    if rc.accepts(r) != (1, bytes([0, 0]) + b"abc"):
        return "user CHAR type 'ccc' encodes to %s" % r.hex()
    return None


ALL = {
    "F1": ("C02", F1), "F2": ("C03", F2), "F3": ("C10", F3), "F4": ("C10", F4),
    "F5": ("C10", F5), "F6": ("C04", F6), "F7": ("C04", F7), "F8": ("C05", F8),
    "F9": ("C05", F9), "F10": ("C06", F10), "F11": ("C06", F11),
    "F12": ("C08", F12), "F13": ("C15", F13), "F14": ("C15", F14),
    "F15": ("C16", F15), "F16": ("C11", F16), "F17": ("C16", F17), "F18": ("C15", F18),
    "F19": ("C10", F19),
}

if __name__ == "__main__":
    import sys
    names = sys.argv[1:] or list(ALL)
    for n in names:
        try:
            r = ALL[n][1]()
        except Exception as e:  # noqa: BLE001
            r = "witness raised %s: %s" % (type(e).__name__, e)
        print(n, ALL[n][0], "OK" if r is None else "FAILS: " + r, flush=True)

"""Scripted links used by the harness (no threads, no clock)."""
import os
import sys

sys.path.insert(0, os.environ.get("NXSLIB_SRC", "/repo/src"))

from nxslib.intf.iintf import ICommInterface  # noqa: E402


class ScriptedIntf(ICommInterface):
    """A link that hands out a fixed list of read chunks, then silence.

    Every read() after the script is exhausted returns b"" at once (like a
    serial port with nothing waiting).  Writes are recorded.  A read budget
    turns a receive loop that never returns into an exception the caller can
    observe, instead of a hang.
    """

    class Spin(Exception):
        pass

    def __init__(self, chunks, read_budget=None):
        super().__init__()
        self.chunks = list(chunks)
        self.writes = []
        self.reads = 0
        self.read_budget = read_budget
        self.started = 0
        self.stopped = 0

    def start(self):
        self.started += 1

    def stop(self):
        self.stopped += 1

    def drop_all(self):
        pass

    def _read(self):
        self.reads += 1
        if self.read_budget is not None and self.reads > self.read_budget:
            raise ScriptedIntf.Spin()
        if self.chunks:
            return self.chunks.pop(0)
        return b""

    def _write(self, data):
        self.writes.append(bytes(data))

"""A parameterised family of frame codecs honouring nxslib's ICommFrame interface (harness code, not repo code).

member = (sof, hdr_len 3..8, pos of length field, 1- or 2-byte length, endianness, pos of id, footer kind, footer bytes)
Footer kinds: xor (1 byte), sum (1..4 bytes little-endian), crc32 (4 bytes, zlib).  flen = total frame length.
The same object provides the independent reference (wire / accepts / scan) used by the oracle and the reference device."""
import zlib

from . import link  # noqa: F401
from nxslib.proto.iframe import DParseFrame, DParseHdr, EParseError, EParseId, ICommFrame

KNOWN = set(range(0, 9))


class Member:
    def __init__(self, sof, hdr_len, len_pos, len_bytes, len_be, id_pos, foot_kind, foot_len):
        self.sof, self.hdr_len, self.len_pos, self.len_bytes = sof, hdr_len, len_pos, len_bytes
        self.len_be, self.id_pos, self.foot_kind, self.foot_len = len_be, id_pos, foot_kind, foot_len
        assert 0 < len_pos and len_pos + len_bytes <= hdr_len and 0 < id_pos < hdr_len
        assert not (len_pos <= id_pos < len_pos + len_bytes)

    def key(self):
        return (self.sof, self.hdr_len, self.len_pos, self.len_bytes, self.len_be, self.id_pos, self.foot_kind, self.foot_len)

    def arg(self):
        return "%d:%d:%d:%d:%d:%d:%s:%d" % (self.sof, self.hdr_len, self.len_pos, self.len_bytes, int(self.len_be),
                                             self.id_pos, self.foot_kind, self.foot_len)

    # ---- reference functions
    def foot(self, body):
        if self.foot_kind == "xor":
            x = 0
            for b in body:
                x ^= b
            return bytes([x] * self.foot_len)[:self.foot_len] if self.foot_len == 1 else bytes([x]) + bytes(self.foot_len - 1)
        if self.foot_kind == "sum":
            return (sum(body) % (1 << (8 * self.foot_len))).to_bytes(self.foot_len, "little")
        return (zlib.crc32(bytes(body)) & 0xFFFFFFFF).to_bytes(4, "little")[:self.foot_len]

    def max_len(self):
        return (1 << (8 * self.len_bytes)) - 1

    def wire(self, fid, payload):
        n = self.hdr_len + len(payload) + self.foot_len
        if n > self.max_len():
            raise OverflowError
        h = bytearray(self.hdr_len)
        h[0] = self.sof
        h[self.len_pos:self.len_pos + self.len_bytes] = n.to_bytes(self.len_bytes, "big" if self.len_be else "little")
        h[self.id_pos] = fid
        body = bytes(h) + bytes(payload)
        return body + self.foot(body)

    def hdr(self, d):
        if len(d) < self.hdr_len or d[0] != self.sof:
            return None
        flen = int.from_bytes(bytes(d[self.len_pos:self.len_pos + self.len_bytes]), "big" if self.len_be else "little")
        fid = d[self.id_pos]
        if fid not in KNOWN:
            return None
        return fid, flen

    def accepts(self, d):
        h = self.hdr(d)
        if h is None:
            return None
        fid, flen = h
        if flen < self.hdr_len + self.foot_len or flen > len(d):
            return None
        body = bytes(d[:flen - self.foot_len])
        if self.foot(body) != bytes(d[flen - self.foot_len:flen]):
            return None
        return fid, bytes(d[self.hdr_len:flen - self.foot_len])

    def scan(self, stream):
        s = bytes(stream)
        out, i, n = [], 0, len(s)
        while True:
            while i < n and s[i] != self.sof:
                i += 1
            if i >= n:
                return out, b""
            if n - i < self.hdr_len:
                return out, s[i:]
            h = self.hdr(s[i:])
            if h is None:
                i += 1
                continue
            fid, flen = h
            if flen > n - i:
                return out, s[i:]
            a = self.accepts(s[i:i + flen])
            if a is not None:
                out.append(a)
                i += max(1, flen)
                continue
            i += 1

    # ---- nxslib codec class
    def codec_class(member):
        class FamCodec(ICommFrame):
            M = member

            @property
            def hdr_len(self):
                return member.hdr_len

            @property
            def foot_len(self):
                return member.foot_len

            def hdr_find(self, data):
                return data.find(bytes([member.sof]))

            def hdr_decode(self, data):
                if data is None or len(data) < member.hdr_len:
                    return DParseHdr(err=EParseError.HDR)
                h = member.hdr(bytes(data[:member.hdr_len]))
                if h is None:
                    return DParseHdr(err=EParseError.HDR)
                return DParseHdr(fid=EParseId(h[0]), flen=h[1])

            def foot_validate(self, data):
                # footer is positional: last foot_len bytes check everything before them
                if len(data) < member.foot_len:
                    return False
                return member.foot(bytes(data[:-member.foot_len])) == bytes(data[-member.foot_len:])

            def frame_decode(self, data):
                # treats its argument as exactly one frame (the interface allows that)
                hdr = self.hdr_decode(data)
                if hdr.err is not EParseError.NOERR:
                    return DParseFrame(err=hdr.err)
                if hdr.flen != len(data) or hdr.flen < member.hdr_len + member.foot_len:
                    return DParseFrame(err=EParseError.FOOT)
                if not self.foot_validate(data):
                    return DParseFrame(err=EParseError.FOOT)
                return DParseFrame(fid=hdr.fid, data=bytes(data[member.hdr_len:hdr.flen - member.foot_len]))

            def frame_create(self, fid, data):
                return member.wire(int(fid), data or b"")
        return FamCodec


def members(rng, count):
    out, seen = [], set()
    while len(out) < count:
        hdr_len = rng.randrange(3, 9)
        len_bytes = rng.choice([1, 2, 2]) if hdr_len >= 4 else 1
        pos = list(range(1, hdr_len))
        len_pos = rng.choice([p for p in pos if p + len_bytes <= hdr_len])
        ids = [p for p in pos if not (len_pos <= p < len_pos + len_bytes)]
        if not ids:
            continue
        kind = rng.choice(["xor", "sum", "crc32"])
        foot_len = 1 if kind == "xor" else (rng.randrange(1, 5) if kind == "sum" else 4)
        m = Member(rng.choice([0x55, 0xAA, 0x7E, 0x01, 0xFF]), hdr_len, len_pos, len_bytes, rng.random() < 0.5,
                   rng.choice(ids), kind, foot_len)
        if m.key() not in seen:
            seen.add(m.key())
            out.append(m)
    return out

"""Reference NxScope device for the harness + time scaling of nxslib's waits.

The reference device is an ICommInterface whose write() is synchronous: the
request is decoded with the independent codec (refcodec), applied, logged, and
the response bytes are queued for read().  A per-request *policy* injects
faults (silence, negative ACK, lost ACK, lost request, garbage, wrong frame).
"""
import collections
import queue as _queue
import threading
import time
import types

from . import link  # noqa: F401  (sets sys.path)
from . import refcodec as rc

from nxslib.intf.iintf import ICommInterface

# ---------------------------------------------------------------------------
# time scaling: every queue time-out inside nxslib is multiplied by SCALE


class _FastQueue(_queue.Queue):
    scale = 0.01

    def get(self, block=True, timeout=None):
        if timeout is not None:
            timeout = timeout * _FastQueue.scale
        return super().get(block, timeout)


class _FastEvent(threading.Event):
    def wait(self, timeout=None):
        if timeout is not None:
            timeout = timeout * _FastQueue.scale
        return super().wait(timeout)


def _fast_sleep(t):
    time.sleep(t * _FastQueue.scale)


def install_fast_clock(scale=0.01):
    """Rebind the names nxslib modules imported so that waits are scaled."""
    import nxslib.comm
    import nxslib.nxscope
    import nxslib.intf.dummy as dummy

    _FastQueue.scale = scale
    shim = types.SimpleNamespace(Queue=_FastQueue, Empty=_queue.Empty)
    nxslib.comm.queue = shim
    nxslib.nxscope.queue = shim
    dummy.queue = shim
    dummy.Event = _FastEvent
    dummy.time = types.SimpleNamespace(sleep=_fast_sleep)


# ---------------------------------------------------------------------------


class RefDevice(ICommInterface):
    """Harness-owned reference device.

    chans: list of dicts with keys en, typ, vdim, div, mlen, name (bytes).
    policy(index, kind, payload) -> one of
        "ok" | "silent" | ("nack", r) | "lostack" | "lostreq" |
        ("raw", bytes) | ("wrongframe",)
    kind in {"start","cmninfo","chinfo","enable","div"}.
    """

    def __init__(self, chans, flags=3, rxpadding=0, policy=None,
                 streaming=False, idle_sleep=0.0002, ack_delay=0.0, codec=None, block_rx=False):
        super().__init__()
        self.chans = [dict(c) for c in chans]
        self.flags = flags
        self.rxpadding = rxpadding
        self.policy = policy or (lambda i, k, p: "ok")
        self.streaming = streaming
        self.log = []          # (kind, payload bytes, action)
        self.rx = collections.deque()
        self.rxlock = threading.Lock()
        self.nreq = 0
        self.started = 0
        self.stopped = 0
        self.raw_writes = []
        self.idle_sleep = idle_sleep
        self.codec = codec or rc          # anything with wire(fid, payload) and scan(bytes)
        self.ack_delay = ack_delay
        self.applied = 0          # number of enable/div/start requests applied so far
        self.state_lock = threading.Lock()
        # block_rx: a device that receives in blocks of rxpadding bytes - once it has announced its padding, a
        # write whose length is not a multiple of it never completes a block and is lost
        self.block_rx = block_rx
        self.announced = False
        self.misaligned = []

    # -- ICommInterface
    def start(self):
        self.started += 1

    def stop(self):
        self.stopped += 1

    def drop_all(self):
        pass

    def _read(self):
        with self.rxlock:
            if self.rx:
                return self.rx.popleft()
        time.sleep(self.idle_sleep)
        return b""

    def _ack(self, ret):
        return self.codec.wire(rc.ID_ACK, list((ret & 0xFFFFFFFF).to_bytes(4, "little")))

    def push(self, data):
        with self.rxlock:
            self.rx.append(bytes(data))

    @property
    def ack_supported(self):
        return bool(self.flags & 2)

    def en(self):
        return [bool(c["en"]) for c in self.chans]

    def div(self):
        return [c["div"] for c in self.chans]

    def _write(self, data):
        self.raw_writes.append(bytes(data))
        if self.block_rx and self.announced and self.rxpadding > 0 and len(data) % self.rxpadding:
            self.misaligned.append(bytes(data))
            return
        frames, _ = self.codec.scan(data)
        for fid, payload in frames:
            self._request(fid, payload)

    def _request(self, fid, payload):
        kinds = {rc.ID_START: "start", rc.ID_CMNINFO: "cmninfo",
                 rc.ID_CHINFO: "chinfo", rc.ID_ENABLE: "enable",
                 rc.ID_DIV: "div"}
        kind = kinds.get(fid)
        if kind is None:
            self.log.append(("other", payload, "ignored"))
            return
        idx = self.nreq
        self.nreq += 1
        act = self.policy(idx, kind, payload)
        self.log.append((kind, payload, act))
        if act == "silent" or act == "lostreq":
            return
        if isinstance(act, tuple) and act[0] == "raw":
            self.push(act[1])
            return
        if isinstance(act, tuple) and act[0] == "wrongframe":
            self.push(self.codec.wire(rc.ID_ACK, [0, 0, 0, 0]) if kind in (
                "cmninfo", "chinfo") else self.codec.wire(rc.ID_CMNINFO, [1, 0, 0]))
            return
        if isinstance(act, tuple) and act[0] == "nack":
            if self.ack_supported:
                self.push(self._ack(act[1]))
            return
        # "ok" or "lostack": apply
        if kind == "cmninfo":
            self.push(self.codec.wire(rc.ID_CMNINFO, [len(self.chans), self.flags, self.rxpadding]))
            self.announced = True
            return
        if kind == "chinfo":
            c = self.chans[payload[0]]
            self.push(self.codec.wire(rc.ID_CHINFO, [1 if c["en"] else 0, c["typ"], c["vdim"], c["div"], c["mlen"]]
                                      + list(c["name"])))
            return
        with self.state_lock:
            if kind == "start":
                self.streaming = bool(payload[0])
            elif kind == "enable":
                new = rc.apply_set(payload, [1 if c["en"] else 0
                                             for c in self.chans])
                for c, v in zip(self.chans, new):
                    c["en"] = bool(v)
            elif kind == "div":
                new = rc.apply_set(payload, [c["div"] for c in self.chans])
                for c, v in zip(self.chans, new):
                    c["div"] = v
            self.applied += 1
        if self.ack_supported and act != "lostack":
            if self.ack_delay:
                threading.Timer(self.ack_delay, self.push, args=(self._ack(0),)).start()
            else:
                self.push(self._ack(0))


def simple_chans(n, typ=2, vdim=1):
    return [dict(en=False, typ=typ, vdim=vdim, div=0, mlen=0,
                 name=("ch%d" % i).encode()) for i in range(n)]


def run_with_watchdog(fn, seconds):
    """Run fn() in a daemon thread; return (finished, result_or_exc)."""
    box = {}

    def tgt():
        try:
            box["ret"] = fn()
        except BaseException as e:  # noqa: BLE001
            box["exc"] = e

    t = threading.Thread(target=tgt, daemon=True)
    t.start()
    t.join(seconds)
    if t.is_alive():
        return False, None
    if "exc" in box:
        return True, box["exc"]
    return True, box.get("ret")

"""PyLite correspondence: Python objects <-> s-expressions of the extracted
interpreter (coq/extract/pydriver), and the conversation with it.

The interpreter runs the abstract syntax REGENERATED from /repo's sources; the
real functions run in CPython; both get the same arguments and the results
are compared after canonicalisation to the s-expression text.
"""
import dataclasses
import enum
import os
import struct
import subprocess

HERE = os.path.dirname(os.path.abspath(__file__))
DRIVER = os.path.normpath(os.path.join(HERE, "..", "..", "coq", "extract", "pydriver"))


class NotRepresentable(Exception):
    pass


def sx(v):
    """Python value -> s-expression text."""
    if v is None:
        return "N"
    if v is True:
        return "T"
    if v is False:
        return "F"
    if isinstance(v, enum.Enum):
        return "(e %s %s %d %d)" % (type(v).__name__, v.name, int(v.value), 1 if isinstance(v, int) else 0)
    if isinstance(v, int):
        return "i%d" % v
    if isinstance(v, float):
        if v != v or v in (float("inf"), float("-inf")):
            return "(f %d)" % struct.unpack("<Q", struct.pack("<d", v))[0]
        num, den = v.as_integer_ratio()
        e = den.bit_length() - 1
        while num != 0 and num % 2 == 0:
            num //= 2
            e -= 1
        return "(d %d %d)" % (num, 0 if num == 0 else e)
    if isinstance(v, str):
        try:
            return "s" + v.encode("utf-8").hex()
        except UnicodeEncodeError:
            raise NotRepresentable("text with surrogates")
    if isinstance(v, (bytes, bytearray)):
        return "b" + bytes(v).hex()
    if isinstance(v, tuple):
        return "(" + " ".join(["t"] + [sx(x) for x in v]) + ")"
    if isinstance(v, list):
        return "(" + " ".join(["l"] + [sx(x) for x in v]) + ")"
    if isinstance(v, dict):
        return "(" + " ".join(["D"] + ["(%s %s)" % (sx(k), sx(x)) for k, x in v.items()]) + ")"
    if isinstance(v, RawSx):
        return v.text
    if hasattr(v, "__dict__") and not isinstance(v, type):
        return "(" + " ".join(["o", type(v).__name__] + [
            "(%s %s)" % (k, sx(x)) for k, x in vars(v).items()]) + ")"
    raise NotRepresentable(type(v).__name__)


class RawSx:
    """An s-expression used as is (e.g. an object built by the interpreter)."""

    def __init__(self, text):
        self.text = text


def exc_name(e):
    n = type(e).__name__
    if isinstance(e, struct.error):
        return "struct.error"
    return n


def impl_result(fn, *args):
    """Run the real code; canonical text 'ok <value>' | 'exc <class>'."""
    try:
        r = fn(*args)
    except Exception as e:  # noqa: BLE001
        return "exc " + exc_name(e)
    try:
        return "ok " + sx(r)
    except NotRepresentable as e:
        return "unrepresentable " + str(e)


class PyDriver:
    def __init__(self, path=DRIVER):
        self.path = path

    def ask(self, lines, timeout=900):
        if not lines:
            return []
        p = subprocess.run(["bash", "-c", "ulimit -s unlimited 2>/dev/null; exec " + self.path],
                           input="\n".join(lines) + "\n", capture_output=True, text=True, timeout=timeout)
        out = p.stdout.split("\n")
        if out and out[-1] == "":
            out.pop()
        if len(out) != len(lines):
            raise RuntimeError("pydriver answered %d lines for %d commands (rc=%s, %s)" % (
                len(out), len(lines), p.returncode, p.stderr[-300:]))
        return out

    def new(self, cls, args=(), fuel=12):
        r = self.ask(["new %d %s (%s)" % (fuel, cls, " ".join(sx(a) for a in args))])[0]
        if not r.startswith("ok "):
            raise RuntimeError("interpreter could not construct %s: %s" % (cls, r))
        return RawSx(r[3:])


def call_cmd(self_sx, method, args, fuel=12):
    return "call %d %s %s (%s)" % (fuel, self_sx.text if isinstance(self_sx, RawSx) else sx(self_sx),
                                  method, " ".join(sx(a) for a in args))


def fn_cmd(name, args, fuel=12):
    return "fn %d %s (%s)" % (fuel, name, " ".join(sx(a) for a in args))


def split_call_result(line):
    """'ok <result> <self>' -> 'ok <result>' (drops the receiver afterwards)."""
    if not line.startswith("ok "):
        return line
    body = line[3:]
    # the result is one s-expression: an atom or a balanced parenthesis
    if body.startswith("("):
        depth = 0
        for i, c in enumerate(body):
            if c == "(":
                depth += 1
            elif c == ")":
                depth -= 1
                if depth == 0:
                    return "ok " + body[:i + 1]
        return line
    return "ok " + body.split(" ", 1)[0]

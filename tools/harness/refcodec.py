"""Independent reference NxScope codec (written for the harness, shares no code
with nxslib).  Everything is plain integer arithmetic on lists of ints."""


def crc16_xmodem(data):
    """Bit-serial CRC-16/XMODEM: remainder of M(x)*x^16 by x^16+x^12+x^5+1."""
    s = 0
    for byte in data:
        for k in range(7, -1, -1):
            b = (byte >> k) & 1
            top = ((s >> 15) & 1) ^ b
            s = (s << 1) & 0xFFFF
            if top:
                s ^= 0x1021
    return s


def wire(fid, payload):
    """The NxScope serial encoding of (fid, payload)."""
    n = len(payload) + 6
    if n > 0xFFFF:
        raise OverflowError("payload does not fit the 16-bit length field")
    body = [0x55, n & 0xFF, n >> 8, fid] + list(payload)
    c = crc16_xmodem(body)
    return bytes(body + [c >> 8, c & 0xFF])


KNOWN_IDS = set(range(0, 9))


def accepts(d):
    """Specification of acceptance (C02): returns (fid, payload) or None."""
    d = list(d)
    if len(d) < 4 or d[0] != 0x55:
        return None
    flen = d[1] | (d[2] << 8)
    fid = d[3]
    if fid not in KNOWN_IDS:
        return None
    if flen < 6 or flen > len(d):
        return None
    if crc16_xmodem(d[:flen]) != 0:
        return None
    return fid, bytes(d[4:flen - 2])


def scan(stream):
    """Specification of reassembly (C03): one left-to-right pass.

    Returns (frames, rest): frames is a list of (fid, payload), rest the bytes
    still pending (from the SOF of an incomplete candidate, or fewer than a
    header after a SOF)."""
    s = list(stream)
    out = []
    i = 0
    n = len(s)
    while True:
        # skip to next SOF
        while i < n and s[i] != 0x55:
            i += 1
        if i >= n:
            return out, b""
        if n - i < 4:
            return out, bytes(s[i:])
        flen = s[i + 1] | (s[i + 2] << 8)
        fid = s[i + 3]
        if fid not in KNOWN_IDS:
            i += 1
            continue
        if flen > n - i:
            return out, bytes(s[i:])
        if flen >= 6 and crc16_xmodem(s[i:i + flen]) == 0:
            out.append((fid, bytes(s[i + 4:i + flen - 2])))
            i += flen
            continue
        i += 1


# --- requests (client -> device) -------------------------------------------

ID_STREAM, ID_CMNINFO, ID_CHINFO, ID_ACK, ID_START, ID_ENABLE, ID_DIV = (
    1, 2, 3, 4, 5, 6, 7)
SET_SINGLE, SET_BULK, SET_ALL = 0, 1, 2


def req_start(on):
    return wire(ID_START, [1 if on else 0])


def req_cmninfo():
    return wire(ID_CMNINFO, [])


def req_chinfo(ch):
    return wire(ID_CHINFO, [ch])


def ack(ret):
    return wire(ID_ACK, list((ret & 0xFFFFFFFF).to_bytes(4, "little")))


def cmninfo(chmax, flags, rxpadding):
    return wire(ID_CMNINFO, [chmax, flags, rxpadding])


def chinfo(en, typ, vdim, div, mlen, name_bytes):
    return wire(ID_CHINFO, [1 if en else 0, typ, vdim, div, mlen]
                + list(name_bytes))


def apply_set(payload, cur):
    """Spec of a set request: payload (flags, chan, values...) on vector cur."""
    flags, chan = payload[0], payload[1]
    vals = list(payload[2:])
    n = len(cur)
    if flags == SET_BULK:
        assert len(vals) >= n
        return vals[:n]
    if flags == SET_SINGLE:
        new = list(cur)
        new[chan] = vals[0]
        return new
    if flags == SET_ALL:
        return [vals[0]] * n
    raise ValueError(flags)

"""Harness-side Python classes that are ALSO translated to PyLite, so that the
interpreter and CPython run the same callbacks / link stubs."""


class RecCb:
    """Recording stand-in for nxslib.proto.iparserecv.ParseRecvCb."""

    def __init__(self):
        self.log = []

    def cmninfo(self, data):
        self.log.append(("cmninfo", data))

    def chinfo(self, data):
        self.log.append(("chinfo", data))

    def enable(self, data):
        self.log.append(("enable", data))

    def div(self, data):
        self.log.append(("div", data))

    def start(self, data):
        self.log.append(("start", data))


def set_attr(obj, name, value):
    """setattr as a function returning the object, so that both sides can be compared."""
    setattr(obj, name, value)
    return obj


def get_attrs(obj, names):
    """the listed attributes, as a list"""
    out = []
    for n in names:
        out.append(getattr(obj, n))
    return out


def pad_align(intf, pad, data):
    """set the write padding through the property, align, read the property back"""
    intf.write_padding = pad
    return [intf.data_align(data), intf.write_padding]


class ScriptedIntf:
    """A link whose read() returns the scripted chunks one by one, then b"" for ever."""

    def __init__(self, chunks):
        self.chunks = chunks

    def read(self):
        if not self.chunks:
            return b""
        c = self.chunks[0]
        self.chunks = self.chunks[1:]
        return c


def read_frames(comm, calls):
    """call comm._read_frame() `calls` times; the results and what is left buffered / unread"""
    out = []
    for _ in range(calls):
        out.append(comm._read_frame())
    return [out, comm._prev_read, comm._intf.chunks]

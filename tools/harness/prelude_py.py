"""Harness-side Python classes that are ALSO translated to PyLite, so that the
interpreter and CPython run the same callbacks / link stubs."""

import copy
import queue
import struct

from nxslib.proto.iframe import DParseFrame, DParseHdr, EParseError, EParseId

class RecCb:
    """Recording stand-in for nxslib.proto.iparserecv.ParseRecvCb."""

    def __init__(self):
        self.log = []

    def cmninfo(self, data):
        self.log.append(("cmninfo", data))

    def chinfo(self, data):
        self.log.append(("chinfo", data))

    def enable(self, data):
        self.log.append(("enable", data))

    def div(self, data):
        self.log.append(("div", data))

    def start(self, data):
        self.log.append(("start", data))


def set_attr(obj, name, value):
    """setattr as a function returning the object, so that both sides can be compared."""
    setattr(obj, name, value)
    return obj


def get_attrs(obj, names):
    """the listed attributes, as a list"""
    out = []
    for n in names:
        out.append(getattr(obj, n))
    return out


def pad_align(intf, pad, data):
    """set the write padding through the property, align, read the property back"""
    intf.write_padding = pad
    return [intf.data_align(data), intf.write_padding]


class ScriptedIntf:
    """A link whose read() returns the scripted chunks one by one, then b"" for ever."""

    def __init__(self, chunks):
        self.chunks = chunks

    def read(self):
        if not self.chunks:
            return b""
        c = self.chunks[0]
        self.chunks = self.chunks[1:]
        return c


def read_frames(comm, calls):
    """call comm._read_frame() `calls` times; the results and what is left buffered / unread"""
    out = []
    for _ in range(calls):
        out.append(comm._read_frame())
    return [out, comm._prev_read, comm._intf.chunks]


class ScriptQueue:
    """Stand-in for queue.Queue: get() hands out the scripted items; None is a scripted time-out."""

    def __init__(self, items):
        self.items = items

    def get(self, block=True, timeout=None):
        if not self.items:
            raise queue.Empty
        x = self.items[0]
        self.items = self.items[1:]
        if x is None:
            raise queue.Empty      # a scripted time-out: consumed, then raised
        return x

    def put(self, x):
        self.items = self.items + [x]


class LogIntf:
    """A link that records what is written."""

    def __init__(self):
        self.written = []
        self.write_padding = 0
        self.dropped = 0
        self.events = []

    def write(self, data):
        self.written.append(data)

    def drop_all(self):
        self.dropped += 1

    def start(self):
        self.events.append("intf.start")

    def stop(self):
        self.events.append("intf.stop")


def comm_view(comm):
    """what the configuration properties talk about"""
    return copy.deepcopy([comm._channels, comm.dev.channels_en, comm.dev.channels_div, comm._intf.written,
                          comm._q.items])


def comm_run(comm, ops):
    """a history of configuration calls on a CommHandler whose queue and link are the stubs above"""
    views = []
    for op in ops:
        name = op[0]
        if name == "enable":
            comm.ch_enable(op[1])
        elif name == "disable":
            comm.ch_disable(op[1])
        elif name == "divider":
            comm.ch_divider(op[1], op[2])
        elif name == "write":
            comm.channels_write()
        elif name == "default":
            comm.channels_default_cfg()
        elif name == "enable_all":
            comm.ch_enable_all()
        elif name == "disable_all":
            comm.ch_disable_all()
        elif name == "start":
            views.append(comm.stream_start())
        elif name == "stop":
            views.append(comm.stream_stop())
        elif name == "is_enabled":
            views.append(comm.ch_is_enabled(op[1]))
        elif name == "div_get":
            views.append(comm.ch_div_get(op[1]))
        views.append(comm_view(comm))
    return views


def devinfo_run(comm):
    """the description phase of the handshake on a handler whose queues and link are the stubs above"""
    dev = comm._devinfo_get()
    return [dev, comm._intf.written, comm._intf.write_padding, comm._intf.dropped, comm._q.items, comm._q_stream.items]


class FakeThread:
    """Stand-in for nxslib.thread.ThreadCommon: records whether the worker is running."""

    def __init__(self):
        self.running = False
        self.starts = 0
        self.stops = 0

    def thread_start(self):
        if not self.running:
            self.running = True
            self.starts += 1

    def thread_stop(self):
        if self.running:
            self.running = False
            self.stops += 1


def nx_view(nx):
    """what the life-cycle properties talk about"""
    c = nx._comm
    return copy.deepcopy([nx._connected, nx._stream_started, nx._thrd.running, c._started, c._thrd.running,
                          c._dev is None, c._intf.events, c._intf.written, c._q.items])


def nx_run(nx, ops):
    """a history of life-cycle calls on an NxscopeHandler whose threads, queues and link are stubs;
    the exceptions the life cycle can raise are recorded and the history goes on, so that the state
    left behind by a failed call is compared too"""
    views = []
    for op in ops:
        name = op[0]
        try:
            if name == "connect":
                nx.connect()
            elif name == "disconnect":
                nx.disconnect()
            elif name == "stream_start":
                nx.stream_start()
            elif name == "stream_stop":
                nx.stream_stop()
            elif name == "enable":
                nx.ch_enable(op[1], op[2])
            elif name == "write":
                nx.channels_write()
            elif name == "default":
                nx.channels_default_cfg(op[1])
        except TimeoutError:
            views.append("TimeoutError")
        except AssertionError:
            views.append("AssertionError")
        except IndexError:
            views.append("IndexError")
        views.append(nx_view(nx))
    return views


class XorFrame:
    """A CUSTOM frame codec (not nxslib's) honouring the ICommFrame interface: start byte 0x7E,
    header = start, id, 16-bit little-endian total length; footer = XOR of all preceding bytes.
    frame_decode treats its argument as exactly one frame (the interface allows that)."""

    @property
    def hdr_len(self):
        return 4

    @property
    def foot_len(self):
        return 1

    def hdr_find(self, data):
        return data.find(bytes([0x7E]))

    def hdr_decode(self, data):
        if data is None or len(data) < 4:
            return DParseHdr(err=EParseError.HDR)
        sof, _id, flen = struct.unpack("<BBH", data[:4])
        if sof != 0x7E:
            return DParseHdr(err=EParseError.HDR)
        try:
            fid = EParseId(_id)
        except ValueError:
            return DParseHdr(err=EParseError.HDR)
        return DParseHdr(fid=fid, flen=flen)

    def foot_validate(self, data):
        x = 0
        for b in data:
            x ^= b
        return x == 0

    def frame_decode(self, data):
        hdr = self.hdr_decode(data)
        if hdr.err is not EParseError.NOERR:
            return DParseFrame(err=hdr.err)
        if hdr.flen != len(data) or hdr.flen < 5:
            return DParseFrame(err=EParseError.FOOT)
        if self.foot_validate(data) is False:
            return DParseFrame(err=EParseError.FOOT)
        return DParseFrame(fid=hdr.fid, data=data[4 : hdr.flen - 1])

    def frame_create(self, fid, data):
        n = 5
        if data is not None:
            n += len(data)
        body = struct.pack("<BBH", 0x7E, fid, n)
        if data is not None:
            body += data
        x = 0
        for b in body:
            x ^= b
        return body + bytes([x])


# ---- BEGIN pl15: stubs for nxslib/thread.py -----------------------------------------------------------
# tools/pylite.py maps `threading.Event` -> SimEvent and `threading.Thread` -> SimThread; under CPython the
# correspondence group `worker` rebinds `nxslib.thread.threading` to a namespace holding these classes.

from nxslib.thread import ThreadCommon  # noqa: E402  (pl15: worker_new below constructs the real class)


class SimEvent:
    """Stand-in for threading.Event.  As long as `script` (a list of booleans) is not empty, is_set()
    answers from it, one item per call (the scheduler's view: what the flag is by the time of that test,
    other threads having moved in between); once it is exhausted is_set() answers the flag itself."""

    def __init__(self):
        self.flag = False
        self.script = []

    def set(self):
        self.flag = True

    def clear(self):
        self.flag = False

    def is_set(self):
        if self.script:
            x = self.script[0]
            self.script = self.script[1:]
            return x
        return self.flag


class SimThread:
    """Stand-in for threading.Thread(target=..., name=...).  `state` is where the worker stands:
    "created" (not started), "init" / "test" / "target" / "final" (started and running: about to execute
    that line of ThreadCommon._thread_loop), "done" (returned).  start() puts a created thread at "init"
    and raises RuntimeError otherwise (CPython: "threads can only be started once"); join() before
    start() raises RuntimeError (CPython does); join() on a finished thread returns; join() on a running
    thread cannot return in a sequential run (nobody moves the worker): it is counted and raises
    BlockingIOError ("would block"), leaving the caller's state as it is at that line."""

    def __init__(self, target=None, name=None):
        self.target = target
        self.name = name
        self.state = "created"
        self.joins = 0

    def start(self):
        if self.state != "created":
            raise RuntimeError
        self.state = "init"

    def is_alive(self):
        return self.state != "created" and self.state != "done"

    def join(self):
        if self.state == "created":
            raise RuntimeError
        self.joins += 1
        if self.state != "done":
            raise BlockingIOError


class SimCb:
    """A recording callable for init / target / final: counts its calls and raises RuntimeError at the
    call number `fail_at` (0: never)."""

    def __init__(self, fail_at=0):
        self.calls = 0
        self.fail_at = fail_at

    def __call__(self):
        self.calls += 1
        if self.calls == self.fail_at:
            raise RuntimeError


def worker_view(w):
    """what the worker property talks about: the flag, the handle, the recorded calls"""
    t = w._thrd
    tv = None
    if t is not None:
        tv = [t.state, t.name, t.joins, t.target]
    cbs = []
    for cb in [w._init, w._target, w._final]:
        if cb is None:
            cbs.append(None)
        else:
            cbs.append(cb.calls)
    return [w._stop_flag.flag, w._stop_flag.script, tv, cbs]


def worker_run(w, ops):
    """a history of calls on a ThreadCommon whose event, thread and callbacks are the stubs above; the
    harness moves the worker (`park`), installs a script for the flag, or breaks a callback; exceptions
    are recorded and the history goes on, so that the state left behind by a failed call is compared too"""
    views = []
    for op in ops:
        name = op[0]
        try:
            if name == "start":
                views.append(w.thread_start())
            elif name == "stop":
                views.append(w.thread_stop())
            elif name == "alive":
                views.append(w.thread_is_alive())
            elif name == "stop_set":
                views.append(w.stop_set())
            elif name == "is_set":
                views.append(w._stop_is_set())
            elif name == "clear":
                views.append(w._stop_clear())
            elif name == "loop":
                views.append(w._thread_loop())
            elif name == "park":
                if w._thrd is not None:
                    w._thrd.state = op[1]
            elif name == "script":
                w._stop_flag.script = op[1]
            elif name == "fail":
                if op[1] == 0 and w._init is not None:
                    w._init.fail_at = w._init.calls + op[2]
                elif op[1] == 1:
                    w._target.fail_at = w._target.calls + op[2]
                elif op[1] == 2 and w._final is not None:
                    w._final.fail_at = w._final.calls + op[2]
        except RuntimeError:
            views.append("RuntimeError")
        except BlockingIOError:
            views.append("BlockingIOError")
        except AssertionError:
            views.append("AssertionError")
        views.append(worker_view(w))
    return views


def worker_new(target, init, final, name):
    """the constructor (with its assertions), then the view"""
    w = ThreadCommon(target, init, final, name)
    return [w._stop_flag, w._thrd, w._name, w._init, w._target, w._final]
# ---- END pl15 -------------------------------------------------------------------------------------------
# ---------------------------------------------------------------- pl14: receive thread / stream path (begin)
def recv_run(comm, calls):
    """call comm._recv_thread() `calls` times (the body of the receive thread: one reassembly step and the
    routing of its frame); what is on the two queues afterwards, what is left buffered / unread"""
    for _ in range(calls):
        comm._recv_thread()
    return [comm._q.items, comm._q_stream.items, comm._prev_read, comm._intf.chunks]


def stream_data_run(comm, calls):
    """call comm.stream_data() `calls` times over a scripted stream queue; the results (an assertion
    failure is recorded and the history goes on) and what is left on the queue"""
    out = []
    for _ in range(calls):
        try:
            out.append(comm.stream_data())
        except AssertionError:
            out.append("AssertionError")
        except struct.error:
            out.append("struct.error")
    return [out, comm._q_stream.items]


class SubQueue:
    """Stand-in for the queue.Queue a subscriber holds.  The interpreter's values have no identity: `serial`
    (given by the harness) names the queue; put() appends to the queue's own list."""

    def __init__(self, serial):
        self.serial = serial
        self.items = []

    def put(self, x):
        self.items = self.items + [x]


def sub_view(nx):
    """every subscriber queue, by channel, as [serial, items]; the overflow counter; what is left on the
    stream-frame queue"""
    rows = []
    for sub in nx._sub_q:
        row = []
        for q in sub:
            row.append([q.serial, q.items])
        rows.append(row)
    return copy.deepcopy([rows, nx._ovf_cntr, nx._comm._q_stream.items])


def stream_thread_run(nx, calls):
    """call nx._stream_thread() `calls` times (the body of the stream thread: next stream frame -> decoded
    samples -> subscriber queues); the exceptions it can raise are recorded and the history goes on"""
    views = []
    for _ in range(calls):
        try:
            nx._stream_thread()
        except AssertionError:
            views.append("AssertionError")
        except struct.error:
            views.append("struct.error")
        except IndexError:
            views.append("IndexError")
        views.append(sub_view(nx))
    return views
# ---------------------------------------------------------------- pl14 (end)

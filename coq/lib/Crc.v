(** CRC-16: the bit-serial specification (CRC-16/XMODEM as polynomial
    remainder) and the generic width-16 algorithm parameterised the way
    crcmod parameterises it (poly, init, reverse, xor-out).  Definitions only. *)
From NX Require Export Bytes.
Open Scope N_scope.

(** * Specification: remainder of M(x)*x^16 by x^16+x^12+x^5+1, MSB first. *)
Definition xpoly : N := 4129.           (* 0x1021 *)
Definition mask16 : N := 65536.

(** one step with a zero message bit *)
Definition T0 (s : N) : N :=
  let s2 := (s * 2) mod mask16 in
  if N.testbit s 15 then N.lxor s2 xpoly else s2.

Definition crc_step (s : N) (b : bool) : N :=
  if b then N.lxor (T0 s) xpoly else T0 s.

Definition byte_bits (b : N) : list bool :=
  [N.testbit b 7; N.testbit b 6; N.testbit b 5; N.testbit b 4;
   N.testbit b 3; N.testbit b 2; N.testbit b 1; N.testbit b 0].

Definition bits_of (d : bytes) : list bool := flat_map byte_bits d.

Definition crc_bits (s : N) (l : list bool) : N := fold_left crc_step l s.

Definition crc_spec (d : bytes) : N := crc_bits 0 (bits_of d).

(** * Generic width-16 CRC as crcmod computes it. *)
Record crc_params := mkCrc
  { cp_poly : N;      (* low 16 bits of the generator *)
    cp_init : N;      (* crcmod's initCrc *)
    cp_rev : bool;    (* bit-reversed algorithm *)
    cp_xorout : N }.

Fixpoint reflect_aux (k : nat) (x acc : N) : N :=
  match k with
  | O => acc
  | S k' => reflect_aux k' (x / 2) (acc * 2 + x mod 2)
  end.
Definition reflect16 (x : N) : N := reflect_aux 16 x 0.

Definition gstep_fwd (poly s : N) (b : bool) : N :=
  let s2 := (s * 2) mod mask16 in
  if xorb (N.testbit s 15) b then N.lxor s2 poly else s2.

Definition gstep_rev (rpoly s : N) (b : bool) : N :=
  let s2 := s / 2 in
  if xorb (N.testbit s 0) b then N.lxor s2 rpoly else s2.

Definition crc_gen (p : crc_params) (d : bytes) : N :=
  let s0 := N.lxor (cp_init p) (cp_xorout p) in
  let s :=
    if cp_rev p
    then fold_left (gstep_rev (reflect16 (cp_poly p)))
                   (flat_map (fun b => rev (byte_bits b)) d) s0
    else fold_left (gstep_fwd (cp_poly p)) (bits_of d) s0 in
  N.lxor s (cp_xorout p).

Definition xmodem_params : crc_params := mkCrc 4129 0 false 0.

(** Semantics of CPython's [struct] module for the alphabet nxslib uses
    (and user-defined stream types may use):
      prefixes  < > ! = @ (none)      codes  x c b B ? h H i I l L q Q f d s
    with repeat counts.  Standard sizes, no alignment.  A format with no
    prefix (native mode) is given the little-endian standard-size meaning; the
    translator checks, for each native-mode format in the source, that it is
    a single item or made of 1-byte items only (so alignment cannot occur),
    and the harness asserts the host is little-endian with 4-byte int.
    Floats are carried as bit patterns ([VF32]/[VF64]) or, when finite, as the dyadic
    rational they denote ([VDy]); integers given to a float code are converted as
    CPython does (int -> double, then double -> single for 'f').  [pack] returns
    [None] where CPython raises [struct.error] - and also where it raises
    OverflowError for a finite float too large for 'f' (PyLite fails closed there:
    [struct_pack] answers [Unsupported] when a float argument could not be packed). *)
From Coq Require Import String Ascii.
From NX Require Export Bytes.
From NX Require Import Float Rn53.
Open Scope N_scope.

Inductive endian := LE | BE.
Inductive code :=
  Cx | Cc | Cb | CB | Cbool | Ch | CH | Ci | CI | Cl | CL | Cq | CQ | Cf | Cd | Cs.
Record item := mkItem { icnt : nat; icode : code }.
Record fmt := mkFmt { fend : endian; fnative : bool; fitems : list item }.

Definition code_of_ascii (a : ascii) : option code :=
  match a with
  | "x"%char => Some Cx | "c"%char => Some Cc | "b"%char => Some Cb
  | "B"%char => Some CB | "?"%char => Some Cbool
  | "h"%char => Some Ch | "H"%char => Some CH
  | "i"%char => Some Ci | "I"%char => Some CI
  | "l"%char => Some Cl | "L"%char => Some CL
  | "q"%char => Some Cq | "Q"%char => Some CQ
  | "f"%char => Some Cf | "d"%char => Some Cd | "s"%char => Some Cs
  | _ => None
  end.

Definition digit_of_ascii (a : ascii) : option nat :=
  match a with
  | "0"%char => Some 0%nat | "1"%char => Some 1%nat | "2"%char => Some 2%nat
  | "3"%char => Some 3%nat | "4"%char => Some 4%nat | "5"%char => Some 5%nat
  | "6"%char => Some 6%nat | "7"%char => Some 7%nat | "8"%char => Some 8%nat
  | "9"%char => Some 9%nat
  | _ => None
  end.

Definition is_space (a : ascii) : bool :=
  match a with
  | " "%char => true | "009"%char => true | "010"%char => true
  | "011"%char => true | "012"%char => true | "013"%char => true
  | _ => false
  end.

(** items: [cnt] is [None] while no digit has been read for the next item *)
Fixpoint parse_items (s : list ascii) (cnt : option nat) : option (list item) :=
  match s with
  | nil => match cnt with None => Some nil | Some _ => None end
  | a :: r =>
      match digit_of_ascii a with
      | Some d =>
          parse_items r (Some (match cnt with None => d
                                            | Some c => (10 * c + d)%nat end))
      | None =>
          if is_space a then
            match cnt with None => parse_items r None | Some _ => None end
          else
            match code_of_ascii a with
            | Some c =>
                match parse_items r None with
                | Some its =>
                    Some (mkItem (match cnt with None => 1%nat | Some n => n end) c
                          :: its)
                | None => None
                end
            | None => None
            end
      end
  end.

(** native mode on this host (LP64, little-endian): C long is 8 bytes *)
Definition native_item (it : item) : item :=
  match icode it with
  | Cl => mkItem (icnt it) Cq
  | CL => mkItem (icnt it) CQ
  | _ => it
  end.
Definition mk_native (its : list item) : fmt := mkFmt LE true (map native_item its).

Definition parse_fmt (s : string) : option fmt :=
  match list_ascii_of_string s with
  | "<"%char :: r => option_map (mkFmt LE false) (parse_items r None)
  | ">"%char :: r => option_map (mkFmt BE false) (parse_items r None)
  | "!"%char :: r => option_map (mkFmt BE false) (parse_items r None)
  | "="%char :: r => option_map (mkFmt LE false) (parse_items r None)
  | "@"%char :: r => option_map mk_native (parse_items r None)
  | l => option_map mk_native (parse_items l None)
  end.

Definition code_size (c : code) : nat :=
  match c with
  | Cx | Cc | Cb | CB | Cbool | Cs => 1
  | Ch | CH => 2
  | Ci | CI | Cl | CL | Cf => 4
  | Cq | CQ | Cd => 8
  end.

Definition item_size (it : item) : nat := (icnt it * code_size (icode it))%nat.
Definition calcsize (f : fmt) : nat :=
  fold_right (fun it acc => (item_size it + acc)%nat) O (fitems f).

(** A native-mode format is safe (alignment-free) if it has at most one item
    or only 1-byte items. *)
Definition native_safe (f : fmt) : bool :=
  negb (fnative f)
  || (Nat.leb (length (fitems f)) 1)
  || forallb (fun it => Nat.eqb (code_size (icode it)) 1) (fitems f).

Inductive value :=
  | VInt (z : Z)
  | VBool (b : bool)
  | VBytes (l : bytes)
  | VF32 (bits : N)
  | VF64 (bits : N)
  | VDy (num e : Z).               (* a finite float: num / 2^e *)

Definition enc (e : endian) (k : nat) (n : N) : bytes :=
  match e with LE => le_enc k n | BE => be_enc k n end.
Definition dec (e : endian) (l : bytes) : N :=
  match e with LE => le_dec l | BE => be_dec l end.

Definition int_of_value (v : value) : option Z :=
  match v with
  | VInt z => Some z
  | VBool b => Some (if b then 1 else 0)%Z
  | _ => None
  end.

Definition code_signed (c : code) : bool :=
  match c with Cb | Ch | Ci | Cl | Cq => true | _ => false end.
Definition code_is_int (c : code) : bool :=
  match c with
  | Cb | CB | Ch | CH | Ci | CI | Cl | CL | Cq | CQ => true
  | _ => false
  end.

Definition pack_one (e : endian) (c : code) (v : value) : option bytes :=
  match c with
  | Cx => None
  | Cs => None
  | Cc => match v with
          | VBytes (b :: nil) => if is_byte b then Some (b :: nil) else None
          | _ => None
          end
  | Cbool => match v with
             | VBool b => Some ((if b then 1 else 0) :: nil)
             | VInt z => Some ((if (z =? 0)%Z then 0 else 1) :: nil)
             | _ => None
             end
  | Cf => match v with
          | VF32 bits => if bits <? pow256 4 then Some (enc e 4 bits) else None
          | VDy n x => option_map (fun b => enc e 4 (Z.to_N b)) (f32_encode n x)
          | VInt _ | VBool _ =>
              match int_of_value v with
              | Some z =>
                  (* float(z), then the double is narrowed to single *)
                  match f64_of_int z with
                  | Some _ => option_map (fun b => enc e 4 (Z.to_N b)) (f32_encode (rn53 z) 0)
                  | None => None
                  end
              | None => None
              end
          | _ => None
          end
  | Cd => match v with
          | VF64 bits => if bits <? pow256 8 then Some (enc e 8 bits) else None
          | VDy n x => option_map (fun b => enc e 8 (Z.to_N b)) (f64_encode n x)
          | VInt _ | VBool _ =>
              match int_of_value v with
              | Some z => option_map (fun b => enc e 8 (Z.to_N b)) (f64_of_int z)
              | None => None
              end
          | _ => None
          end
  | _ =>
      match int_of_value v with
      | Some z =>
          let k := code_size c in
          if (if code_signed c then in_signed k z else in_unsigned k z)
          then Some (enc e k (unsgn k z)) else None
      | None => None
      end
  end.

Fixpoint pack_many (e : endian) (c : code) (n : nat) (vs : list value)
  : option (bytes * list value) :=
  match n with
  | O => Some (nil, vs)
  | S n' =>
      match vs with
      | nil => None
      | v :: r =>
          match pack_one e c v with
          | Some b =>
              match pack_many e c n' r with
              | Some (bs, r') => Some (b ++ bs, r')
              | None => None
              end
          | None => None
          end
      end
  end.

Definition pack_item (e : endian) (it : item) (vs : list value)
  : option (bytes * list value) :=
  match icode it with
  | Cx => Some (repeat 0 (icnt it), vs)
  | Cs => match vs with
          | VBytes l :: r =>
              if wf_bytesb l
              then Some (firstn (icnt it) (l ++ repeat 0 (icnt it)), r)
              else None
          | _ => None
          end
  | c => pack_many e c (icnt it) vs
  end.

Fixpoint pack_items (e : endian) (its : list item) (vs : list value)
  : option bytes :=
  match its with
  | nil => match vs with nil => Some nil | _ => None end
  | it :: r =>
      match pack_item e it vs with
      | Some (b, vs') =>
          match pack_items e r vs' with
          | Some bs => Some (b ++ bs)
          | None => None
          end
      | None => None
      end
  end.

Definition pack (f : fmt) (vs : list value) : option bytes :=
  pack_items (fend f) (fitems f) vs.

Definition unpack_one (e : endian) (c : code) (b : bytes) : value :=
  match c with
  | Cc | Cs | Cx => VBytes b
  | Cbool => VBool (negb (le_dec b =? 0))
  | Cf => VF32 (dec e b)
  | Cd => VF64 (dec e b)
  | _ => if code_signed c then VInt (sgn (code_size c) (dec e b))
         else VInt (Z.of_N (dec e b))
  end.

Fixpoint unpack_many (e : endian) (c : code) (n : nat) (b : bytes)
  : list value :=
  match n with
  | O => nil
  | S n' => unpack_one e c (firstn (code_size c) b)
            :: unpack_many e c n' (skipn (code_size c) b)
  end.

Definition unpack_item (e : endian) (it : item) (b : bytes) : list value :=
  match icode it with
  | Cx => nil
  | Cs => VBytes (firstn (icnt it) b) :: nil
  | c => unpack_many e c (icnt it) b
  end.

Fixpoint unpack_items (e : endian) (its : list item) (b : bytes)
  : list value :=
  match its with
  | nil => nil
  | it :: r => unpack_item e it (firstn (item_size it) b)
               ++ unpack_items e r (skipn (item_size it) b)
  end.

(** CPython: [struct.error] unless the buffer has exactly [calcsize] bytes. *)
Definition unpack (f : fmt) (b : bytes) : option (list value) :=
  if Nat.eqb (length b) (calcsize f) && wf_bytesb b
  then Some (unpack_items (fend f) (fitems f) b) else None.

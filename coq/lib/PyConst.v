(** Python literals as the translator reports them. *)
From Coq Require Export String ZArith NArith List.
Inductive pyc :=
  | KI (z : Z)            (* int literal *)
  | KF (repr : string)    (* float literal, by its repr *)
  | KS (s : string)       (* str literal *)
  | KB (b : list N).      (* bytes literal *)

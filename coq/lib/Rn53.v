(** int -> float as CPython does it: round to nearest, ties to even, to 53
    significant bits; and exact dyadic rationals. *)
From Coq Require Import ZArith Bool.
Open Scope Z_scope.

Definition rn53_pos (z : Z) : Z :=
  let n := Z.log2 z + 1 in
  if n <=? 53 then z else
  let sh := n - 53 in
  let q := Z.shiftr z sh in
  let r := z - Z.shiftl q sh in
  let half := Z.shiftl 1 (sh - 1) in
  let q' := if (half <? r) || ((r =? half) && Z.odd q) then q + 1 else q in
  Z.shiftl q' sh.

Definition rn53 (z : Z) : Z :=
  if z =? 0 then 0 else if 0 <? z then rn53_pos z else - rn53_pos (- z).

(** normalised dyadic rational  num / 2^e  (num odd or 0, e may be negative) *)
Fixpoint dyad_norm_fuel (fuel : nat) (num e : Z) : Z * Z :=
  match fuel with
  | O => (num, e)
  | S f => if (num =? 0) then (0, 0)
           else if Z.even num then dyad_norm_fuel f (num / 2) (e - 1) else (num, e)
  end.
Definition dyad_norm (num e : Z) : Z * Z := dyad_norm_fuel 200 num e.

(** log2 of an exact power of two, if it is one *)
Definition pow2_log (z : Z) : option Z :=
  if (0 <? z) && (Z.shiftl 1 (Z.log2 z) =? z) then Some (Z.log2 z) else None.

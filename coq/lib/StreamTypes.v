(** Rows of the stream type table (proto/iparse.py DsfmtItem). *)
From Coq Require Export String ZArith.
Inductive scale := SNone | SInt (z : Z) | SFloat (z : Z).
Record row := mkRow
  { r_slen : Z;          (* bytes per element *)
    r_fmt : string;      (* struct code(s) *)
    r_scale : scale;     (* None / int literal / float literal (integral) *)
    r_kind : Z }.        (* EParseDataType value *)

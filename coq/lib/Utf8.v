(** UTF-8: code points (Unicode scalar values) <-> bytes.  The decoder accepts
    exactly well-formed UTF-8 (no overlong forms, no surrogates, <= U+10FFFF),
    as CPython's strict codec does. *)
From NX Require Export Bytes.
Open Scope N_scope.

Definition valid_cp (c : N) : bool :=
  (c <? 55296) || ((57343 <? c) && (c <? 1114112)).

Definition utf8_enc1 (c : N) : bytes :=
  if c <? 128 then [c]
  else if c <? 2048 then [192 + c / 64; 128 + c mod 64]
  else if c <? 65536 then [224 + c / 4096; 128 + (c / 64) mod 64; 128 + c mod 64]
  else [240 + c / 262144; 128 + (c / 4096) mod 64; 128 + (c / 64) mod 64; 128 + c mod 64].

Definition utf8_enc (l : list N) : bytes := flat_map utf8_enc1 l.

Definition is_cont (b : N) : bool := (128 <=? b) && (b <? 192).

(** one step: decode the first code point, return it with the rest *)
Definition utf8_dec1 (b : bytes) : option (N * bytes) :=
  match b with
  | [] => None
  | b0 :: r =>
      if b0 <? 128 then Some (b0, r)
      else if b0 <? 192 then None
      else if b0 <? 224 then
        match r with
        | b1 :: r1 =>
            let c := (b0 - 192) * 64 + (b1 - 128) in
            if is_cont b1 && (128 <=? c) then Some (c, r1) else None
        | _ => None
        end
      else if b0 <? 240 then
        match r with
        | b1 :: b2 :: r2 =>
            let c := (b0 - 224) * 4096 + (b1 - 128) * 64 + (b2 - 128) in
            if is_cont b1 && is_cont b2 && (2048 <=? c) && valid_cp c then Some (c, r2) else None
        | _ => None
        end
      else if b0 <? 248 then
        match r with
        | b1 :: b2 :: b3 :: r3 =>
            let c := (b0 - 240) * 262144 + (b1 - 128) * 4096 + (b2 - 128) * 64 + (b3 - 128) in
            if is_cont b1 && is_cont b2 && is_cont b3 && (65536 <=? c) && (c <? 1114112)
            then Some (c, r3) else None
        | _ => None
        end
      else None
  end.

Fixpoint utf8_dec_fuel (fuel : nat) (b : bytes) : option (list N) :=
  match b with
  | [] => Some []
  | _ =>
      match fuel with
      | O => None
      | S f =>
          match utf8_dec1 b with
          | Some (c, r) =>
              match utf8_dec_fuel f r with
              | Some l => Some (c :: l)
              | None => None
              end
          | None => None
          end
      end
  end.

Definition utf8_dec (b : bytes) : option (list N) := utf8_dec_fuel (length b) b.

(** text up to (not including) the first NUL: str.split("\x00")[0] *)
Fixpoint until_nul (l : list N) : list N :=
  match l with
  | [] => []
  | c :: r => if c =? 0 then [] else c :: until_nul r
  end.

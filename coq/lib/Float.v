(** IEEE-754 binary32 / binary64 encoding of a dyadic rational num / 2^e with
    round-to-nearest-even, as CPython's struct.pack('f' / 'd') and float(int)
    do it.  Definitions only; validated against CPython by the differential run. *)
From Coq Require Import ZArith Bool.
Open Scope Z_scope.

(** round a / 2^sh to nearest, ties to even (a >= 0; for sh <= 0 it is a * 2^-sh exactly) *)
Definition rne_shift (a sh : Z) : Z :=
  if sh <=? 0 then a * 2 ^ (- sh) else
  let q := Z.shiftr a sh in
  let r := a - Z.shiftl q sh in
  let half := 2 ^ (sh - 1) in
  if (half <? r) || ((r =? half) && Z.odd q) then q + 1 else q.

(** [p] = precision in bits (24 / 53), [ew] = exponent field width (8 / 11).
    Result: the bit pattern, or None when the rounded value overflows. *)
Definition ieee_encode (p ew : Z) (num e : Z) : option Z :=
  let bias := 2 ^ (ew - 1) - 1 in
  let emin := 1 - bias in
  let sign := if num <? 0 then 1 else 0 in
  let a := Z.abs num in
  let top := Z.shiftl sign (ew + p - 1) in
  if a =? 0 then Some top else
  let L := Z.log2 a in
  let E := L - e in                       (* a / 2^e = 1.xxx * 2^E *)
  if E <? emin then
    (* subnormal (or rounds up to the least normal): unit 2^(emin - (p-1)) *)
    let m := rne_shift a (e + emin - (p - 1)) in
    Some (top + m)                        (* m = 2^(p-1) is exactly the least normal's pattern *)
  else
    let m := rne_shift a (L - (p - 1)) in (* p significant bits *)
    let '(m, E) := if m =? 2 ^ p then (2 ^ (p - 1), E + 1) else (m, E) in
    if bias <? E then None
    else Some (top + Z.shiftl (E + bias) (p - 1) + (m - 2 ^ (p - 1))).

Definition f64_encode (num e : Z) : option Z := ieee_encode 53 11 num e.
Definition f32_encode (num e : Z) : option Z := ieee_encode 24 8 num e.

(** float(z) as a double's bit pattern; None = OverflowError *)
Definition f64_of_int (z : Z) : option Z := f64_encode z 0.

(** struct.pack('f', x) for a double x given as a dyadic: one rounding double -> single.
    (x is already a double, so rounding num / 2^e directly to single IS that rounding.) *)

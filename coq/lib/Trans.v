(** Labelled transition systems with an executable step function and a
    verified finite-state checker: if a finite set of states contains the
    initial state, is closed under every label, and every member is safe, then
    every reachable state (after a trace of ANY length) is safe. *)
From Coq Require Import List Bool.
Import ListNotations.

Section LTS.
  Variables (state label : Type).
  Variable step : state -> label -> option state.
  Variable labels : list label.            (* all labels *)
  Variable eqb : state -> state -> bool.
  Hypothesis eqb_eq : forall a b, eqb a b = true <-> a = b.
  Hypothesis labels_all : forall l, In l labels.

  Fixpoint run (tr : list label) (s : state) : option state :=
    match tr with
    | [] => Some s
    | l :: r => match step s l with Some s' => run r s' | None => None end
    end.

  Definition mem (s : state) (R : list state) : bool := existsb (eqb s) R.

  Lemma mem_In s R : mem s R = true <-> In s R.
  Proof.
    unfold mem. rewrite existsb_exists. split.
    - intros (x & Hx & E). apply eqb_eq in E. subst. exact Hx.
    - intros H. exists s. split; [exact H|]. apply eqb_eq. reflexivity.
  Qed.

  (** closed: every successor of a member is a member *)
  Definition closedb (R : list state) : bool :=
    forallb (fun s => forallb (fun l => match step s l with
                                        | Some s' => mem s' R
                                        | None => true
                                        end) labels) R.

  Theorem closed_safe (R : list state) (safeb : state -> bool) (init : state) :
    mem init R = true -> closedb R = true -> forallb safeb R = true ->
    forall tr s, run tr init = Some s -> In s R /\ safeb s = true.
  Proof.
    intros Hi Hc Hs.
    assert (G : forall tr s0 s, In s0 R -> run tr s0 = Some s -> In s R).
    { induction tr as [|l tr IH]; intros s0 s H0 Hr; cbn in Hr.
      - inversion Hr; subst. exact H0.
      - destruct (step s0 l) as [s1|] eqn:E; [|discriminate].
        apply (IH s1 s); [|exact Hr].
        unfold closedb in Hc. rewrite forallb_forall in Hc. specialize (Hc s0 H0).
        rewrite forallb_forall in Hc. specialize (Hc l (labels_all l)). rewrite E in Hc.
        apply mem_In. exact Hc. }
    intros tr s Hr. assert (Hin : In s R) by (apply (G tr init s); [apply mem_In; exact Hi|exact Hr]).
    split; [exact Hin|]. rewrite forallb_forall in Hs. apply Hs. exact Hin.
  Qed.

  (** fuelled breadth-first closure, computed in the kernel *)
  Definition add_new (R : list state) (s : state) : list state := if mem s R then R else R ++ [s].

  Definition succs (s : state) : list state :=
    flat_map (fun l => match step s l with Some s' => [s'] | None => [] end) labels.

  Definition expand (R : list state) : list state :=
    fold_left add_new (flat_map succs R) R.

  Fixpoint reach (fuel : nat) (R : list state) : list state :=
    match fuel with
    | O => R
    | S f => let R' := expand R in if Nat.eqb (length R') (length R) then R else reach f R'
    end.
End LTS.

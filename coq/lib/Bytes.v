(** Bytes as [N], little/big-endian integer coding, two's complement.
    Definitions only (proofs live in proofs/Bytes_proofs.v). *)
From Coq Require Export List NArith ZArith Bool.
Export ListNotations.
Open Scope N_scope.

Definition byte := N.
Definition bytes := list N.

Definition is_byte (b : N) : bool := b <? 256.
Definition wf_bytes (l : bytes) : Prop := Forall (fun b => b < 256) l.
Definition wf_bytesb (l : bytes) : bool := forallb is_byte l.

(** [le_enc k n]: the [k] low-order bytes of [n], least significant first. *)
Fixpoint le_enc (k : nat) (n : N) : bytes :=
  match k with
  | O => []
  | S k' => (n mod 256) :: le_enc k' (n / 256)
  end.

Fixpoint le_dec (l : bytes) : N :=
  match l with
  | [] => 0
  | b :: r => b + 256 * le_dec r
  end.

Definition be_enc (k : nat) (n : N) : bytes := rev (le_enc k n).
Definition be_dec (l : bytes) : N := le_dec (rev l).

(** Two's complement on [k] bytes. *)
Definition pow256 (k : nat) : N := 2 ^ (8 * N.of_nat k).

Definition in_unsigned (k : nat) (z : Z) : bool :=
  ((0 <=? z) && (z <? Z.of_N (pow256 k)))%Z.
Definition in_signed (k : nat) (z : Z) : bool :=
  ((- Z.of_N (pow256 k / 2) <=? z) && (z <? Z.of_N (pow256 k / 2)))%Z.

Definition unsgn (k : nat) (z : Z) : N :=
  Z.to_N (z mod Z.of_N (pow256 k)).
Definition sgn (k : nat) (n : N) : Z :=
  if n <? pow256 k / 2 then Z.of_N n else (Z.of_N n - Z.of_N (pow256 k))%Z.

(** Python slicing [b[i:j]] for [i], [j] in [Z] (negative = from the end,
    out-of-range clipped), exactly as CPython does for step 1. *)
Definition clip_index (len : nat) (i : Z) : nat :=
  let l := Z.of_nat len in
  let i' := if (i <? 0)%Z then (i + l)%Z else i in
  if (i' <? 0)%Z then O
  else if (l <? i')%Z then len
  else Z.to_nat i'.

Definition pyslice {A} (l : list A) (i j : Z) : list A :=
  let a := clip_index (length l) i in
  let b := clip_index (length l) j in
  firstn (b - a) (skipn a l).

Definition slice_from {A} (l : list A) (i : Z) : list A :=
  skipn (clip_index (length l) i) l.
Definition slice_to {A} (l : list A) (j : Z) : list A :=
  firstn (clip_index (length l) j) l.

Definition zlen {A} (l : list A) : Z := Z.of_nat (length l).

(** [bytes.find(bytes([b]))]: index of the first occurrence, or -1. *)
Fixpoint find_byte (b : N) (l : bytes) : option nat :=
  match l with
  | [] => None
  | x :: r => if x =? b then Some O
              else match find_byte b r with
                   | Some i => Some (S i)
                   | None => None
                   end
  end.

Definition xor_bytes (a b : bytes) : bytes :=
  map (fun p => N.lxor (fst p) (snd p)) (combine a b).

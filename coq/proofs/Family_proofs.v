From Coq Require Import Lia ZifyBool ZifyNat ZifyN String.
From NX Require Import Bytes Frame Codec Family Bytes_proofs.
Open Scope Z_scope.

(** every member of the family honours the frame interface laws *)
Theorem family_lawful m : fam_ok m = true -> lawful (fam_codec m).
Proof.
  intros Hok. unfold fam_ok in Hok. rewrite !andb_true_iff in Hok.
  destruct Hok as ((((((((((H3 & H8) & Hlp) & Hlb) & Hl1) & Hl2) & Hi1) & Hi2) & Hf1) & Hf4) & Hs).
  apply Nat.leb_le in H3, H8, Hlp, Hlb, Hl1, Hl2, Hi1, Hf1, Hf4. apply Nat.ltb_lt in Hi2.
  constructor; cbn [fam_codec k_hdr_len k_sof k_hdr_decode k_frame_decode].
  - lia.
  - intros d Hd. exists EHDR. unfold fam_hdr_decode. replace (zlen d <? Z.of_nat (f_hdr_len m)) with true by lia. reflexivity.
  - intros d w _. unfold fam_hdr_decode.
    destruct (zlen d <? Z.of_nat (f_hdr_len m)); [discriminate|].
    destruct (negb _); [discriminate|]. destruct (known_id _); discriminate.
  - intros a b Ha. unfold fam_hdr_decode. rewrite zlen_app.
    pose proof (zlen_nonneg b) as Hb.
    replace (zlen a + zlen b <? Z.of_nat (f_hdr_len m)) with false by lia.
    replace (zlen a <? Z.of_nat (f_hdr_len m)) with false by lia.
    assert (E : firstn (f_hdr_len m) (a ++ b) = firstn (f_hdr_len m) a).
    { rewrite firstn_app. replace (f_hdr_len m - List.length a)%nat with 0%nat by (unfold zlen in Ha; lia).
      cbn [firstn]. apply app_nil_r. }
    rewrite E. reflexivity.
  - intros d fid flen H. unfold fam_hdr_decode in H.
    destruct (zlen d <? Z.of_nat (f_hdr_len m)) eqn:L; [discriminate|].
    destruct (nth 0 (firstn (f_hdr_len m) d) 0%N =? f_sof m)%N eqn:E; cbn [negb] in H; [|discriminate].
    apply N.eqb_eq in E. destruct d as [|x r]; [unfold zlen in L; cbn in L; lia|].
    destruct (f_hdr_len m) as [|k] eqn:K; [lia|]. cbn [firstn nth] in E. subst x. eexists; reflexivity.
  - intros d w _. unfold fam_frame_decode, fam_hdr_decode.
    destruct (zlen d <? Z.of_nat (f_hdr_len m)); [discriminate|].
    destruct (negb _); [discriminate|]. destruct (known_id _); [|discriminate].
    destruct (negb _ || _); [discriminate|]. destruct (bytes_eqb _ _); discriminate.
Qed.

From NX Require Import Reasm Reasm_proofs Codec_proofs.

(** ... and the two further laws the refinement needs (found while porting the
    proof: a negative declared length or an accepted empty frame break it) *)
Theorem family_lawful2 m : fam_ok m = true -> lawful2 (fam_codec m).
Proof.
  intros Hok. constructor.
  - apply family_lawful. exact Hok.
  - intros d fid flen _ H. cbn [fam_codec k_hdr_decode] in H. unfold fam_hdr_decode in H.
    destruct (zlen d <? Z.of_nat (f_hdr_len m)); [discriminate|].
    destruct (negb _); [discriminate|]. destruct (known_id _); [|discriminate].
    inversion H; subst. lia.
  - intros fid p. cbn [fam_codec k_frame_decode]. unfold fam_frame_decode, fam_hdr_decode.
    unfold fam_ok in Hok. rewrite !andb_true_iff in Hok.
    destruct Hok as ((((((((((H3 & _) & _) & _) & _) & _) & _) & _) & _) & _) & _).
    apply Nat.leb_le in H3.
    replace (zlen (@nil N) <? Z.of_nat (f_hdr_len m)) with true by (unfold zlen; cbn; lia).
    discriminate.
Qed.

(** hence: for every member of the family, frame reassembly on the client
    refines the one-pass scan with that codec's framing, for every chunking *)
Theorem family_reassembly m : fam_ok m = true -> forall chunks : link,
  wf_link chunks ->
  exists rest, krecv_all (fam_codec m) chunks = Some (fst (kscan (fam_codec m) (List.concat chunks)), rest).
Proof. intros Hok. apply krecv_all_scan. apply family_lawful2. exact Hok. Qed.

(** The connect / disconnect life cycle, part 7: the NxscopeHandler methods on
    a CONNECTED handler (its [_comm] has a Device and a channel configuration):
    _stream_start, _stream_stop, stream_start, stream_stop, channels_write,
    ch_enable, ch_disable, ch_disable_all, ch_divider, channels_default_cfg,
    dev_channel_get, disconnect -- for ANY script of answers. *)
From Coq Require Import String Ascii List ZArith NArith Bool Lia ZifyBool.
From NX Require Import Bytes PyStruct Crc PyLite PyLite_tactics PyLite_tactics_ext PyLite_tactics_try
  Src_dev Src_iparse Src_parse Src_comm Src_nxscope Src_prelude Src_all
  Src_serialframe_proofs Src_parse_req_lemmas Src_records_proofs Src_config_base Src_config_req Src_config_write
  Src_handshake_base Src_handshake_devinfo Src_lc_base Src_lc_devinfo Src_lifecycle_comm Src_lifecycle_nx.
From NX Require Src_parse_req_proofs Src_info_proofs Src_lc_config Src_lc_config_write.
From NX Require Frame Request Request_proofs Info Info_proofs Config Config_proofs Handshake Handshake_proofs Gen_frame Gen_req Gen_misc.
Import ListNotations.
Open Scope string_scope.
Open Scope Z_scope.

Lemma set_at_length {A} (l l' : list A) k x : set_at l k x = Some l' -> List.length l' = List.length l.
Proof.
  unfold set_at. destruct (norm_index _ _); [|discriminate]. intros H. inversion H. apply Config_proofs.set_nth_length.
Qed.

Lemma set_many_at_length {A} (x : A) ks : forall l l',
  set_many_at l ks x = inl l' \/ set_many_at l ks x = inr l' -> List.length l' = List.length l.
Proof.
  induction ks as [|k r IH]; intros l l' H; cbn [set_many_at] in H.
  - destruct H as [H|H]; inversion H. reflexivity.
  - destruct (set_at l k x) as [l1|] eqn:E.
    + rewrite (IH l1 l' H). eapply set_at_length, E.
    + destruct H as [H|H]; inversion H. reflexivity.
Qed.

#[local] Hint Unfold pa RQ.pa IN.pa sf gintf queue_obj gcomm item_pv fake_thread chans_obj nxh
  IN.cmninfo_obj IN.ack_obj frame_obj perr_obj IN.emb_opt RQ.emb_f dev_obj' emb_req emb_ack LW.emb_gwres : lc_model.
Ltac py_unfold_hook ::= autounfold with lc_model.
#[local] Arguments norm_index : simpl never.
#[local] Arguments enum_id : simpl never.
#[local] Arguments is_none !x /.
#[local] Arguments Request.frame_start : simpl never.
#[local] Arguments drain : simpl never.
#[local] Arguments dev_rec : simpl never.
#[local] Arguments div_sup : simpl never.
#[local] Arguments ack_sup : simpl never.
#[local] Arguments set_at : simpl never.
#[local] Arguments set_many_at : simpl never.
#[local] Arguments ack_step : simpl never.
#[local] Arguments src_write : simpl never.
#[local] Arguments range_ix : simpl never.

Ltac py_stuck_hook h ::=
  first [ crest_hook h |
  lazymatch h with
  | norm_index (List.length (map _ _)) _ => rewrite map_length
  | norm_index (S _) 0 => rewrite norm_index_S0
  | py_is _ PNone => rewrite py_is_none
  | get_attr _ _ (dev_rec _ _ _) "chmax" => rewrite dev_rec_chmax
  | get_attr _ _ (dev_rec _ _ _) "div_supported" => rewrite dev_rec_div
  | get_attr _ _ (dev_rec _ _ _) "ack_supported" => rewrite dev_rec_ack
  end ].

#[local] Hint Resolve thread_start_func thread_stop_func Src_lifecycle_comm.dev_func device_data_func
  nx_dev_func reset_stats_func LC.stream_start_func LC.stream_stop_func LW.channels_write_func
  LC.ch_enable_int_func LC.ch_enable_list_func LC.ch_disable_int_func LC.ch_disable_list_func
  LC.ch_divider_int_func LC.ch_divider_list_func LC.ch_disable_all_func LC.channels_default_cfg_func
  LC.stream_start_func LC.stream_stop_func channel_get_func
  LC.ch_disable_all_func_r LW.nxslib_channels_enable_func_r : pyspec.

(** the connected [_comm] *)
Definition ccomm (started thrd : pv) (ev : list string) (w : list bytes) (p d cm fl rxp : Z) (chans : list chan_desc)
           (its : list qitem) (sitems : list pv) (c : Config.client) : pv :=
  gcomm started thrd ev w p d (dev_obj' cm fl rxp chans) (map item_pv its) sitems [("_channels", chans_obj c)].
#[local] Hint Unfold ccomm : lc_model.

(** * _stream_start / _stream_stop: one request, the acknowledgement's [state] is the result *)
Section Ops.
Variables (cn started thrd : pv) (ev : list string) (p d cm fl rxp : Z) (sitems : list pv) (sq : pv).
Local Notation cc w chans its c := (ccomm started thrd ev w p d cm fl rxp chans its sitems c).

Definition stream_req_out (v : bool) (w : list bytes) (chans : list chan_desc) (its : list qitem) (c : Config.client)
           (thr ss ovf : pv) : PyLite.res (pv * option pv) :=
  let nx' := nxh cn (cc (w ++ [start_req v]) chans (snd (ack_step (ack_sup fl) its)) c) thr sq ss ovf in
  match fst (ack_step (ack_sup fl) its) with
  | Frame.Ok t => PyLite.Ok (PBool (fst t), Some nx')
  | Frame.Raise e => ExcS e (self_st nx')
  | Frame.Err _ => Unsupported "Err"
  end.

Lemma nx__stream_stop_func n w chans its c thr ss ovf :
  call_func program (S (S (S (S (S n))))) NxscopeHandler__stream_stop [nxh cn (cc w chans its c) thr sq ss ovf] [] =
  stream_req_out false w chans its c thr ss ovf.
Proof. pose proof (frame_start_ok false) as Efs. pystart. unfold stream_req_out. pyrun. Qed.

Lemma nx__stream_start_func n w chans its c thr ss ovf :
  call_func program (S (S (S (S (S n))))) NxscopeHandler__stream_start [nxh cn (cc w chans its c) thr sq ss ovf] [] =
  stream_req_out true w chans its c thr ss (PInt 0).
Proof. pose proof (frame_start_ok true) as Efs. pystart. unfold stream_req_out. pyrun. Qed.

#[local] Hint Resolve nx__stream_stop_func nx__stream_start_func : pyspec.
#[local] Hint Unfold stream_req_out : lc_model.

(** * stream_stop on a started stream: the stop request goes out, the stream worker is stopped *)
Definition nx_stream_stop_out (w : list bytes) (chans : list chan_desc) (its : list qitem) (c : Config.client)
           (r2 : bool) (s2 t2 : Z) (ovf : pv) : PyLite.res (pv * option pv) :=
  let comm' := cc (w ++ [start_req false]) chans (snd (ack_step (ack_sup fl) its)) c in
  match fst (ack_step (ack_sup fl) its) with
  | Frame.Ok _ => PyLite.Ok (PNone, Some (nxh cn comm' (fake_thread false s2 (if r2 then t2 + 1 else t2)) sq (PBool false) ovf))
  | Frame.Raise e => ExcS e (self_st (nxh cn comm' (fake_thread r2 s2 t2) sq (PBool true) ovf))
  | Frame.Err _ => Unsupported "Err"
  end.

Lemma nx_stream_stop_func n w chans its c r2 s2 t2 ovf :
  call_func program (S (S (S (S (S (S n)))))) NxscopeHandler_stream_stop
    [nxh cn (cc w chans its c) (fake_thread r2 s2 t2) sq (PBool true) ovf] [] =
  nx_stream_stop_out w chans its c r2 s2 t2 ovf.
Proof. pystart. unfold nx_stream_stop_out. pyrun. Qed.

(** * channels_write *)
Definition nx_wres (thr ss ovf : pv) (r : wres) : PyLite.res (pv * option pv) :=
  match r with
  | WOk c chans w its => PyLite.Ok (PNone, Some (nxh cn (cc w chans its c) thr sq ss ovf))
  | WExc e c chans w its => ExcS e (self_st (nxh cn (cc w chans its c) thr sq ss ovf))
  | WUnsup s => Unsupported s
  end.

Lemma nx_channels_write_func n w chans its c thr ss ovf :
  List.length (Config.en_new c) = List.length (Config.en_now c) ->
  List.length (Config.div_new c) = List.length (Config.div_now c) ->
  call_func program (S (S (S (S (S (S (S n))))))) NxscopeHandler_channels_write
    [nxh cn (cc w chans its c) thr sq ss ovf] [] =
  nx_wres thr ss ovf (src_write cm fl c chans w its).
Proof. intros He Hd. pystart. unfold nx_wres. pyrun. Qed.
#[local] Hint Resolve nx_channels_write_func : pyspec.
#[local] Hint Unfold nx_wres : lc_model.

(** * stream_start on a stopped stream: the buffered configuration is written,
    the start request goes out, the stream worker is started, the flag is set
    -- WHATEVER the acknowledgement of the start request says *)
Definition nx_stream_start_out (w : list bytes) (chans : list chan_desc) (its : list qitem) (c : Config.client)
           (r2 : bool) (s2 t2 : Z) (ovf : pv) : PyLite.res (pv * option pv) :=
  match src_write cm fl c chans w its with
  | WOk c1 chans1 w1 its1 =>
      let comm' := cc (w1 ++ [start_req true]) chans1 (snd (ack_step (ack_sup fl) its1)) c1 in
      match fst (ack_step (ack_sup fl) its1) with
      | Frame.Ok _ =>
          PyLite.Ok (PNone, Some (nxh cn comm' (fake_thread true (if r2 then s2 else s2 + 1) t2) sq (PBool true) (PInt 0)))
      | Frame.Raise e => ExcS e (self_st (nxh cn comm' (fake_thread r2 s2 t2) sq (PBool false) (PInt 0)))
      | Frame.Err _ => Unsupported "Err"
      end
  | WExc e c1 chans1 w1 its1 => ExcS e (self_st (nxh cn (cc w1 chans1 its1 c1) (fake_thread r2 s2 t2) sq (PBool false) ovf))
  | WUnsup s => Unsupported s
  end.

Lemma nx_stream_start_func n w chans its c r2 s2 t2 ovf :
  List.length (Config.en_new c) = List.length (Config.en_now c) ->
  List.length (Config.div_new c) = List.length (Config.div_now c) ->
  call_func program (S (S (S (S (S (S (S (S n)))))))) NxscopeHandler_stream_start
    [nxh cn (cc w chans its c) (fake_thread r2 s2 t2) sq (PBool false) ovf] [] =
  nx_stream_start_out w chans its c r2 s2 t2 ovf.
Proof.
  intros He Hd. pystart. unfold nx_stream_start_out.
  destruct (src_write cm fl c chans w its) as [c1 chans1 w1 its1|e c1 chans1 w1 its1|x] eqn:Ew; pyrun.
Qed.

(** * The setters, with and without [writenow] *)
Definition nx_channels_write_func_r n w chans its thr ss ovf a b c' d' e f :=
  nx_channels_write_func n w chans its (Config.mkCli a b c' d' e f) thr ss ovf.
#[local] Hint Resolve nx_channels_write_func_r : pyspec.

(** what follows a setter: the write, if asked for *)
Definition then_write (wn : bool) (thr ss ovf : pv) (w : list bytes) (chans : list chan_desc) (its : list qitem)
           (c : Config.client) : PyLite.res (pv * option pv) :=
  if wn then nx_wres thr ss ovf (src_write cm fl c chans w its)
  else PyLite.Ok (PNone, Some (nxh cn (cc w chans its c) thr sq ss ovf)).
#[local] Hint Unfold then_write : lc_model.

Section Setters.
Variables (w : list bytes) (chans : list chan_desc) (its : list qitem) (c : Config.client) (thr ss ovf : pv).
Hypothesis He : List.length (Config.en_new c) = List.length (Config.en_now c).
Hypothesis Hd : List.length (Config.div_new c) = List.length (Config.div_now c).
Local Notation nx0 := (nxh cn (cc w chans its c) thr sq ss ovf).

Lemma nx_ch_enable_int_func n k wn :
  call_func program (S (S (S (S (S (S (S (S n)))))))) NxscopeHandler_ch_enable [nx0; PInt k; PBool wn] [] =
  match set_at (Config.en_new c) k true with
  | Some l => then_write wn thr ss ovf w chans its (Config.upd_en c l)
  | None => ExcS "IndexError" (self_st nx0)
  end.
Proof.
  pystart. destruct (set_at (Config.en_new c) k true) as [l|] eqn:Es.
  - pose proof (set_at_length _ _ _ _ Es) as Hl. assert (Hl' : List.length l = List.length (Config.en_now c)) by congruence.
    destruct wn; pyrun.
  - destruct wn; pyrun.
Qed.

Lemma nx_ch_disable_int_func n k wn :
  call_func program (S (S (S (S (S (S (S (S n)))))))) NxscopeHandler_ch_disable [nx0; PInt k; PBool wn] [] =
  match set_at (Config.en_new c) k false with
  | Some l => then_write wn thr ss ovf w chans its (Config.upd_en c l)
  | None => ExcS "IndexError" (self_st nx0)
  end.
Proof.
  pystart. destruct (set_at (Config.en_new c) k false) as [l|] eqn:Es.
  - pose proof (set_at_length _ _ _ _ Es) as Hl. assert (Hl' : List.length l = List.length (Config.en_now c)) by congruence.
    destruct wn; pyrun.
  - destruct wn; pyrun.
Qed.

(** a list of channels: the first index out of range raises, the ones before it stay applied (and are NOT written) *)
Lemma nx_ch_enable_list_func n ks wn :
  call_func program (S (S (S (S (S (S (S (S n)))))))) NxscopeHandler_ch_enable [nx0; PList (map PInt ks); PBool wn] [] =
  match set_many_at (Config.en_new c) ks true with
  | inl l => then_write wn thr ss ovf w chans its (Config.upd_en c l)
  | inr l => ExcS "IndexError" (self_st (nxh cn (cc w chans its (Config.upd_en c l)) thr sq ss ovf))
  end.
Proof.
  pystart. destruct (set_many_at (Config.en_new c) ks true) as [l|l] eqn:Es.
  - pose proof (set_many_at_length _ _ _ _ (or_introl Es)) as Hl.
    assert (Hl' : List.length l = List.length (Config.en_now c)) by congruence.
    destruct wn; pyrun.
  - destruct wn; pyrun.
Qed.

Lemma nx_ch_disable_list_func n ks wn :
  call_func program (S (S (S (S (S (S (S (S n)))))))) NxscopeHandler_ch_disable [nx0; PList (map PInt ks); PBool wn] [] =
  match set_many_at (Config.en_new c) ks false with
  | inl l => then_write wn thr ss ovf w chans its (Config.upd_en c l)
  | inr l => ExcS "IndexError" (self_st (nxh cn (cc w chans its (Config.upd_en c l)) thr sq ss ovf))
  end.
Proof.
  pystart. destruct (set_many_at (Config.en_new c) ks false) as [l|l] eqn:Es.
  - pose proof (set_many_at_length _ _ _ _ (or_introl Es)) as Hl.
    assert (Hl' : List.length l = List.length (Config.en_now c)) by congruence.
    destruct wn; pyrun.
  - destruct wn; pyrun.
Qed.

Lemma nx_ch_disable_all_func n wn :
  call_func program (S (S (S (S (S (S (S (S n)))))))) NxscopeHandler_ch_disable_all [nx0; PBool wn] [] =
  match set_many_at (Config.en_new c) (range_ix cm) false with
  | inl l => then_write wn thr ss ovf w chans its (Config.upd_en c l)
  | inr l => ExcS "IndexError" (self_st (nxh cn (cc w chans its (Config.upd_en c l)) thr sq ss ovf))
  end.
Proof.
  pystart. destruct (set_many_at (Config.en_new c) (range_ix cm) false) as [l|l] eqn:Es.
  - pose proof (set_many_at_length _ _ _ _ (or_introl Es)) as Hl.
    assert (Hl' : List.length l = List.length (Config.en_now c)) by congruence.
    destruct wn; pyrun.
  - destruct wn; pyrun.
Qed.

Lemma nx_ch_divider_int_func n k v wn :
  call_func program (S (S (S (S (S (S (S (S n)))))))) NxscopeHandler_ch_divider [nx0; PInt k; PInt v; PBool wn] [] =
  if (v <? 0) || (255 <? v) then ExcS "ValueError" (self_st nx0) else
  match set_at (Config.div_new c) k v with
  | Some l => then_write wn thr ss ovf w chans its (Config.upd_div c l)
  | None => ExcS "IndexError" (self_st nx0)
  end.
Proof.
  pystart. destruct ((v <? 0) || (255 <? v)) eqn:Ev; [destruct wn; pyrun|].
  destruct (set_at (Config.div_new c) k v) as [l|] eqn:Es.
  - pose proof (set_at_length _ _ _ _ Es) as Hl. assert (Hl' : List.length l = List.length (Config.div_now c)) by congruence.
    destruct wn; pyrun.
  - destruct wn; pyrun.
Qed.

Lemma nx_channels_default_cfg_func n wn :
  call_func program (S (S (S (S (S (S (S (S n)))))))) NxscopeHandler_channels_default_cfg [nx0; PBool wn] [] =
  match set_many_at (Config.en_new c) (range_ix cm) false with
  | inl l => then_write wn thr ss ovf w chans its
               (Config.upd_div (Config.upd_en c l) (map (fun _ => 0) (Config.div_new c)))
  | inr l => ExcS "IndexError" (self_st (nxh cn (cc w chans its (Config.upd_en c l)) thr sq ss ovf))
  end.
Proof.
  pystart. destruct (set_many_at (Config.en_new c) (range_ix cm) false) as [l|l] eqn:Es.
  - pose proof (set_many_at_length _ _ _ _ (or_introl Es)) as Hl.
    assert (Hl' : List.length l = List.length (Config.en_now c)) by congruence.
    assert (Hd' : List.length (map (fun _ : Z => 0) (Config.div_new c)) = List.length (Config.div_now c))
      by (rewrite map_length; exact Hd).
    destruct wn; pyrun.
  - destruct wn; pyrun.
Qed.

End Setters.

Lemma nx_dev_channel_get_func n w chans its c thr ss ovf i :
  call_func program (S (S (S n))) NxscopeHandler_dev_channel_get [nxh cn (cc w chans its c) thr sq ss ovf; PInt i] [] =
  PyLite.Ok (match norm_index (List.length chans) i with
             | Some k => nth k (map channel_obj chans) PNone
             | None => PNone
             end, Some (nxh cn (cc w chans its c) thr sq ss ovf)).
Proof. pystart. pyrun. Qed.

End Ops.

(** * disconnect on a connected handler *)
Section Disconnect.
Variables (r1 : bool) (s1 t1 : Z) (ev : list string) (p d cm fl rxp : Z) (qs : list qitem) (sq : pv).
Local Notation cc w chans its c :=
  (ccomm (PBool true) (fake_thread r1 s1 t1) ev w p d cm fl rxp chans its (map item_pv qs) c).

(** after [stream_stop]: all channels are disabled in the buffer, the buffer is
    written (the divider request, if dividers are supported, and the enable
    request, each awaiting its acknowledgement), then the communication handler
    is stopped: worker stopped, link closed, queues drained, no device.
    A raise on the way leaves the handler CONNECTED *)
Definition nx_disc_tail (w : list bytes) (chans : list chan_desc) (its : list qitem) (c : Config.client)
           (thr2 ovf : pv) : PyLite.res (pv * option pv) :=
  match set_many_at (Config.en_new c) (range_ix cm) false with
  | inl l =>
      match src_write cm fl (Config.upd_en c l) chans w its with
      | WOk c2 chans2 w2 its2 =>
          PyLite.Ok (PNone,
            Some (nxh (PBool false)
                    (gcomm (PBool false) (fake_thread false s1 (if r1 then t1 + 1 else t1)) (ev ++ ["intf.stop"])
                       w2 p (d + 1) PNone (map item_pv (drain its2 4)) (map item_pv (drain qs 4))
                       [("_channels", chans_obj c2)])
                    thr2 sq (PBool false) ovf))
      | WExc e c2 chans2 w2 its2 => ExcS e (self_st (nxh (PBool true) (cc w2 chans2 its2 c2) thr2 sq (PBool false) ovf))
      | WUnsup x => Unsupported x
      end
  | inr l => ExcS "IndexError" (self_st (nxh (PBool true) (cc w chans its (Config.upd_en c l)) thr2 sq (PBool false) ovf))
  end.

#[local] Hint Resolve disconnect_func nx_stream_stop_idle_func nx__stream_stop_func nx__stream_start_func nx_stream_stop_func
  nx_channels_write_func nx_channels_write_func_r nx_ch_disable_all_func crest_one : pyspec.
#[local] Hint Unfold stream_req_out nx_stream_stop_out nx_wres then_write : lc_model.

Lemma nx_disconnect_func m w chans its c thr ovf : (drain_limit <= m)%nat ->
  List.length (Config.en_new c) = List.length (Config.en_now c) ->
  List.length (Config.div_new c) = List.length (Config.div_now c) ->
  call_func program (S (S (S (S (F6 (S m)))))) NxscopeHandler_disconnect
    [nxh (PBool true) (cc w chans its c) thr sq (PBool false) ovf] [] =
  nx_disc_tail w chans its c thr ovf.
Proof.
  intros Hm He Hd. pystart. unfold nx_disc_tail.
  destruct (set_many_at (Config.en_new c) (range_ix cm) false) as [l|l] eqn:Es.
  - pose proof (set_many_at_length _ _ _ _ (or_introl Es)) as Hl.
    assert (Hl' : List.length l = List.length (Config.en_now c)) by congruence.
    destruct (src_write cm fl (Config.upd_en c l) chans w its) as [c2 chans2 w2 its2|e c2 chans2 w2 its2|x] eqn:Ew.
    all: pyrun.
  - pyrun.
Qed.

(** with the stream started: first the stop request and the stream worker *)
Definition nx_disc_streaming_out (w : list bytes) (chans : list chan_desc) (its : list qitem) (c : Config.client)
           (r2 : bool) (s2 t2 : Z) (ovf : pv) : PyLite.res (pv * option pv) :=
  match fst (ack_step (ack_sup fl) its) with
  | Frame.Ok _ =>
      nx_disc_tail (w ++ [start_req false]) chans (snd (ack_step (ack_sup fl) its)) c
        (fake_thread false s2 (if r2 then t2 + 1 else t2)) ovf
  | Frame.Raise e =>
      ExcS e (self_st (nxh (PBool true) (cc (w ++ [start_req false]) chans (snd (ack_step (ack_sup fl) its)) c)
                         (fake_thread r2 s2 t2) sq (PBool true) ovf))
  | Frame.Err _ => Unsupported "Err"
  end.

Lemma nx_disconnect_streaming_func m w chans its c r2 s2 t2 ovf : (drain_limit <= m)%nat ->
  List.length (Config.en_new c) = List.length (Config.en_now c) ->
  List.length (Config.div_new c) = List.length (Config.div_now c) ->
  call_func program (S (S (S (S (F6 (S m)))))) NxscopeHandler_disconnect
    [nxh (PBool true) (cc w chans its c) (fake_thread r2 s2 t2) sq (PBool true) ovf] [] =
  nx_disc_streaming_out w chans its c r2 s2 t2 ovf.
Proof.
  intros Hm He Hd. pystart. unfold nx_disc_streaming_out, nx_disc_tail.
  destruct (fst (ack_step (ack_sup fl) its)) as [ta|e|e] eqn:Ea; [|pyrun..].
  destruct (set_many_at (Config.en_new c) (range_ix cm) false) as [l|l] eqn:Es.
  - pose proof (set_many_at_length _ _ _ _ (or_introl Es)) as Hl.
    assert (Hl' : List.length l = List.length (Config.en_now c)) by congruence.
    destruct (src_write cm fl (Config.upd_en c l) chans (w ++ [start_req false]) (snd (ack_step (ack_sup fl) its)))
      as [c2 chans2 w2 its2|e c2 chans2 w2 its2|x] eqn:Ew.
    all: pyrun.
  - pyrun.
Qed.

End Disconnect.

(** the hooks are global Ltac state: restore the defaults for whoever loads this file *)
Ltac py_stuck_hook h ::= fail.
Ltac py_unfold_hook ::= idtac.

(** * Audit *)
Print Assumptions nx__stream_stop_func.
Print Assumptions nx__stream_start_func.
Print Assumptions nx_stream_stop_func.
Print Assumptions nx_stream_start_func.
Print Assumptions nx_channels_write_func.
Print Assumptions nx_ch_enable_int_func.
Print Assumptions nx_ch_disable_int_func.
Print Assumptions nx_ch_enable_list_func.
Print Assumptions nx_ch_disable_list_func.
Print Assumptions nx_ch_disable_all_func.
Print Assumptions nx_ch_divider_int_func.
Print Assumptions nx_channels_default_cfg_func.
Print Assumptions nx_dev_channel_get_func.
Print Assumptions nx_disconnect_func.
Print Assumptions nx_disconnect_streaming_func.

(** Device description: decode (encode cfg) = cfg (C06). *)
From Coq Require Import Lia ZifyBool ZifyNat ZifyN String.
From NX Require Import Bytes PyStruct Crc Frame Wire Request Info Utf8 Bytes_proofs Crc_proofs
  Frame_proofs Dispatch_proofs PyStruct_proofs Request_proofs Utf8_proofs.
From NX Require Gen_req.
Ltac Zify.zify_post_hook ::= Z.to_euclidean_division_equations.
Open Scope string_scope.
Open Scope list_scope.
Open Scope Z_scope.

Definition u8 (z : Z) : Prop := 0 <= z < 256.

(** ** common info *)
Lemma gen_cmninfo_fmt : parse_fmt Gen_req.cmninfo_fmt = Some (mkFmt LE true [mkItem 1 CB; mkItem 1 CB; mkItem 1 CB]).
Proof. reflexivity. Qed.
Lemma gen_cmninfo_dec_fmt : parse_fmt Gen_req.cmninfo_dec_fmt = Some (mkFmt LE true [mkItem 1 CB; mkItem 1 CB; mkItem 1 CB]).
Proof. reflexivity. Qed.

Lemma cmninfo_data_ok a b c : u8 a -> u8 b -> u8 c ->
  cmninfo_data_encode a b c = Ok [Z.to_N a; Z.to_N b; Z.to_N c].
Proof.
  unfold u8. intros Ha Hb Hc. unfold cmninfo_data_encode, spack. rewrite gen_cmninfo_fmt. unfold pack.
  cbn [fend fitems pack_items pack_item icode icnt pack_many].
  rewrite (pack_u8 LE a), (pack_u8 LE b), (pack_u8 LE c) by lia. reflexivity.
Qed.

Lemma cmninfo_decode_ok a b c : u8 a -> u8 b -> u8 c ->
  frame_cmninfo_decode 2 [Z.to_N a; Z.to_N b; Z.to_N c] = Ok (Some (a, b, c)).
Proof.
  unfold u8. intros Ha Hb Hc. unfold frame_cmninfo_decode.
  change (id_of "CMNINFO") with 2. cbn [Z.eqb Pos.eqb negb].
  change Gen_req.cmninfo_dec_len with 3.
  rewrite slice_to_all by (unfold zlen; cbn [length]; lia).
  unfold sunpack. rewrite gen_cmninfo_dec_fmt.
  unfold unpack. cbn [length calcsize fitems fold_right item_size icnt icode code_size Nat.mul Nat.add Nat.eqb].
  replace (wf_bytesb [Z.to_N a; Z.to_N b; Z.to_N c]) with true
    by (unfold wf_bytesb, is_byte; cbn [forallb]; lia).
  cbn [andb fend unpack_items unpack_item icode icnt item_size code_size Nat.mul Nat.add
       firstn skipn unpack_many unpack_one code_signed dec le_dec app bind].
  replace (Z.to_N a + 256 * 0)%N with (Z.to_N a) by lia.
  replace (Z.to_N b + 256 * 0)%N with (Z.to_N b) by lia.
  replace (Z.to_N c + 256 * 0)%N with (Z.to_N c) by lia.
  rewrite !Z2N.id by lia. reflexivity.
Qed.

(** the response frame, received and decoded by the client's frame codec, then by the parser *)
Theorem cmninfo_roundtrip a b c : u8 a -> u8 b -> u8 c ->
  exists payload,
    frame_cmninfo_encode a b c = Ok (wire 2 payload) /\
    frame_decode (wire 2 payload) = Ok (2, payload) /\
    frame_cmninfo_decode 2 payload = Ok (Some (a, b, c)).
Proof.
  intros Ha Hb Hc. exists [Z.to_N a; Z.to_N b; Z.to_N c].
  unfold frame_cmninfo_encode. rewrite cmninfo_data_ok by assumption. cbn [bind].
  change (id_of "CMNINFO") with 2.
  rewrite frame_create_layout by (unfold payload_fits, zlen; cbn [length]; lia).
  split; [reflexivity|]. split.
  - apply (frame_roundtrip 2); [lia| |unfold payload_fits, zlen; cbn [length]; lia].
    unfold u8 in *. repeat (apply Forall_cons; [lia|]). apply Forall_nil.
  - apply cmninfo_decode_ok; assumption.
Qed.

(** ** acknowledgement *)
Lemma gen_ack_fmt : parse_fmt Gen_req.ack_fmt = Some (mkFmt LE true [mkItem 1 Ci]).
Proof. reflexivity. Qed.
Lemma gen_ack_dec_fmt : parse_fmt Gen_req.ack_dec_fmt = Some (mkFmt LE true [mkItem 1 Ci]).
Proof. reflexivity. Qed.

Definition i32 (z : Z) : Prop := -2147483648 <= z < 2147483648.

Theorem ack_roundtrip r : i32 r ->
  exists payload,
    frame_ack_encode r = Ok (wire 4 payload) /\
    frame_decode (wire 4 payload) = Ok (4, payload) /\
    frame_ack_decode 4 payload = Ok (Some (if r =? 0 then (true, 0) else (false, r))).
Proof.
  unfold i32. intros Hr.
  assert (Hin : in_signed 4 r = true).
  { unfold in_signed. change (pow256 4) with 4294967296%N. lia. }
  destruct (pack_ints_ok LE Ci 1 [r] eq_refl eq_refl) as (b & Hb & Hub).
  { constructor; [exact Hin|constructor]. }
  cbn [map] in Hb, Hub.
  assert (Hlen : length b = 4%nat).
  { pose proof (pack_many_length LE Ci 1 [VInt r] b [] Hb) as L. exact L. }
  assert (Hwf : wf_bytes b) by (apply (pack_many_wf LE Ci 1 [VInt r] b [] Hb)).
  exists b.
  unfold frame_ack_encode, spack. rewrite gen_ack_fmt. unfold pack.
  cbn [fend fitems pack_items pack_item icode icnt].
  rewrite Hb. rewrite app_nil_r. cbn [bind].
  change (id_of "ACK") with 4.
  rewrite frame_create_layout by (unfold payload_fits, zlen; lia).
  split; [reflexivity|]. split.
  - apply (frame_roundtrip 4); [lia|exact Hwf|unfold payload_fits, zlen; lia].
  - unfold frame_ack_decode. change (id_of "ACK") with 4. cbn [Z.eqb Pos.eqb negb].
    unfold sunpack. rewrite gen_ack_dec_fmt. unfold unpack.
    cbn [calcsize fitems fold_right item_size icnt icode code_size Nat.mul Nat.add].
    rewrite Hlen. cbn [Nat.eqb].
    replace (wf_bytesb b) with true by (symmetry; apply wf_bytesb_iff; exact Hwf).
    cbn [andb fend fitems unpack_items unpack_item icode icnt item_size code_size Nat.mul Nat.add].
    rewrite firstn_all2 by lia. rewrite Hub. cbn [app bind]. reflexivity.
Qed.

(** ** channel info *)
Lemma gen_chinfo_enc n : 0 <= n ->
  fmt_counted_tail Gen_req.chinfo_enc_prefix n Gen_req.chinfo_enc_suffix =
  Ok (mkFmt LE true [mkItem 1 Cbool; mkItem 1 CB; mkItem 1 CB; mkItem 1 CB; mkItem 1 CB;
                     mkItem (Z.to_nat n) Cs]).
Proof.
  intros Hn. unfold fmt_counted_tail.
  change (parse_fmt Gen_req.chinfo_enc_prefix)
    with (Some (mkFmt LE true [mkItem 1 Cbool; mkItem 1 CB; mkItem 1 CB; mkItem 1 CB; mkItem 1 CB])).
  change (parse_fmt Gen_req.chinfo_enc_suffix) with (Some (mkFmt LE true [mkItem 1 Cs])).
  replace (n <? 0) with false by lia. reflexivity.
Qed.

Lemma gen_chinfo_dec n : 0 <= n ->
  fmt_counted_tail Gen_req.chinfo_dec_prefix n Gen_req.chinfo_dec_suffix =
  Ok (mkFmt LE true [mkItem 1 CB; mkItem 1 CB; mkItem 1 CB; mkItem 1 CB; mkItem 1 CB;
                     mkItem (Z.to_nat n) Cs]).
Proof.
  intros Hn. unfold fmt_counted_tail.
  change (parse_fmt Gen_req.chinfo_dec_prefix)
    with (Some (mkFmt LE true [mkItem 1 CB; mkItem 1 CB; mkItem 1 CB; mkItem 1 CB; mkItem 1 CB])).
  change (parse_fmt Gen_req.chinfo_dec_suffix) with (Some (mkFmt LE true [mkItem 1 Cs])).
  replace (n <? 0) with false by lia. reflexivity.
Qed.

Definition cfg_ok (c : chan_cfg) : Prop :=
  u8 (c_type c) /\ u8 (c_vdim c) /\ u8 (c_div c) /\ u8 (c_mlen c).

Definition valid_text (l : list N) : Prop := Forall (fun c => valid_cp c = true) l.

Lemma valid_text_forallb l : valid_text l -> forallb valid_cp l = true.
Proof. intros H. apply forallb_forall. intros x Hx. unfold valid_text in H. rewrite Forall_forall in H. auto. Qed.

Definition chinfo_payload (c : chan_cfg) : bytes :=
  [b01 (c_en c); Z.to_N (c_type c); Z.to_N (c_vdim c); Z.to_N (c_div c); Z.to_N (c_mlen c)]
  ++ utf8_enc (c_name c).

Lemma chinfo_data_ok c : cfg_ok c -> valid_text (c_name c) ->
  chinfo_data_encode c = Ok (chinfo_payload c).
Proof.
  intros (Ht & Hv & Hd & Hm) Hn. unfold u8 in *.
  unfold chinfo_data_encode. rewrite valid_text_forallb by exact Hn. cbn [negb].
  rewrite gen_chinfo_enc by apply zlen_nonneg. cbn [bind].
  unfold pack. cbn [fend fitems pack_items pack_item icode icnt pack_many].
  change (pack_one LE Cbool (VBool (c_en c))) with (Some [if c_en c then 1%N else 0%N]).
  cbn iota beta.
  rewrite (pack_u8 LE (c_type c)) by lia. cbn iota beta.
  rewrite (pack_u8 LE (c_vdim c)) by lia. cbn iota beta.
  rewrite (pack_u8 LE (c_div c)) by lia. cbn iota beta.
  rewrite (pack_u8 LE (c_mlen c)) by lia. cbn iota beta.
  replace (wf_bytesb (utf8_enc (c_name c))) with true
    by (symmetry; apply wf_bytesb_iff, utf8_enc_wf; exact Hn).
  unfold zlen. rewrite Nat2Z.id.
  rewrite firstn_app, Nat.sub_diag, firstn_all. cbn [firstn app]. rewrite !app_nil_r.
  unfold chinfo_payload. destruct (c_en c); reflexivity.
Qed.

Lemma chinfo_payload_wf c : cfg_ok c -> valid_text (c_name c) -> wf_bytes (chinfo_payload c).
Proof.
  intros (Ht & Hv & Hd & Hm) Hn. unfold u8 in *. unfold chinfo_payload.
  apply wf_bytes_app; [|apply utf8_enc_wf; exact Hn].
  apply Forall_cons; [destruct (c_en c); cbn; lia|].
  repeat (apply Forall_cons; [lia|]). apply Forall_nil.
Qed.

Lemma utf8_enc_nil_inv l : utf8_enc l = [] -> l = [].
Proof.
  destruct l as [|c l]; [reflexivity|]. unfold utf8_enc. cbn [flat_map]. unfold utf8_enc1.
  destruct (c <? 128)%N; [discriminate|]. destruct (c <? 2048)%N; [discriminate|].
  destruct (c <? 65536)%N; discriminate.
Qed.

(** decoding what the device encoded: text followed by any number of NULs *)
Lemma chinfo_decode_ok c text k :
  cfg_ok c -> c_name c = text ++ repeat 0%N k ->
  valid_text text -> Forall (fun x => x <> 0%N) text ->
  frame_chinfo_decode 3 (chinfo_payload c) =
    Ok (Some (mkChan (c_en c) (c_type c) (c_vdim c) (c_div c) (c_mlen c) text)).
Proof.
  intros Hc Hname Htext Hnz.
  assert (Hn : valid_text (c_name c)).
  { rewrite Hname. unfold valid_text in *. apply Forall_app. split; [exact Htext|].
    apply Forall_forall. intros x Hx. apply repeat_spec in Hx. subst. reflexivity. }
  pose proof (chinfo_payload_wf c Hc Hn) as Hwf.
  destruct Hc as (Ht & Hv & Hd & Hm). unfold u8 in *.
  unfold frame_chinfo_decode. change (id_of "CHINFO") with 3. cbn [Z.eqb Pos.eqb negb].
  change Gen_req.chinfo_dec_hdr with 5.
  set (nb := utf8_enc (c_name c)) in *.
  assert (Hl : zlen (chinfo_payload c) = 5 + zlen nb).
  { unfold chinfo_payload, zlen. fold nb. rewrite app_length. cbn [length]. lia. }
  rewrite Hl. replace (5 + zlen nb - 5) with (zlen nb) by lia.
  rewrite gen_chinfo_dec by apply zlen_nonneg. cbn [bind].
  unfold unpack.
  replace (wf_bytesb (chinfo_payload c)) with true by (symmetry; apply wf_bytesb_iff; exact Hwf).
  replace (Nat.eqb (length (chinfo_payload c)) _) with true.
  2:{ symmetry. apply Nat.eqb_eq. unfold calcsize, item_size. cbn [fitems fold_right icnt icode code_size].
      unfold zlen in *. lia. }
  cbn [andb fend fitems]. unfold chinfo_payload. fold nb.
  cbn [app unpack_items unpack_item icode icnt item_size code_size Nat.mul Nat.add
       firstn skipn unpack_many unpack_one code_signed dec le_dec].
  unfold zlen. rewrite Nat2Z.id, Nat.mul_1_r, !firstn_all.
  rewrite !N.mul_0_r, !N.add_0_r, !Z2N.id by lia. cbn [app].
  replace (Z.of_N (b01 (c_en c)) =? 0) with (negb (c_en c)) by (destruct (c_en c); reflexivity).
  rewrite Bool.negb_involutive.
  destruct nb as [|x nb'] eqn:Enb.
  - apply utf8_enc_nil_inv in Enb. rewrite Hname in Enb.
    apply app_eq_nil in Enb. destruct Enb as [-> _]. reflexivity.
  - rewrite <- Enb. unfold nb. rewrite utf8_dec_enc by exact Hn.
    rewrite Hname, until_nul_app_nul by exact Hnz. reflexivity.
Qed.

Definition name_fits (name : list N) : Prop := zlen (utf8_enc name) <= 65524.

Theorem chinfo_roundtrip c text k :
  cfg_ok c -> c_name c = text ++ repeat 0%N k ->
  valid_text text -> Forall (fun x => x <> 0%N) text -> name_fits (c_name c) ->
  exists payload,
    frame_chinfo_encode c = Ok (wire 3 payload) /\
    frame_decode (wire 3 payload) = Ok (3, payload) /\
    frame_chinfo_decode 3 payload =
      Ok (Some (mkChan (c_en c) (c_type c) (c_vdim c) (c_div c) (c_mlen c) text)).
Proof.
  intros Hc Hname Htext Hnz Hfit.
  assert (Hn : valid_text (c_name c)).
  { rewrite Hname. unfold valid_text in *. apply Forall_app. split; [exact Htext|].
    apply Forall_forall. intros x Hx. apply repeat_spec in Hx. subst. reflexivity. }
  exists (chinfo_payload c).
  assert (Hl : zlen (chinfo_payload c) <= 65529).
  { unfold chinfo_payload, name_fits, zlen in *. rewrite app_length. cbn [length]. lia. }
  unfold frame_chinfo_encode. rewrite chinfo_data_ok by assumption. cbn [bind].
  change (id_of "CHINFO") with 3.
  rewrite frame_create_layout by (unfold payload_fits; lia).
  split; [reflexivity|]. split.
  - apply (frame_roundtrip 3); [lia|apply chinfo_payload_wf; assumption|exact Hl].
  - eapply chinfo_decode_ok; eassumption.
Qed.

(** Samples reach every subscriber exactly once and in device order (C08). *)
From Coq Require Import List ZArith Bool Lia.
From NX Require Import Deliver.
Import ListNotations.
Open Scope nat_scope.

Lemma qget_qput_same qs q g : qget (qput qs q g) q = qget qs q ++ [g].
Proof.
  induction qs as [|[q' l] r IH]; cbn.
  - now rewrite Nat.eqb_refl.
  - destruct (Nat.eqb q' q) eqn:E; cbn; rewrite E; [reflexivity|exact IH].
Qed.

Lemma qget_qput_other qs q g q2 : q2 <> q -> qget (qput qs q g) q2 = qget qs q2.
Proof.
  intros H. induction qs as [|[q' l] r IH]; cbn.
  - destruct (Nat.eqb q q2) eqn:E; [apply Nat.eqb_eq in E; congruence|reflexivity].
  - destruct (Nat.eqb q' q) eqn:E; cbn.
    + apply Nat.eqb_eq in E. subst q'. destruct (Nat.eqb q q2) eqn:E2; [apply Nat.eqb_eq in E2; congruence|reflexivity].
    + destruct (Nat.eqb q' q2); [reflexivity|exact IH].
Qed.

(** how many times queue q is subscribed to channel c *)
Definition mult (sb : list (nat * qid)) (c : nat) (q : qid) : nat :=
  length (filter (fun cq => Nat.eqb (fst cq) c && Nat.eqb (snd cq) q) sb).

Lemma fold_put sb : forall qs c g q,
  qget (fold_left (fun acc cq => if Nat.eqb (fst cq) c then qput acc (snd cq) g else acc) sb qs) q =
  qget qs q ++ repeat g (mult sb c q).
Proof.
  induction sb as [|[c' q'] sb IH]; intros qs c g q; cbn [fold_left].
  - unfold mult. cbn. now rewrite app_nil_r.
  - rewrite IH. unfold mult. cbn [filter fst snd].
    destruct (Nat.eqb c' c) eqn:Ec; cbn [andb].
    + destruct (Nat.eqb q' q) eqn:Eq.
      * apply Nat.eqb_eq in Eq. subst q'. rewrite qget_qput_same. cbn [length repeat]. now rewrite <- app_assoc.
      * rewrite qget_qput_other by (intros ->; rewrite Nat.eqb_refl in Eq; discriminate). reflexivity.
    + reflexivity.
Qed.

(** one channel's step: every queue subscribed to c gets the group once per
    subscription, every other queue is untouched; nothing happens for an empty group *)
Lemma deliver_chan_spec f en sb c qs q :
  qget (deliver_chan f en sb c qs) q =
  qget qs q ++ match group c f en with [] => [] | g => repeat g (mult sb c q) end.
Proof.
  unfold deliver_chan. destruct (group c f en) as [|x g] eqn:E; [now rewrite app_nil_r|].
  apply fold_put.
Qed.

(** what a queue receives from one frame: the groups of its channels, in channel order *)
Definition received (f : sframe) (en : list bool) (sb : list (nat * qid)) (q : qid) (chans : list nat)
  : list (list Z) :=
  flat_map (fun c => match group c f en with [] => [] | g => repeat g (mult sb c q) end) chans.

Lemma fold_deliver f en sb q chans : forall qs,
  qget (fold_left (fun qs c => deliver_chan f en sb c qs) chans qs) q = qget qs q ++ received f en sb q chans.
Proof.
  induction chans as [|c chans IH]; intros qs; cbn [fold_left received flat_map].
  - now rewrite app_nil_r.
  - rewrite IH, deliver_chan_spec. unfold received. now rewrite <- app_assoc.
Qed.

Theorem deliver_spec s f q :
  qget (queues (deliver s f)) q =
  qget (queues s) q ++ received f (enabled s) (subs s) q (seq 0 (length (enabled s))).
Proof. unfold deliver. cbn [queues]. apply fold_deliver. Qed.

(** a sequence of frames (any length, any mix) with the subscriptions in place:
    the queue holds, after what it held, exactly the groups of each frame in
    frame order - no gap, no duplicate, no foreign group *)
Theorem deliver_many fs : forall s q,
  qget (queues (fold_left deliver fs s)) q =
  qget (queues s) q ++
  flat_map (fun f => received f (enabled s) (subs s) q (seq 0 (length (enabled s)))) fs.
Proof.
  induction fs as [|f fs IH]; intros s q; cbn [fold_left flat_map].
  - now rewrite app_nil_r.
  - rewrite IH, deliver_spec. cbn [deliver subs enabled]. now rewrite <- app_assoc.
Qed.

(** a queue that is subscribed exactly once, to channel c only, receives for each
    frame the samples of c (if c is enabled and the frame has any), nothing else *)
Lemma received_single f en sb q c n :
  c < n -> mult sb c q = 1 -> (forall c', c' <> c -> mult sb c' q = 0) ->
  received f en sb q (seq 0 n) = match group c f en with [] => [] | g => [g] end.
Proof.
  intros Hc H1 H0. unfold received.
  assert (G : forall a m, a <= c < a + m ->
    flat_map (fun c0 => match group c0 f en with [] => [] | g => repeat g (mult sb c0 q) end) (seq a m) =
    match group c f en with [] => [] | g => [g] end).
  { intros a m. revert a. induction m as [|m IH]; intros a Ha; [lia|].
    cbn [seq flat_map]. destruct (Nat.eq_dec a c) as [->|Ne].
    - rewrite H1.
      assert (Z0 : flat_map (fun c0 => match group c0 f en with [] => [] | g => repeat g (mult sb c0 q) end) (seq (S c) m) = []).
      { clear IH Ha. generalize (S c) as a, (Nat.lt_succ_diag_r c). intros a. revert a.
        induction m as [|m IHm]; intros a Ha; [reflexivity|]. cbn [seq flat_map].
        rewrite (H0 a) by lia. rewrite IHm by lia. destruct (group a f en); reflexivity. }
      rewrite Z0, app_nil_r. destruct (group c f en); reflexivity.
    - rewrite (H0 a Ne). rewrite IH by lia. destruct (group a f en); reflexivity. }
  apply G. lia.
Qed.

(** frames that carry no samples, only samples of other / disabled channels, or
    just the overflow flag leave every queue unchanged *)
Theorem nothing_for_queue s f q :
  (forall c, mult (subs s) c q > 0 -> group c f (enabled s) = []) ->
  qget (queues (deliver s f)) q = qget (queues s) q.
Proof.
  intros H. rewrite deliver_spec.
  assert (E : forall chans, received f (enabled s) (subs s) q chans = []).
  { induction chans as [|c chans IH]; [reflexivity|]. unfold received in *. cbn [flat_map]. rewrite IH, app_nil_r.
    destruct (group c f (enabled s)) as [|x g] eqn:Eg; [reflexivity|].
    destruct (mult (subs s) c q) eqn:Em; [reflexivity|].
    rewrite H in Eg by lia. discriminate. }
  now rewrite E, app_nil_r.
Qed.

Lemma group_no_samples c en fl : group c (mkSF fl []) en = [].
Proof. unfold group. destruct (nth c en false); reflexivity. Qed.

Theorem empty_frame_harmless s fl q : qget (queues (deliver s (mkSF fl []))) q = qget (queues s) q.
Proof. apply nothing_for_queue. intros c _. apply group_no_samples. Qed.

(** unsubscribed queues and queues of other channels get nothing *)
Lemma mult_unsub sb c q : mult (filter (fun cq => negb (Nat.eqb (snd cq) q)) sb) c q = 0.
Proof.
  unfold mult. induction sb as [|[c' q'] sb IH]; [reflexivity|]. cbn [filter snd].
  destruct (Nat.eqb q' q) eqn:E; cbn [negb]; [exact IH|]. cbn [filter fst snd]. rewrite E, andb_false_r. exact IH.
Qed.

Theorem unsubscribed_gets_nothing s q f :
  qget (queues (deliver (unsubscribe s q) f)) q = qget (queues s) q.
Proof.
  rewrite nothing_for_queue; [reflexivity|]. intros c H. cbn [unsubscribe subs] in H. rewrite mult_unsub in H. lia.
Qed.

(** subscribing appends one subscription and does not disturb the others *)
Lemma mult_sub sb c q c' q' :
  mult (sb ++ [(c, q)]) c' q' = mult sb c' q' + if Nat.eqb c c' && Nat.eqb q q' then 1 else 0.
Proof. unfold mult. rewrite filter_app, app_length. cbn [filter fst snd]. destruct (Nat.eqb c c' && Nat.eqb q q'); reflexivity. Qed.

(** ** the pipeline is FIFO: what has been delivered, what waits in the stream
    queue and what waits on the wire are, in this order, exactly what the device sent *)
Theorem pipeline_fifo tr : forall p p',
  prun tr p = Some p' ->
  done_q p' ++ stream_q p' ++ wire_q p' = done_q p ++ stream_q p ++ wire_q p ++ sent tr.
Proof.
  induction tr as [|l tr IH]; intros p p' H; cbn in H.
  - inversion H; subst. cbn. now rewrite app_nil_r.
  - destruct (pstep p l) as [p1|] eqn:E; [|discriminate].
    rewrite (IH p1 p' H). destruct l as [f| |]; cbn in E.
    + inversion E; subst. cbn. now rewrite <- !app_assoc.
    + destruct (wire_q p) as [|f r] eqn:W; [discriminate|]. inversion E; subst. cbn. now rewrite <- !app_assoc.
    + destruct (stream_q p) as [|f r] eqn:W; [discriminate|]. inversion E; subst. cbn. now rewrite <- !app_assoc.
Qed.

(** progress: as long as something is in flight one of the two library threads can step;
    draining terminates after at most 2 * in-flight steps *)
Theorem pipeline_progress p : wire_q p <> [] \/ stream_q p <> [] ->
  (exists p', pstep p PRoute = Some p') \/ (exists p', pstep p PTake = Some p').
Proof.
  intros [H|H].
  - left. cbn. destruct (wire_q p); [congruence|eauto].
  - right. cbn. destruct (stream_q p); [congruence|eauto].
Qed.

Fixpoint drain (fuel : nat) (p : pipe) : pipe :=
  match fuel with
  | O => p
  | S f => match pstep p PRoute with
           | Some p' => drain f p'
           | None => match pstep p PTake with Some p' => drain f p' | None => p end
           end
  end.

Theorem drain_delivers p :
  let p' := drain (2 * length (wire_q p) + length (stream_q p)) p in
  wire_q p' = [] /\ stream_q p' = [] /\ done_q p' = done_q p ++ stream_q p ++ wire_q p.
Proof.
  cbn zeta. remember (2 * length (wire_q p) + length (stream_q p)) as n eqn:Hn.
  revert p Hn. induction n as [|n IH]; intros p Hn.
  - assert (W : wire_q p = []) by (destruct (wire_q p); [reflexivity|cbn in Hn; lia]).
    assert (S : stream_q p = []) by (destruct (stream_q p); [reflexivity|cbn in Hn; lia]).
    cbn [drain]. rewrite W, S. repeat split; try reflexivity. now rewrite !app_nil_r.
  - cbn [drain pstep]. destruct (wire_q p) as [|f r] eqn:W.
    + destruct (stream_q p) as [|g s] eqn:S; [cbn in Hn; lia|].
      cbn in Hn. specialize (IH (mkP [] s (done_q p ++ [g])) ltac:(cbn; lia)).
      cbn in IH. destruct IH as (A & B & C). repeat split; try assumption. rewrite C. rewrite <- app_assoc. reflexivity.
    + cbn [length] in Hn.
      specialize (IH (mkP r (stream_q p ++ [f]) (done_q p)) ltac:(cbn; rewrite app_length; cbn; lia)).
      cbn in IH. destruct IH as (A & B & C). repeat split; try assumption. rewrite C. rewrite <- app_assoc. reflexivity.
Qed.

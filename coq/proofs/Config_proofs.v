(** Buffered configuration reaches the device exactly at write time (C07);
    failed requests never advance the view and an acknowledged write converges (C11). *)
From Coq Require Import List ZArith Bool Lia.
From NX Require Import Config.
Import ListNotations.
Open Scope Z_scope.

Lemma set_nth_length {A} (l : list A) i x : length (set_nth l i x) = length l.
Proof. revert i; induction l as [|y l IH]; intros [|i]; cbn; auto. Qed.

Lemma set_many_length {A} cs : forall (l : list A) x, length (set_many l cs x) = length l.
Proof.
  unfold set_many. induction cs as [|k cs IH]; intros l x; cbn; [reflexivity|].
  rewrite IH. apply set_nth_length.
Qed.

(** the diff: if exactly one position differs, writing that position of [now]
    gives [new] *)
Lemma diff_scan_spec {A} (eqb : A -> A -> bool) (eqb_eq : forall a b, eqb a b = true <-> a = b) (dflt : A) :
  forall new now i j k j' k',
  length new = length now ->
  diff_scan eqb new now i j k = (j', k') ->
  (j' = j -> new = now) /\
  (j' = S j -> (i <= k')%nat /\ set_nth now (k' - i) (nth (k' - i) new dflt) = new) /\
  (j <= j')%nat.
Proof.
  induction new as [|a new IH]; intros [|b now] i j k j' k' Hlen H; try discriminate.
  - cbn in H. inversion H; subst. repeat split; auto; intros; lia.
  - cbn [diff_scan] in H. cbn [length] in Hlen. assert (Hl : length new = length now) by lia.
    destruct (eqb a b) eqn:E.
    + apply eqb_eq in E. subst b.
      destruct (IH now (S i) j k j' k' Hl H) as (H0 & H1 & H2).
      split; [intros ->; f_equal; auto|]. split; [|exact H2].
      intros Hj. destruct (H1 Hj) as [Hle Hs]. split; [lia|].
      replace (k' - i)%nat with (S (k' - S i)) by lia. cbn [set_nth nth]. f_equal. exact Hs.
    + destruct (IH now (S i) (S j) i j' k' Hl H) as (H0 & H1 & H2).
      split; [intros ->; lia|]. split; [|lia].
      intros Hj. assert (E2 : new = now) by (apply H0; exact Hj).
      (* the only difference is here: k' = i *)
      assert (Hk : k' = i).
      { clear -H E2 Hl eqb_eq. subst now.
        assert (G : forall (l : list A) i0 j0 k0, diff_scan eqb l l i0 j0 k0 = (j0, k0)).
        { induction l as [|x l IHl]; intros; cbn; [reflexivity|].
          replace (eqb x x) with true by (symmetry; apply eqb_eq; reflexivity). apply IHl. }
        rewrite G in H. inversion H. reflexivity. }
      subst k'. split; [lia|]. rewrite Nat.sub_diag. cbn [set_nth nth]. f_equal. symmetry. exact E2.
Qed.

Lemma bool_eqb_iff a b : Bool.eqb a b = true <-> a = b.
Proof. split; [apply Bool.eqb_prop|intros ->; apply Bool.eqb_reflx]. Qed.

(** ** invariant *)
Definition Inv (s : client * device) : Prop :=
  let '(c, d) := s in
  length (en_now c) = length (d_en d) /\ length (en_new c) = length (d_en d) /\
  length (div_now c) = length (d_div d) /\ length (div_new c) = length (d_div d) /\
  (en_sync c = true -> d_en d = en_now c) /\
  (div_sync c = true -> d_div d = div_now c).

Lemma Inv_connected en dv ds acs : Inv (connected en dv ds acs).
Proof. cbn. repeat split; auto. Qed.

Definition good_answer (d : device) (a : answer) : Prop := d_ack_supported d = false -> a = Ack.

Lemma transmit_flags d r a : d_div_supported (fst (transmit d r a)) = d_div_supported d /\
                             d_ack_supported (fst (transmit d r a)) = d_ack_supported d.
Proof.
  unfold transmit. destruct (d_ack_supported d) eqn:E; cbn [negb].
  - destruct a; cbn [fst]; try (split; [reflexivity|exact E]); destruct r; cbn; auto.
  - destruct r; cbn; auto.
Qed.

(** the enable half of a write *)
Lemma write_enable_inv c d a :
  Inv (c, d) -> Inv (write_enable c d a).
Proof.
  intros (L1 & L2 & L3 & L4 & S1 & S2). unfold write_enable.
  destruct (diff_scan Bool.eqb (en_new c) (en_now c) 0 0 0) as [j k] eqn:D.
  pose proof (diff_scan_spec Bool.eqb bool_eqb_iff false (en_new c) (en_now c) 0 0 0 j k ltac:(lia) D)
    as (D0 & D1 & _).
  destruct (Nat.eqb j 1 && en_sync c) eqn:Single.
  - apply andb_prop in Single as [J Sy]. apply Nat.eqb_eq in J. subst j.
    destruct (D1 eq_refl) as [_ Hset]. rewrite Nat.sub_0_r in Hset.
    specialize (S1 Sy).
    unfold transmit. destruct (d_ack_supported d); cbn [negb].
    + destruct a; cbn [apply_req fst snd d_en d_div]; cbn;
        repeat split; auto; try lia; try (intros _; rewrite S1; exact Hset);
        try (rewrite set_nth_length; lia); try discriminate.
    + cbn. repeat split; auto; try lia; try (intros _; rewrite S1; exact Hset);
        try (rewrite set_nth_length; lia).
  - unfold transmit. destruct (d_ack_supported d); cbn [negb].
    + destruct a; cbn; repeat split; auto; try lia; try discriminate.
    + cbn. repeat split; auto; try lia.
Qed.

Lemma write_div_inv c d a :
  Inv (c, d) -> Inv (write_div c d a).
Proof.
  intros (L1 & L2 & L3 & L4 & S1 & S2). unfold write_div.
  destruct (diff_scan Z.eqb (div_new c) (div_now c) 0 0 0) as [j k] eqn:D.
  pose proof (diff_scan_spec Z.eqb Z.eqb_eq 0 (div_new c) (div_now c) 0 0 0 j k ltac:(lia) D)
    as (D0 & D1 & _).
  destruct (Nat.eqb j 1 && div_sync c) eqn:Single.
  - apply andb_prop in Single as [J Sy]. apply Nat.eqb_eq in J. subst j.
    destruct (D1 eq_refl) as [_ Hset]. rewrite Nat.sub_0_r in Hset.
    specialize (S2 Sy).
    unfold transmit. destruct (d_ack_supported d); cbn [negb].
    + destruct a; cbn; repeat split; auto; try lia; try (intros _; rewrite S2; exact Hset);
        try (rewrite set_nth_length; lia); try discriminate.
    + cbn. repeat split; auto; try lia; try (intros _; rewrite S2; exact Hset);
        try (rewrite set_nth_length; lia).
  - unfold transmit. destruct (d_ack_supported d); cbn [negb].
    + destruct a; cbn; repeat split; auto; try lia; try discriminate.
    + cbn. repeat split; auto; try lia.
Qed.

Lemma step_inv s o : Inv s -> Inv (step s o).
Proof.
  destruct s as [c d]. intros H. destruct o; cbn [step].
  - destruct H as (L1 & L2 & L3 & L4 & S1 & S2). cbn. rewrite set_many_length. repeat split; auto.
  - destruct H as (L1 & L2 & L3 & L4 & S1 & S2). cbn. rewrite set_many_length. repeat split; auto.
  - destruct H as (L1 & L2 & L3 & L4 & S1 & S2). cbn. rewrite set_many_length. repeat split; auto.
  - destruct H as (L1 & L2 & L3 & L4 & S1 & S2). cbn. rewrite map_length. repeat split; auto.
  - destruct H as (L1 & L2 & L3 & L4 & S1 & S2). cbn. rewrite map_length. repeat split; auto.
  - destruct H as (L1 & L2 & L3 & L4 & S1 & S2). cbn. rewrite !map_length. repeat split; auto.
  - unfold write. destruct (d_div_supported d).
    + destruct (write_div c d a_div) as [c1 d1] eqn:E.
      apply write_enable_inv. rewrite <- E. apply write_div_inv. exact H.
    + apply write_enable_inv. exact H.
Qed.

Theorem run_inv ops : forall s, Inv s -> Inv (run s ops).
Proof. unfold run. induction ops as [|o ops IH]; intros s H; cbn; [exact H|]. apply IH, step_inv, H. Qed.

(** ** C07 (a): nothing but a write touches the device *)
Definition is_write (o : op) : bool := match o with OpWrite _ _ => true | _ => false end.

Theorem nonwrite_device_unchanged s o : is_write o = false -> snd (step s o) = snd s.
Proof. destruct s as [c d]. destruct o; cbn; try reflexivity. discriminate. Qed.

(** ** C07 (b) / C11 (c): an acknowledged write brings device = requested = reported *)
Definition acked (d : device) (a : answer) : Prop := a = Ack \/ d_ack_supported d = false.

Lemma write_enable_acked c d a : Inv (c, d) -> acked d a ->
  let '(c', d') := write_enable c d a in
  d_en d' = en_new c /\ en_now c' = en_new c /\ en_new c' = en_new c /\ en_sync c' = true /\
  d_div d' = d_div d /\ div_now c' = div_now c /\ div_new c' = div_new c /\ div_sync c' = div_sync c.
Proof.
  intros (L1 & L2 & L3 & L4 & S1 & S2) Ha. unfold write_enable.
  destruct (diff_scan Bool.eqb (en_new c) (en_now c) 0 0 0) as [j k] eqn:D.
  pose proof (diff_scan_spec Bool.eqb bool_eqb_iff false (en_new c) (en_now c) 0 0 0 j k ltac:(lia) D)
    as (D0 & D1 & _).
  assert (T : forall r, transmit d r a = (apply_req d r, true)).
  { intros r. unfold transmit. destruct Ha as [-> | ->]; [destruct (d_ack_supported d); reflexivity|reflexivity]. }
  destruct (Nat.eqb j 1 && en_sync c) eqn:Single.
  - apply andb_prop in Single as [J Sy]. apply Nat.eqb_eq in J. subst j.
    destruct (D1 eq_refl) as [_ Hset]. rewrite Nat.sub_0_r in Hset. specialize (S1 Sy).
    rewrite T. cbn. rewrite S1. repeat split; auto.
  - rewrite T. cbn. repeat split; auto.
Qed.

Lemma write_div_acked c d a : Inv (c, d) -> acked d a ->
  let '(c', d') := write_div c d a in
  d_div d' = div_new c /\ div_now c' = div_new c /\ div_new c' = div_new c /\ div_sync c' = true /\
  d_en d' = d_en d /\ en_now c' = en_now c /\ en_new c' = en_new c /\ en_sync c' = en_sync c /\
  d_ack_supported d' = d_ack_supported d.
Proof.
  intros (L1 & L2 & L3 & L4 & S1 & S2) Ha. unfold write_div.
  destruct (diff_scan Z.eqb (div_new c) (div_now c) 0 0 0) as [j k] eqn:D.
  pose proof (diff_scan_spec Z.eqb Z.eqb_eq 0 (div_new c) (div_now c) 0 0 0 j k ltac:(lia) D)
    as (D0 & D1 & _).
  assert (T : forall r, transmit d r a = (apply_req d r, true)).
  { intros r. unfold transmit. destruct Ha as [-> | ->]; [destruct (d_ack_supported d); reflexivity|reflexivity]. }
  destruct (Nat.eqb j 1 && div_sync c) eqn:Single.
  - apply andb_prop in Single as [J Sy]. apply Nat.eqb_eq in J. subst j.
    destruct (D1 eq_refl) as [_ Hset]. rewrite Nat.sub_0_r in Hset. specialize (S2 Sy).
    rewrite T. cbn. rewrite S2. repeat split; auto.
  - rewrite T. cbn. repeat split; auto.
Qed.

(** after ANY history (any answers), a write whose requests are acknowledged
    leaves device = requested = what the client reports *)
Theorem write_converges s0 ops a1 a2 :
  Inv s0 ->
  let '(c, d) := run s0 ops in
  acked d a1 -> acked d a2 ->
  let '(c', d') := write c d a1 a2 in
  d_en d' = en_new c /\ en_now c' = en_new c /\
  (d_div_supported d = true -> d_div d' = div_new c /\ div_now c' = div_new c) /\
  (d_div_supported d = false -> d_div d' = d_div d /\ div_now c' = div_now c).
Proof.
  intros H0. pose proof (run_inv ops s0 H0) as HI.
  destruct (run s0 ops) as [c d]. intros A1 A2. unfold write.
  destruct (d_div_supported d) eqn:DS.
  - pose proof (write_div_acked c d a1 HI A1) as W1.
    pose proof (write_div_inv c d a1 HI) as I1.
    destruct (write_div c d a1) as [c1 d1].
    destruct W1 as (E1 & E2 & E3 & E4 & E5 & E6 & E7 & E8 & E9).
    assert (A2' : acked d1 a2) by (destruct A2 as [->|A2]; [left; reflexivity|right; congruence]).
    pose proof (write_enable_acked c1 d1 a2 I1 A2') as W2.
    destruct (write_enable c1 d1 a2) as [c2 d2].
    destruct W2 as (F1 & F2 & F3 & F4 & F5 & F6 & F7 & F8).
    split; [congruence|]. split; [congruence|]. split; [intros _; split; congruence|discriminate].
  - pose proof (write_enable_acked c d a2 HI A2) as W2.
    destruct (write_enable c d a2) as [c2 d2].
    destruct W2 as (F1 & F2 & F3 & F4 & F5 & F6 & F7 & F8).
    split; [assumption|]. split; [assumption|]. split; [discriminate|]. intros _. split; assumption.
Qed.

(** ** C07 (c): writing again without new requests leaves the device state as it is *)
Theorem write_idempotent c d a1 a2 a3 a4 :
  Inv (c, d) -> acked d a1 -> acked d a2 ->
  let '(c1, d1) := write c d a1 a2 in
  acked d1 a3 -> acked d1 a4 ->
  let '(c2, d2) := write c1 d1 a3 a4 in
  d_en d2 = d_en d1 /\ d_div d2 = d_div d1 /\ en_now c2 = en_now c1 /\ div_now c2 = div_now c1.
Proof.
  intros HI A1 A2.
  pose proof (write_converges (c, d) [] a1 a2 HI) as W. cbn [run fold_left] in W.
  specialize (W A1 A2).
  assert (I1 : Inv (write c d a1 a2)) by (apply (step_inv (c, d) (OpWrite a1 a2)); exact HI).
  destruct (write c d a1 a2) as [c1 d1] eqn:E1.
  intros A3 A4.
  pose proof (write_converges (c1, d1) [] a3 a4 I1) as W2. cbn [run fold_left] in W2.
  specialize (W2 A3 A4).
  destruct (write c1 d1 a3 a4) as [c2 d2] eqn:E2.
  destruct W as (U1 & U2 & U3 & U4). destruct W2 as (V1 & V2 & V3 & V4).
  (* en_new c1 = en_new c and div_new c1 = div_new c *)
  assert (N1 : en_new c1 = en_new c /\ div_new c1 = div_new c /\ d_div_supported d1 = d_div_supported d).
  { clear -E1. unfold write in E1.
    destruct (d_div_supported d) eqn:DS.
    - unfold write_div, write_enable in E1.
      destruct (diff_scan Z.eqb (div_new c) (div_now c) 0 0 0) as [j k].
      destruct (transmit d _ a1) as [dd ok] eqn:T1.
      pose proof (transmit_flags d (if Nat.eqb j 1 && div_sync c then RqDivSingle k (nth k (div_new c) 0) else RqDivVec (div_new c)) a1) as [TF _].
      rewrite T1 in TF. cbn [fst] in TF.
      destruct ok; cbn in E1;
        (destruct (diff_scan Bool.eqb _ _ 0 0 0) as [j2 k2];
         match type of E1 with context [transmit dd ?r a2] =>
           pose proof (transmit_flags dd r a2) as [TF2 _]; destruct (transmit dd r a2) as [d3 ok2] end;
         cbn [fst] in TF2; destruct ok2; inversion E1; subst; cbn; repeat split; congruence).
    - unfold write_enable in E1.
      destruct (diff_scan Bool.eqb _ _ 0 0 0) as [j2 k2].
      match type of E1 with context [transmit d ?r a2] =>
        pose proof (transmit_flags d r a2) as [TF2 _]; destruct (transmit d r a2) as [d3 ok2] end.
      cbn [fst] in TF2. destruct ok2; inversion E1; subst; cbn; repeat split; congruence. }
  destruct N1 as (N1 & N2 & N3).
  destruct (d_div_supported d) eqn:DS.
  - destruct (U3 eq_refl) as [U5 U6]. rewrite N3 in V3. destruct (V3 eq_refl) as [V5 V6].
    repeat split; congruence.
  - destruct (U4 eq_refl) as [U5 U6]. rewrite N3 in V4. destruct (V4 eq_refl) as [V5 V6].
    repeat split; congruence.
Qed.

(** ** C07 (d): no divider request ever reaches a device without divider support *)
Definition is_div_req (r : req) : bool :=
  match r with RqDivSingle _ _ | RqDivVec _ => true | _ => false end.

Lemma transmit_log d r a :
  is_div_req r = false ->
  forallb (fun r => negb (is_div_req r)) (d_log d) = true ->
  forallb (fun r => negb (is_div_req r)) (d_log (fst (transmit d r a))) = true.
Proof.
  intros Hr HL.
  assert (A : forallb (fun r => negb (is_div_req r)) (d_log (apply_req d r)) = true).
  { destruct r; try discriminate; cbn; rewrite forallb_app, HL; reflexivity. }
  unfold transmit. destruct (d_ack_supported d); cbn [negb fst]; [|exact A].
  destruct a; cbn [fst]; assumption.
Qed.

Lemma step_no_div s o :
  d_div_supported (snd s) = false ->
  forallb (fun r => negb (is_div_req r)) (d_log (snd s)) = true ->
  d_div_supported (snd (step s o)) = false /\
  forallb (fun r => negb (is_div_req r)) (d_log (snd (step s o))) = true.
Proof.
  destruct s as [c d]. cbn [snd]. intros DS HL. destruct o; cbn [step snd]; auto.
  unfold write. rewrite DS. unfold write_enable.
  destruct (diff_scan Bool.eqb _ _ 0 0 0) as [j k].
  set (r := if Nat.eqb j 1 && en_sync c then RqEnSingle k (nth k (en_new c) false) else RqEnVec (en_new c)).
  assert (Hr : is_div_req r = false) by (unfold r; destruct (Nat.eqb j 1 && en_sync c); reflexivity).
  pose proof (transmit_log d r a_en Hr HL) as TL.
  pose proof (transmit_flags d r a_en) as [TF _].
  destruct (transmit d r a_en) as [d' ok]. cbn [fst] in TL, TF.
  destruct ok; cbn [snd]; split; congruence.
Qed.

Theorem never_div_when_unsupported ops : forall s,
  d_div_supported (snd s) = false ->
  forallb (fun r => negb (is_div_req r)) (d_log (snd s)) = true ->
  forallb (fun r => negb (is_div_req r)) (d_log (snd (run s ops))) = true.
Proof.
  unfold run. induction ops as [|o ops IH]; intros s DS HL; cbn; [exact HL|].
  destruct (step_no_div s o DS HL) as [D1 L1]. apply IH; assumption.
Qed.

(** ** C11 (b): a failed request leaves the client's view where it was *)
Theorem failed_request_keeps_view c d a1 a2 :
  d_ack_supported d = true -> a1 <> Ack -> a2 <> Ack ->
  let '(c', _) := write c d a1 a2 in
  en_now c' = en_now c /\ div_now c' = div_now c.
Proof.
  intros AS N1 N2. unfold write.
  assert (F : forall dd r a, d_ack_supported dd = true -> a <> Ack -> snd (transmit dd r a) = false).
  { intros dd r a H Ha. unfold transmit. rewrite H. cbn. destruct a; try reflexivity. congruence. }
  destruct (d_div_supported d).
  - unfold write_div. destruct (diff_scan Z.eqb _ _ 0 0 0) as [j k].
    match goal with |- context [transmit d ?r a1] =>
      pose proof (F d r a1 AS N1) as F1; pose proof (transmit_flags d r a1) as [_ TA];
      destruct (transmit d r a1) as [d1 ok] end.
    cbn [snd fst] in F1, TA. subst ok. rewrite AS in TA.
    unfold write_enable. cbn [en_new en_now en_sync].
    destruct (diff_scan Bool.eqb _ _ 0 0 0) as [j2 k2].
    match goal with |- context [transmit d1 ?r a2] =>
      pose proof (F d1 r a2 TA N2) as F2; destruct (transmit d1 r a2) as [d2 ok2] end.
    cbn [snd] in F2. subst ok2. cbn. split; reflexivity.
  - unfold write_enable. destruct (diff_scan Bool.eqb _ _ 0 0 0) as [j2 k2].
    match goal with |- context [transmit d ?r a2] =>
      pose proof (F d r a2 AS N2) as F2; destruct (transmit d r a2) as [d2 ok2] end.
    cbn [snd] in F2. subst ok2. cbn. split; reflexivity.
Qed.

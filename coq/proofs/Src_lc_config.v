(** The connect / disconnect life cycle, part 4: the buffered channel
    configuration and the requests with acknowledgement
    (proofs/Src_config_base.v, Src_config_req.v) RE-PROVED ON THE COMPLETE
    CommHandler object [gcomm ..] of Src_lc_base.v: the readers and setters,
    [_ch_divider_default], [channels_default_cfg], [_get_frame], [_get_ack],
    [_channel_enable], [_channel_div], [stream_start], [stream_stop].  The
    statements and the proof scripts are those of the two files, with
      comm c dev w items  :=  gcomm started thrd ev w pad dropped dev items sitems [("_channels", chans_obj c)]
    for ANY values of the fields the methods do not touch. *)
From Coq Require Import String Ascii List ZArith NArith Bool Lia ZifyBool.
From NX Require Import Bytes PyStruct Crc PyLite PyLite_tactics PyLite_tactics_ext
  Src_dev Src_iparse Src_parse Src_comm Src_prelude Src_all
  Src_serialframe_proofs Src_parse_req_lemmas Src_records_proofs Src_config_base Src_config_req Src_lc_base.
From NX Require Src_parse_req_proofs Src_info_proofs.
From NX Require Frame Request Info Info_proofs Config Config_proofs Gen_frame Gen_req.
Import ListNotations.
Open Scope string_scope.
Open Scope Z_scope.

#[local] Hint Unfold pa RQ.pa IN.pa sf chans_obj gintf queue_obj gcomm
  dev_obj dev_obj' IN.ack_obj frame_obj perr_obj : cfg_model.
Ltac py_unfold_hook ::= autounfold with cfg_model.
#[local] Arguments norm_index : simpl never.
#[local] Arguments enum_id : simpl never.
#[local] Arguments dev_rec : simpl never.
#[local] Arguments div_sup : simpl never.
#[local] Arguments ack_sup : simpl never.

Ltac py_stuck_hook h ::=
  lazymatch h with
  | norm_index (List.length (map _ _)) _ => rewrite map_length
  | get_attr _ _ (dev_rec _ _ _) "chmax" => rewrite dev_rec_chmax
  | get_attr _ _ (dev_rec _ _ _) "div_supported" => rewrite dev_rec_div
  | get_attr _ _ (dev_rec _ _ _) "ack_supported" => rewrite dev_rec_ack
  end.

Section Config.
Variables (started thrd : pv) (ev : list string) (pad dropped : Z) (sitems : list pv).
Local Notation comm c dev w items :=
  (gcomm started thrd ev w pad dropped dev items sitems [("_channels", chans_obj c)]).

(** * Small things *)
Lemma dev_func n c dev w q :
  call_func program (S n) CommHandler_dev [comm c dev w q] [] = PyLite.Ok (dev, Some (comm c dev w q)).
Proof. pystart. pyrun. Qed.

#[local] Hint Resolve dev_func device_data_func : pyspec.

(** * 1. Readers and setters *)
Lemma ch_is_enabled_func n c dev w q k :
  call_func program (S n) CommHandler_ch_is_enabled [comm c dev w q; PInt k] [] =
  match norm_index (List.length (Config.en_now c)) k with
  | Some i => PyLite.Ok (PBool (nth i (Config.en_now c) false), Some (comm c dev w q))
  | None => ExcS "IndexError" (self_st (comm c dev w q))
  end.
Proof. pystart. pyrun. cfg_lists. reflexivity. Qed.

Lemma ch_div_get_func n c dev w q k :
  call_func program (S n) CommHandler_ch_div_get [comm c dev w q; PInt k] [] =
  match norm_index (List.length (Config.div_now c)) k with
  | Some i => PyLite.Ok (PInt (nth i (Config.div_now c) 0), Some (comm c dev w q))
  | None => ExcS "IndexError" (self_st (comm c dev w q))
  end.
Proof. pystart. pyrun. cfg_lists. reflexivity. Qed.

Lemma ch_enable_int_func n c dev w q k :
  call_func program (S n) CommHandler_ch_enable [comm c dev w q; PInt k] [] =
  match set_at (Config.en_new c) k true with
  | Some l => PyLite.Ok (PNone, Some (comm (Config.upd_en c l) dev w q))
  | None => ExcS "IndexError" (self_st (comm c dev w q))
  end.
Proof. pystart. unfold set_at. pyrun. cfg_lists. reflexivity. Qed.

Lemma ch_enable_list_func n c dev w q ks :
  call_func program (S n) CommHandler_ch_enable [comm c dev w q; PList (map PInt ks)] [] =
  match set_many_at (Config.en_new c) ks true with
  | inl l => PyLite.Ok (PNone, Some (comm (Config.upd_en c l) dev w q))
  | inr l => ExcS "IndexError" (self_st (comm (Config.upd_en c l) dev w q))
  end.
Proof.
  pystart. pystepsc.
  setter_loop CommHandler_ch_enable (fun l => comm (Config.upd_en c l) dev w q) [PList (map PInt ks)] true (Config.en_new c) ks.
Qed.

Lemma ch_disable_int_func n c dev w q k :
  call_func program (S n) CommHandler_ch_disable [comm c dev w q; PInt k] [] =
  match set_at (Config.en_new c) k false with
  | Some l => PyLite.Ok (PNone, Some (comm (Config.upd_en c l) dev w q))
  | None => ExcS "IndexError" (self_st (comm c dev w q))
  end.
Proof. pystart. unfold set_at. pyrun. cfg_lists. reflexivity. Qed.

Lemma ch_disable_list_func n c dev w q ks :
  call_func program (S n) CommHandler_ch_disable [comm c dev w q; PList (map PInt ks)] [] =
  match set_many_at (Config.en_new c) ks false with
  | inl l => PyLite.Ok (PNone, Some (comm (Config.upd_en c l) dev w q))
  | inr l => ExcS "IndexError" (self_st (comm (Config.upd_en c l) dev w q))
  end.
Proof.
  pystart. pystepsc.
  setter_loop CommHandler_ch_disable (fun l => comm (Config.upd_en c l) dev w q) [PList (map PInt ks)] false (Config.en_new c) ks.
Qed.

Lemma ch_divider_int_func n c cm flags rxp chans w q k v :
  call_func program (S (S n)) CommHandler_ch_divider [comm c (dev_obj' cm flags rxp chans) w q; PInt k; PInt v] [] =
  if (v <? 0) || (255 <? v) then ExcS "ValueError" (self_st (comm c (dev_obj' cm flags rxp chans) w q)) else
  match set_at (Config.div_new c) k v with
  | Some l => PyLite.Ok (PNone, Some (comm (Config.upd_div c l) (dev_obj' cm flags rxp chans) w q))
  | None => ExcS "IndexError" (self_st (comm c (dev_obj' cm flags rxp chans) w q))
  end.
Proof. pystart. unfold set_at. pyrun. all: cfg_lists; reflexivity. Qed.

Lemma ch_divider_list_func n c cm flags rxp chans w q ks v :
  call_func program (S (S n)) CommHandler_ch_divider
    [comm c (dev_obj' cm flags rxp chans) w q; PList (map PInt ks); PInt v] [] =
  if (v <? 0) || (255 <? v) then ExcS "ValueError" (self_st (comm c (dev_obj' cm flags rxp chans) w q)) else
  match set_many_at (Config.div_new c) ks v with
  | inl l => PyLite.Ok (PNone, Some (comm (Config.upd_div c l) (dev_obj' cm flags rxp chans) w q))
  | inr l => ExcS "IndexError" (self_st (comm (Config.upd_div c l) (dev_obj' cm flags rxp chans) w q))
  end.
Proof.
  pystart. pystepsc; try solve [pyfinish].
  all: setter_loop CommHandler_ch_divider (fun l => comm (Config.upd_div c l) (dev_obj' cm flags rxp chans) w q)
         [PList (map PInt ks); PInt v] v (Config.div_new c) ks.
Qed.

#[local] Hint Resolve ch_enable_int_func ch_disable_int_func : pyspec.
#[local] Arguments set_at : simpl never.

Lemma ch_enable_all_func n c cm flags rxp chans w q :
  call_func program (S (S n)) CommHandler_ch_enable_all [comm c (dev_obj' cm flags rxp chans) w q] [] =
  match set_many_at (Config.en_new c) (range_ix cm) true with
  | inl l => PyLite.Ok (PNone, Some (comm (Config.upd_en c l) (dev_obj' cm flags rxp chans) w q))
  | inr l => ExcS "IndexError" (self_st (comm (Config.upd_en c l) (dev_obj' cm flags rxp chans) w q))
  end.
Proof.
  pystart. pysteps.
  all_loop CommHandler_ch_enable_all (fun l => comm (Config.upd_en c l) (dev_obj' cm flags rxp chans) w q) true (Config.en_new c) cm.
Qed.

Lemma ch_disable_all_func n c cm flags rxp chans w q :
  call_func program (S (S n)) CommHandler_ch_disable_all [comm c (dev_obj' cm flags rxp chans) w q] [] =
  match set_many_at (Config.en_new c) (range_ix cm) false with
  | inl l => PyLite.Ok (PNone, Some (comm (Config.upd_en c l) (dev_obj' cm flags rxp chans) w q))
  | inr l => ExcS "IndexError" (self_st (comm (Config.upd_en c l) (dev_obj' cm flags rxp chans) w q))
  end.
Proof.
  pystart. pysteps.
  all_loop CommHandler_ch_disable_all (fun l => comm (Config.upd_en c l) (dev_obj' cm flags rxp chans) w q) false (Config.en_new c) cm.
Qed.

(** the callee specifications once more, for a receiver whose client record is given by its fields *)
Definition dev_func_r n a b c d e f := dev_func n (Config.mkCli a b c d e f).
Definition ch_enable_int_func_r n a b c d e f := ch_enable_int_func n (Config.mkCli a b c d e f).
Definition ch_disable_int_func_r n a b c d e f := ch_disable_int_func n (Config.mkCli a b c d e f).
#[local] Hint Resolve dev_func_r ch_enable_int_func_r ch_disable_int_func_r : pyspec.

(** ** _ch_divider_default *)
Lemma ch_divider_default_func n c dev w q :
  call_func program (S n) CommHandler__ch_divider_default [comm c dev w q] [] =
  PyLite.Ok (PNone, Some (comm (Config.upd_div c (map (fun _ => 0) (Config.div_new c))) dev w q)).
Proof.
  pystart. pysteps. rewrite enumerate_map.
  loop_env (dd_env dd_vs dd_vi dd_vy (fun l => comm (Config.upd_div c l) dev w q) (Config.div_new c, None)).
  rewrite (for_loop_fold_inv dd_inv (dd_env dd_vs dd_vi dd_vy (fun l => comm (Config.upd_div c l) dev w q))
             (fun kv => PTuple [PInt (Z.of_nat (fst kv)); PInt (snd kv)]) dd_step).
  - unfold dd_env. dd_names. rewrite fst_fold_dd_step.
    pose proof (fold_enumerate_upd (fun (_ : Z) (_ : Z) => 0) (Config.div_new c) [] (Config.div_new c) eq_refl) as HF.
    cbn [List.length app] in HF. rewrite HF, zipw_const by reflexivity.
    destruct (snd (fold_left _ _ _)) as [[? ?]|]; pyrun.
  - intros [cs o] [k y] r Hinv.
    assert (Hk : (k < List.length cs)%nat) by (apply (Hinv k y); left; reflexivity).
    split.
    + pose proof (norm_index_nat _ _ Hk) as Hn.
      unfold dd_env, dd_step. dd_names. destruct o as [[? ?]|]; cbn [fst snd app]; pyrun; cfg_lists; reflexivity.
    + intros k' y' Hin. unfold dd_step. cbn [fst]. rewrite Config_proofs.set_nth_length. apply (Hinv k' y'). right. exact Hin.
  - intros k y Hin. cbn [fst]. apply in_enumerate_lt in Hin. lia.
Qed.

Definition ch_enable_all_func_r n a b c d e f := ch_enable_all_func n (Config.mkCli a b c d e f).
Definition ch_disable_all_func_r n a b c d e f := ch_disable_all_func n (Config.mkCli a b c d e f).
Definition ch_divider_default_func_r n a b c d e f := ch_divider_default_func n (Config.mkCli a b c d e f).
#[local] Hint Resolve ch_enable_all_func ch_disable_all_func ch_divider_default_func
  ch_enable_all_func_r ch_disable_all_func_r ch_divider_default_func_r : pyspec.

Lemma channels_default_cfg_func n c cm flags rxp chans w q :
  call_func program (S (S (S n))) CommHandler_channels_default_cfg [comm c (dev_obj' cm flags rxp chans) w q] [] =
  match set_many_at (Config.en_new c) (range_ix cm) false with
  | inl l => PyLite.Ok (PNone, Some (comm (Config.upd_div (Config.upd_en c l) (map (fun _ => 0) (Config.div_new c)))
                                        (dev_obj' cm flags rxp chans) w q))
  | inr l => ExcS "IndexError" (self_st (comm (Config.upd_en c l) (dev_obj' cm flags rxp chans) w q))
  end.
Proof. pystart. pyrun. Qed.

(** * 2. _get_frame, _get_ack *)
Ltac py_stuck_hook h ::=
  lazymatch h with
  | norm_index (List.length (map _ _)) _ => rewrite map_length
  | norm_index (S _) 0 => rewrite norm_index_S0
  | get_attr _ _ (dev_rec _ _ _) "chmax" => rewrite dev_rec_chmax
  | get_attr _ _ (dev_rec _ _ _) "div_supported" => rewrite dev_rec_div
  | get_attr _ _ (dev_rec _ _ _) "ack_supported" => rewrite dev_rec_ack
  | py_is _ PNone => rewrite py_is_none
  | context [nth ?k (_ :: _) _] => is_nat_lit k; progress cbn [nth]
  | context [slice_from (_ :: _) 1] => rewrite slice_from_cons1
  end.
#[local] Hint Resolve queue_get_func : pyspec.
#[local] Arguments is_none !x /.

Lemma get_frame_func n c dev w q t :
  call_func program (S (S n)) CommHandler__get_frame [comm c dev w q; t] [] =
  PyLite.Ok (match fst (q_pop q) with Some x => x | None => PNone end, Some (comm c dev w (snd (q_pop q)))).
Proof. pystart. destruct q as [|x r]; unfold q_pop; pyrun. Qed.

#[local] Hint Unfold item_pv IN.emb_opt RQ.emb_f emb_ack : cfg_model.
#[local] Arguments Info.frame_ack_decode : simpl never.
#[local] Arguments Request.frame_enable : simpl never.
#[local] Arguments Request.frame_div : simpl never.
#[local] Arguments Request.frame_start : simpl never.
#[local] Hint Resolve get_frame_func IN.ack_decode_func IN.ack_decode_func_None : pyspec.
Definition get_frame_func_r n a b c d e f := get_frame_func n (Config.mkCli a b c d e f).
#[local] Hint Resolve get_frame_func_r : pyspec.

Lemma get_ack_func n c cm flags rxp chans w its t :
  call_func program (S (S (S n))) CommHandler__get_ack
    [comm c (dev_obj' cm flags rxp chans) w (map item_pv its)] [("timeout", t)] =
  emb_ack (fun its' => comm c (dev_obj' cm flags rxp chans) w (map item_pv its')) (ack_step (ack_sup flags) its).
Proof.
  pystart. unfold ack_step. destruct its as [|[|fid data] r]; cbn [map item_pv]. all: pyrun.
Qed.

Definition get_ack_func_r n a b c d e f := get_ack_func n (Config.mkCli a b c d e f).
#[local] Hint Resolve get_ack_func get_ack_func_r : pyspec.
#[local] Arguments ack_step : simpl never.
#[local] Hint Resolve gintf_write_func : pyspec.

#[local] Hint Unfold emb_req : cfg_model.
#[local] Hint Resolve RQ.frame_enable_single_func RQ.frame_enable_vec_func RQ.frame_div_single_func
  RQ.frame_div_vec_func RQ.frame_start_func : pyspec.

Lemma channel_enable_single_func n c cm flags rxp chans w its k v :
  call_func program (S (S (S (S n)))) CommHandler__channel_enable
    [comm c (dev_obj' cm flags rxp chans) w (map item_pv its); PTuple [PInt k; PBool v]] [] =
  emb_req (fun w' its' => comm c (dev_obj' cm flags rxp chans) w' (map item_pv its')) w its (ack_sup flags)
    (Request.frame_enable (Request.EnSingle k v) cm).
Proof. pystart. pyrun. Qed.

Lemma channel_enable_vec_func n c cm flags rxp chans w its l :
  call_func program (S (S (S (S n)))) CommHandler__channel_enable
    [comm c (dev_obj' cm flags rxp chans) w (map item_pv its); PList (map PBool l)] [] =
  emb_req (fun w' its' => comm c (dev_obj' cm flags rxp chans) w' (map item_pv its')) w its (ack_sup flags)
    (Request.frame_enable (Request.EnVec l) cm).
Proof. pystart. pyrun. Qed.

Lemma channel_div_single_func n c cm flags rxp chans w its k v :
  call_func program (S (S (S (S n)))) CommHandler__channel_div
    [comm c (dev_obj' cm flags rxp chans) w (map item_pv its); PTuple [PInt k; PInt v]] [] =
  emb_req (fun w' its' => comm c (dev_obj' cm flags rxp chans) w' (map item_pv its')) w its (ack_sup flags)
    (Request.frame_div (Request.DivSingle k v) cm).
Proof. pystart. pyrun. Qed.

Lemma channel_div_vec_func n c cm flags rxp chans w its l :
  call_func program (S (S (S (S n)))) CommHandler__channel_div
    [comm c (dev_obj' cm flags rxp chans) w (map item_pv its); PList (map PInt l)] [] =
  emb_req (fun w' its' => comm c (dev_obj' cm flags rxp chans) w' (map item_pv its')) w its (ack_sup flags)
    (Request.frame_div (Request.DivVec l) cm).
Proof. pystart. pyrun. Qed.

Lemma stream_start_func n c cm flags rxp chans w its :
  call_func program (S (S (S (S n)))) CommHandler_stream_start
    [comm c (dev_obj' cm flags rxp chans) w (map item_pv its)] [] =
  emb_req (fun w' its' => comm c (dev_obj' cm flags rxp chans) w' (map item_pv its')) w its (ack_sup flags)
    (Request.frame_start true).
Proof. pystart. pyrun. Qed.

Lemma stream_stop_func n c cm flags rxp chans w its :
  call_func program (S (S (S (S n)))) CommHandler_stream_stop
    [comm c (dev_obj' cm flags rxp chans) w (map item_pv its)] [] =
  emb_req (fun w' its' => comm c (dev_obj' cm flags rxp chans) w' (map item_pv its')) w its (ack_sup flags)
    (Request.frame_start false).
Proof. pystart. pyrun. Qed.

Definition channel_enable_single_func_r n a b c d e f := channel_enable_single_func n (Config.mkCli a b c d e f).
Definition channel_enable_vec_func_r n a b c d e f := channel_enable_vec_func n (Config.mkCli a b c d e f).
Definition channel_div_single_func_r n a b c d e f := channel_div_single_func n (Config.mkCli a b c d e f).
Definition channel_div_vec_func_r n a b c d e f := channel_div_vec_func n (Config.mkCli a b c d e f).

End Config.

(** the hooks are global Ltac state: restore the defaults for whoever loads this file *)
Ltac py_stuck_hook h ::= fail.
Ltac py_unfold_hook ::= idtac.

(** * Audit *)
Print Assumptions ch_is_enabled_func.
Print Assumptions ch_div_get_func.
Print Assumptions ch_enable_int_func.
Print Assumptions ch_enable_list_func.
Print Assumptions ch_disable_int_func.
Print Assumptions ch_disable_list_func.
Print Assumptions ch_divider_int_func.
Print Assumptions ch_divider_list_func.
Print Assumptions ch_enable_all_func.
Print Assumptions ch_disable_all_func.
Print Assumptions ch_divider_default_func.
Print Assumptions channels_default_cfg_func.
Print Assumptions get_frame_func.
Print Assumptions get_ack_func.
Print Assumptions channel_enable_single_func.
Print Assumptions channel_enable_vec_func.
Print Assumptions channel_div_single_func.
Print Assumptions channel_div_vec_func.
Print Assumptions stream_start_func.
Print Assumptions stream_stop_func.

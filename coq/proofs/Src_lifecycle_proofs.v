(** THE CONNECT / DISCONNECT LIFE CYCLE of nxslib as INTERPRETED SOURCE: the
    theorems.  (Parts: Src_lc_base.v, Src_lc_devinfo.v, Src_lc_config.v,
    Src_lc_config_write.v -- the complete CommHandler object and the lemmas of
    the handshake / configuration files re-proved for it; Src_lifecycle_comm.v,
    Src_lifecycle_nx.v, Src_lifecycle_nx_ops.v -- the [*_func] lemmas.)

    Objects.  [gcomm started thrd events written pad dropped dev items sitems rest]
    is the CommHandler with ALL the fields of its [__init__] (worker thread =
    the recording stub [fake_thread running starts stops], link = LogIntf with
    its [events] log, queues = ScriptQueue); [rest] is [] on a handler that was
    never connected and [("_channels", c)] afterwards ([crest]).
    [nxh connected comm thr sub_q stream_started ovf] is the NxscopeHandler.

    FUEL.  Every theorem holds for every fuel above a CONSTANT, for scripts of
    ANY length: 265 for [_start]/[_stop], 266 for [CommHandler.connect] /
    [disconnect], 267 for [NxscopeHandler.connect] / [disconnect]. *)
From Coq Require Import String Ascii List ZArith NArith Bool Lia ZifyBool.
From NX Require Import Bytes PyStruct Crc PyLite PyLite_tactics PyLite_tactics_ext PyLite_tactics_try
  Src_dev Src_iparse Src_parse Src_comm Src_nxscope Src_prelude Src_all
  Src_serialframe_proofs Src_parse_req_lemmas Src_records_proofs Src_config_base Src_config_req Src_config_write
  Src_handshake_base Src_handshake_devinfo Src_handshake_proofs
  Src_lc_base Src_lc_devinfo Src_lifecycle_comm Src_lifecycle_nx Src_lifecycle_nx_ops.
From NX Require Src_parse_req_proofs Src_info_proofs Src_config_proofs Src_lc_config Src_lc_config_write.
From NX Require Frame Request Request_proofs Info Info_proofs Config Config_proofs Handshake Handshake_proofs
  Gen_frame Gen_req Gen_misc.
Import ListNotations.
Open Scope string_scope.
Open Scope Z_scope.

(** * A. The connect loop, as a function of the scripts *)

Lemma connect_attempts_eq : Handshake.connect_attempts = 6%nat.
Proof. reflexivity. Qed.

(** ** outcomes: a Device, TimeoutError, struct.error, UnicodeDecodeError -- never Fuel, never Unsupported *)
Definition cres_ok (res : cres) : Prop :=
  match res with CUns _ => False | CRaise e => In e hs_excs | _ => True end.

Lemma connect_m_ok : forall n st, cres_ok (fst (fst (connect_m n st))).
Proof.
  induction n as [|n IH]; intros [[[[w p] d] q] qs]; cbn [connect_m]; [exact I|].
  pose proof (devinfo_m_ok w p d q qs) as Hok.
  destruct (devinfo_m w p d q qs) as [res st']. cbn [fst] in Hok.
  destruct res; cbn [fst cres_ok] in *; auto.
Qed.

(** ** TimeoutError: exactly [n] rounds of [_devinfo_get], every one returning None *)
Fixpoint none_rounds (n : nat) (st : hstate) : option hstate :=
  match n with
  | O => Some st
  | S n' =>
      let '(w, p, d, q, qs) := st in
      match devinfo_m w p d q qs with
      | (DNone, st') => none_rounds n' st'
      | _ => None
      end
  end.

Lemma connect_m_timeout : forall n st rem st',
  connect_m n st = (CTimeout, rem, st') <-> (none_rounds n st = Some st' /\ rem = O).
Proof.
  induction n as [|n IH]; intros [[[[w p] d] q] qs] rem st'; cbn [connect_m none_rounds].
  - split; [intros H; inversion H; auto | intros [H ->]; inversion H; reflexivity].
  - destruct (devinfo_m w p d q qs) as [res st1]. destruct res; try apply IH.
    all: split; [intros H; discriminate H | intros [H _]; discriminate H].
Qed.

(** a Device comes from a round that returned it, after rounds that returned None *)
Lemma connect_m_dev : forall n st cm fl rxp acc rem st',
  connect_m n st = (CDev cm fl rxp acc, rem, st') ->
  exists k stk, (k + 1 + rem = n)%nat /\ none_rounds k st = Some stk /\
    let '(w, p, d, q, qs) := stk in devinfo_m w p d q qs = (DDev cm fl rxp acc, st').
Proof.
  induction n as [|n IH]; intros [[[[w p] d] q] qs] cm fl rxp acc rem st' H; cbn [connect_m] in H; [discriminate|].
  destruct (devinfo_m w p d q qs) as [res st1] eqn:E. destruct res; try discriminate H.
  - inversion H; subst. exists O, (w, p, d, q, qs). split; [lia|]. split; [reflexivity|exact E].
  - destruct (IH _ _ _ _ _ _ _ H) as (k & stk & Hk & Hn & Hd). exists (S k), stk. split; [lia|]. split; [|exact Hd].
    cbn [none_rounds]. rewrite E. exact Hn.
Qed.

(** ** what is written and consumed, whatever the scripts hold *)
Definition st_w (st : hstate) : list bytes := let '(w, _, _, _, _) := st in w.
Definition st_q (st : hstate) : list qitem := let '(_, _, _, q, _) := st in q.
Definition st_qs (st : hstate) : list qitem := let '(_, _, _, _, qs) := st in qs.

(** every CMNINFO answer of the script announces at most [cmax] channels *)
Definition chmax_le (cmax : nat) (q : list qitem) : Prop :=
  forall fid data cm fl rxp, In (QFrame fid data) q ->
    Info.frame_cmninfo_decode fid data = Frame.Ok (Some (cm, fl, rxp)) -> (Z.to_nat cm <= cmax)%nat.

Lemma chmax_le_suffix cmax pre q : chmax_le cmax (pre ++ q) -> chmax_le cmax q.
Proof. intros H fid data cm fl rxp Hin. apply H. apply in_or_app. right. exact Hin. Qed.

Lemma script_chmax_le cmax q : chmax_le cmax q -> (script_chmax q <= cmax)%nat.
Proof.
  unfold script_chmax, pop_dec. destruct q as [|[|fid data] r]; try lia. intros H.
  destruct (Info.frame_cmninfo_decode fid data) as [[[[cm fl] rxp]|]|e|e] eqn:E; try lia.
  apply (H fid data cm fl rxp); [left; reflexivity | exact E].
Qed.

(** real bytes are below 256: then no answer announces more than 255 channels *)
Definition all_wf (q : list qitem) : Prop := forall fid data, In (QFrame fid data) q -> wf_bytes data.
Lemma all_wf_chmax q : all_wf q -> chmax_le 255 q.
Proof.
  intros H fid data cm fl rxp Hin E. pose proof (cmninfo_decode_lt _ _ _ _ _ (H fid data Hin) E).
  pose proof (cmninfo_decode_nonneg _ _ _ _ _ E). lia.
Qed.

Definition round_reqs (cmax : nat) : nat := (2 + cmax * Handshake.chinfo_attempts)%nat.
Definition round_items (cmax : nat) : nat := (1 + (4 + drain_limit) + cmax * Handshake.chinfo_attempts)%nat.

Lemma connect_m_bounds cmax : forall n w p d q qs res rem w' p' d' q' qs',
  chmax_le cmax q ->
  connect_m n (w, p, d, q, qs) = (res, rem, (w', p', d', q', qs')) ->
  (exists ks, w' = (w ++ ks)%list /\ (List.length ks <= n * round_reqs cmax)%nat) /\
  (exists pre, q = (pre ++ q')%list /\ (List.length pre <= n * round_items cmax)%nat) /\
  (exists pres, qs = (pres ++ qs')%list /\ (List.length pres <= n * (4 + drain_limit))%nat).
Proof.
  induction n as [|n IH]; intros w p d q qs res rem w' p' d' q' qs' Hc H; cbn [connect_m] in H.
  - inversion H; subst. repeat split; exists []; rewrite ?app_nil_r; split; try reflexivity; cbn; lia.
  - destruct (devinfo_m w p d q qs) as [r1 [[[[w1 p1] d1] q1] qs1]] eqn:E.
    destruct (devinfo_requests _ _ _ _ _ _ _ _ _ _ _ E) as (k1 & Ew1 & Lk1).
    destruct (devinfo_consumed _ _ _ _ _ _ _ _ _ _ _ E) as ((pre1 & Eq1 & Lp1) & (ps1 & Eqs1 & Ls1)).
    pose proof (script_chmax_le cmax q Hc) as Hcm.
    assert (Lk1' : (List.length k1 <= round_reqs cmax)%nat).
    { unfold round_reqs. destruct (pad_reconf p q); nia. }
    assert (Lp1' : (List.length pre1 <= round_items cmax)%nat) by (unfold round_items; nia).
    destruct r1.
    2:{ assert (Hc1 : chmax_le cmax q1) by (subst q; eapply chmax_le_suffix, Hc).
        destruct (IH _ _ _ _ _ _ _ _ _ _ _ _ Hc1 H) as ((k2 & Ew2 & Lk2) & (pre2 & Eq2 & Lp2) & (ps2 & Eqs2 & Ls2)).
        repeat split.
        - exists (k1 ++ k2)%list. subst. rewrite app_assoc. split; [reflexivity|]. rewrite app_length. lia.
        - exists (pre1 ++ pre2)%list. subst q q1. rewrite app_assoc. split; [reflexivity|]. rewrite app_length. lia.
        - exists (ps1 ++ ps2)%list. subst qs qs1. rewrite app_assoc. split; [reflexivity|]. rewrite app_length. lia. }
    all: inversion H; subst; repeat split.
    all: eexists; (split; [reflexivity|]); lia.
Qed.

(** * B. CommHandler._start / _stop / connect / disconnect *)

Lemma fuel_split k n : (k + drain_limit <= n)%nat -> exists m, n = (k + m)%nat /\ (drain_limit <= m)%nat.
Proof. intros H. exists (n - k)%nat. lia. Qed.

(** ** the [*_func] lemmas for every fuel above a constant *)
Theorem start_run n r s t ev w p d q qs rest : crest rest -> (265 <= n)%nat ->
  call_func program n CommHandler__start
    [gcomm (PBool false) (fake_thread r s t) ev w p d PNone (map item_pv q) (map item_pv qs) rest] [] =
  start_out r s t ev w p d q qs rest.
Proof.
  intros Hrest Hn. destruct (fuel_split 9 n) as (m & -> & Hm); [unfold drain_limit; lia|].
  exact (start_func m r s t ev w p d q qs rest Hrest Hm).
Qed.

Theorem stop_run n r s t ev w p d dev q qs rest : crest rest -> (265 <= n)%nat ->
  call_func program n CommHandler__stop
    [gcomm (PBool true) (fake_thread r s t) ev w p d dev (map item_pv q) (map item_pv qs) rest] [] =
  PyLite.Ok (PNone, Some (gcomm (PBool false) (fake_thread false s (if r then t + 1 else t)) (ev ++ ["intf.stop"])
                            w p (d + 1) PNone (map item_pv (drain q 4)) (map item_pv (drain qs 4)) rest)).
Proof.
  intros Hrest Hn. destruct (fuel_split 9 n) as (m & -> & Hm); [unfold drain_limit; lia|].
  exact (stop_func m r s t ev w p d dev q qs rest Hrest Hm).
Qed.

Theorem connect_run n r s t ev w p d q qs rest : crest rest -> (266 <= n)%nat ->
  call_func program n CommHandler_connect
    [gcomm (PBool false) (fake_thread r s t) ev w p d PNone (map item_pv q) (map item_pv qs) rest] [] =
  start_out r s t ev w p d q qs rest.
Proof.
  intros Hrest Hn. destruct (fuel_split 10 n) as (m & -> & Hm); [unfold drain_limit; lia|].
  exact (connect_func m r s t ev w p d q qs rest Hrest Hm).
Qed.

Theorem disconnect_run n r s t ev w p d dev q qs rest : crest rest -> (266 <= n)%nat ->
  call_func program n CommHandler_disconnect
    [gcomm (PBool true) (fake_thread r s t) ev w p d dev (map item_pv q) (map item_pv qs) rest] [] =
  PyLite.Ok (PNone, Some (gcomm (PBool false) (fake_thread false s (if r then t + 1 else t)) (ev ++ ["intf.stop"])
                            w p (d + 1) PNone (map item_pv (drain q 4)) (map item_pv (drain qs 4)) rest)).
Proof.
  intros Hrest Hn. destruct (fuel_split 10 n) as (m & -> & Hm); [unfold drain_limit; lia|].
  exact (disconnect_func m r s t ev w p d dev q qs rest Hrest Hm).
Qed.

(** ** 1. _start on a handler that is not started and has no device *)

(** what [_start] does to the scripts and to the written requests, whatever happens *)
Definition start_bounds (cmax : nat) (w : list bytes) (q qs : list qitem) (w' : list bytes) (q' qs' : list qitem) : Prop :=
  (exists ks, w' = (w ++ start_req false :: ks)%list /\ (List.length ks <= 6 * round_reqs cmax)%nat) /\
  (exists pre, q = (pre ++ q')%list /\ (List.length pre <= (4 + drain_limit) + 6 * round_items cmax)%nat) /\
  (exists pres, qs = (pres ++ qs')%list /\ (List.length pres <= 7 * (4 + drain_limit))%nat).

Lemma start_state_bounds cmax w p d q qs res rem w' p' d' q' qs' :
  chmax_le cmax q ->
  connect_m 6 (start_state w p d q qs) = (res, rem, (w', p', d', q', qs')) ->
  start_bounds cmax w q qs w' q' qs'.
Proof.
  intros Hc H. unfold start_state in H.
  destruct (drain_split q 4) as (pq & Eq & _ & _ & Lq & _). destruct (drain_split qs 4) as (pqs & Eqs & _ & _ & Lqs & _).
  assert (Hc' : chmax_le cmax (drain q 4)) by (rewrite Eq in Hc; eapply chmax_le_suffix, Hc).
  destruct (connect_m_bounds cmax _ _ _ _ _ _ _ _ _ _ _ _ _ Hc' H) as ((ks & Ew & Lk) & (pre & Ep & Lp) & (pres & Eps & Lps)).
  repeat split.
  - exists ks. split; [|exact Lk]. rewrite Ew, <- app_assoc. reflexivity.
  - exists (pq ++ pre)%list. split; [rewrite <- app_assoc, <- Ep; exact Eq|]. rewrite app_length. lia.
  - exists (pqs ++ pres)%list. split; [rewrite <- app_assoc, <- Eps; exact Eqs|]. rewrite app_length. lia.
Qed.

(** THE OUTCOMES OF [_start].  For all scripts and every fuel >= 265:
    - it returns normally: [_started = True], the worker running (started once
      if it was not running), the link opened ("intf.start"), a Device, and
      [_channels] initialised from it (whatever [_channels] was before), or
    - it raises TimeoutError / struct.error / UnicodeDecodeError WITH THE
      CLEAN-UP DONE: the receiver at the raise has the worker stopped ([stops]
      incremented), "intf.start"; "intf.stop" in the link's log, [_dev = None],
      [_started = False], and [rest] as it was.
    In every case the written requests, and the consumed prefixes of the two
    scripts, are bounded independently of the scripts' lengths. *)
Theorem start_outcomes n (r : bool) (s t : Z) ev w p d q qs rest cmax :
  crest rest -> (265 <= n)%nat -> chmax_le cmax q ->
  let s' := if r then s else s + 1 in
  let run := call_func program n CommHandler__start
               [gcomm (PBool false) (fake_thread r s t) ev w p d PNone (map item_pv q) (map item_pv qs) rest] [] in
  (exists cm fl rxp acc w' p' d' q' qs',
     run = PyLite.Ok (PNone, Some (gcomm (PBool true) (fake_thread true s' t) (ev ++ ["intf.start"]) w' p' d'
                                     (dev_of cm fl rxp acc) (map item_pv q') (map item_pv qs')
                                     [("_channels", chans_obj (init_cli (map chan_desc_of acc)))])) /\
     start_bounds cmax w q qs w' q' qs') \/
  (exists e w' p' d' q' qs',
     In e ["TimeoutError"; "struct.error"; "UnicodeDecodeError"] /\
     run = ExcS e (self_st (gcomm (PBool false) (fake_thread false s' (t + 1)) (ev ++ ["intf.start"; "intf.stop"])
                              w' p' d' PNone (map item_pv q') (map item_pv qs') rest)) /\
     start_bounds cmax w q qs w' q' qs' /\
     (e = "TimeoutError" <-> none_rounds 6 (start_state w p d q qs) = Some (w', p', d', q', qs'))).
Proof.
  intros Hrest Hn Hc s' run. subst run. rewrite start_run by assumption. unfold start_out.
  pose proof (connect_m_ok 6 (start_state w p d q qs)) as Hok.
  destruct (connect_m 6 (start_state w p d q qs)) as [[res rem] [[[[w' p'] d'] q'] qs']] eqn:Ec.
  pose proof (start_state_bounds cmax _ _ _ _ _ _ _ _ _ _ _ _ Hc Ec) as Hb.
  cbn [fst] in Hok. fold s'. rewrite <- app_assoc. cbn [app gcomm_of].
  destruct res as [cm fl rxp acc| |e|e]; cbn [cres_ok] in Hok.
  - left. exists cm, fl, rxp, acc, w', p', d', q', qs'. split; [reflexivity|exact Hb].
  - right. exists "TimeoutError", w', p', d', q', qs'.
    split; [cbn; auto|]. split; [reflexivity|]. split; [exact Hb|]. split; [|reflexivity].
    intros _. apply (connect_m_timeout 6 _ rem). exact Ec.
  - right. exists e, w', p', d', q', qs'.
    split; [destruct Hok as [<-|[<-|[]]]; cbn; auto|]. split; [reflexivity|]. split; [exact Hb|]. split.
    + intros ->. destruct Hok as [Hx|[Hx|[]]]; discriminate Hx.
    + intros Hn6. assert (Hx : connect_m 6 (start_state w p d q qs) = (CTimeout, O, (w', p', d', q', qs')))
        by (apply connect_m_timeout; auto).
      rewrite Ec in Hx. discriminate Hx.
  - contradiction.
Qed.

(** with real bytes on the link: at most 1 + 6 * (2 + 255 * 6) = 9193 requests *)
Corollary start_request_bound w q qs w' q' qs' :
  start_bounds 255 w q qs w' q' qs' ->
  (List.length w' <= List.length w + 1 + Handshake.connect_attempts * (2 + 255 * Handshake.chinfo_attempts))%nat.
Proof.
  intros ((ks & -> & L) & _). rewrite app_length. cbn [List.length]. unfold round_reqs in L.
  rewrite connect_attempts_eq. lia.
Qed.

(** ** at the entry points ([call_method]: the state of a raise is forgotten) *)
Definition top (self : pv) (r : PyLite.res (pv * option pv)) : PyLite.res (pv * pv) :=
  match r with
  | PyLite.Ok x => PyLite.Ok (fst x, match snd x with Some s => s | None => self end)
  | Exc e | ExcS e _ => Exc e
  | Fuel => Fuel
  | Unsupported u => Unsupported u
  end.

Lemma strip_top self (r : PyLite.res (pv * option pv)) :
  strip (match r with
         | PyLite.Ok x => PyLite.Ok (fst x, match snd x with Some s => s | None => self end)
         | Exc c => Exc c
         | ExcS c st => ExcS c st
         | Fuel => Fuel
         | Unsupported u => Unsupported u
         end) = top self r.
Proof. destruct r; reflexivity. Qed.

(** open a method call on the complete CommHandler / on the NxscopeHandler *)
Ltac cm_open f Hrest :=
  unfold call_method, gcomm;
  rewrite (call_method_value_obj _ _ _ _ _ f) by
    (first [ reflexivity
           | cbn [lookup String.eqb Ascii.eqb Bool.eqb];
             match goal with |- lookup ?s ?r = None => apply (crest_lookup s r Hrest eq_refl) end ]);
  rewrite strip_top; fold gcomm.
Lemma call_method_nxh n cn comm thr sq ss ovf m f args :
  lookup m [("_connected", cn); ("_comm", comm); ("_thrd", thr); ("_sub_q", sq); ("_stream_started", ss); ("_ovf_cntr", ovf)]
    = None ->
  find_method program mro_depth "NxscopeHandler" m = Some f ->
  call_method program n (nxh cn comm thr sq ss ovf) m args =
  top (nxh cn comm thr sq ss ovf) (call_func program n f (nxh cn comm thr sq ss ovf :: args) []).
Proof.
  intros H1 H2. unfold call_method, nxh. rewrite (call_method_value_obj _ _ _ _ _ f) by assumption. apply strip_top.
Qed.
Ltac nx_open f := rewrite (call_method_nxh _ _ _ _ _ _ _ _ f) by reflexivity.

Theorem start_spec n r s t ev w p d q qs rest : crest rest -> (265 <= n)%nat ->
  let self := gcomm (PBool false) (fake_thread r s t) ev w p d PNone (map item_pv q) (map item_pv qs) rest in
  call_method program n self "_start" [] = top self (start_out r s t ev w p d q qs rest).
Proof.
  intros Hrest Hn self. subst self. cm_open CommHandler__start Hrest.
  fold (gcomm (PBool false) (fake_thread r s t) ev w p d PNone (map item_pv q) (map item_pv qs) rest).
  rewrite start_run by assumption. reflexivity.
Qed.

Theorem stop_spec n r s t ev w p d dev q qs rest : crest rest -> (265 <= n)%nat ->
  call_method program n (gcomm (PBool true) (fake_thread r s t) ev w p d dev (map item_pv q) (map item_pv qs) rest) "_stop" [] =
  PyLite.Ok (PNone, gcomm (PBool false) (fake_thread false s (if r then t + 1 else t)) (ev ++ ["intf.stop"])
                      w p (d + 1) PNone (map item_pv (drain q 4)) (map item_pv (drain qs 4)) rest).
Proof.
  intros Hrest Hn. cm_open CommHandler__stop Hrest.
  fold (gcomm (PBool true) (fake_thread r s t) ev w p d dev (map item_pv q) (map item_pv qs) rest).
  rewrite stop_run by assumption. reflexivity.
Qed.

(** ** 2. idempotence *)
(** [fuel k]: the fuel [n] (with [k <= n] in the context) as [S (S .. (n - k))] *)
Ltac fuel k := match goal with H : (_ <= ?n)%nat |- _ => replace n with (k + (n - k))%nat by lia; cbn [Nat.add] end.

Theorem start_started_spec n thrd ev w p d dev items sitems rest : crest rest -> (1 <= n)%nat ->
  call_method program n (gcomm (PBool true) thrd ev w p d dev items sitems rest) "_start" [] =
  PyLite.Ok (PNone, gcomm (PBool true) thrd ev w p d dev items sitems rest).
Proof.
  intros Hrest Hn. cm_open CommHandler__start Hrest. fuel 1%nat.
  fold (gcomm (PBool true) thrd ev w p d dev items sitems rest).
  rewrite start_started_func by assumption. reflexivity.
Qed.

Theorem stop_stopped_spec n thrd ev w p d dev items sitems rest : crest rest -> (1 <= n)%nat ->
  call_method program n (gcomm (PBool false) thrd ev w p d dev items sitems rest) "_stop" [] =
  PyLite.Ok (PNone, gcomm (PBool false) thrd ev w p d dev items sitems rest).
Proof.
  intros Hrest Hn. cm_open CommHandler__stop Hrest. fuel 1%nat.
  fold (gcomm (PBool false) thrd ev w p d dev items sitems rest).
  rewrite stop_stopped_func by assumption. reflexivity.
Qed.

(** ** connect / disconnect *)
Theorem connect_spec n r s t ev w p d q qs rest : crest rest -> (266 <= n)%nat ->
  let self := gcomm (PBool false) (fake_thread r s t) ev w p d PNone (map item_pv q) (map item_pv qs) rest in
  call_method program n self "connect" [] = top self (start_out r s t ev w p d q qs rest).
Proof.
  intros Hrest Hn self. subst self. cm_open CommHandler_connect Hrest.
  fold (gcomm (PBool false) (fake_thread r s t) ev w p d PNone (map item_pv q) (map item_pv qs) rest).
  rewrite connect_run by assumption. reflexivity.
Qed.

Theorem connect_started_spec n thrd ev w p d cm fl rxp acc items sitems rest : crest rest -> (2 <= n)%nat ->
  call_method program n (gcomm (PBool true) thrd ev w p d (dev_of cm fl rxp acc) items sitems rest) "connect" [] =
  PyLite.Ok (PNone, gcomm (PBool true) thrd ev w p d (dev_of cm fl rxp acc) items sitems rest).
Proof.
  intros Hrest Hn. cm_open CommHandler_connect Hrest. fuel 2%nat.
  fold (gcomm (PBool true) thrd ev w p d (dev_of cm fl rxp acc) items sitems rest).
  rewrite connect_started_func by assumption. reflexivity.
Qed.

Theorem disconnect_spec n r s t ev w p d dev q qs rest : crest rest -> (266 <= n)%nat ->
  call_method program n (gcomm (PBool true) (fake_thread r s t) ev w p d dev (map item_pv q) (map item_pv qs) rest)
    "disconnect" [] =
  PyLite.Ok (PNone, gcomm (PBool false) (fake_thread false s (if r then t + 1 else t)) (ev ++ ["intf.stop"])
                      w p (d + 1) PNone (map item_pv (drain q 4)) (map item_pv (drain qs 4)) rest).
Proof.
  intros Hrest Hn. cm_open CommHandler_disconnect Hrest.
  fold (gcomm (PBool true) (fake_thread r s t) ev w p d dev (map item_pv q) (map item_pv qs) rest).
  rewrite disconnect_run by assumption. reflexivity.
Qed.

Theorem disconnect_stopped_spec n thrd ev w p d dev items sitems rest : crest rest -> (2 <= n)%nat ->
  call_method program n (gcomm (PBool false) thrd ev w p d dev items sitems rest) "disconnect" [] =
  PyLite.Ok (PNone, gcomm (PBool false) thrd ev w p d dev items sitems rest).
Proof.
  intros Hrest Hn. cm_open CommHandler_disconnect Hrest. fuel 2%nat.
  fold (gcomm (PBool false) thrd ev w p d dev items sitems rest).
  rewrite disconnect_stopped_func by assumption. reflexivity.
Qed.

(** [disconnect] never raises, never runs out of fuel, whatever the scripts hold *)
Corollary disconnect_returns n (b r : bool) s t ev w p d dev q qs rest : crest rest -> (266 <= n)%nat ->
  exists self',
    call_method program n (gcomm (PBool b) (fake_thread r s t) ev w p d dev (map item_pv q) (map item_pv qs) rest)
      "disconnect" [] = PyLite.Ok (PNone, self').
Proof.
  intros Hrest Hn. destruct b.
  - eexists. apply disconnect_spec; assumption.
  - eexists. apply disconnect_stopped_spec; [assumption|lia].
Qed.

(** connect, then disconnect: the handler is stopped again, with the worker
    started and stopped once more, "intf.start"; "intf.stop" logged, no device *)
Theorem connect_disconnect n r s t ev w p d q qs rest self1 : crest rest -> (266 <= n)%nat ->
  call_method program n (gcomm (PBool false) (fake_thread r s t) ev w p d PNone (map item_pv q) (map item_pv qs) rest)
    "connect" [] = PyLite.Ok (PNone, self1) ->
  exists w' p' d' q' qs' c,
    call_method program n self1 "disconnect" [] =
    PyLite.Ok (PNone, gcomm (PBool false) (fake_thread false (if r then s else s + 1) (t + 1))
                        (ev ++ ["intf.start"; "intf.stop"]) w' p' d' PNone (map item_pv q') (map item_pv qs')
                        [("_channels", c)]).
Proof.
  intros Hrest Hn H. rewrite connect_spec in H by assumption. unfold start_out in H.
  destruct (connect_m 6 (start_state w p d q qs)) as [[res rem] [[[[w' p'] d'] q'] qs']].
  destruct res; cbn [top fst snd gcomm_of] in H; try discriminate H.
  inversion H; subst self1. clear H.
  eexists _, _, _, _, _, _. rewrite disconnect_spec by (auto with pyspec). rewrite <- app_assoc. reflexivity.
Qed.

(** * C. NxscopeHandler *)

(** ** what is inert *)
(** [connect] on a connected handler returns the device and changes nothing *)
Theorem nx_connect_connected_spec n started thrd ev w p d dev items sitems rest thr sq ss ovf :
  crest rest -> (2 <= n)%nat ->
  let nx := nxh (PBool true) (gcomm started thrd ev w p d dev items sitems rest) thr sq ss ovf in
  call_method program n nx "connect" [] = PyLite.Ok (dev, nx).
Proof.
  intros Hrest Hn nx. subst nx. nx_open NxscopeHandler_connect. fuel 2%nat.
  rewrite nx_connect_connected_func by assumption. reflexivity.
Qed.

(** [disconnect] on a handler that is not connected changes NOTHING: the whole
    object is returned as it was, whatever its fields hold *)
Theorem nx_disconnect_idle_spec n comm thr sq ss ovf : (1 <= n)%nat ->
  call_method program n (nxh (PBool false) comm thr sq ss ovf) "disconnect" [] =
  PyLite.Ok (PNone, nxh (PBool false) comm thr sq ss ovf).
Proof. intros Hn. nx_open NxscopeHandler_disconnect. fuel 1%nat. rewrite nx_disconnect_idle_func. reflexivity. Qed.

Theorem nx_stream_stop_idle_spec n cn comm thr sq ovf : (1 <= n)%nat ->
  call_method program n (nxh cn comm thr sq (PBool false) ovf) "stream_stop" [] =
  PyLite.Ok (PNone, nxh cn comm thr sq (PBool false) ovf).
Proof. intros Hn. nx_open NxscopeHandler_stream_stop. fuel 1%nat. rewrite nx_stream_stop_idle_func. reflexivity. Qed.

Theorem nx_stream_start_started_spec n cn comm thr sq ovf : (1 <= n)%nat ->
  call_method program n (nxh cn comm thr sq (PBool true) ovf) "stream_start" [] =
  PyLite.Ok (PNone, nxh cn comm thr sq (PBool true) ovf).
Proof. intros Hn. nx_open NxscopeHandler_stream_start. fuel 1%nat. rewrite nx_stream_start_started_func. reflexivity. Qed.

(** ** a handler that was never connected *)
(** as [NxscopeHandler.__init__] leaves it, with the two workers and the link
    replaced by the stubs: not connected, the communication handler not
    started, without device and WITHOUT THE ATTRIBUTE [_channels] *)
Definition nx_fresh (thrd : pv) (ev : list string) (w : list bytes) (p d : Z) (items sitems : list pv)
           (thr sq ovf : pv) : pv :=
  nxh (PBool false) (gcomm (PBool false) thrd ev w p d PNone items sitems []) thr sq (PBool false) ovf.

Section Fresh.
Variables (thrd : pv) (ev : list string) (w : list bytes) (p d : Z) (items sitems : list pv) (thr sq ovf : pv).
Local Notation nx := (nx_fresh thrd ev w p d items sitems thr sq ovf).

(** [stream_stop] and [disconnect] are inert *)
Theorem fresh_stream_stop n : (1 <= n)%nat -> call_method program n nx "stream_stop" [] = PyLite.Ok (PNone, nx).
Proof. apply nx_stream_stop_idle_spec. Qed.
Theorem fresh_disconnect n : (1 <= n)%nat -> call_method program n nx "disconnect" [] = PyLite.Ok (PNone, nx).
Proof. apply nx_disconnect_idle_spec. Qed.

(** [stream_start] and [channels_write] raise AssertionError (from
    [assert self.dev] in CommHandler.channels_write); the receiver at the raise
    is the receiver of the call: nothing was written, no worker started, no flag set *)
Theorem fresh_stream_start n : (4 <= n)%nat ->
  call_func program n NxscopeHandler_stream_start [nx] [] = ExcS "AssertionError" (self_st nx).
Proof. intros Hn. fuel 4%nat. apply nx_stream_start_nodev_func. apply crest_nil. Qed.

Theorem fresh_channels_write n : (3 <= n)%nat ->
  call_func program n NxscopeHandler_channels_write [nx] [] = ExcS "AssertionError" (self_st nx).
Proof. intros Hn. fuel 3%nat. apply nx_channels_write_nodev_func. apply crest_nil. Qed.

(** [ch_enable] / [ch_disable] (with or without [writenow]) raise AttributeError -- NOT the
    AssertionError of [assert self._channels]: the attribute does not exist
    before the first connect.  Receiver unchanged *)
Theorem fresh_ch_enable n chans wn : (2 <= n)%nat ->
  call_func program n NxscopeHandler_ch_enable [nx; chans; wn] [] = ExcS "AttributeError" (self_st nx).
Proof. intros Hn. fuel 2%nat. apply nx_ch_enable_fresh_func. Qed.

Theorem fresh_ch_disable n chans wn : (2 <= n)%nat ->
  call_func program n NxscopeHandler_ch_disable [nx; chans; wn] [] = ExcS "AttributeError" (self_st nx).
Proof. intros Hn. fuel 2%nat. apply nx_ch_disable_fresh_func. Qed.

(** [ch_disable_all], [channels_default_cfg], [dev_channel_get]: AssertionError ([assert self.dev]), receiver unchanged *)
Theorem fresh_ch_disable_all n wn : (3 <= n)%nat ->
  call_func program n NxscopeHandler_ch_disable_all [nx; wn] [] = ExcS "AssertionError" (self_st nx).
Proof. intros Hn. fuel 3%nat. apply nx_ch_disable_all_nodev_func. apply crest_nil. Qed.

Theorem fresh_channels_default_cfg n wn : (4 <= n)%nat ->
  call_func program n NxscopeHandler_channels_default_cfg [nx; wn] [] = ExcS "AssertionError" (self_st nx).
Proof. intros Hn. fuel 4%nat. apply nx_channels_default_cfg_nodev_func. apply crest_nil. Qed.

Theorem fresh_dev_channel_get n chid : (3 <= n)%nat ->
  call_func program n NxscopeHandler_dev_channel_get [nx; chid] [] = ExcS "AssertionError" (self_st nx).
Proof. intros Hn. fuel 3%nat. apply nx_dev_channel_get_nodev_func. apply crest_nil. Qed.

(** at the entry points *)
Corollary fresh_stream_start_spec n : (4 <= n)%nat -> call_method program n nx "stream_start" [] = Exc "AssertionError".
Proof. intros Hn. unfold nx_fresh. nx_open NxscopeHandler_stream_start. fold nx. rewrite fresh_stream_start by assumption. reflexivity. Qed.
Corollary fresh_channels_write_spec n : (3 <= n)%nat -> call_method program n nx "channels_write" [] = Exc "AssertionError".
Proof. intros Hn. unfold nx_fresh. nx_open NxscopeHandler_channels_write. fold nx. rewrite fresh_channels_write by assumption. reflexivity. Qed.
Corollary fresh_ch_enable_spec n chans wn : (2 <= n)%nat ->
  call_method program n nx "ch_enable" [chans; wn] = Exc "AttributeError".
Proof. intros Hn. unfold nx_fresh. nx_open NxscopeHandler_ch_enable. fold nx. rewrite fresh_ch_enable by assumption. reflexivity. Qed.

End Fresh.

(** ** connect *)
Theorem nx_connect_run n r s t ev w p d q qs rest thr sq ss ovf : crest rest -> (267 <= n)%nat ->
  call_func program n NxscopeHandler_connect
    [nxh (PBool false) (gcomm (PBool false) (fake_thread r s t) ev w p d PNone (map item_pv q) (map item_pv qs) rest)
       thr sq ss ovf] [] =
  nx_connect_out r s t ev w p d q qs rest thr sq ss ovf.
Proof.
  intros Hrest Hn. destruct (fuel_split 11 n) as (m & -> & Hm); [unfold drain_limit; lia|].
  exact (nx_connect_func m r s t ev w p d q qs rest thr sq ss ovf Hrest Hm).
Qed.

(** the Device of a successful handshake: [cm] channels, numbered 0 .. cm-1 *)
Lemma connect_m_dev_shape n st cm fl rxp acc rem st' :
  connect_m n st = (CDev cm fl rxp acc, rem, st') ->
  0 <= cm /\ map fst acc = map Z.of_nat (seq 0 (Z.to_nat cm)) /\ zlen (map chan_desc_of acc) = cm.
Proof.
  intros H. destruct (connect_m_dev _ _ _ _ _ _ _ _ H) as (k & [[[[w p] d] q] qs] & _ & _ & Hd).
  destruct (devinfo_m_dev _ _ _ _ _ _ _ _ _ _ Hd) as (Hp & _ & Hids).
  destruct (pop_cmninfo_nonneg _ _ _ _ Hp) as (Hcm & _).
  split; [exact Hcm|]. split; [exact Hids|].
  unfold zlen. rewrite map_length, <- (map_length fst), Hids, map_length, seq_length. lia.
Qed.

(** THE OUTCOMES OF [NxscopeHandler.connect] on a handler that is not connected
    (never connected: [rest = []], or disconnected: [rest = [("_channels", _)]]):
    - success: the device is returned, [_connected = True], [_sub_q] holds one
      empty list per channel, the communication handler is started;
    - TimeoutError / struct.error / UnicodeDecodeError: [_connected] is still
      False, [_sub_q] untouched, the communication handler cleaned up *)
Theorem nx_connect_outcomes n (r : bool) (s t : Z) ev w p d q qs rest thr sq ss ovf cmax :
  crest rest -> (267 <= n)%nat -> chmax_le cmax q ->
  let s' := if r then s else s + 1 in
  let run := call_func program n NxscopeHandler_connect
               [nxh (PBool false) (gcomm (PBool false) (fake_thread r s t) ev w p d PNone (map item_pv q) (map item_pv qs) rest)
                  thr sq ss ovf] [] in
  (exists cm fl rxp acc w' p' d' q' qs',
     run = PyLite.Ok (dev_of cm fl rxp acc,
             Some (nxh (PBool true)
                     (gcomm (PBool true) (fake_thread true s' t) (ev ++ ["intf.start"]) w' p' d'
                        (dev_of cm fl rxp acc) (map item_pv q') (map item_pv qs')
                        [("_channels", chans_obj (init_cli (map chan_desc_of acc)))])
                     thr (PList (repeat (PList []) (Z.to_nat cm))) ss ovf)) /\
     zlen (map chan_desc_of acc) = cm /\ start_bounds cmax w q qs w' q' qs') \/
  (exists e w' p' d' q' qs',
     In e ["TimeoutError"; "struct.error"; "UnicodeDecodeError"] /\
     run = ExcS e (self_st (nxh (PBool false)
                              (gcomm (PBool false) (fake_thread false s' (t + 1)) (ev ++ ["intf.start"; "intf.stop"])
                                 w' p' d' PNone (map item_pv q') (map item_pv qs') rest)
                              thr sq ss ovf)) /\
     start_bounds cmax w q qs w' q' qs').
Proof.
  intros Hrest Hn Hc s' run. subst run. rewrite nx_connect_run by assumption. unfold nx_connect_out.
  pose proof (connect_m_ok 6 (start_state w p d q qs)) as Hok.
  destruct (connect_m 6 (start_state w p d q qs)) as [[res rem] [[[[w' p'] d'] q'] qs']] eqn:Ec.
  pose proof (start_state_bounds cmax _ _ _ _ _ _ _ _ _ _ _ _ Hc Ec) as Hb.
  cbn [fst] in Hok. fold s'. rewrite <- app_assoc. cbn [app gcomm_of].
  destruct res as [cm fl rxp acc| |e|e]; cbn [cres_ok] in Hok.
  - left. exists cm, fl, rxp, acc, w', p', d', q', qs'. rewrite sub_q0_repeat.
    destruct (connect_m_dev_shape _ _ _ _ _ _ _ _ Ec) as (_ & _ & Hz). auto.
  - right. exists "TimeoutError", w', p', d', q', qs'. split; [cbn; auto|]. split; [reflexivity|exact Hb].
  - right. exists e, w', p', d', q', qs'. split; [destruct Hok as [<-|[<-|[]]]; cbn; auto|]. split; [reflexivity|exact Hb].
  - contradiction.
Qed.

(** ** disconnect on a connected handler *)
Theorem nx_disconnect_run n r1 s1 t1 ev p d cm fl rxp qs sq w chans its c thr ovf : (267 <= n)%nat ->
  List.length (Config.en_new c) = List.length (Config.en_now c) ->
  List.length (Config.div_new c) = List.length (Config.div_now c) ->
  call_func program n NxscopeHandler_disconnect
    [nxh (PBool true) (ccomm (PBool true) (fake_thread r1 s1 t1) ev w p d cm fl rxp chans its (map item_pv qs) c)
       thr sq (PBool false) ovf] [] =
  nx_disc_tail r1 s1 t1 ev p d cm fl rxp qs sq w chans its c thr ovf.
Proof.
  intros Hn He Hd. destruct (fuel_split 11 n) as (m & -> & Hm); [unfold drain_limit; lia|].
  exact (nx_disconnect_func r1 s1 t1 ev p d cm fl rxp qs sq m w chans its c thr ovf Hm He Hd).
Qed.

Theorem nx_disconnect_streaming_run n r1 s1 t1 ev p d cm fl rxp qs sq w chans its c r2 s2 t2 ovf : (267 <= n)%nat ->
  List.length (Config.en_new c) = List.length (Config.en_now c) ->
  List.length (Config.div_new c) = List.length (Config.div_now c) ->
  call_func program n NxscopeHandler_disconnect
    [nxh (PBool true) (ccomm (PBool true) (fake_thread r1 s1 t1) ev w p d cm fl rxp chans its (map item_pv qs) c)
       (fake_thread r2 s2 t2) sq (PBool true) ovf] [] =
  nx_disc_streaming_out r1 s1 t1 ev p d cm fl rxp qs sq w chans its c r2 s2 t2 ovf.
Proof.
  intros Hn He Hd. destruct (fuel_split 11 n) as (m & -> & Hm); [unfold drain_limit; lia|].
  exact (nx_disconnect_streaming_func r1 s1 t1 ev p d cm fl rxp qs sq m w chans its c r2 s2 t2 ovf Hm He Hd).
Qed.

(** what a write that returns normally has written: the divider request (only
    if the device supports dividers), then the enable request *)
Lemma src_write_enable_ok cm fl c chans w its c2 chans2 w2 its2 :
  src_write_enable cm fl c chans w its = WOk c2 chans2 w2 its2 ->
  exists be, Request.frame_enable (en_request c) cm = Frame.Ok be /\ w2 = (w ++ [be])%list.
Proof.
  unfold src_write_enable, write_step. destruct (Request.frame_enable (en_request c) cm) as [b|e|e]; try discriminate.
  intros H. exists b. split; [reflexivity|].
  destruct (fst (ack_step (ack_sup fl) its)) as [[st rc]|e|e]; try discriminate H. cbn [fst] in H.
  destruct st; [destruct (Nat.eqb _ _)|]; inversion H; reflexivity.
Qed.

Lemma src_write_div_ok cm fl c chans w its c2 chans2 w2 its2 :
  src_write_div cm fl c chans w its = WOk c2 chans2 w2 its2 ->
  exists bd, Request.frame_div (div_request c) cm = Frame.Ok bd /\ w2 = (w ++ [bd])%list /\ en_request c2 = en_request c.
Proof.
  unfold src_write_div, write_step. destruct (Request.frame_div (div_request c) cm) as [b|e|e]; try discriminate.
  intros H. exists b. split; [reflexivity|].
  destruct (fst (ack_step (ack_sup fl) its)) as [[st rc]|e|e]; try discriminate H. cbn [fst] in H.
  destruct st; [destruct (Nat.eqb _ _)|]; inversion H; split; reflexivity.
Qed.

Definition write_reqs (cm fl : Z) (c : Config.client) (ks : list bytes) : Prop :=
  exists be, Request.frame_enable (en_request c) cm = Frame.Ok be /\
    if div_sup fl then exists bd, Request.frame_div (div_request c) cm = Frame.Ok bd /\ ks = [bd; be]
    else ks = [be].

Lemma src_write_ok cm fl c chans w its c2 chans2 w2 its2 :
  src_write cm fl c chans w its = WOk c2 chans2 w2 its2 ->
  exists ks, w2 = (w ++ ks)%list /\ write_reqs cm fl c ks.
Proof.
  unfold src_write, write_reqs. destruct (div_sup fl).
  - destruct (src_write_div cm fl c chans w its) as [c1 chans1 w1 its1| |] eqn:Ed; try discriminate.
    intros He. destruct (src_write_div_ok _ _ _ _ _ _ _ _ _ _ Ed) as (bd & Hbd & -> & Hr).
    destruct (src_write_enable_ok _ _ _ _ _ _ _ _ _ _ He) as (be & Hbe & ->). rewrite Hr in Hbe.
    exists [bd; be]. rewrite <- app_assoc. split; [reflexivity|]. exists be. split; [exact Hbe|]. exists bd. auto.
  - intros He. destruct (src_write_enable_ok _ _ _ _ _ _ _ _ _ _ He) as (be & Hbe & ->).
    exists [be]. split; [reflexivity|]. exists be. auto.
Qed.

(** DISCONNECT THAT RETURNS NORMALLY, from a connected handler (streaming or
    not): [_connected = False], [_stream_started = False], both workers
    stopped, the communication handler stopped with [_dev = None] and the link
    closed; written: the stop-stream request IFF the stream was started, then
    the requests of the final write of the all-disabled configuration *)
Theorem nx_disconnect_clean n r1 s1 t1 ev p d cm fl rxp qs sq w chans its c (strm r2 : bool) s2 t2 ovf nx' :
  (267 <= n)%nat ->
  List.length (Config.en_new c) = List.length (Config.en_now c) ->
  List.length (Config.div_new c) = List.length (Config.div_now c) ->
  call_func program n NxscopeHandler_disconnect
    [nxh (PBool true) (ccomm (PBool true) (fake_thread r1 s1 t1) ev w p d cm fl rxp chans its (map item_pv qs) c)
       (fake_thread r2 s2 t2) sq (PBool strm) ovf] [] = PyLite.Ok (PNone, Some nx') ->
  exists l c2 w2 its2 ks,
    set_many_at (Config.en_new c) (range_ix cm) false = inl l /\
    nx' = nxh (PBool false)
            (gcomm (PBool false) (fake_thread false s1 (if r1 then t1 + 1 else t1)) (ev ++ ["intf.stop"])
               w2 p (d + 1) PNone (map item_pv its2) (map item_pv (drain qs 4)) [("_channels", chans_obj c2)])
            (fake_thread (if strm then false else r2) s2 (if strm && r2 then t2 + 1 else t2)) sq (PBool false) ovf /\
    w2 = (w ++ (if strm then [start_req false] else []) ++ ks)%list /\
    write_reqs cm fl (Config.upd_en c l) ks.
Proof.
  intros Hn He Hd H. destruct strm.
  - rewrite nx_disconnect_streaming_run in H by assumption. unfold nx_disc_streaming_out in H.
    destruct (fst (ack_step (ack_sup fl) its)) as [ta|e|e]; try discriminate H. unfold nx_disc_tail in H.
    destruct (set_many_at (Config.en_new c) (range_ix cm) false) as [l|l]; try discriminate H.
    destruct (src_write cm fl (Config.upd_en c l) chans (w ++ [start_req false]) (snd (ack_step (ack_sup fl) its)))
      as [c2 chans2 w2 its2| |] eqn:Ew; try discriminate H.
    destruct (src_write_ok _ _ _ _ _ _ _ _ _ _ Ew) as (ks & -> & Hk).
    inversion H. exists l, c2, ((w ++ [start_req false]) ++ ks)%list, (drain its2 4), ks.
    split; [reflexivity|]. split; [destruct r2; reflexivity|]. split; [rewrite <- app_assoc; reflexivity|exact Hk].
  - rewrite nx_disconnect_run in H by assumption. unfold nx_disc_tail in H.
    destruct (set_many_at (Config.en_new c) (range_ix cm) false) as [l|l]; try discriminate H.
    destruct (src_write cm fl (Config.upd_en c l) chans w its) as [c2 chans2 w2 its2| |] eqn:Ew; try discriminate H.
    destruct (src_write_ok _ _ _ _ _ _ _ _ _ _ Ew) as (ks & -> & Hk).
    inversion H. exists l, c2, (w ++ ks)%list, (drain its2 4), ks.
    split; [reflexivity|]. split; [reflexivity|]. split; [reflexivity|exact Hk].
Qed.

(** ** connect, then disconnect *)
(** the state after a successful [connect] from a handler that is not
    connected; then [disconnect]: no IndexError (the buffer has one entry per
    channel), and the outcome is decided by the final write alone *)
Theorem nx_connect_then_disconnect n (r : bool) (s t : Z) ev w p d q qs rest thr sq ovf dev nx1 :
  crest rest -> (267 <= n)%nat ->
  call_func program n NxscopeHandler_connect
    [nxh (PBool false) (gcomm (PBool false) (fake_thread r s t) ev w p d PNone (map item_pv q) (map item_pv qs) rest)
       thr sq (PBool false) ovf] [] = PyLite.Ok (dev, Some nx1) ->
  exists cm fl rxp acc w1 p1 d1 q1 qs1,
    let chans := map chan_desc_of acc in
    let off := Config.upd_en (init_cli chans) (map (fun _ => false) (map cd_en chans)) in
    let s' := if r then s else s + 1 in
    dev = dev_of cm fl rxp acc /\
    call_func program n NxscopeHandler_disconnect [nx1] [] =
    match src_write cm fl off chans w1 q1 with
    | WOk c2 chans2 w2 its2 =>
        PyLite.Ok (PNone,
          Some (nxh (PBool false)
                  (gcomm (PBool false) (fake_thread false s' (t + 1)) (ev ++ ["intf.start"; "intf.stop"])
                     w2 p1 (d1 + 1) PNone (map item_pv (drain its2 4)) (map item_pv (drain qs1 4))
                     [("_channels", chans_obj c2)])
                  thr (PList (repeat (PList []) (Z.to_nat cm))) (PBool false) ovf))
    | WExc e c2 chans2 w2 its2 =>
        ExcS e (self_st (nxh (PBool true)
                           (ccomm (PBool true) (fake_thread true s' t) (ev ++ ["intf.start"]) w2 p1 d1 cm fl rxp chans2 its2
                              (map item_pv qs1) c2)
                           thr (PList (repeat (PList []) (Z.to_nat cm))) (PBool false) ovf))
    | WUnsup x => Unsupported x
    end.
Proof.
  intros Hrest Hn H. rewrite nx_connect_run in H by (assumption || lia). unfold nx_connect_out in H.
  destruct (connect_m 6 (start_state w p d q qs)) as [[res rem] [[[[w1 p1] d1] q1] qs1]] eqn:Ec.
  destruct res as [cm fl rxp acc| |e|e]; try discriminate H.
  destruct (connect_m_dev_shape _ _ _ _ _ _ _ _ Ec) as (Hcm & _ & Hz).
  inversion H; subst dev nx1. clear H.
  exists cm, fl, rxp, acc, w1, p1, d1, q1, qs1. cbv zeta. split; [reflexivity|].
  cbn [gcomm_of]. rewrite sub_q0_repeat.
  change (gcomm (PBool true) (fake_thread true (if r then s else s + 1) t) (ev ++ ["intf.start"]) w1 p1 d1
            (dev_of cm fl rxp acc) (map item_pv q1) (map item_pv qs1)
            [("_channels", chans_obj (init_cli (map chan_desc_of acc)))])
    with (ccomm (PBool true) (fake_thread true (if r then s else s + 1) t) (ev ++ ["intf.start"]) w1 p1 d1 cm fl rxp
            (map chan_desc_of acc) q1 (map item_pv qs1) (init_cli (map chan_desc_of acc))).
  rewrite nx_disconnect_run by (assumption || reflexivity). unfold nx_disc_tail.
  assert (Hs : set_many_at (Config.en_new (init_cli (map chan_desc_of acc))) (range_ix cm) false =
               inl (map (fun _ => false) (map cd_en (map chan_desc_of acc)))).
  { cbn [init_cli Config.en_new]. rewrite <- Hz at 1.
    replace (zlen (map chan_desc_of acc)) with (zlen (map cd_en (map chan_desc_of acc))) by (unfold zlen; rewrite map_length; reflexivity).
    apply set_many_at_range_all. }
  rewrite Hs. rewrite <- app_assoc. reflexivity.
Qed.

(** ** stream_start / stream_stop on a connected handler, for every fuel above a constant *)
Theorem nx_stream_start_run n cn started thrd ev p d cm fl rxp sitems sq w chans its c r2 s2 t2 ovf : (8 <= n)%nat ->
  List.length (Config.en_new c) = List.length (Config.en_now c) ->
  List.length (Config.div_new c) = List.length (Config.div_now c) ->
  call_func program n NxscopeHandler_stream_start
    [nxh cn (ccomm started thrd ev w p d cm fl rxp chans its sitems c) (fake_thread r2 s2 t2) sq (PBool false) ovf] [] =
  nx_stream_start_out cn started thrd ev p d cm fl rxp sitems sq w chans its c r2 s2 t2 ovf.
Proof. intros Hn He Hd. fuel 8%nat. apply nx_stream_start_func; assumption. Qed.

Theorem nx_stream_stop_run n cn started thrd ev p d cm fl rxp sitems sq w chans its c r2 s2 t2 ovf : (6 <= n)%nat ->
  call_func program n NxscopeHandler_stream_stop
    [nxh cn (ccomm started thrd ev w p d cm fl rxp chans its sitems c) (fake_thread r2 s2 t2) sq (PBool true) ovf] [] =
  nx_stream_stop_out cn started thrd ev p d cm fl rxp sitems sq w chans its c r2 s2 t2 ovf.
Proof. intros Hn. fuel 6%nat. apply nx_stream_stop_func. Qed.

(** [stream_start] IGNORES the acknowledgement of the start request: when the
    write went through and the acknowledgement decodes, the worker is started
    and [_stream_started = True] whether the device said yes, said no, or said
    nothing at all (time-out) *)
Corollary nx_stream_start_ignores_ack n cn started thrd ev p d cm fl rxp sitems sq w chans its c r2 s2 t2 ovf
          c1 chans1 w1 its1 ack :
  (8 <= n)%nat ->
  List.length (Config.en_new c) = List.length (Config.en_now c) ->
  List.length (Config.div_new c) = List.length (Config.div_now c) ->
  src_write cm fl c chans w its = WOk c1 chans1 w1 its1 ->
  fst (ack_step (ack_sup fl) its1) = Frame.Ok ack ->
  call_func program n NxscopeHandler_stream_start
    [nxh cn (ccomm started thrd ev w p d cm fl rxp chans its sitems c) (fake_thread r2 s2 t2) sq (PBool false) ovf] [] =
  PyLite.Ok (PNone,
    Some (nxh cn (ccomm started thrd ev (w1 ++ [start_req true]) p d cm fl rxp chans1 (snd (ack_step (ack_sup fl) its1)) sitems c1)
            (fake_thread true (if r2 then s2 else s2 + 1) t2) sq (PBool true) (PInt 0))).
Proof.
  intros Hn He Hd Hw Ha. rewrite nx_stream_start_run by assumption. unfold nx_stream_start_out. rewrite Hw, Ha. reflexivity.
Qed.

(** * D. Against the hand model model/Handshake.v *)

(** the four flags of [Handshake.comm], read off a CommHandler object *)
Definition fld (a : string) (v : pv) : pv :=
  match v with PObj _ fs => match lookup a fs with Some x => x | None => PStr "<absent>" end | _ => PStr "<noobj>" end.
Definition pbool (v : pv) : bool := match v with PBool b => b | _ => false end.
Definition link_open (ev : pv) : bool :=
  match ev with
  | PList l => match last l PNone with PStr s => String.eqb s "intf.start" | _ => false end
  | _ => false
  end.
Definition comm_view (c : pv) : Handshake.comm :=
  Handshake.mkComm (pbool (fld "_started" c)) (pbool (fld "running" (fld "_thrd" c)))
    (link_open (fld "events" (fld "_intf" c))) (negb (is_none (fld "_dev" c))).

Lemma link_open_app ev s : link_open (PList (map PStr (ev ++ [s]))) = String.eqb s "intf.start".
Proof. unfold link_open. rewrite map_app. cbn [map]. rewrite last_last. reflexivity. Qed.

(** the model's [connect]: all four flags set on success, all four clear after the clean-up *)
Lemma model_connect_flags chmax o :
  snd (fst (Handshake.connect chmax o)) =
  match fst (fst (Handshake.connect chmax o)) with
  | Handshake.Connected => Handshake.mkComm true true true true
  | _ => Handshake.comm0
  end.
Proof. unfold Handshake.connect. destruct (Handshake.connect_loop _ _ _ _) as [[] st]; reflexivity. Qed.

(** the source's [_start]: the same flags, for the same kind of outcome *)
Definition run_outcome (r : PyLite.res (pv * option pv)) : option Handshake.outcome :=
  match r with
  | PyLite.Ok _ => Some Handshake.Connected
  | ExcS e _ => if String.eqb e "TimeoutError" then Some Handshake.TimeoutError else Some Handshake.DecodeError
  | _ => None
  end.
Definition run_self (self : pv) (r : PyLite.res (pv * option pv)) : pv :=
  match r with
  | PyLite.Ok (_, Some s) => s
  | ExcS _ [(_, s)] => s
  | _ => self
  end.

Theorem start_refines_connect n (r : bool) (s t : Z) ev w p d q qs rest chmax o :
  crest rest -> (265 <= n)%nat ->
  let self := gcomm (PBool false) (fake_thread r s t) ev w p d PNone (map item_pv q) (map item_pv qs) rest in
  let run := call_func program n CommHandler__start [self] [] in
  (exists out, run_outcome run = Some out) /\
  (run_outcome run = Some (fst (fst (Handshake.connect chmax o))) ->
   comm_view (run_self self run) = snd (fst (Handshake.connect chmax o))).
Proof.
  intros Hrest Hn self run. subst run self. rewrite start_run by assumption. unfold start_out.
  pose proof (connect_m_ok 6 (start_state w p d q qs)) as Hok. rewrite model_connect_flags.
  destruct (connect_m 6 (start_state w p d q qs)) as [[res rem] [[[[w' p'] d'] q'] qs']]. cbn [fst] in Hok.
  destruct res as [cm fl rxp acc| |e|e]; cbn [cres_ok] in Hok; [| | |contradiction].
  - split; [eexists; reflexivity|]. cbn [run_outcome]. intros H. injection H as H1. rewrite <- H1.
    cbn [run_self gcomm_of]. unfold comm_view, gcomm, gintf, fake_thread, fld. cbn [lookup String.eqb Ascii.eqb Bool.eqb pbool].
    rewrite link_open_app. reflexivity.
  - split; [eexists; reflexivity|]. cbn [run_outcome String.eqb Ascii.eqb Bool.eqb]. intros H. injection H as H1. rewrite <- H1.
    cbn [run_self gcomm_of]. unfold comm_view, gcomm, gintf, fake_thread, fld. cbn [lookup String.eqb Ascii.eqb Bool.eqb pbool].
    rewrite link_open_app. reflexivity.
  - assert (He : String.eqb e "TimeoutError" = false) by (destruct Hok as [<-|[<-|[]]]; reflexivity).
    cbn [run_outcome]. rewrite He. split; [eexists; reflexivity|]. intros H. injection H as H1. rewrite <- H1.
    cbn [run_self gcomm_of]. unfold comm_view, gcomm, gintf, fake_thread, fld. cbn [lookup String.eqb Ascii.eqb Bool.eqb pbool].
    rewrite link_open_app. reflexivity.
Qed.

(** [_stop] / [CommHandler.disconnect] against [Handshake.disconnect] *)
Theorem stop_refines_disconnect n (b r : bool) s t ev w p d dev q qs rest self' : crest rest -> (266 <= n)%nat ->
  let self := gcomm (PBool b) (fake_thread r s t) ev w p d dev (map item_pv q) (map item_pv qs) rest in
  call_method program n self "disconnect" [] = PyLite.Ok (PNone, self') ->
  comm_view self' = Handshake.disconnect (comm_view self).
Proof.
  intros Hrest Hn self H. subst self. destruct b.
  - rewrite disconnect_spec in H by assumption. inversion H.
    unfold comm_view, gcomm, gintf, fake_thread, fld. cbn [lookup String.eqb Ascii.eqb Bool.eqb pbool].
    rewrite link_open_app. reflexivity.
  - rewrite disconnect_stopped_spec in H by (assumption || lia). inversion H. reflexivity.
Qed.

(** ** the life cycle model [Handshake.nx_step] on a handler that was never connected *)
Definition ret_of (r : PyLite.res (pv * option pv)) : option Handshake.ret :=
  match r with
  | PyLite.Ok _ => Some Handshake.RDone
  | ExcS e _ =>
      if String.eqb e "AssertionError" then Some Handshake.RAssert
      else if String.eqb e "IndexError" then Some Handshake.RIndex else None
  | _ => None
  end.

Definition source_call (k : Handshake.call) : option (func * list pv) :=
  match k with
  | Handshake.KDisconnect => Some (NxscopeHandler_disconnect, [])
  | Handshake.KStreamStart => Some (NxscopeHandler_stream_start, [])
  | Handshake.KStreamStop => Some (NxscopeHandler_stream_stop, [])
  | Handshake.KWrite => Some (NxscopeHandler_channels_write, [])
  | _ => None
  end.

(** disconnect, stream_start, stream_stop, channels_write: source and model
    agree -- returned / AssertionError, and nothing changes on either side *)
Theorem fresh_agrees_with_model n thrd ev w p d items sitems thr sq ovf a b k f args :
  (4 <= n)%nat -> source_call k = Some (f, args) ->
  let nx := nx_fresh thrd ev w p d items sitems thr sq ovf in
  let run := call_func program n f (nx :: args) [] in
  ret_of run = Some (snd (Handshake.nx_step (Handshake.nx0 a b) k)) /\
  run_self nx run = nx /\
  fst (Handshake.nx_step (Handshake.nx0 a b) k) = Handshake.nx0 a b.
Proof.
  intros Hn Hk nx run. subst run nx.
  destruct k; inversion Hk; subst f args; cbn [Handshake.nx_step Handshake.nx0 Handshake.connected_f Handshake.stream_started fst snd].
  - unfold nx_fresh. fuel 1%nat. rewrite nx_disconnect_idle_func. auto.
  - rewrite fresh_stream_start by assumption. auto.
  - unfold nx_fresh. fuel 1%nat. rewrite nx_stream_stop_idle_func. auto.
  - rewrite fresh_channels_write by lia. auto.
Qed.

(** WHERE THEY DIFFER.  The model answers [KEnable] on a handler that is not
    connected with AssertionError ([RAssert]); the source raises AttributeError
    on a handler that was never connected ([_channels] does not exist yet) ... *)
Theorem fresh_enable_differs n thrd ev w p d items sitems thr sq ovf a b chans wn : (2 <= n)%nat ->
  snd (Handshake.nx_step (Handshake.nx0 a b) Handshake.KEnable) = Handshake.RAssert /\
  call_func program n NxscopeHandler_ch_enable [nx_fresh thrd ev w p d items sitems thr sq ovf; chans; wn] [] =
  ExcS "AttributeError" (self_st (nx_fresh thrd ev w p d items sitems thr sq ovf)).
Proof. intros Hn. split; [reflexivity|]. apply fresh_ch_enable. exact Hn. Qed.

(** ... and on a handler that was connected and disconnected ([_channels] is
    still there, [_dev] is None) [ch_enable(k)] RETURNS NORMALLY and changes the
    buffered configuration; with [writenow] it raises AssertionError AFTER that
    change (the model: [RAssert], state unchanged) *)
Theorem disconnected_enable_differs n cn started thrd ev w p d items sitems c thr sq ss ovf k l :
  (8 <= n)%nat -> set_at (Config.en_new c) k true = Some l ->
  let nx c' := nxh cn (gcomm started thrd ev w p d PNone items sitems [("_channels", chans_obj c')]) thr sq ss ovf in
  call_func program n NxscopeHandler_ch_enable [nx c; PInt k; PBool true] [] =
  ExcS "AssertionError" (self_st (nx (Config.upd_en c l))).
Proof.
  intros Hn Hs nx. subst nx. fuel 4%nat. rewrite nx_ch_enable_write_nodev_func. rewrite Hs. reflexivity.
Qed.

(** * E. Witnesses: concrete scripts for the behaviours the theorems describe

    A run of the INTERPRETED SOURCE on a concrete handler (by [vm_compute]).
    [view]: _connected, _stream_started, stream worker running, comm._started,
    recv worker running, comm._dev is None, the link's event log, the number of
    writes, comm._channels.en_new (or "<absent>"), _sub_q.
    [runs]: the calls in order; stops at the first raise and reports the
    exception and the RECEIVER AT THE RAISE. *)
Definition nwritten (v : pv) : Z := match v with PList l => Z.of_nat (List.length l) | _ => -1 end.
Definition view (nx : pv) : list pv :=
  let c := fld "_comm" nx in
  [fld "_connected" nx; fld "_stream_started" nx; fld "running" (fld "_thrd" nx);
   fld "_started" c; fld "running" (fld "_thrd" c);
   PBool (is_none (fld "_dev" c));
   fld "events" (fld "_intf" c); PInt (nwritten (fld "written" (fld "_intf" c)));
   match fld "_channels" c with PObj _ _ as ch => fld "en_new" ch | x => x end; fld "_sub_q" nx].

Fixpoint runs (nx : pv) (cs : list (func * list pv)) : list pv * string :=
  match cs with
  | [] => (view nx, "returned")
  | (f, args) :: r =>
      match call_func program 400 f (nx :: args) [] with
      | PyLite.Ok (_, Some nx') => runs nx' r
      | ExcS e [(_, nx')] => (view nx', e)
      | _ => (view nx, "??")
      end
  end.

Definition T : qitem := QTimeout.
(** a device with one channel "a", dividers and acknowledgements supported *)
Definition cmn1 : qitem := QFrame 2 [1%N; 3%N; 0%N].
Definition chi1 : qitem := QFrame 3 [0%N; 2%N; 1%N; 0%N; 0%N; 97%N].
Definition ack0 : qitem := QFrame 4 [0%N; 0%N; 0%N; 0%N].
Definition nak3 : qitem := QFrame 4 [3%N; 0%N; 0%N; 0%N].
Definition badack : qitem := QFrame 4 [1%N].
(** what the handshake consumes: 4 time-outs (the drain of [_start]), the
    CMNINFO answer, 4 time-outs (the drain of [_devinfo_get]), the CHINFO answer *)
Definition hs1 : list qitem := [T; T; T; T; cmn1; T; T; T; T; chi1].
Definition fresh (q : list qitem) : pv :=
  nx_fresh (fake_thread false 0 0) [] [] 0 0 (map item_pv q) [] (fake_thread false 0 0) (PList []) (PInt 0).

Definition C := (NxscopeHandler_connect, @nil pv).
Definition D := (NxscopeHandler_disconnect, @nil pv).
Definition SS := (NxscopeHandler_stream_start, @nil pv).
Definition EN (k : Z) (wn : bool) := (NxscopeHandler_ch_enable, [PInt k; PBool wn]).
Definition tt' := PBool true.  Definition ff' := PBool false.
Definition events (l : list string) : pv := PList (map PStr l).

(** W1. a silent device: TimeoutError after 1 stop request + 6 CMNINFO requests, with the clean-up done *)
Example w_silent :
  runs (fresh []) [C] =
  ([ff'; ff'; ff'; ff'; ff'; tt'; events ["intf.start"; "intf.stop"]; PInt 7; PStr "<absent>"; PList []], "TimeoutError").
Proof. vm_compute. reflexivity. Qed.

(** W2. frames that are already queued when [connect] is called are DROPPED by
    the drain of [_start] (at most 256 of them): the same two answers, without
    the four time-outs in front, and the handshake times out *)
Example w_early_answers_dropped : snd (runs (fresh [cmn1; chi1]) [C]) = "TimeoutError".
Proof. vm_compute. reflexivity. Qed.

(** W3. connect, disconnect with the two final writes acknowledged: clean; 5 writes:
    stop, CMNINFO, CHINFO, divider request, enable request *)
Example w_clean :
  runs (fresh (hs1 ++ [ack0; ack0])) [C; D] =
  ([ff'; ff'; ff'; ff'; ff'; tt'; events ["intf.start"; "intf.stop"]; PInt 5; PList [ff']; PList [PList []]], "returned").
Proof. vm_compute. reflexivity. Qed.

(** W4. the same with the device REFUSING both writes (or not answering at all): [disconnect] completes all the same *)
Example w_disconnect_refused : snd (runs (fresh (hs1 ++ [nak3; nak3])) [C; D]) = "returned" /\
                               snd (runs (fresh hs1) [C; D]) = "returned".
Proof. split; vm_compute; reflexivity. Qed.

(** W5. a MALFORMED acknowledgement of the final write: [disconnect] raises
    struct.error and the handler stays CONNECTED: the communication handler is
    started, its worker runs, the link is open *)
Example w_disconnect_bad_ack :
  runs (fresh (hs1 ++ [badack])) [C; D] =
  ([tt'; ff'; ff'; tt'; tt'; ff'; events ["intf.start"]; PInt 4; PList [ff']; PList [PList []]], "struct.error").
Proof. vm_compute. reflexivity. Qed.

(** W6. [stream_start] with the start request REFUSED (or unanswered): the
    stream worker runs and [_stream_started = True] all the same *)
Example w_stream_start_refused :
  runs (fresh (hs1 ++ [ack0; ack0; nak3])) [C; SS] =
  ([tt'; tt'; tt'; tt'; tt'; ff'; events ["intf.start"]; PInt 6; PList [ff']; PList [PList []]], "returned") /\
  runs (fresh (hs1 ++ [ack0; ack0])) [C; SS] =
  ([tt'; tt'; tt'; tt'; tt'; ff'; events ["intf.start"]; PInt 6; PList [ff']; PList [PList []]], "returned").
Proof. split; vm_compute; reflexivity. Qed.

(** W7. streaming, then [disconnect] with a malformed acknowledgement of the
    STOP request: struct.error, and the stream is still marked started, its worker still runs *)
Example w_disconnect_streaming_bad_ack :
  runs (fresh (hs1 ++ [ack0; ack0; ack0; badack])) [C; SS; D] =
  ([tt'; tt'; tt'; tt'; tt'; ff'; events ["intf.start"]; PInt 7; PList [ff']; PList [PList []]], "struct.error").
Proof. vm_compute. reflexivity. Qed.

(** W8. never connected: [ch_enable(0, True)] is an AttributeError *)
Example w_fresh_enable : snd (runs (fresh hs1) [EN 0 true]) = "AttributeError".
Proof. vm_compute. reflexivity. Qed.

(** W9. connected and disconnected: [ch_enable(0)] returns and changes the buffer;
    [ch_enable(0, True)] changes the buffer, then raises AssertionError *)
Example w_disconnected_enable :
  runs (fresh (hs1 ++ [ack0; ack0])) [C; D; EN 0 false] =
  ([ff'; ff'; ff'; ff'; ff'; tt'; events ["intf.start"; "intf.stop"]; PInt 5; PList [tt']; PList [PList []]], "returned") /\
  runs (fresh (hs1 ++ [ack0; ack0])) [C; D; EN 0 true] =
  ([ff'; ff'; ff'; ff'; ff'; tt'; events ["intf.start"; "intf.stop"]; PInt 5; PList [tt']; PList [PList []]], "AssertionError").
Proof. split; vm_compute; reflexivity. Qed.

(** W10. A DEVICE THAT ANNOUNCES ZERO CHANNELS: [connect] succeeds; [disconnect]
    raises IndexError (the request builder evaluates [enable[0]] on the empty
    list, Parser.frame_enable / frame_div) and leaves the handler connected --
    every time: such a handler can never be disconnected.  With or without
    divider support *)
Example w_zero_channels :
  runs (fresh [T; T; T; T; QFrame 2 [0%N; 3%N; 0%N]]) [C; D] =
  ([tt'; ff'; ff'; tt'; tt'; ff'; events ["intf.start"]; PInt 2; PList []; PList []], "IndexError") /\
  runs (fresh [T; T; T; T; QFrame 2 [0%N; 0%N; 0%N]]) [C; D; D] =
  ([tt'; ff'; ff'; tt'; tt'; ff'; events ["intf.start"]; PInt 2; PList []; PList []], "IndexError").
Proof. split; vm_compute; reflexivity. Qed.

(** * Audit *)
Print Assumptions connect_m_ok.
Print Assumptions connect_m_timeout.
Print Assumptions connect_m_bounds.
Print Assumptions start_run.
Print Assumptions stop_run.
Print Assumptions connect_run.
Print Assumptions disconnect_run.
Print Assumptions start_outcomes.
Print Assumptions start_request_bound.
Print Assumptions start_spec.
Print Assumptions stop_spec.
Print Assumptions start_started_spec.
Print Assumptions stop_stopped_spec.
Print Assumptions connect_spec.
Print Assumptions connect_started_spec.
Print Assumptions disconnect_spec.
Print Assumptions disconnect_stopped_spec.
Print Assumptions disconnect_returns.
Print Assumptions connect_disconnect.
Print Assumptions nx_connect_connected_spec.
Print Assumptions nx_disconnect_idle_spec.
Print Assumptions nx_stream_stop_idle_spec.
Print Assumptions nx_stream_start_started_spec.
Print Assumptions fresh_stream_stop.
Print Assumptions fresh_disconnect.
Print Assumptions fresh_stream_start.
Print Assumptions fresh_channels_write.
Print Assumptions fresh_ch_enable.
Print Assumptions fresh_ch_disable.
Print Assumptions fresh_ch_disable_all.
Print Assumptions fresh_channels_default_cfg.
Print Assumptions fresh_dev_channel_get.
Print Assumptions nx_connect_run.
Print Assumptions nx_connect_outcomes.
Print Assumptions nx_disconnect_run.
Print Assumptions nx_disconnect_streaming_run.
Print Assumptions nx_disconnect_clean.
Print Assumptions nx_connect_then_disconnect.
Print Assumptions nx_stream_start_run.
Print Assumptions nx_stream_stop_run.
Print Assumptions nx_stream_start_ignores_ack.
Print Assumptions start_refines_connect.
Print Assumptions stop_refines_disconnect.
Print Assumptions fresh_agrees_with_model.
Print Assumptions fresh_enable_differs.
Print Assumptions disconnected_enable_differs.
Print Assumptions w_zero_channels.
Print Assumptions w_disconnect_bad_ack.

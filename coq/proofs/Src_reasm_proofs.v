(** Frame reassembly on the client: the interpreted source of
    CommHandler._read_hdr / CommHandler._read_frame (comm.py; the ASTs of
    gen/Src_comm.v run by the PyLite interpreter) over the scripted link of the
    harness prelude computes the hand model of model/Reasm.v -- for ALL
    [prev], [l] and all fuel above an explicit linear bound. *)
From Coq Require Import String Ascii List ZArith NArith Bool Lia ZifyBool.
From NX Require Import Bytes PyStruct Crc PyLite PyLite_tactics
  Src_iframe Src_serialframe Src_parse Src_comm Src_prelude Src_all.
From NX Require Frame Gen_frame Reasm Reasm_proofs.
From NX Require Import Src_serialframe_proofs.
Import ListNotations.
Import Frame(EHDR, EFOOT).
Open Scope string_scope.
Open Scope list_scope.
Open Scope Z_scope.

(** * Objects *)
Definition pa : pv := PObj "Parser" [("_frame", sf); ("_user_types", PNone)].
Definition intf (l : Reasm.link) : pv := PObj "ScriptedIntf" [("chunks", PList (map PBytes l))].
Definition ch (prev : bytes) (l : Reasm.link) : pv :=
  PObj "CommHandler" [("_prev_read", PBytes prev); ("_intf", intf l); ("_parse", pa)].

(** * Model-side unfoldings and measure facts (no well-formedness needed) *)
Lemma accumulate_S f need buf l :
  Reasm.accumulate (S f) need buf l =
  if zlen buf <? need then
    match l with
    | [] => (None, buf, [])
    | [] :: r => (None, buf, r)
    | c :: r => Reasm.accumulate f need (buf ++ c) r
    end
  else (Some buf, buf, l).
Proof.
  cbn [Reasm.accumulate]. destruct (zlen buf <? need); [|reflexivity].
  destruct l as [|[|x c] r]; reflexivity.
Qed.

Lemma fill_S f need buf l :
  Reasm.fill (S f) need buf l =
  if zlen buf <? need then
    match l with
    | [] => (buf, [])
    | [] :: r => (buf, r)
    | c :: r => Reasm.fill f need (buf ++ c) r
    end
  else (buf, l).
Proof.
  cbn [Reasm.fill]. destruct (zlen buf <? need); [|reflexivity].
  destruct l as [|[|x c] r]; reflexivity.
Qed.

Lemma accumulate_inv : forall f need buf l o b2 l2,
  Reasm.accumulate f need buf l = (o, b2, l2) ->
  b2 ++ List.concat l2 = buf ++ List.concat l /\
  (List.length l2 <= List.length l)%nat /\
  (forall b, o = Some b -> b = b2 /\ need <= zlen b2).
Proof.
  induction f as [|f IH]; intros need buf l o b2 l2 H.
  - cbn [Reasm.accumulate] in H. destruct (zlen buf <? need) eqn:E; inversion H; subst;
      (split; [reflexivity|split; [lia|]]); intros b Hb; inversion Hb; subst. split; [reflexivity|lia].
  - rewrite accumulate_S in H. destruct (zlen buf <? need) eqn:E.
    + destruct l as [|[|x c] r].
      * inversion H; subst. split; [reflexivity|split; [lia|]]. discriminate.
      * inversion H; subst. split; [reflexivity|split; [cbn [List.length]; lia|]]. discriminate.
      * apply IH in H. destruct H as (H1 & H2 & H3). split; [|split].
        -- rewrite H1. cbn [List.concat]. now rewrite <- app_assoc.
        -- cbn [List.length]. lia.
        -- exact H3.
    + inversion H; subst. split; [reflexivity|split; [lia|]].
      intros b Hb; inversion Hb; subst. split; [reflexivity|lia].
Qed.

Lemma fill_inv : forall f need buf l b2 l2,
  Reasm.fill f need buf l = (b2, l2) -> (List.length l2 <= List.length l)%nat.
Proof.
  induction f as [|f IH]; intros need buf l b2 l2 H.
  - cbn [Reasm.fill] in H. destruct (zlen buf <? need); inversion H; subst; lia.
  - rewrite fill_S in H. destruct (zlen buf <? need).
    + destruct l as [|[|x c] r].
      * inversion H; subst. lia.
      * inversion H; subst. cbn [List.length]. lia.
      * apply IH in H. cbn [List.length]. lia.
    + inversion H; subst. lia.
Qed.

Lemma read_hdr_S f prev l :
  Reasm.read_hdr (S f) prev l =
  match Reasm.accumulate (S (List.length l)) 4 prev l with
  | (None, buf, l') => Reasm.HNone buf l'
  | (Some buf, _, l') =>
      if Frame.hdr_find buf <? 0 then Reasm.HNone [] l'
      else
        let b := slice_from buf (Frame.hdr_find buf) in
        if zlen b <? 4 then Reasm.read_hdr f b l'
        else match Frame.hdr_decode b with
             | Frame.Raise w => Reasm.HRaise w
             | Frame.Err _ => Reasm.read_hdr f (slice_from b 1) l'
             | Frame.Ok (fid, flen) => Reasm.HFound fid flen b l'
             end
  end.
Proof. reflexivity. Qed.

(** [_prev_read] is NOT assigned on the path of _read_hdr that returns a
    header: it keeps the value it had at the start of the last iteration of
    [while True] (the argument [prev] of the last recursive call of
    [Reasm.read_hdr]).  [hdr_prev] computes it. *)
Fixpoint hdr_prev (fuel : nat) (prev : bytes) (l : Reasm.link) : bytes :=
  match fuel with
  | O => prev
  | S f =>
      match Reasm.accumulate (S (List.length l)) 4 prev l with
      | (None, _, _) => prev
      | (Some buf, _, l') =>
          if Frame.hdr_find buf <? 0 then prev
          else
            let b := slice_from buf (Frame.hdr_find buf) in
            if zlen b <? 4 then hdr_prev f b l'
            else match Frame.hdr_decode b with
                 | Frame.Err _ => hdr_prev f (slice_from b 1) l'
                 | _ => prev
                 end
      end
  end.

Lemma hdr_prev_S f prev l :
  hdr_prev (S f) prev l =
  match Reasm.accumulate (S (List.length l)) 4 prev l with
  | (None, _, _) => prev
  | (Some buf, _, l') =>
      if Frame.hdr_find buf <? 0 then prev
      else
        let b := slice_from buf (Frame.hdr_find buf) in
        if zlen b <? 4 then hdr_prev f b l'
        else match Frame.hdr_decode b with
             | Frame.Err _ => hdr_prev f (slice_from b 1) l'
             | _ => prev
             end
  end.
Proof. reflexivity. Qed.

(** the link at the point where _read_hdr stops (returns or raises): what
    [Reasm.read_hdr] reports in [HNone]/[HFound], and, when [hdr_decode]
    raises, the unread chunks of the receiver at that raise *)
Fixpoint hdr_rest (fuel : nat) (prev : bytes) (l : Reasm.link) : Reasm.link :=
  match fuel with
  | O => l
  | S f =>
      match Reasm.accumulate (S (List.length l)) 4 prev l with
      | (None, _, l') => l'
      | (Some buf, _, l') =>
          if Frame.hdr_find buf <? 0 then l'
          else
            let b := slice_from buf (Frame.hdr_find buf) in
            if zlen b <? 4 then hdr_rest f b l'
            else match Frame.hdr_decode b with
                 | Frame.Err _ => hdr_rest f (slice_from b 1) l'
                 | _ => l'
                 end
      end
  end.

Lemma hdr_rest_S f prev l :
  hdr_rest (S f) prev l =
  match Reasm.accumulate (S (List.length l)) 4 prev l with
  | (None, _, l') => l'
  | (Some buf, _, l') =>
      if Frame.hdr_find buf <? 0 then l'
      else
        let b := slice_from buf (Frame.hdr_find buf) in
        if zlen b <? 4 then hdr_rest f b l'
        else match Frame.hdr_decode b with
             | Frame.Err _ => hdr_rest f (slice_from b 1) l'
             | _ => l'
             end
  end.
Proof. reflexivity. Qed.

Lemma length_slice_from_le {A} (l : list A) i : (List.length (slice_from l i) <= List.length l)%nat.
Proof. unfold slice_from. rewrite skipn_length. lia. Qed.

Lemma length_slice_from_1 {A} (b : list A) :
  (0 < List.length b)%nat -> (List.length (slice_from b 1) < List.length b)%nat.
Proof.
  intros H. apply Reasm_proofs.slice_from_shorter; [|lia]. destruct b; [cbn in H; lia|discriminate].
Qed.

(** the model's fuel suffices (no well-formedness hypothesis needed), and the
    link only gets shorter *)
Lemma read_hdr_inv : forall f p l,
  (Reasm_proofs.nbytes p l < f)%nat ->
  Reasm.read_hdr f p l <> Reasm.HFuel /\
  match Reasm.read_hdr f p l with
  | Reasm.HNone _ l' | Reasm.HFound _ _ _ l' => (List.length l' <= List.length l)%nat
  | _ => True
  end.
Proof.
  induction f as [|f IH]; intros p l Hf; [lia|].
  rewrite read_hdr_S.
  destruct (Reasm.accumulate (S (List.length l)) 4 p l) as [[[buf|] bx] l'] eqn:EA;
    destruct (accumulate_inv _ _ _ _ _ _ _ EA) as (Hcat & Hlen & Hsome).
  2:{ split; [discriminate|exact Hlen]. }
  destruct (Hsome buf eq_refl) as [Ebx Hz]. subst bx.
  apply (f_equal (@List.length _)) in Hcat. rewrite !app_length in Hcat.
  pose proof (length_slice_from_le buf (Frame.hdr_find buf)) as Hsl.
  pose proof (length_slice_from_1 (slice_from buf (Frame.hdr_find buf))) as Hsl1.
  destruct (Frame.hdr_find buf <? 0); [split; [discriminate|exact Hlen]|].
  cbv zeta.
  destruct (zlen (slice_from buf (Frame.hdr_find buf)) <? 4) eqn:E1.
  - destruct (IH (slice_from buf (Frame.hdr_find buf)) l') as [I1 I2];
      [unfold Reasm_proofs.nbytes, zlen in *; lia|].
    split; [exact I1|]. destruct (Reasm.read_hdr f _ l'); try exact I; lia.
  - destruct (Frame.hdr_decode (slice_from buf (Frame.hdr_find buf))) as [[fid flen]|er|w].
    + split; [discriminate|exact Hlen].
    + destruct (IH (slice_from (slice_from buf (Frame.hdr_find buf)) 1) l') as [I1 I2];
        [unfold Reasm_proofs.nbytes, zlen in *; lia|].
      split; [exact I1|]. destruct (Reasm.read_hdr f _ l'); try exact I; lia.
    + split; [discriminate|exact I].
Qed.

(** * Set-up of the executor *)
#[local] Hint Unfold
  Frame.hdr_len Frame.foot_len Frame.sof_byte Frame.crc16 Frame.crc_p
  Gen_frame.sof Gen_frame.hdr_end Gen_frame.foot Gen_frame.parse_ids
  Gen_frame.crc_poly Gen_frame.crc_init Gen_frame.crc_rev Gen_frame.crc_xorout
  Gen_frame.hdr_decode_fmt Gen_frame.crc_residue Gen_frame.decode_foot_off
  enum_id perr_obj hdr_obj frame_obj emb_hdr emb_frame : reasm_model.

#[local] Arguments Frame.known_id : simpl never.
#[local] Arguments Frame.hdr_find : simpl never.
#[local] Arguments Frame.hdr_decode : simpl never.
#[local] Arguments Frame.frame_decode : simpl never.
#[local] Arguments Reasm.accumulate : simpl never.
#[local] Arguments Reasm.fill : simpl never.
#[local] Arguments Reasm.read_hdr : simpl never.
#[local] Arguments Reasm.read_frame : simpl never.
#[local] Arguments hdr_prev : simpl never.
#[local] Arguments hdr_rest : simpl never.

Ltac py_unfold_hook ::= autounfold with reasm_model.

(** ** Environments with a symbolic tail.  The loops are entered with
    environments whose shape depends on the path taken so far (which locals
    have been bound, in which order), so the loop lemmas are stated for an
    arbitrary environment [e] constrained by look-up equations; the global
    names the code refers to must not be shadowed ([genv]). *)
Definition genv (e : env) : Prop :=
  lookup "len" e = None /\ lookup "EParseError" e = None.

(** replace the term [t] of the goal by [r], given a proof tactic for [t = r];
    ([rewrite] would try to unify its pattern with every look-up of the goal
    up to conversion, which is slow) *)
Ltac fast_rw t r prf :=
  let z := fresh "z" in
  let Hz := fresh "Hz" in
  set (z := t);
  assert (Hz : z = r) by (subst z; prf);
  clearbody z; subst z.

Ltac env_rw1 :=
  match goal with
  | |- context [lookup ?x (update ?x ?v ?e)] =>
      fast_rw (lookup x (update x v e)) (Some v) ltac:(apply lookup_update_same)
  | |- context [lookup ?x (update ?y ?v ?e)] =>
      fast_rw (lookup x (update y v e)) (lookup x e) ltac:(apply lookup_update_other; reflexivity)
  | H : lookup ?x ?e = ?r |- context [lookup ?x ?e] =>
      fast_rw (lookup x e) r ltac:(exact H)
  (* closed instances only (the pattern variables cannot capture bound
     variables): the not yet executed continuation stays folded *)
  | |- context [resolve_name ?P ?e ?x] =>
      let t := constr:(resolve_name P e x) in
      let t' := eval cbv beta delta [resolve_name] in t in change t with t'; cbn [path_get path_set]
  | |- context [write_back ?P ?e ?p ?v] =>
      let t := constr:(write_back P e p v) in
      let t' := eval cbv beta delta [write_back] in t in change t with t'; cbn [path_get path_set]
  | |- context [assign_attr ?P ?cf ?e ?q ?a ?v] =>
      let t := constr:(assign_attr P cf e q a v) in
      let t' := eval cbv beta delta [assign_attr] in t in change t with t'; cbn [path_get path_set]
  end.
Ltac env_rw := repeat env_rw1.

(** one step: normalise, resolve the look-ups in symbolic environments, else
    the generic step *)
Ltac estep1 :=
  pynorm_head;
  first [ progress env_rw
        | lazymatch goal with
          | |- ?L = _ =>
              let h := head_of L in
              tryif is_result h then fail "the left-hand side is a result" else pystep_head h
          end ].
Ltac esteps := repeat estep1; pynorm_head.
Ltac genv_split :=
  repeat match goal with H : genv _ |- _ => destruct H as [? ?] end.
Ltac genv_solve := split; env_rw; first [assumption | reflexivity].
(** side condition [lookup <name> e = Some ..] *)
Ltac lk := env_rw; reflexivity.

(** * The link: ScriptedIntf.read *)
Lemma norm_index_0 n : norm_index (S n) 0 = Some O.
Proof. unfold norm_index. replace (0 <? Z.of_nat (S n)) with true by lia. reflexivity. Qed.

Ltac py_stuck_hook h ::=
  lazymatch h with
  | norm_index (S _) 0 => rewrite norm_index_0
  | Frame.known_id _ => rewrite known_id_enum
  end.

Lemma intf_read_func n l :
  call_func program (S n) ScriptedIntf_read [intf l] [] =
  PyLite.Ok (PBytes (fst (Reasm.read l)), Some (intf (snd (Reasm.read l)))).
Proof.
  pystart. destruct l as [|c r]; cbn [Reasm.read fst snd].
  - pyrun.
  - unfold intf. pysteps. rewrite Reasm_proofs.slice_from_1_cons. pyrun.
Qed.

#[local] Hint Resolve intf_read_func : pyspec.

Theorem intf_read_spec n l :
  call_method program (1 + n) (intf l) "read" [] =
  PyLite.Ok (PBytes (fst (Reasm.read l)), intf (snd (Reasm.read l))).
Proof. pystart. pyrun. Qed.

(** * Callee specifications in the form the callers use (keyword arguments) *)
Lemma parser_frame_func n :
  call_func program (S n) Parser_frame [pa] [] = PyLite.Ok (sf, Some pa).
Proof. pystart. pyrun. Qed.

Lemma hdr_find_kw_func n d :
  call_func program (S n) SerialFrame_hdr_find [sf] [("data", PBytes d)] =
  PyLite.Ok (PInt (Frame.hdr_find d), Some sf).
Proof. pystart. unfold Frame.hdr_find. pyrun. Qed.

Lemma hdr_decode_kw_func n d :
  call_func program (S (S n)) SerialFrame_hdr_decode [sf] [("data", PBytes d)] =
  do v <- attach (self_st sf) (emb_hdr (Frame.hdr_decode d)); PyLite.Ok (v, Some sf).
Proof. pystart. unfold Frame.hdr_decode. pyrun. Qed.

#[local] Hint Resolve parser_frame_func hdr_find_kw_func hdr_decode_kw_func
  hdr_len_func frame_decode_func : pyspec.

(** * The loops of the two methods, taken out of the generated ASTs *)
Fixpoint first_while (ss : stmts) : option (expr * stmts) :=
  match ss with
  | Snil => None
  | Scons (SWhile c b) _ => Some (c, b)
  | Scons _ r => first_while r
  end.
Definition the_while (ss : stmts) : expr * stmts :=
  match first_while ss with Some cb => cb | None => (EConst PNone, Snil) end.

(** [while True:] of _read_hdr, the accumulation loop inside it, the fill loop of _read_frame *)
Definition hdr_c : expr := Eval cbv in fst (the_while (f_body CommHandler__read_hdr)).
Definition hdr_b : stmts := Eval cbv in snd (the_while (f_body CommHandler__read_hdr)).
Definition acc_c : expr := Eval cbv in fst (the_while hdr_b).
Definition acc_b : stmts := Eval cbv in snd (the_while hdr_b).
Definition fill_c : expr := Eval cbv in fst (the_while (f_body CommHandler__read_frame)).
Definition fill_b : stmts := Eval cbv in snd (the_while (f_body CommHandler__read_frame)).

(** ** The local variables the invariants speak about, computed from the ASTs
    (never written as literals: renaming a local of comm.py must not break the
    proofs).  The invariants constrain the environment by look-up equations for
    these names only; which other locals exist, and in which order they were
    bound, is left open. *)
Definition param0 (f : func) : string :=
  match f_params f with (x, _) :: _ => x | [] => "" end.
(** the variable of the first plain assignment [x = ...] of a block *)
Fixpoint first_assigned (ss : stmts) : string :=
  match ss with
  | Snil => ""
  | Scons (SAssign (TName x) _) _ => x
  | Scons _ r => first_assigned r
  end.
(** the variables of the first tuple assignment [a, b = ...] of a block *)
Fixpoint first_pair (ss : stmts) : string * string :=
  match ss with
  | Snil => ("", "")
  | Scons (SAssign (TNames [a; b]) _) _ => (a, b)
  | Scons _ r => first_pair r
  end.

(** _read_hdr: [self]; the buffer ([_bytes = self._prev_read], first statement of [while True]) *)
Definition v_self : string := Eval cbv in param0 CommHandler__read_hdr.
Definition v_buf : string := Eval cbv in first_assigned hdr_b.
(** _read_frame: [self]; [hdr, _bytes = self._read_hdr()] *)
Definition v_fself : string := Eval cbv in param0 CommHandler__read_frame.
Definition v_fhdr : string := Eval cbv in fst (first_pair (f_body CommHandler__read_frame)).
Definition v_fbuf : string := Eval cbv in snd (first_pair (f_body CommHandler__read_frame)).

(** the names as literals, for the look-up rewriting (which is syntactic) *)
Ltac names := cbv delta [v_self v_buf v_fself v_fhdr v_fbuf] in *.

(** * The accumulation loop of _read_hdr *)

(** [HX : while_loop .. (S k) e = <one iteration run to the end>]: a result, or
    the loop again at [k] from the environment after the iteration *)
Ltac loop_iter HX :=
  match goal with
  | |- context [while_loop ?P ?cf ?lf ?c ?b (S ?k) ?e] =>
      eassert (HX : while_loop P cf lf c b (S k) e = _)
        by (rewrite while_loop_S; cbv delta [acc_c acc_b fill_c fill_b hdr_c hdr_b];
            esteps; reflexivity)
  end.

Lemma acc_loop n lf : forall l k p0 buf e,
  (List.length l < k)%nat -> genv e ->
  lookup v_self e = Some (ch p0 l) -> lookup v_buf e = Some (PBytes buf) ->
  exists e', genv e' /\
    match Reasm.accumulate (S (List.length l)) 4 buf l with
    | (None, b', l') =>
        while_loop program (call_func program (S n)) lf acc_c acc_b k e =
          PyLite.Ok (ORet (PTuple [PNone; PNone]) e') /\
        lookup v_self e' = Some (ch b' l')
    | (Some b', _, l') =>
        while_loop program (call_func program (S n)) lf acc_c acc_b k e = PyLite.Ok (ONorm e') /\
        lookup v_self e' = Some (ch p0 l') /\ lookup v_buf e' = Some (PBytes b')
    end.
Proof.
  names.
  induction l as [|c r IH]; intros k p0 buf e Hk Hg Hs Hb; genv_split;
    (destruct k as [|k]; [cbn [List.length] in Hk; lia|]);
    rewrite accumulate_S; cbn [List.length] in *;
    (destruct (zlen buf <? 4) eqn:E;
     [| loop_iter HX; rewrite HX; exists e; split; [genv_solve|auto] ]).
  - loop_iter HX. rewrite HX.
    eexists; split; [|split; [reflexivity|]]; [genv_solve | env_rw; reflexivity].
  - destruct c as [|x c].
    + loop_iter HX. rewrite HX.
      eexists; split; [|split; [reflexivity|]]; [genv_solve | env_rw; reflexivity].
    + loop_iter HX. rewrite HX.
      match type of HX with
      | _ = while_loop _ _ _ _ _ _ ?e2 =>
          destruct (IH k p0 (buf ++ x :: c) e2) as (e' & Hg' & HI);
            [lia | genv_solve | env_rw; reflexivity | env_rw; reflexivity |]
      end.
      exists e'. split; [exact Hg'|]. exact HI.
Qed.

(** * The fill loop of _read_frame *)
Lemma fill_loop n lf fid flen err : forall l k p0 buf e,
  (List.length l < k)%nat -> genv e ->
  lookup v_fself e = Some (ch p0 l) -> lookup v_fbuf e = Some (PBytes buf) ->
  lookup v_fhdr e = Some (hdr_obj fid flen err) ->
  exists e', genv e' /\
    while_loop program (call_func program (S n)) lf fill_c fill_b k e = PyLite.Ok (ONorm e') /\
    lookup v_fself e' = Some (ch p0 (snd (Reasm.fill (S (List.length l)) flen buf l))) /\
    lookup v_fbuf e' = Some (PBytes (fst (Reasm.fill (S (List.length l)) flen buf l))) /\
    lookup v_fhdr e' = Some (hdr_obj fid flen err).
Proof.
  names.
  induction l as [|c r IH]; intros k p0 buf e Hk Hg Hs Hb Hh; genv_split;
    (destruct k as [|k]; [cbn [List.length] in Hk; lia|]);
    rewrite fill_S; cbn [List.length] in *;
    (destruct (zlen buf <? flen) eqn:E;
     [| loop_iter HX; rewrite HX; exists e; split; [genv_solve|auto] ]).
  - loop_iter HX. rewrite HX. cbn [fst snd].
    eexists; split; [|split; [reflexivity|]]; [genv_solve | repeat split; env_rw; reflexivity].
  - destruct c as [|x c].
    + loop_iter HX. rewrite HX. cbn [fst snd].
      eexists; split; [|split; [reflexivity|]]; [genv_solve | repeat split; env_rw; reflexivity].
    + loop_iter HX. rewrite HX.
      match type of HX with
      | _ = while_loop _ _ _ _ _ _ ?e2 =>
          destruct (IH k p0 (buf ++ x :: c) e2) as (e' & Hg' & HI);
            [lia | genv_solve | env_rw; reflexivity | env_rw; reflexivity | env_rw; reflexivity |]
      end.
      exists e'. split; [exact Hg'|]. exact HI.
Qed.

(** * _read_hdr *)
(** [pl], [ll]: the buffer and the unread chunks of the receiver when the
    method stops without having assigned [_prev_read] ([hdr_prev], [hdr_rest]):
    the receiver on the [HFound] path, and at the raise on the [HRaise] path
    (the raise of [SerialFrame.hdr_decode], which changes nothing) *)
Definition emb_hdr_out (pl : bytes) (ll : Reasm.link) (o : Reasm.hdr_out) : PyLite.res (pv * option pv) :=
  match o with
  | Reasm.HNone p l' => PyLite.Ok (PTuple [PNone; PNone], Some (ch p l'))
  | Reasm.HFound fid flen b l' =>
      PyLite.Ok (PTuple [hdr_obj (enum_id fid) flen (perr_obj "NOERR" 0); PBytes b], Some (ch pl l'))
  | Reasm.HRaise w => ExcS w (self_st (ch pl ll))
  | Reasm.HFuel => Fuel
  end.

(** what [call_func] keeps of the outcome of a body *)
Definition obs (r : PyLite.res out) : PyLite.res (pv * option pv) :=
  match r with
  | PyLite.Ok (ONorm e') => PyLite.Ok (PNone, lookup v_self e')
  | PyLite.Ok (ORet v e') => PyLite.Ok (v, lookup v_self e')
  | PyLite.Ok (OBrk _) | PyLite.Ok (OCont _) => Unsupported "break outside loop"
  | Exc c => Exc c
  | ExcS c e' => ExcS c (match lookup v_self e' with Some v => self_st v | None => [] end)
  | Fuel => Fuel
  | Unsupported w => Unsupported w
  end.

Lemma hdr_loop n lf : forall f k p l e,
  (Reasm_proofs.nbytes p l < f)%nat -> (f <= k)%nat -> (List.length l < lf)%nat ->
  genv e -> lookup v_self e = Some (ch p l) ->
  obs (while_loop program (call_func program (S (S n))) lf hdr_c hdr_b k e) =
  emb_hdr_out (hdr_prev f p l) (hdr_rest f p l) (Reasm.read_hdr f p l).
Proof.
  induction f as [|f IH]; intros k p l e Hf Hk Hl Hg Hs; [lia|].
  destruct k as [|k]; [lia|]. genv_split.
  rewrite read_hdr_S, hdr_prev_S, hdr_rest_S, while_loop_S. unfold obs, hdr_c, hdr_b. names.
  esteps.
  lazymatch goal with
  | |- ?L = _ =>
      let h := head_of L in
      lazymatch h with
      | while_loop _ _ _ _ _ _ ?e1 =>
          destruct (acc_loop (S n) lf l lf p p e1) as (e' & Hg' & HI);
            [lia | genv_solve | names; lk | names; lk |];
          names;
          destruct (Reasm.accumulate (S (List.length l)) 4 p l) as [[[buf|] bx] l'] eqn:EA;
          [ destruct HI as (HW & Hs' & Hb'); fast_rw h (PyLite.Ok (ONorm e')) ltac:(exact HW)
          | destruct HI as (HW & Hs'); fast_rw h (PyLite.Ok (ORet (PTuple [PNone; PNone]) e')) ltac:(exact HW) ]
      end
  end; genv_split.
  - destruct (accumulate_inv _ _ _ _ _ _ _ EA) as (Hcat & Hlen & Hsome).
    destruct (Hsome buf eq_refl) as [Ebx Hz]. subst bx.
    apply (f_equal (@List.length _)) in Hcat. rewrite !app_length in Hcat.
    pose proof (length_slice_from_le buf (Frame.hdr_find buf)) as Hsl.
    pose proof (length_slice_from_1 (slice_from buf (Frame.hdr_find buf))) as Hsl1.
    esteps;
      lazymatch goal with
      | |- match while_loop _ _ _ _ _ ?k ?e2 with _ => _ end = _ =>
          refine (IH k _ _ e2 _ _ _ _ _);
            [ unfold Reasm_proofs.nbytes, zlen in *; lia | lia | lia | genv_solve | env_rw; reflexivity ]
      | |- _ => reflexivity
      end.
  - esteps. reflexivity.
Qed.

(** the fuel the model gives its own [read_hdr] in [Reasm.read_frame] *)
Definition mfuel (p : bytes) (l : Reasm.link) : nat :=
  S (List.length p + List.length (List.concat l) + List.length l).
#[local] Arguments mfuel : simpl never.

Lemma obs_call (r : PyLite.res out) :
  obs (do o <- r; match o with ONorm e1 => PyLite.Ok (ONorm e1) | _ => PyLite.Ok o end) = obs r.
Proof. destruct r as [[]| | | |]; reflexivity. Qed.

Lemma read_hdr_func n p l :
  call_func program (S (S (S (mfuel p l + n)))) CommHandler__read_hdr [ch p l] [] =
  emb_hdr_out (hdr_prev (mfuel p l) p l) (hdr_rest (mfuel p l) p l) (Reasm.read_hdr (mfuel p l) p l).
Proof.
  assert (Hm : (Reasm_proofs.nbytes p l < mfuel p l)%nat /\ (List.length l < mfuel p l)%nat)
    by (unfold Reasm_proofs.nbytes, mfuel; lia).
  destruct Hm as [Hm1 Hm2]. pystart. esteps.
  lazymatch goal with
  | |- ?L = _ =>
      let h := head_of L in
      transitivity (obs h); [ generalize h; intros r; destruct r as [[]| | | |]; reflexivity | ]
  end.
  apply hdr_loop; [exact Hm1 | lia | lia | split; reflexivity | reflexivity].
Qed.

#[local] Hint Resolve read_hdr_func : pyspec.
#[local] Hint Unfold emb_hdr_out : reasm_model.

(** * _read_frame *)
(** the receiver when _read_frame raises: [_prev_read] has not been assigned
    ([hdr_prev]); the unread chunks are those _read_hdr left when it raised
    ([hdr_rest]), resp. those the fill loop left when [frame_decode] raises *)
Definition frame_raise_self (p : bytes) (l : Reasm.link) : pv :=
  match Reasm.read_hdr (mfuel p l) p l with
  | Reasm.HFound fid flen b l' =>
      ch (hdr_prev (mfuel p l) p l) (snd (Reasm.fill (S (List.length l')) flen b l'))
  | _ => ch (hdr_prev (mfuel p l) p l) (hdr_rest (mfuel p l) p l)
  end.

Definition emb_frame_out (rs : pv) (o : Reasm.frame_out) : PyLite.res (pv * option pv) :=
  match o with
  | Reasm.FNone p l' => PyLite.Ok (PNone, Some (ch p l'))
  | Reasm.FFrame fid payload p l' =>
      PyLite.Ok (frame_obj (enum_id fid) payload (perr_obj "NOERR" 0), Some (ch p l'))
  | Reasm.FRaise w => ExcS w (self_st rs)
  | Reasm.FFuel => Fuel
  end.

Lemma read_frame_func n p l :
  call_func program (S (S (S (S (mfuel p l + n))))) CommHandler__read_frame [ch p l] [] =
  emb_frame_out (frame_raise_self p l) (Reasm.read_frame p l).
Proof.
  pystart. unfold Reasm.read_frame, frame_raise_self.
  change (S (List.length p + List.length (List.concat l) + List.length l)) with (mfuel p l).
  pose proof (read_hdr_inv (mfuel p l) p l) as [_ Hle];
    [unfold Reasm_proofs.nbytes, mfuel; lia|].
  assert (Hm : (List.length l < mfuel p l)%nat) by (unfold mfuel; lia).
  esteps; try reflexivity.
  lazymatch goal with
  | |- ?L = _ =>
      let h := head_of L in
      lazymatch h with
      | while_loop _ (call_func _ (S ?m)) ?lf _ _ ?k ?e1 =>
          let xs := eval cbv in v_fself in
          let xb := eval cbv in v_fbuf in
          let xh := eval cbv in v_fhdr in
          lazymatch e1 with
          | context [(xs, ch ?pp ?ll)] =>
          lazymatch e1 with
          | context [(xb, PBytes ?bb)] =>
          lazymatch e1 with
          | context [(xh, PObj "DParseHdr" [("fid", ?fidv); ("flen", PInt ?fl); ("err", ?er)])] =>
              destruct (fill_loop m lf fidv fl er ll k pp bb e1) as (e' & Hg' & HW & Hs' & Hb' & Hh');
                [lia | split; reflexivity | reflexivity | reflexivity | reflexivity |];
              names;
              pose proof (fill_inv (S (List.length ll)) fl bb ll) as Hfl;
              destruct (Reasm.fill (S (List.length ll)) fl bb ll) as [b2 l2] eqn:EF;
              cbn [fst snd] in Hs', Hb';
              fast_rw h (PyLite.Ok (ONorm e')) ltac:(exact HW)
          end end end
      end
  end; genv_split.
  esteps; reflexivity.
Qed.

#[local] Hint Resolve read_frame_func : pyspec.
#[local] Hint Unfold emb_frame_out : reasm_model.

(** * The theorems: every fuel above an explicit linear bound *)

(** results of the method calls: value and receiver afterwards *)
Definition emb_hdr_meth (pl : bytes) (o : Reasm.hdr_out) : PyLite.res (pv * pv) :=
  match o with
  | Reasm.HNone p l' => PyLite.Ok (PTuple [PNone; PNone], ch p l')
  | Reasm.HFound fid flen b l' =>
      PyLite.Ok (PTuple [hdr_obj (enum_id fid) flen (perr_obj "NOERR" 0); PBytes b], ch pl l')
  | Reasm.HRaise w => Exc w
  | Reasm.HFuel => Fuel
  end.

Definition emb_frame_meth (o : Reasm.frame_out) : PyLite.res (pv * pv) :=
  match o with
  | Reasm.FNone p l' => PyLite.Ok (PNone, ch p l')
  | Reasm.FFrame fid payload p l' =>
      PyLite.Ok (frame_obj (enum_id fid) payload (perr_obj "NOERR" 0), ch p l')
  | Reasm.FRaise w => Exc w
  | Reasm.FFuel => Fuel
  end.

(** the measure: bytes buffered + bytes still on the link + chunks still on the link *)
Definition measure (prev : bytes) (l : Reasm.link) : nat :=
  (List.length prev + List.length (List.concat l) + List.length l)%nat.

Lemma mfuel_measure p l : mfuel p l = S (measure p l).
Proof. reflexivity. Qed.

(** _read_hdr refines [Reasm.read_hdr], run with the fuel [Reasm.read_frame]
    gives it.  On the [HFound] path the receiver keeps the [_prev_read] of the
    start of the last iteration, [hdr_prev]. *)
Theorem read_hdr_spec fuel prev l :
  (4 + measure prev l <= fuel)%nat ->
  call_method program fuel (ch prev l) "_read_hdr" [] =
  emb_hdr_meth (hdr_prev (S (measure prev l)) prev l) (Reasm.read_hdr (S (measure prev l)) prev l).
Proof.
  intros Hf. rewrite <- !mfuel_measure.
  replace fuel with (S (S (S (mfuel prev l + (fuel - 3 - mfuel prev l)))))
    by (rewrite mfuel_measure; lia).
  pystart. pyrun.
Qed.

Theorem read_hdr_model_fuel prev l : Reasm.read_hdr (S (measure prev l)) prev l <> Reasm.HFuel.
Proof. apply read_hdr_inv. unfold Reasm_proofs.nbytes, measure. lia. Qed.

Corollary read_hdr_no_fuel fuel prev l :
  (4 + measure prev l <= fuel)%nat ->
  call_method program fuel (ch prev l) "_read_hdr" [] <> Fuel.
Proof.
  intros Hf. rewrite read_hdr_spec by exact Hf.
  pose proof (read_hdr_model_fuel prev l) as N.
  destruct (Reasm.read_hdr (S (measure prev l)) prev l); cbn [emb_hdr_meth]; congruence.
Qed.

(** _read_frame refines [Reasm.read_frame] *)
Theorem read_frame_spec fuel prev l :
  (5 + measure prev l <= fuel)%nat ->
  call_method program fuel (ch prev l) "_read_frame" [] = emb_frame_meth (Reasm.read_frame prev l).
Proof.
  intros Hf.
  replace fuel with (S (S (S (S (mfuel prev l + (fuel - 4 - mfuel prev l))))))
    by (rewrite mfuel_measure; lia).
  pystart. pyrun.
Qed.

Theorem read_frame_model_fuel prev l : Reasm.read_frame prev l <> Reasm.FFuel.
Proof.
  unfold Reasm.read_frame. pose proof (read_hdr_model_fuel prev l) as N. unfold measure in N.
  destruct (Reasm.read_hdr _ prev l) as [pp l'|fid flen b l'|w|]; try discriminate; [|congruence].
  destruct (Reasm.fill _ flen b l') as [b2 l2].
  destruct (zlen b2 <? flen); [discriminate|].
  destruct (Frame.frame_decode _) as [[fid' pay]|er|w]; discriminate.
Qed.

Corollary read_frame_no_fuel fuel prev l :
  (5 + measure prev l <= fuel)%nat ->
  call_method program fuel (ch prev l) "_read_frame" [] <> Fuel.
Proof.
  intros Hf. rewrite read_frame_spec by exact Hf.
  pose proof (read_frame_model_fuel prev l) as N.
  destruct (Reasm.read_frame prev l); cbn [emb_frame_meth]; congruence.
Qed.

(** * A concrete run (both sides computed independently): garbage and a stale
    SOF in the buffer, then a frame split over two reads, then one more byte *)
Definition demo_frame : bytes :=
  match Frame.frame_create 1 [7; 8; 9]%N with Frame.Ok b => b | _ => [] end.
Definition demo_prev : bytes := [1; 85; 1; 1; 99]%N.
Definition demo_link : Reasm.link := [firstn 3 demo_frame; skipn 3 demo_frame ++ [9%N]].

Example demo_model :
  Reasm.read_frame demo_prev demo_link = Reasm.FFrame 1 [7; 8; 9]%N [9%N] [].
Proof. vm_compute. reflexivity. Qed.

Example demo_interp :
  call_method program 40 (ch demo_prev demo_link) "_read_frame" [] =
  PyLite.Ok (frame_obj (enum_id 1) [7; 8; 9]%N (perr_obj "NOERR" 0), ch [9%N] []).
Proof. vm_compute. reflexivity. Qed.

(** * Audit *)
Print Assumptions intf_read_spec.
Print Assumptions read_hdr_spec.
Print Assumptions read_hdr_model_fuel.
Print Assumptions read_hdr_no_fuel.
Print Assumptions read_frame_spec.
Print Assumptions read_frame_model_fuel.
Print Assumptions read_frame_no_fuel.

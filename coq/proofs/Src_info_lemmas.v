(** Generic facts used by the refinement proofs of the device description
    codecs (proofs/Src_info_proofs.v):
    - struct formats with an interpolated count, [f"BBBBB{n}s"];
    - UTF-8: a successful decode is the inverse of the encoder;
    - [bytes.decode], [str.split] of the PyLite value methods on text kept as
      UTF-8 bytes. *)
From Coq Require Import String Ascii List ZArith NArith Bool Lia ZifyBool ZifyNat ZifyN.
From Coq Require Import Decimal DecimalString DecimalPos.
From NX Require Import Bytes PyStruct Utf8 Bytes_proofs Utf8_proofs PyLite.
Import ListNotations.
Open Scope string_scope.
Open Scope Z_scope.

(** * Decimal numerals read back by [parse_items] *)

(** Horner evaluation of a decimal numeral on top of an accumulator *)
Fixpoint hval (d : uint) (acc : N) : N :=
  match d with
  | Nil => acc
  | D0 l => hval l (10 * acc)
  | D1 l => hval l (10 * acc + 1)
  | D2 l => hval l (10 * acc + 2)
  | D3 l => hval l (10 * acc + 3)
  | D4 l => hval l (10 * acc + 4)
  | D5 l => hval l (10 * acc + 5)
  | D6 l => hval l (10 * acc + 6)
  | D7 l => hval l (10 * acc + 7)
  | D8 l => hval l (10 * acc + 8)
  | D9 l => hval l (10 * acc + 9)
  end%N.

Lemma hval_pos d : forall acc, hval d (Npos acc) = Npos (Pos.of_uint_acc d acc).
Proof.
  induction d; intros acc; cbn [hval Pos.of_uint_acc]; try reflexivity;
    rewrite <- IHd; f_equal; lia.
Qed.

Lemma hval_0 d : hval d 0 = Pos.of_uint d.
Proof.
  induction d; cbn [hval Pos.of_uint]; try reflexivity;
    try (change (10 * 0)%N with 0%N; exact IHd); apply hval_pos.
Qed.

Lemma hval_to_uint p : hval (Pos.to_uint p) 0 = Npos p.
Proof. rewrite hval_0. apply Unsigned.of_to. Qed.

Fixpoint hnat (d : uint) (acc : nat) : nat :=
  match d with
  | Nil => acc
  | D0 l => hnat l (10 * acc + 0)
  | D1 l => hnat l (10 * acc + 1)
  | D2 l => hnat l (10 * acc + 2)
  | D3 l => hnat l (10 * acc + 3)
  | D4 l => hnat l (10 * acc + 4)
  | D5 l => hnat l (10 * acc + 5)
  | D6 l => hnat l (10 * acc + 6)
  | D7 l => hnat l (10 * acc + 7)
  | D8 l => hnat l (10 * acc + 8)
  | D9 l => hnat l (10 * acc + 9)
  end%nat.

Lemma hnat_hval d : forall acc, N.of_nat (hnat d acc) = hval d (N.of_nat acc).
Proof.
  induction d; intros acc; cbn [hnat hval]; try reflexivity; rewrite IHd; f_equal; lia.
Qed.

Lemma parse_items_uint d suf : forall c,
  parse_items (String.list_ascii_of_string (NilEmpty.string_of_uint d ++ suf)) (Some c) =
  parse_items (String.list_ascii_of_string suf) (Some (hnat d c)).
Proof.
  induction d; intros c; cbn [NilEmpty.string_of_uint append String.list_ascii_of_string hnat];
    try reflexivity; cbn [parse_items digit_of_ascii]; apply IHd.
Qed.

Lemma parse_items_uint_None d suf : d <> Nil ->
  parse_items (String.list_ascii_of_string (NilEmpty.string_of_uint d ++ suf)) None =
  parse_items (String.list_ascii_of_string suf) (Some (hnat d 0)).
Proof.
  destruct d; intros H; try congruence;
    cbn [NilEmpty.string_of_uint append String.list_ascii_of_string hnat];
    cbn [parse_items digit_of_ascii]; rewrite parse_items_uint; reflexivity.
Qed.

(** [str(n)] followed by anything, for [n >= 0]: the count is [n] *)
Lemma parse_items_string_of_Z n suf : 0 <= n ->
  parse_items (String.list_ascii_of_string (string_of_Z n ++ suf)) None =
  parse_items (String.list_ascii_of_string suf) (Some (Z.to_nat n)).
Proof.
  intros Hn. unfold string_of_Z. destruct n as [|p|p]; [reflexivity| |lia].
  cbn [Z.to_int NilZero.string_of_int].
  assert (Hnn : Pos.to_uint p <> Nil) by apply Unsigned.to_uint_nonnil.
  replace (NilZero.string_of_uint (Pos.to_uint p)) with (NilEmpty.string_of_uint (Pos.to_uint p))
    by (unfold NilZero.string_of_uint; destruct (Pos.to_uint p); congruence).
  rewrite parse_items_uint_None by exact Hnn. do 2 f_equal.
  apply Nat2N.inj. rewrite hnat_hval. change (N.of_nat 0) with 0%N.
  rewrite hval_to_uint. cbn [Z.to_nat]. lia.
Qed.

(** a negative count starts with "-", which no format accepts *)
Lemma parse_items_string_of_Z_neg n suf cnt : n < 0 ->
  parse_items (String.list_ascii_of_string (string_of_Z n ++ suf)) cnt = None.
Proof.
  intros Hn. unfold string_of_Z. destruct n as [|p|p]; try lia.
  cbn [Z.to_int NilZero.string_of_int append String.list_ascii_of_string].
  cbn [parse_items digit_of_ascii is_space code_of_ascii]. reflexivity.
Qed.

(** a complete prefix of items, then the rest *)
Lemma parse_items_app a b : forall cnt its,
  parse_items a cnt = Some its ->
  parse_items (a ++ b) cnt = option_map (app its) (parse_items b None).
Proof.
  induction a as [|x r IH]; intros cnt its H; cbn [parse_items app] in *.
  - destruct cnt; [discriminate|]. inversion H. destruct (parse_items b None); reflexivity.
  - destruct (digit_of_ascii x); [apply IH; exact H|].
    destruct (is_space x).
    + destruct cnt; [discriminate|]. apply IH; exact H.
    + destruct (code_of_ascii x); [|discriminate].
      destruct (parse_items r None) as [its'|] eqn:E; [|discriminate].
      inversion H; subst. rewrite (IH None its' E).
      destruct (parse_items b None); reflexivity.
Qed.

Lemma chars_app a b :
  String.list_ascii_of_string (a ++ b) = (String.list_ascii_of_string a ++ String.list_ascii_of_string b)%list.
Proof. induction a; cbn [append String.list_ascii_of_string app]; [reflexivity|f_equal; exact IHa]. Qed.

(** native-mode format (no byte-order character) *)
Definition no_mode (s : string) : bool :=
  match s with
  | String a _ =>
      negb (Ascii.eqb a "<" || Ascii.eqb a ">" || Ascii.eqb a "!" || Ascii.eqb a "=" || Ascii.eqb a "@")
  | EmptyString => false
  end.

Lemma parse_fmt_native s :
  no_mode s = true -> parse_fmt s = option_map mk_native (parse_items (String.list_ascii_of_string s) None).
Proof.
  destruct s as [|a r]; [discriminate|]. cbn [no_mode]. intros H.
  unfold parse_fmt. cbn [String.list_ascii_of_string].
  destruct a as [[] [] [] [] [] [] [] []]; try reflexivity; discriminate H.
Qed.

Lemma no_mode_app a b : no_mode a = true -> no_mode (a ++ b) = true.
Proof. destruct a; [discriminate|]. cbn. trivial. Qed.

(** [f"{pre}{n}{c}"]: the format [pre] followed by [n] times the code [c] *)
Lemma parse_fmt_counted pre n c cd its :
  no_mode pre = true ->
  parse_items (String.list_ascii_of_string pre) None = Some its ->
  digit_of_ascii c = None -> is_space c = false -> code_of_ascii c = Some cd ->
  parse_fmt (pre ++ string_of_Z n ++ String c "") =
  if n <? 0 then None else Some (mk_native (its ++ [mkItem (Z.to_nat n) cd])).
Proof.
  intros Hm Hp Hd Hs Hc.
  rewrite parse_fmt_native by (apply no_mode_app; exact Hm).
  rewrite chars_app, (parse_items_app _ _ _ _ Hp).
  destruct (n <? 0) eqn:E.
  - rewrite parse_items_string_of_Z_neg by lia. reflexivity.
  - rewrite parse_items_string_of_Z by lia.
    cbn [String.list_ascii_of_string parse_items]. rewrite Hd, Hs, Hc. reflexivity.
Qed.

(** * UTF-8: what decodes is the encoding of what it decodes to *)
Section Utf8Inv.
Local Open Scope N_scope.
Ltac Zify.zify_post_hook ::= Z.to_euclidean_division_equations.

Lemma andb_true_split a b : a && b = true -> a = true /\ b = true.
Proof. apply andb_prop. Qed.

Lemma utf8_enc1_dec1 b c r :
  utf8_dec1 b = Some (c, r) -> b = (utf8_enc1 c ++ r)%list /\ valid_cp c = true.
Proof.
  unfold utf8_dec1. destruct b as [|b0 t]; [discriminate|].
  destruct (b0 <? 128) eqn:E1.
  { intros H. inversion H; subst. unfold utf8_enc1, valid_cp. rewrite E1.
    split; [reflexivity|]. lia. }
  destruct (b0 <? 192) eqn:E2; [discriminate|].
  destruct (b0 <? 224) eqn:E3.
  { destruct t as [|b1 r1]; [discriminate|]. cbv zeta. unfold is_cont.
    destruct (_ && _) eqn:C; [|discriminate]. intros H. inversion H; subst. clear H.
    set (c := (b0 - 192) * 64 + (b1 - 128)) in *.
    assert (Hc : 128 <= b1 < 192 /\ 128 <= c < 2048) by (subst c; lia).
    unfold utf8_enc1, valid_cp.
    replace (c <? 128) with false by lia. replace (c <? 2048) with true by lia.
    split; [|lia]. cbn [app]. f_equal; [subst c; lia|]. f_equal. subst c; lia. }
  destruct (b0 <? 240) eqn:E4.
  { destruct t as [|b1 [|b2 r2]]; try discriminate. cbv zeta. unfold is_cont.
    destruct (_ && _) eqn:C; [|discriminate]. intros H. inversion H; subst. clear H.
    set (c := (b0 - 224) * 4096 + (b1 - 128) * 64 + (b2 - 128)) in *.
    apply andb_prop in C. destruct C as [C Hv]. split; [|exact Hv].
    assert (Hc : 128 <= b1 < 192 /\ 128 <= b2 < 192 /\ 2048 <= c < 65536) by (subst c; lia).
    unfold utf8_enc1.
    replace (c <? 128) with false by lia. replace (c <? 2048) with false by lia.
    replace (c <? 65536) with true by lia.
    cbn [app]. f_equal; [subst c; lia|]. f_equal; [subst c; lia|]. f_equal. subst c; lia. }
  destruct (b0 <? 248) eqn:E5; [|discriminate].
  { destruct t as [|b1 [|b2 [|b3 r3]]]; try discriminate. cbv zeta. unfold is_cont.
    destruct (_ && _) eqn:C; [|discriminate]. intros H. inversion H; subst. clear H.
    set (c := (b0 - 240) * 262144 + (b1 - 128) * 4096 + (b2 - 128) * 64 + (b3 - 128)) in *.
    assert (Hc : 128 <= b1 < 192 /\ 128 <= b2 < 192 /\ 128 <= b3 < 192 /\ 65536 <= c < 1114112)
      by (subst c; lia).
    unfold utf8_enc1, valid_cp.
    replace (c <? 128) with false by lia. replace (c <? 2048) with false by lia.
    replace (c <? 65536) with false by lia.
    split; [|lia].
    cbn [app]. f_equal; [subst c; lia|]. f_equal; [subst c; lia|]. f_equal; [subst c; lia|].
    f_equal. subst c; lia. }
Qed.

Lemma utf8_enc_dec_fuel f : forall b l,
  utf8_dec_fuel f b = Some l -> b = utf8_enc l /\ Forall (fun c => valid_cp c = true) l.
Proof.
  induction f as [|f IH]; intros b l; cbn [utf8_dec_fuel].
  - destruct b; [|discriminate]. intros H; inversion H. split; [reflexivity|constructor].
  - destruct b as [|b0 t]; [intros H; inversion H; split; [reflexivity|constructor]|].
    destruct (utf8_dec1 (b0 :: t)) as [[c r]|] eqn:E1; [|discriminate].
    destruct (utf8_dec_fuel f r) as [l'|] eqn:E2; [|discriminate].
    intros H; inversion H; subst. clear H.
    apply utf8_enc1_dec1 in E1. destruct E1 as [Eb Hv].
    destruct (IH _ _ E2) as [Er Hl]. subst r.
    split; [rewrite utf8_enc_cons; exact Eb | constructor; assumption].
Qed.

Theorem utf8_enc_dec b l :
  utf8_dec b = Some l -> b = utf8_enc l /\ Forall (fun c => valid_cp c = true) l.
Proof. apply utf8_enc_dec_fuel. Qed.
End Utf8Inv.

(** * Text kept as UTF-8 bytes: [bytes.decode], [str.split], [bytes(str, "utf-8")] *)
Lemma str_bytes_bytes_str b : wf_bytes b -> str_bytes (bytes_str b) = b.
Proof.
  intros H. unfold str_bytes, bytes_str.
  rewrite list_ascii_of_string_of_list_ascii, map_map.
  rewrite <- (map_id b) at 2. apply map_ext_in. intros x Hx.
  apply N_ascii_embedding. unfold wf_bytes in H. rewrite Forall_forall in H. exact (H x Hx).
Qed.

Lemma forallb_valid_Forall l :
  forallb valid_cp l = true -> Forall (fun c => valid_cp c = true) l.
Proof. intros H. apply Forall_forall. rewrite forallb_forall in H. exact H. Qed.

Lemma str_bytes_utf8 cps :
  forallb valid_cp cps = true -> str_bytes (bytes_str (utf8_enc cps)) = utf8_enc cps.
Proof. intros H. apply str_bytes_bytes_str, utf8_enc_wf, forallb_valid_Forall, H. Qed.

Lemma bytes_decode l :
  value_method (PBytes l) "decode" [] [] =
  match utf8_dec l with
  | Some _ => PyLite.Ok (PStr (bytes_str l), PBytes l)
  | None => Exc "UnicodeDecodeError"
  end.
Proof. reflexivity. Qed.

(** the splitting loop of [str.split], named *)
Definition split_go (c : N) : bytes -> bytes -> list pv :=
  fix go (cur l : bytes) {struct l} : list pv :=
  match l with
  | [] => [PStr (bytes_str (rev cur))]
  | b :: rest => if N.eqb b c then PStr (bytes_str (rev cur)) :: go [] rest else go (b :: cur) rest
  end.

Lemma str_split_nul t kws :
  value_method (PStr t) "split" [PStr (String Ascii.zero "")] kws =
  PyLite.Ok (PList (split_go 0 [] (str_bytes t)), PStr t).
Proof. reflexivity. Qed.

Fixpoint until_b (c : N) (l : bytes) : bytes :=
  match l with [] => [] | b :: r => if N.eqb b c then [] else b :: until_b c r end.
Fixpoint split_rest (c : N) (l : bytes) : list pv :=
  match l with [] => [] | b :: r => if N.eqb b c then split_go c [] r else split_rest c r end.

Lemma split_go_eq c l : forall cur,
  split_go c cur l = PStr (bytes_str (rev cur ++ until_b c l)%list) :: split_rest c l.
Proof.
  induction l as [|b r IH]; intros cur; cbn [split_go until_b split_rest].
  - rewrite app_nil_r. reflexivity.
  - destruct (N.eqb b c).
    + rewrite app_nil_r. reflexivity.
    + rewrite IH. cbn [rev]. rewrite <- app_assoc. reflexivity.
Qed.

Lemma until_b_0 l : until_b 0 l = until_zero l.
Proof. induction l as [|b r IH]; cbn [until_b until_zero]; [reflexivity|]. rewrite IH. reflexivity. Qed.

(** [b.decode().split("\x00")]: the first piece is the text up to the first NUL *)
Lemma split_decoded u cps kws :
  utf8_dec u = Some cps ->
  value_method (PStr (bytes_str u)) "split" [PStr (String Ascii.zero "")] kws =
  PyLite.Ok (PList (PStr (bytes_str (utf8_enc (until_nul cps))) :: split_rest 0 u), PStr (bytes_str u)).
Proof.
  intros H. apply utf8_enc_dec in H. destruct H as [Eu Hv]. subst u.
  rewrite str_split_nul, str_bytes_bytes_str by (apply utf8_enc_wf; exact Hv).
  rewrite split_go_eq. cbn [rev app]. rewrite until_b_0, utf8_until_nul by exact Hv. reflexivity.
Qed.

Lemma norm_index_S_0 k : norm_index (S k) 0 = Some O.
Proof. unfold norm_index. replace (0 <? Z.of_nat (S k)) with true by lia. reflexivity. Qed.

Print Assumptions parse_fmt_counted.
Print Assumptions utf8_enc_dec.
Print Assumptions split_decoded.

(** C15 END TO END (model level): the stream frame built by the simulated-device
    encoder decodes on the client to exactly the samples that carry data or
    metadata, in order, with the values [decoded_of] names; samples carrying
    neither are left out; if none remain no frame is produced. *)
From Coq Require Import Lia ZifyBool ZifyNat ZifyN String.
From NX Require Import Bytes PyStruct StructCanon Request Utf8 StreamTypes Rn53 Stream Bytes_proofs
  PyStruct_proofs Utf8_proofs Frame_proofs Stream_proofs Stream_values Stream_enc_proofs
  Stream_e2e_spec Stream_e2e_lemmas.
From NX Require Gen_types.
Open Scope string_scope.
Open Scope list_scope.
Open Scope Z_scope.

Lemma non_empty_false s : non_empty s = false -> empty_sample s.
Proof.
  unfold non_empty, empty_sample. destruct (e_data s); destruct (e_meta s); cbn; try discriminate.
  split; reflexivity.
Qed.

Lemma non_empty_true s : non_empty s = true -> ~ empty_sample s.
Proof. unfold non_empty, empty_sample. intros H [E1 E2]. rewrite E1, E2 in H. discriminate. Qed.

Lemma filter_nil_empty l : filter non_empty l = [] -> Forall empty_sample l.
Proof.
  induction l as [|s l IH]; [constructor|]. cbn [filter].
  destruct (non_empty s) eqn:E; [discriminate|]. intros H. constructor; [apply non_empty_false; exact E|exact (IH H)].
Qed.

Lemma empty_filter_nil l : Forall empty_sample l -> filter non_empty l = [].
Proof.
  induction 1 as [|s l Hs Hl IH]; [reflexivity|]. cbn [filter].
  destruct (non_empty s) eqn:E; [exfalso; exact (non_empty_true s E Hs)|exact IH].
Qed.

Lemma encode_samples_cons user s r :
  encode_samples user (s :: r) =
  if is_nil (e_data s) && is_nil (e_meta s) then encode_samples user r
  else bind (dsfmt_get (e_type s) user)
         (fun du => let '(rw, usr) := du in
            bind (stream_bytes_get rw usr s)
              (fun b => bind (meta_enc (e_mlen s) (e_meta s))
                 (fun m => bind (encode_samples user r)
                    (fun t => Ok (b ++ m ++ fst t, 1 + snd t))))).
Proof. reflexivity. Qed.

(** the encoded samples: one well-formed wire sample per non-empty sample, in order *)
Lemma encode_samples_ok lay user l :
  Forall (sample_fits lay user) l ->
  exists ws,
    encode_samples user l = Ok (List.concat (map w_bytes ws), Z.of_nat (List.length ws)) /\
    Forall (w_ok lay user) ws /\
    map w_out ws = map (decoded_of user) (filter non_empty l) /\
    wf_bytes (List.concat (map w_bytes ws)) /\
    1 + zlen (List.concat (map w_bytes ws)) = payload_size l.
Proof.
  induction 1 as [|s l Hs Hl IH].
  - exists []. repeat split; constructor.
  - destruct IH as (ws & Henc & Hok & Hout & Hwf & Hsize).
    rewrite encode_samples_cons. cbn [filter]. unfold payload_size in *. cbn [fold_right].
    assert (Hcond : is_nil (e_data s) && is_nil (e_meta s) = negb (non_empty s))
      by (unfold non_empty; rewrite negb_involutive; reflexivity).
    rewrite Hcond. destruct (non_empty s) eqn:Ene; cbn [negb].
    + destruct (sample_ok lay user s Hs Ene) as (rw & usr & db & mb & Hds & Hsb & Hme & Hw & Hwd & Hwm & Hsz & Hch).
      exists (mkW (Z.to_N (e_chan s)) db mb (decoded_of user s) :: ws).
      rewrite Hds. cbn [bind]. cbv zeta. rewrite Hsb. cbn [bind].
      rewrite Hme. cbn [bind]. rewrite Henc. cbn [bind fst snd].
      cbn [map List.concat List.length]. change (w_bytes (mkW (Z.to_N (e_chan s)) db mb (decoded_of user s)))
        with (Z.to_N (e_chan s) :: db ++ mb). cbn [w_out].
      repeat split.
      * f_equal. f_equal; [cbn [app]; rewrite <- app_assoc; reflexivity|lia].
      * constructor; assumption.
      * rewrite Hout. reflexivity.
      * apply wf_bytes_app; [|exact Hwf]. constructor; [lia|]. apply wf_bytes_app; assumption.
      * rewrite zlen_app. unfold zlen in *. cbn [List.length]. rewrite app_length. lia.
    + exists ws. repeat split; try assumption; lia.
Qed.

Lemma id_stream : id_of "STREAM" = 1. Proof. reflexivity. Qed.

(** * THE END-TO-END THEOREM *)
Theorem stream_end_to_end : forall lay user l,
  Forall (sample_fits lay user) l ->
  payload_size l <= 65529 ->
  match frame_stream_encode user l with
  | Ok None => Forall empty_sample l
  | Ok (Some frame) =>
      exists payload,
        frame_decode frame = Ok (id_of "STREAM", payload) /\
        stream_decode lay user payload = Ok (Some (0, map (decoded_of user) (filter non_empty l))) /\
        filter non_empty l <> []
  | _ => False
  end.
Proof.
  intros lay user l Hfit Hsize.
  destruct (encode_samples_ok lay user l Hfit) as (ws & Henc & Hok & Hout & Hwf & Hsz).
  unfold frame_stream_encode, stream_data_encode. rewrite gen_flags_byte. cbn [bind].
  rewrite Henc. cbn [bind fst snd].
  destruct ws as [|w ws].
  - cbn [List.length Z.of_nat Z.eqb bind]. apply filter_nil_empty.
    cbn [map] in Hout. destruct (filter non_empty l); [reflexivity|discriminate].
  - replace (Z.of_nat (List.length (w :: ws)) =? 0) with false by (cbn [List.length]; lia). cbn [bind].
    set (body := List.concat (map w_bytes (w :: ws))) in *.
    rewrite id_stream. cbn [app].
    rewrite (frame_create_layout 1 (0%N :: body)) by
      (try lia; unfold payload_fits, zlen in *; cbn [List.length]; lia).
    cbn [bind]. exists (0%N :: body). repeat split.
    + apply (frame_roundtrip 1 (0%N :: body)); [lia| |unfold payload_fits, zlen in *; cbn [List.length]; lia].
      constructor; [lia|exact Hwf].
    + unfold body. rewrite (stream_decode_payload lay user 0%N (w :: ws) Hok). rewrite Hout. reflexivity.
    + intros E. rewrite E in Hout. cbn [map] in Hout. discriminate.
Qed.

(** no frame exactly when every sample is empty *)
Corollary stream_none_iff : forall lay user l,
  Forall (sample_fits lay user) l -> payload_size l <= 65529 ->
  (frame_stream_encode user l = Ok None <-> Forall empty_sample l).
Proof.
  intros lay user l Hfit Hsize. split.
  - intros H. pose proof (stream_end_to_end lay user l Hfit Hsize) as T. rewrite H in T. exact T.
  - apply encode_none.
Qed.

(** the one remaining way to fail: more than 65529 payload bytes do not fit the
    16-bit length field of a frame *)
Theorem stream_too_long : forall lay user l,
  Forall (sample_fits lay user) l -> 65529 < payload_size l ->
  frame_stream_encode user l = Raise "struct.error".
Proof.
  intros lay user l Hfit Hsize.
  destruct (encode_samples_ok lay user l Hfit) as (ws & Henc & Hok & Hout & Hwf & Hsz).
  unfold frame_stream_encode, stream_data_encode. rewrite gen_flags_byte. cbn [bind].
  rewrite Henc. cbn [bind fst snd].
  destruct ws as [|w ws].
  - exfalso. cbn [map List.concat] in Hsz. unfold zlen in Hsz. cbn [List.length] in Hsz. lia.
  - replace (Z.of_nat (List.length (w :: ws)) =? 0) with false by (cbn [List.length]; lia). cbn [bind].
    rewrite id_stream. cbn [app]. rewrite frame_create_refuse; [reflexivity|lia|].
    unfold payload_fits, zlen in *. cbn [List.length]. lia.
Qed.

(** how the examples below use the theorem: hypotheses by computation, the
    expected client-side samples written out *)
Lemma e2e_instance lay user l expected :
  forallb (sample_fitsb lay user) l = true ->
  (payload_size l <=? 65529) = true ->
  map (decoded_of user) (filter non_empty l) = expected ->
  expected <> [] ->
  exists frame payload,
    frame_stream_encode user l = Ok (Some frame) /\
    frame_decode frame = Ok (1, payload) /\
    stream_decode lay user payload = Ok (Some (0, expected)).
Proof.
  intros Hfit Hsize Hexp Hne.
  assert (Hf : Forall (sample_fits lay user) l).
  { apply Forall_forall. intros s Hs. rewrite forallb_forall in Hfit. exact (Hfit s Hs). }
  pose proof (stream_end_to_end lay user l Hf ltac:(lia)) as T.
  destruct (frame_stream_encode user l) as [[frame|]| |]; try contradiction.
  - destruct T as (payload & H1 & H2 & _). exists frame, payload. rewrite <- Hexp. repeat split; assumption.
  - exfalso. apply Hne. rewrite <- Hexp, (empty_filter_nil l T). reflexivity.
Qed.

Print Assumptions stream_end_to_end.
Print Assumptions stream_none_iff.
Print Assumptions stream_too_long.

(** * how wide [data_fits_std] is *)
(** 16- and 32-bit fixed point: EVERY raw word in the range of the code is representable
    (the "Python float holds it exactly" clause is automatic) *)
Lemma fix_narrow_all c raw :
  In c [CH; Ch; CI; Ci] -> int_in c raw = true -> (int_in c raw && (rn53 raw =? raw)) = true.
Proof.
  intros Hc Hr. rewrite Hr. cbn [andb].
  assert (Hb : Z.abs raw <= 2 ^ 53).
  { cbn [In] in Hc. unfold int_in in Hr.
    repeat (destruct Hc as [<-|Hc];
            [cbn [code_signed code_size] in Hr; unfold in_signed, in_unsigned in Hr;
             first [change (pow256 2) with 65536%N in Hr|change (pow256 4) with 4294967296%N in Hr];
             cbn in Hr; lia|]).
    destruct Hc. }
  rewrite (rn53_exact raw Hb). lia.
Qed.

(** 64-bit fixed point: every raw word with |raw| <= 2^53, and beyond that exactly those a
    Python float holds (rn53 raw = raw) *)
Lemma fix_wide_53 c raw : int_in c raw = true -> Z.abs raw <= 2 ^ 53 ->
  (int_in c raw && (rn53 raw =? raw)) = true.
Proof. intros Hr Hb. rewrite Hr, (rn53_exact raw Hb). cbn [andb]. lia. Qed.

(** integers on IEEE rows: accepted (and converted) for |z| <= 2^53 on a single,
    |z| < 2^1023 on a double *)
Lemma f32_int_fits z : Z.abs z <= 2 ^ 53 -> is_some (f32_bits (VInt z)) = true.
Proof.
  intros H. destruct (pack_f_int LE z H) as (b & _ & _ & _ & Hc). cbn [canon_one] in Hc.
  destruct (f32_bits (VInt z)); [reflexivity|discriminate].
Qed.

Lemma f64_int_fits z : Z.abs z < 2 ^ 1023 -> is_some (f64_bits (VInt z)) = true.
Proof.
  intros H. destruct (pack_d_int LE z H) as (b & _ & _ & _ & Hc). cbn [canon_one] in Hc.
  destruct (f64_bits (VInt z)); [reflexivity|discriminate].
Qed.

(** The description phase of the connect handshake, part 2 of 3: the retry loop
    of one channel ([retry_m]), the loop over the channels ([chans_m]), the
    keyword construction of the Device, and [_devinfo_get] itself as the total
    function [devinfo_m] of the handler's state and the two scripts. *)
From Coq Require Import String Ascii List ZArith NArith Bool Lia ZifyBool.
From Coq Require FinFun.
From NX Require Import Bytes PyStruct Crc PyLite PyLite_tactics PyLite_tactics_ext
  Src_dev Src_iparse Src_parse Src_comm Src_prelude Src_all
  Src_serialframe_proofs Src_parse_req_lemmas Src_records_proofs Src_config_base Src_config_req
  Src_handshake_base.
From NX Require Src_parse_req_proofs Src_info_proofs.
From NX Require Frame Request Info Info_proofs Handshake Handshake_proofs Gen_frame Gen_req Gen_misc.
Import ListNotations.
Open Scope string_scope.
Open Scope Z_scope.

#[local] Hint Unfold pa RQ.pa IN.pa sf lintf queue_obj hcomm item_pv
  IN.cmninfo_obj frame_obj perr_obj IN.emb_opt RQ.emb_f emb_rq : hs_model.
Ltac py_unfold_hook ::= autounfold with hs_model.
#[local] Arguments norm_index : simpl never.
#[local] Arguments enum_id : simpl never.
#[local] Arguments is_none !x /.
#[local] Arguments Info.frame_cmninfo_decode : simpl never.
#[local] Arguments Info.frame_chinfo_decode : simpl never.
#[local] Arguments Request.frame_cmninfo : simpl never.
#[local] Arguments Request.frame_chinfo : simpl never.
#[local] Arguments IN.emb_chan : simpl never.
#[local] Arguments pop_dec : simpl never.
#[local] Arguments drain : simpl never.

Ltac py_stuck_hook h ::=
  lazymatch h with
  | norm_index (List.length (map _ _)) _ => rewrite map_length
  | norm_index (S _) 0 => rewrite norm_index_S0
  | py_is _ PNone => rewrite py_is_none
  | context [nth ?k (_ :: _) _] => is_nat_lit k; progress cbn [nth]
  | context [slice_from (_ :: _) 1] => rewrite slice_from_cons1
  | 0 <? Z.of_nat (S ?c) => rewrite (ltb_0_S c)
  end.

#[local] Hint Resolve queue_get_func lintf_write_func lintf_drop_all_func get_frame_func get_stream_frame_func
  drop_all_frames_func drop_all_func nxslib_cmninfo_func nxslib_chinfo_func : pyspec.


(** * 4. The retry loop of one channel *)
Inductive rres := RGot (c : Info.chan_cfg) | RGaveUp | RRaised (e : string) | RUns (s : string).

(** [r] attempts left; returns the outcome, the attempts left after the last
    one made, everything written, the rest of the script *)
Fixpoint retry_m (r : nat) (chan : Z) (w : list bytes) (q : list qitem) : rres * nat * list bytes * list qitem :=
  match r with
  | O => (RGaveUp, O, w, q)
  | S r' =>
      match Request.frame_chinfo chan with
      | Frame.Ok b =>
          match pop_dec Info.frame_chinfo_decode q with
          | Frame.Ok None => retry_m r' chan (w ++ [b])%list (tl q)
          | Frame.Ok (Some c) => (RGot c, r', (w ++ [b])%list, tl q)
          | Frame.Raise e => (RRaised e, r, (w ++ [b])%list, tl q)
          | Frame.Err _ => (RUns "Err", r, (w ++ [b])%list, tl q)
          end
      | Frame.Raise e => (RRaised e, r, w, q)
      | Frame.Err _ => (RUns "", r, w, q)
      end
  end.

Definition retry_out (res : rres) (e : env) : PyLite.res out :=
  match res with
  | RGot _ => PyLite.Ok (ONorm e)
  | RGaveUp => PyLite.Ok (ORet PNone e)
  | RRaised w => ExcS w e
  | RUns s => Unsupported s
  end.
Definition retry_chan (i : Z) (res : rres) : pv :=
  match res with RGot c => IN.emb_chan i c | _ => PNone end.

Definition for_t (s : stmt) : target := match s with SFor t _ _ => t | _ => TName "" end.
Definition for_b (s : stmt) : stmts := match s with SFor _ _ b => b | _ => Snil end.
Definition dg_for : stmt := nth_stmt 6 (f_body CommHandler__devinfo_get).
Definition dg_while : stmt := nth_stmt 2 (for_b dg_for).

(** the names of the locals, computed from the AST *)
Definition v_gself : string := Eval cbv in param0 CommHandler__devinfo_get.
Definition v_frame : string := Eval cbv in assigned (nth_stmt 0 (f_body CommHandler__devinfo_get)).
Definition v_pc : string := Eval cbv in assigned (nth_stmt 2 (f_body CommHandler__devinfo_get)).
Definition v_chans : string := Eval cbv in assigned (nth_stmt 5 (f_body CommHandler__devinfo_get)).
Definition v_i : string := Eval cbv in match for_t dg_for with TName x => x | _ => "" end.
Definition v_chan : string := Eval cbv in assigned (nth_stmt 0 (for_b dg_for)).
Definition v_retries : string := Eval cbv in assigned (nth_stmt 1 (for_b dg_for)).
Ltac gnames := cbv delta [v_gself v_frame v_pc v_chans v_i v_chan v_retries] in *.

(** the environment of the channel loop: the loop variables are absent before the first iteration *)
Definition fenv (self frame : pv) (pc : bool) (acc : list pv) (o : option (pv * pv * pv)) : env :=
  ([(v_gself, self); (v_frame, frame); (v_pc, PBool pc); (v_chans, PList acc)]
     ++ match o with Some (i, ch, r) => [(v_i, i); (v_chan, ch); (v_retries, r)] | None => [] end)%list.

Lemma ltb_pred_S r : (Z.of_nat (S r) - 1 <? 0) = false.
Proof. lia. Qed.

Ltac py_stuck_hook h ::=
  lazymatch h with
  | norm_index (List.length (map _ _)) _ => rewrite map_length
  | norm_index (S _) 0 => rewrite norm_index_S0
  | py_is _ PNone => rewrite py_is_none
  | context [nth ?k (_ :: _) _] => is_nat_lit k; progress cbn [nth]
  | context [slice_from (_ :: _) 1] => rewrite slice_from_cons1
  | 0 <? Z.of_nat (S ?c) => rewrite (ltb_0_S c)
  | Z.of_nat (S ?r) - 1 <? 0 => rewrite (ltb_pred_S r)
  | context [is_none (IN.emb_chan ?i ?c)] => change (is_none (IN.emb_chan i c)) with false
  end.

Notation F6 m := (S (S (S (S (S (S m)))))).

Lemma retry_loop m p d qs frame pc acc i : forall r k w q, (r < k)%nat ->
  while_loop program (call_func program (F6 m)) (F6 m) (while_c dg_while) (while_b dg_while) k
    (fenv (hcomm w p d q qs) frame pc acc (Some (PInt i, PNone, PInt (Z.of_nat r - 1)))) =
  let '(res, rem, w', q') := retry_m r i w q in
  retry_out res (fenv (hcomm w' p d q' qs) frame pc acc
                   (Some (PInt i, retry_chan i res, PInt (Z.of_nat rem - 1)))).
Proof.
  induction r as [|r IH]; intros k w q Hk; (destruct k as [|k]; [lia|]).
  all: cbv [dg_while dg_for for_b nth_stmt while_c while_b f_body CommHandler__devinfo_get].
  all: rewrite while_loop_S; unfold fenv; gnames; cbn [app retry_m].
  - pysteps. reflexivity.
  - destruct (Request.frame_chinfo i) as [b|e|e] eqn:Ef;
      [destruct (pop_dec Info.frame_chinfo_decode q) as [[c|]|e|e] eqn:Ed|..].
    all: pysteps; try reflexivity.
    + destruct k as [|k]; [lia|]. rewrite while_loop_S. pysteps.
      replace (Z.of_nat (S r) - 1 - 1) with (Z.of_nat r - 1) by lia. reflexivity.
    + specialize (IH k (w ++ [b])%list (tl q) ltac:(lia)).
      cbv [dg_while dg_for for_b nth_stmt while_c while_b f_body CommHandler__devinfo_get] in IH.
      unfold fenv in IH. gnames. cbn [app] in IH.
      replace (Z.of_nat (S r) - 1 - 1) with (Z.of_nat r - 1) by lia. exact IH.
Qed.

(** * 5. The loop over the channels *)
Inductive cres := CDone | CNone | CRaise (e : string) | CUns (s : string).

Fixpoint chans_m (n s : nat) (acc : list (Z * Info.chan_cfg)) (w : list bytes) (q : list qitem)
  : cres * list (Z * Info.chan_cfg) * list bytes * list qitem :=
  match n with
  | O => (CDone, acc, w, q)
  | S n' =>
      match retry_m 6 (Z.of_nat s) w q with
      | (RGot c, _, w', q') => chans_m n' (S s) (acc ++ [(Z.of_nat s, c)])%list w' q'
      | (RGaveUp, _, w', q') => (CNone, acc, w', q')
      | (RRaised e, _, w', q') => (CRaise e, acc, w', q')
      | (RUns x, _, w', q') => (CUns x, acc, w', q')
      end
  end.

Definition chans_out (res : cres) (e : env) : PyLite.res out :=
  match res with
  | CDone => PyLite.Ok (ONorm e)
  | CNone => PyLite.Ok (ORet PNone e)
  | CRaise w => ExcS w e
  | CUns s => Unsupported s
  end.

Definition emb_acc (acc : list (Z * Info.chan_cfg)) : list pv :=
  map (fun ic => IN.emb_chan (fst ic) (snd ic)) acc.

#[local] Arguments retry_m : simpl never.
#[local] Arguments rng : simpl never.

Lemma chans_loop m p d qs frame pc : forall n s acc o w q, exists o',
  for_loop program (call_func program (F6 (S m))) (F6 (S m)) (for_t dg_for) (for_b dg_for) (map rng (seq s n))
    (fenv (hcomm w p d q qs) frame pc (emb_acc acc) o) =
  let '(res, acc', w', q') := chans_m n s acc w q in
  chans_out res (fenv (hcomm w' p d q' qs) frame pc (emb_acc acc') o').
Proof.
  induction n as [|n IH]; intros s acc o w q.
  - exists o. reflexivity.
  - cbn [seq map chans_m].
    destruct (retry_m 6 (Z.of_nat s) w q) as [[[res rem] w'] q'] eqn:Er.
    destruct res as [c| |e|e].
    1: destruct (IH (S s) (acc ++ [(Z.of_nat s, c)])%list
                   (Some (rng s, IN.emb_chan (Z.of_nat s) c, PInt (Z.of_nat rem - 1))) w' q') as [o' E];
       exists o'.
    2-4: exists (Some (rng s, PNone, PInt (Z.of_nat rem - 1))).
    all: rewrite for_loop_cons;
      cbv [dg_while dg_for for_b for_t nth_stmt while_c while_b f_body CommHandler__devinfo_get];
      unfold fenv; gnames; destruct o as [[[? ?] ?]|]; cbn [app]; pysteps.
    all: lazymatch goal with
         | |- context [while_loop ?P ?cf ?lf ?cc ?b ?k ?e] =>
             change (while_loop P cf lf cc b k e) with
               (while_loop P cf lf (while_c dg_while) (while_b dg_while) k
                  (fenv (hcomm w p d q qs) frame pc (emb_acc acc)
                     (Some (PInt (Z.of_nat s), PNone, PInt (Z.of_nat 6 - 1)))))
         end;
      rewrite (retry_loop (S m)) by lia; rewrite Er; cbn [retry_out retry_chan]; unfold fenv; gnames; cbn [app]; pysteps.
    3-8: reflexivity.
    all: etransitivity; [|exact E]; unfold fenv, emb_acc; gnames; rewrite map_app; reflexivity.
Qed.

(** * 6. Device(chmax=.., flags=.., rxpadding=.., channels=..): the keyword call *)
Lemma device_init_kw_func n chmax flags rxp chans :
  call_func program (S (S (S (S n)))) Device_DinitD [PObj "Device" []]
    [("chmax", PInt chmax); ("flags", PInt flags); ("rxpadding", PInt rxp);
     ("channels", PList (map channel_obj chans))] =
  if nodupb (map cd_chan chans) && (zlen chans =? chmax)
  then PyLite.Ok (PNone, Some (dev_obj' chmax flags rxp chans))
  else ExcS "AssertionError" (self_st (PObj "Device" [])).
Proof. rewrite <- (device_init_func n). rewrite !call_func_S. reflexivity. Qed.
#[local] Hint Resolve device_init_kw_func : pyspec.

(** the channel objects that [Parser.frame_chinfo_decode] builds are the
    [channel_obj] of proofs/Src_records_proofs.v *)
Definition chan_desc_of (ic : Z * Info.chan_cfg) : chan_desc :=
  let c := snd ic in
  mkChan (fst ic) (Info.c_type c) (Info.c_vdim c) (bytes_str (Utf8.utf8_enc (Info.c_name c)))
         (Info.c_en c) (Info.c_div c) (Info.c_mlen c) PNone (PInt 0).

Lemma emb_acc_channel acc : emb_acc acc = map channel_obj (map chan_desc_of acc).
Proof. unfold emb_acc. rewrite map_map. apply map_ext. intros [i c]. reflexivity. Qed.

Lemma chans_m_ids : forall n s acc w q acc' w' q',
  chans_m n s acc w q = (CDone, acc', w', q') ->
  map fst acc' = (map fst acc ++ map Z.of_nat (seq s n))%list.
Proof.
  induction n as [|n IH]; intros s acc w q acc' w' q' H; cbn [chans_m seq map] in *.
  - inversion H. subst. rewrite app_nil_r. reflexivity.
  - destruct (retry_m 6 (Z.of_nat s) w q) as [[[res rem] w1] q1]. destruct res; try discriminate.
    apply IH in H. rewrite H, map_app, <- app_assoc. reflexivity.
Qed.

Lemma chans_m_assert cm acc' w q w' q' : 0 <= cm ->
  chans_m (Z.to_nat cm) 0 [] w q = (CDone, acc', w', q') ->
  nodupb (map cd_chan (map chan_desc_of acc')) = true /\ (zlen (map chan_desc_of acc') =? cm) = true.
Proof.
  intros Hc H. apply chans_m_ids in H. cbn [map app] in H.
  assert (Hm : map cd_chan (map chan_desc_of acc') = map fst acc').
  { rewrite map_map. apply map_ext. intros [i c]. reflexivity. }
  split.
  - apply nodupb_NoDup. rewrite Hm, H. apply FinFun.Injective_map_NoDup; [|apply seq_NoDup].
    intros x y Hxy. lia.
  - unfold zlen. rewrite map_length. rewrite <- (map_length fst), H, map_length, seq_length. lia.
Qed.

(** the three fields of a decoded CMNINFO are unsigned bytes: never negative *)
Lemma cmninfo_decode_nonneg fid data cm fl rxp :
  Info.frame_cmninfo_decode fid data = Frame.Ok (Some (cm, fl, rxp)) -> 0 <= cm /\ 0 <= fl /\ 0 <= rxp.
Proof.
  unfold Info.frame_cmninfo_decode, Request.sunpack, Gen_req.cmninfo_dec_fmt.
  destruct (negb _); [discriminate|].
  pyclosed. cbv iota beta.
  match goal with |- context [unpack ?f ?b] => pyunpack f b end.
  - cbn. discriminate.
  - cbn [Request.bind]. intros H. inversion H. lia.
Qed.

Lemma pop_cmninfo_nonneg q cm fl rxp :
  pop_dec Info.frame_cmninfo_decode q = Frame.Ok (Some (cm, fl, rxp)) -> 0 <= cm /\ 0 <= fl /\ 0 <= rxp.
Proof.
  unfold pop_dec. destruct q as [|[|fid data] r]; try discriminate. apply cmninfo_decode_nonneg.
Qed.

(** * 7. _devinfo_get *)
Inductive dres :=
  | DDev (cm fl rxp : Z) (chans : list (Z * Info.chan_cfg))
  | DNone
  | DRaise (e : string)
  | DUns (s : string).

(** the handler's state: written, write_padding, dropped, the two scripts *)
Definition hstate : Type := list bytes * Z * Z * list qitem * list qitem.

Definition pad_bytes (rxp : Z) : bytes := @List.concat N (@repeat bytes [0%N] (Z.to_nat rxp)).

Definition devinfo_m (w : list bytes) (p d : Z) (q qs : list qitem) : dres * hstate :=
  match Request.frame_cmninfo with
  | Frame.Ok b =>
      match pop_dec Info.frame_cmninfo_decode q with
      | Frame.Ok None => (DNone, ((w ++ [b])%list, p, d, tl q, qs))
      | Frame.Ok (Some (cm, fl, rxp)) =>
          let chg := (0 <? rxp) && negb (p =? rxp) in
          let w1 := if chg then ((w ++ [b]) ++ [pad_bytes rxp])%list else (w ++ [b])%list in
          let p1 := if chg then rxp else p in
          match chans_m (Z.to_nat cm) 0 [] w1 (drain (tl q) 4) with
          | (CDone, acc, w', q') => (DDev cm fl rxp acc, (w', p1, d + 1, q', drain qs 4))
          | (CNone, _, w', q') => (DNone, (w', p1, d + 1, q', drain qs 4))
          | (CRaise e, _, w', q') => (DRaise e, (w', p1, d + 1, q', drain qs 4))
          | (CUns s, _, w', q') => (DUns s, (w', p1, d + 1, q', drain qs 4))
          end
      | Frame.Raise e => (DRaise e, ((w ++ [b])%list, p, d, tl q, qs))
      | Frame.Err _ => (DUns "Err", ((w ++ [b])%list, p, d, tl q, qs))
      end
  | Frame.Raise e => (DRaise e, (w, p, d, q, qs))
  | Frame.Err _ => (DUns "", (w, p, d, q, qs))
  end.

Definition hcomm_of (st : hstate) : pv := let '(w, p, d, q, qs) := st in hcomm w p d q qs.

Definition dev_of (cm fl rxp : Z) (acc : list (Z * Info.chan_cfg)) : pv :=
  dev_obj' cm fl rxp (map chan_desc_of acc).

Definition emb_dev (r : dres * hstate) : PyLite.res (pv * option pv) :=
  match fst r with
  | DDev cm fl rxp acc => PyLite.Ok (dev_of cm fl rxp acc, Some (hcomm_of (snd r)))
  | DNone => PyLite.Ok (PNone, Some (hcomm_of (snd r)))
  | DRaise e => ExcS e (self_st (hcomm_of (snd r)))
  | DUns s => Unsupported s
  end.

#[local] Arguments chans_m : simpl never.
#[local] Arguments emb_acc : simpl never.

Lemma devinfo_get_func m w p d q qs :
  (Nat.min drain_limit (List.length (tl q)) + 3 <= S (S (S m)))%nat ->
  (Nat.min drain_limit (List.length qs) + 3 <= S (S (S m)))%nat ->
  call_func program (S (F6 (S m))) CommHandler__devinfo_get [hcomm w p d q qs] [] =
  emb_dev (devinfo_m w p d q qs).
Proof.
  intros Hq Hqs.
  pystart. unfold devinfo_m.
  destruct Request.frame_cmninfo as [b|e|e] eqn:Ef;
    [destruct (pop_dec Info.frame_cmninfo_decode q) as [[[[cm fl] rxp]|]|e|e] eqn:Ed|..].
  2-6: cbn [emb_dev fst snd hcomm_of]; pysteps; reflexivity.
  destruct (pop_cmninfo_nonneg _ _ _ _ Ed) as (Hcm & Hfl & Hrxp).
  destruct (0 <? rxp) eqn:Erx; destruct (p =? rxp) eqn:Epr; cbn [andb negb].
  all: pysteps.
  all: fold (pad_bytes rxp).
  all: lazymatch goal with
       | |- context [for_loop ?P ?cf ?lf ?t ?b (range_list 0 ?cm)
                       [(_, hcomm ?w1 ?p1 ?d1 ?q1 ?qs1); (_, ?fr); (_, PBool ?pc); (_, PList [])]] =>
           change (for_loop P cf lf t b (range_list 0 cm) _) with
             (for_loop P cf lf (for_t dg_for) (for_b dg_for) (map rng (seq 0 (Z.to_nat (cm - 0))))
                (fenv (hcomm w1 p1 d1 q1 qs1) fr pc (emb_acc []) None));
           rewrite Z.sub_0_r;
           let o' := fresh "o" in let E := fresh "E" in
           destruct (chans_loop m p1 d1 qs1 fr pc (Z.to_nat cm) 0%nat [] None w1 q1) as [o' E];
           rewrite E; clear E;
           let Ec := fresh "Ec" in
           destruct (chans_m (Z.to_nat cm) 0 [] w1 q1) as [[[res acc] w'] q'] eqn:Ec;
           destruct res; cbn [chans_out emb_dev fst snd hcomm_of]; unfold fenv; gnames;
           destruct o' as [[[? ?] ?]|]; cbn [app]
       end.
  all: try match goal with
           | Ec : chans_m _ _ _ _ _ = (CDone, _, _, _) |- _ =>
               let Hn := fresh "Hn" in let Hz := fresh "Hz" in
               destruct (chans_m_assert _ _ _ _ _ _ Hcm Ec) as [Hn Hz]; rewrite emb_acc_channel
           end.
  all: pysteps; reflexivity.
Qed.

(** ** at the entry point *)
Definition emb_dev_top (r : dres * hstate) : PyLite.res (pv * pv) :=
  match fst r with
  | DDev cm fl rxp acc => PyLite.Ok (dev_of cm fl rxp acc, hcomm_of (snd r))
  | DNone => PyLite.Ok (PNone, hcomm_of (snd r))
  | DRaise e => Exc e
  | DUns s => Unsupported s
  end.

#[local] Hint Resolve devinfo_get_func : pyspec.
#[local] Hint Unfold emb_dev emb_dev_top : hs_model.
#[local] Arguments devinfo_m : simpl never.

(** THE FUEL BOUND: 8 + min 256 (the length of the longer script; of the frame
    script without its first item, which the CMNINFO request consumes), hence
    264 for scripts of ANY length.  The [for] loop over the channels costs no
    fuel; every [while] loop restarts with the fuel of its function, and the
    longest one is a drain loop of [_drop_all_frames], which now runs at most
    4 + 256 + 1 times *)
Theorem devinfo_get_spec n w p d q qs :
  (8 + Nat.min drain_limit (List.length (tl q)) <= n)%nat -> (8 + Nat.min drain_limit (List.length qs) <= n)%nat ->
  call_method program n (hcomm w p d q qs) "_devinfo_get" [] = emb_dev_top (devinfo_m w p d q qs).
Proof.
  intros Hq Hqs. replace n with (S (F6 (S (n - 8)))) by lia.
  assert (Hq' : (Nat.min drain_limit (List.length (tl q)) + 3 <= S (S (S (n - 8))))%nat) by lia.
  assert (Hqs' : (Nat.min drain_limit (List.length qs) + 3 <= S (S (S (n - 8))))%nat) by lia.
  pystart. pyrun.
Qed.

(** for scripts of any length: a constant *)
Corollary devinfo_get_spec_const n w p d q qs :
  (264 <= n)%nat ->
  call_method program n (hcomm w p d q qs) "_devinfo_get" [] = emb_dev_top (devinfo_m w p d q qs).
Proof. intros H. apply devinfo_get_spec; unfold drain_limit; lia. Qed.

(** the hooks are global Ltac state: restore the defaults for whoever loads this file *)
Ltac py_stuck_hook h ::= fail.
Ltac py_unfold_hook ::= idtac.

(** * Audit *)
Print Assumptions retry_loop.
Print Assumptions chans_loop.
Print Assumptions devinfo_get_func.
Print Assumptions devinfo_get_spec.
Print Assumptions devinfo_get_spec_const.

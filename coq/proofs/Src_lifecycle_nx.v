(** The connect / disconnect life cycle, part 6: nxscope.py NxscopeHandler
    (connect, disconnect, stream_start, stream_stop, _stream_start,
    _stream_stop, _reset_stats, dev, ch_enable, ch_disable, ch_disable_all,
    ch_divider, channels_default_cfg, channels_write, dev_channel_get) as
    INTERPRETED SOURCE: the [*_func] lemmas.

    [nxh connected comm thr sub_q stream_started ovf] is the handler; its
    [_comm] is the complete CommHandler [gcomm ..] of Src_lc_base.v, its
    [_thrd] the recording stub FakeThread. *)
From Coq Require Import String Ascii List ZArith NArith Bool Lia ZifyBool.
From NX Require Import Bytes PyStruct Crc PyLite PyLite_tactics PyLite_tactics_ext PyLite_tactics_try
  Src_dev Src_iparse Src_parse Src_comm Src_nxscope Src_prelude Src_all
  Src_serialframe_proofs Src_parse_req_lemmas Src_records_proofs Src_config_base Src_config_req Src_config_write
  Src_handshake_base Src_handshake_devinfo Src_lc_base Src_lc_devinfo Src_lifecycle_comm.
From NX Require Src_parse_req_proofs Src_info_proofs Src_lc_config Src_lc_config_write.
From NX Require Frame Request Request_proofs Info Info_proofs Config Handshake Handshake_proofs Gen_frame Gen_req Gen_misc.
Import ListNotations.
Open Scope string_scope.
Open Scope Z_scope.

Module LC := Src_lc_config.
Module LW := Src_lc_config_write.

(** * The embedding *)
Definition nxh (connected comm thr sub_q stream_started ovf : pv) : pv :=
  PObj "NxscopeHandler"
    [("_connected", connected); ("_comm", comm); ("_thrd", thr); ("_sub_q", sub_q);
     ("_stream_started", stream_started); ("_ovf_cntr", ovf)].

#[local] Hint Unfold pa RQ.pa IN.pa sf gintf queue_obj gcomm item_pv fake_thread chans_obj nxh
  IN.cmninfo_obj IN.ack_obj frame_obj perr_obj IN.emb_opt RQ.emb_f dev_obj' : lc_model.
Ltac py_unfold_hook ::= autounfold with lc_model.
#[local] Arguments norm_index : simpl never.
#[local] Arguments enum_id : simpl never.
#[local] Arguments is_none !x /.
#[local] Arguments Request.frame_start : simpl never.
#[local] Arguments drain : simpl never.
#[local] Arguments devinfo_m : simpl never.
#[local] Arguments dev_of : simpl never.
#[local] Arguments dev_rec : simpl never.
#[local] Arguments div_sup : simpl never.
#[local] Arguments ack_sup : simpl never.
#[local] Arguments set_at : simpl never.
#[local] Arguments ack_step : simpl never.
#[local] Arguments connect_m : simpl never.
#[local] Arguments start_state : simpl never.

Ltac py_stuck_hook h ::=
  first [ crest_hook h |
  lazymatch h with
  | norm_index (List.length (map _ _)) _ => rewrite map_length
  | norm_index (S _) 0 => rewrite norm_index_S0
  | py_is _ PNone => rewrite py_is_none
  | get_attr _ _ (dev_rec _ _ _) "chmax" => rewrite dev_rec_chmax
  | get_attr _ _ (dev_rec _ _ _) "div_supported" => rewrite dev_rec_div
  | get_attr _ _ (dev_rec _ _ _) "ack_supported" => rewrite dev_rec_ack
  | context [is_none (dev_of ?a ?b ?c ?d)] => change (is_none (dev_of a b c d)) with false
  | truthy (dev_of ?a ?b ?c ?d) => change (truthy (dev_of a b c d)) with true
  | get_attr _ _ (dev_of ?a ?b ?c ?d) _ => change (dev_of a b c d) with (dev_obj' a b c (map chan_desc_of d))
  end ].

#[local] Hint Resolve thread_start_func thread_stop_func Src_lifecycle_comm.dev_func device_data_func : pyspec.

(** * The small methods *)
Lemma nx_dev_func n cn started thrd ev w p d dev items sitems rest thr sq ss ovf : crest rest ->
  call_func program (S (S n)) NxscopeHandler_dev
    [nxh cn (gcomm started thrd ev w p d dev items sitems rest) thr sq ss ovf] [] =
  PyLite.Ok (dev, Some (nxh cn (gcomm started thrd ev w p d dev items sitems rest) thr sq ss ovf)).
Proof. intros Hrest. pystart. pyrun. Qed.

Lemma reset_stats_func n cn comm thr sq ss ovf :
  call_func program (S n) NxscopeHandler__reset_stats [nxh cn comm thr sq ss ovf] [] =
  PyLite.Ok (PNone, Some (nxh cn comm thr sq ss (PInt 0))).
Proof. pystart. pyrun. Qed.
#[local] Hint Resolve nx_dev_func reset_stats_func : pyspec.

(** * What is inert *)
(** [connect] on a connected handler: returns the device, changes nothing *)
Lemma nx_connect_connected_func n started thrd ev w p d dev items sitems rest thr sq ss ovf : crest rest ->
  call_func program (S (S n)) NxscopeHandler_connect
    [nxh (PBool true) (gcomm started thrd ev w p d dev items sitems rest) thr sq ss ovf] [] =
  PyLite.Ok (dev, Some (nxh (PBool true) (gcomm started thrd ev w p d dev items sitems rest) thr sq ss ovf)).
Proof. intros Hrest. pystart. pyrun. Qed.

(** [disconnect] on a handler that is not connected: NOTHING changes, whatever the fields hold *)
Lemma nx_disconnect_idle_func n comm thr sq ss ovf :
  call_func program (S n) NxscopeHandler_disconnect [nxh (PBool false) comm thr sq ss ovf] [] =
  PyLite.Ok (PNone, Some (nxh (PBool false) comm thr sq ss ovf)).
Proof. pystart. pyrun. Qed.

(** [stream_stop] when the stream is not started: nothing *)
Lemma nx_stream_stop_idle_func n cn comm thr sq ovf :
  call_func program (S n) NxscopeHandler_stream_stop [nxh cn comm thr sq (PBool false) ovf] [] =
  PyLite.Ok (PNone, Some (nxh cn comm thr sq (PBool false) ovf)).
Proof. pystart. pyrun. Qed.

(** [stream_start] when the stream is started: nothing *)
Lemma nx_stream_start_started_func n cn comm thr sq ovf :
  call_func program (S n) NxscopeHandler_stream_start [nxh cn comm thr sq (PBool true) ovf] [] =
  PyLite.Ok (PNone, Some (nxh cn comm thr sq (PBool true) ovf)).
Proof. pystart. pyrun. Qed.

(** * A handler without a device description ([_dev = None]: never connected, or disconnected) *)
Lemma comm_channels_write_nodev_func n started thrd ev w p d items sitems rest : crest rest ->
  call_func program (S (S n)) CommHandler_channels_write [gcomm started thrd ev w p d PNone items sitems rest] [] =
  ExcS "AssertionError" (self_st (gcomm started thrd ev w p d PNone items sitems rest)).
Proof. intros Hrest. pystart. pyrun. Qed.
#[local] Hint Resolve comm_channels_write_nodev_func : pyspec.

Lemma nx_channels_write_nodev_func n cn started thrd ev w p d items sitems rest thr sq ss ovf : crest rest ->
  call_func program (S (S (S n))) NxscopeHandler_channels_write
    [nxh cn (gcomm started thrd ev w p d PNone items sitems rest) thr sq ss ovf] [] =
  ExcS "AssertionError" (self_st (nxh cn (gcomm started thrd ev w p d PNone items sitems rest) thr sq ss ovf)).
Proof. intros Hrest. pystart. pyrun. Qed.
#[local] Hint Resolve nx_channels_write_nodev_func : pyspec.

(** the receiver at the raise is the receiver of the call: nothing was started, nothing written *)
Lemma nx_stream_start_nodev_func n cn started thrd ev w p d items sitems rest thr sq ovf : crest rest ->
  call_func program (S (S (S (S n)))) NxscopeHandler_stream_start
    [nxh cn (gcomm started thrd ev w p d PNone items sitems rest) thr sq (PBool false) ovf] [] =
  ExcS "AssertionError" (self_st (nxh cn (gcomm started thrd ev w p d PNone items sitems rest) thr sq (PBool false) ovf)).
Proof. intros Hrest. pystart. pyrun. Qed.

(** a handler that was NEVER connected has no [_channels] attribute at all
    ([__init__] only annotates it): the setters raise AttributeError, not the
    AssertionError of [assert self._channels] *)
Lemma comm_ch_enable_fresh_func n started thrd ev w p d dev items sitems chans :
  call_func program (S n) CommHandler_ch_enable [gcomm started thrd ev w p d dev items sitems []; chans] [] =
  ExcS "AttributeError" (self_st (gcomm started thrd ev w p d dev items sitems [])).
Proof. pystart. pyrun. Qed.
Lemma comm_ch_disable_fresh_func n started thrd ev w p d dev items sitems chans :
  call_func program (S n) CommHandler_ch_disable [gcomm started thrd ev w p d dev items sitems []; chans] [] =
  ExcS "AttributeError" (self_st (gcomm started thrd ev w p d dev items sitems [])).
Proof. pystart. pyrun. Qed.
#[local] Hint Resolve comm_ch_enable_fresh_func comm_ch_disable_fresh_func : pyspec.

Lemma nx_ch_enable_fresh_func n cn started thrd ev w p d dev items sitems thr sq ss ovf chans wn :
  call_func program (S (S n)) NxscopeHandler_ch_enable
    [nxh cn (gcomm started thrd ev w p d dev items sitems []) thr sq ss ovf; chans; wn] [] =
  ExcS "AttributeError" (self_st (nxh cn (gcomm started thrd ev w p d dev items sitems []) thr sq ss ovf)).
Proof. pystart. pyrun. Qed.

Lemma nx_ch_disable_fresh_func n cn started thrd ev w p d dev items sitems thr sq ss ovf chans wn :
  call_func program (S (S n)) NxscopeHandler_ch_disable
    [nxh cn (gcomm started thrd ev w p d dev items sitems []) thr sq ss ovf; chans; wn] [] =
  ExcS "AttributeError" (self_st (nxh cn (gcomm started thrd ev w p d dev items sitems []) thr sq ss ovf)).
Proof. pystart. pyrun. Qed.

(** [ch_disable_all], [ch_divider] (valid divider), [channels_default_cfg] assert [self.dev] first *)
Lemma comm_ch_disable_all_nodev_func n started thrd ev w p d items sitems rest : crest rest ->
  call_func program (S (S n)) CommHandler_ch_disable_all [gcomm started thrd ev w p d PNone items sitems rest] [] =
  ExcS "AssertionError" (self_st (gcomm started thrd ev w p d PNone items sitems rest)).
Proof. intros Hrest. pystart. pyrun. Qed.
#[local] Hint Resolve comm_ch_disable_all_nodev_func : pyspec.

Lemma nx_ch_disable_all_nodev_func n cn started thrd ev w p d items sitems rest thr sq ss ovf wn : crest rest ->
  call_func program (S (S (S n))) NxscopeHandler_ch_disable_all
    [nxh cn (gcomm started thrd ev w p d PNone items sitems rest) thr sq ss ovf; wn] [] =
  ExcS "AssertionError" (self_st (nxh cn (gcomm started thrd ev w p d PNone items sitems rest) thr sq ss ovf)).
Proof. intros Hrest. pystart. pyrun. Qed.

Lemma nx_channels_default_cfg_nodev_func n cn started thrd ev w p d items sitems rest thr sq ss ovf wn : crest rest ->
  call_func program (S (S (S (S n)))) NxscopeHandler_channels_default_cfg
    [nxh cn (gcomm started thrd ev w p d PNone items sitems rest) thr sq ss ovf; wn] [] =
  ExcS "AssertionError" (self_st (nxh cn (gcomm started thrd ev w p d PNone items sitems rest) thr sq ss ovf)).
Proof. intros Hrest. pystart. pyrun. Qed.

Lemma nx_dev_channel_get_nodev_func n cn started thrd ev w p d items sitems rest thr sq ss ovf chid : crest rest ->
  call_func program (S (S (S n))) NxscopeHandler_dev_channel_get
    [nxh cn (gcomm started thrd ev w p d PNone items sitems rest) thr sq ss ovf; chid] [] =
  ExcS "AssertionError" (self_st (nxh cn (gcomm started thrd ev w p d PNone items sitems rest) thr sq ss ovf)).
Proof. intros Hrest. pystart. pyrun. Qed.

(** a handler that WAS connected keeps its [_channels] after [disconnect]:
    [ch_enable(k, True)] then changes the buffered configuration and raises at
    the write: the receiver at the raise is NOT the receiver of the call *)
#[local] Hint Resolve LC.ch_enable_int_func LC.ch_disable_int_func : pyspec.
Lemma nx_ch_enable_write_nodev_func n cn started thrd ev w p d items sitems c thr sq ss ovf k :
  call_func program (S (S (S (S n)))) NxscopeHandler_ch_enable
    [nxh cn (gcomm started thrd ev w p d PNone items sitems [("_channels", chans_obj c)]) thr sq ss ovf; PInt k; PBool true] [] =
  match set_at (Config.en_new c) k true with
  | Some l => ExcS "AssertionError"
                (self_st (nxh cn (gcomm started thrd ev w p d PNone items sitems
                                    [("_channels", chans_obj (Config.upd_en c l))]) thr sq ss ovf))
  | None => ExcS "IndexError"
              (self_st (nxh cn (gcomm started thrd ev w p d PNone items sitems [("_channels", chans_obj c)]) thr sq ss ovf))
  end.
Proof. pystart. pyrun. Qed.

(** * connect *)
(** the subscriber table: one empty list per channel *)
Definition sub_q0 (cm : Z) : pv := PList (map (fun _ : nat => PList []) (seq 0 (Z.to_nat cm))).

Lemma sub_q0_repeat cm : sub_q0 cm = PList (repeat (PList []) (Z.to_nat cm)).
Proof.
  unfold sub_q0. f_equal. generalize 0%nat. induction (Z.to_nat cm) as [|k IH]; intros s; cbn [seq map repeat]; [reflexivity|].
  f_equal. apply IH.
Qed.

Definition nx_connect_out (r : bool) (s t : Z) (ev : list string) (w : list bytes) (p d : Z) (q qs : list qitem)
           (rest : list (string * pv)) (thr sq ss ovf : pv) : PyLite.res (pv * option pv) :=
  let s' := if r then s else s + 1 in
  let failed st' :=
    nxh (PBool false)
      (gcomm_of (PBool false) (fake_thread false s' (t + 1)) ((ev ++ ["intf.start"]) ++ ["intf.stop"]) PNone rest st')
      thr sq ss ovf in
  match connect_m 6 (start_state w p d q qs) with
  | (CDev cm fl rxp acc, _, st') =>
      PyLite.Ok (dev_of cm fl rxp acc,
                 Some (nxh (PBool true)
                         (gcomm_of (PBool true) (fake_thread true s' t) (ev ++ ["intf.start"]) (dev_of cm fl rxp acc)
                            [("_channels", chans_obj (init_cli (map chan_desc_of acc)))] st')
                         thr (sub_q0 cm) ss ovf))
  | (CTimeout, _, st') => ExcS "TimeoutError" (self_st (failed st'))
  | (CRaise e, _, st') => ExcS e (self_st (failed st'))
  | (CUns x, _, _) => Unsupported x
  end.

#[local] Hint Resolve connect_func : pyspec.
#[local] Hint Unfold start_out : lc_model.

Lemma nx_connect_func m r s t ev w p d q qs rest thr sq ss ovf : crest rest -> (drain_limit <= m)%nat ->
  call_func program (S (S (S (S (F6 (S m)))))) NxscopeHandler_connect
    [nxh (PBool false) (gcomm (PBool false) (fake_thread r s t) ev w p d PNone (map item_pv q) (map item_pv qs) rest)
       thr sq ss ovf] [] =
  nx_connect_out r s t ev w p d q qs rest thr sq ss ovf.
Proof.
  intros Hrest Hm. pystart. unfold nx_connect_out.
  destruct (connect_m 6 (start_state w p d q qs)) as [[res rem] [[[[w' p'] d'] q'] qs']] eqn:Ec.
  destruct res as [cm fl rxp acc| |e|e]; cbn [gcomm_of].
  2-4: pyrunt.
  pystepst.
  unfold range_list.
  rewrite (comp_loop_map (fun k : nat => PInt (0 + Z.of_nat k)) (fun _ : nat => PList [])) by (intros y; pyrun).
  rewrite Z.sub_0_r. fold (sub_q0 cm).
  pyrunt.
Qed.


(** the hooks are global Ltac state: restore the defaults for whoever loads this file *)
Ltac py_stuck_hook h ::= fail.
Ltac py_unfold_hook ::= idtac.

(** * Audit *)
Print Assumptions nx_dev_func.
Print Assumptions nx_connect_connected_func.
Print Assumptions nx_disconnect_idle_func.
Print Assumptions nx_stream_stop_idle_func.
Print Assumptions nx_stream_start_started_func.
Print Assumptions nx_channels_write_nodev_func.
Print Assumptions nx_stream_start_nodev_func.
Print Assumptions nx_ch_enable_fresh_func.
Print Assumptions nx_ch_disable_fresh_func.
Print Assumptions nx_ch_disable_all_nodev_func.
Print Assumptions nx_channels_default_cfg_nodev_func.
Print Assumptions nx_dev_channel_get_nodev_func.
Print Assumptions nx_ch_enable_write_nodev_func.
Print Assumptions nx_connect_func.

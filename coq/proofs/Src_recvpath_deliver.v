(** The body of the STREAM THREAD of the client, [NxscopeHandler._stream_thread] (nxscope.py), as
    INTERPRETED SOURCE: the next stream frame of the scripted stream-frame queue is decoded
    ([CommHandler.stream_data], proofs/Src_recvpath_stream.v) and its samples are fanned out to the
    subscriber queues -- the harness stub SubQueue, reached through the loop variable of
    [for que in self._sub_q[chan]: que.put(samples[chan])], an [SForWB] loop (py/PyLite.v).

    One call, for a frame whose payload the model decoder accepts: for every channel c < chmax every
    queue of [_sub_q[c]] receives exactly ONE item, the list of the samples of channel c of that frame
    in frame order, iff that list is not empty and c is enabled in the client's view ([_channels.en_now]);
    no other queue changes; [_ovf_cntr] is incremented iff the overflow flag (bit 0) is set. *)
From Coq Require Import String Ascii List ZArith NArith Bool Lia ZifyBool ZifyNat ZifyN.
From NX Require Import Bytes PyStruct Utf8 Rn53 PyLite PyLite_tactics PyLite_tactics_ext PyLite_while PyLite_forwb
  Src_iframe Src_dev Src_iparse Src_parse Src_comm Src_nxscope Src_prelude Src_all Src_serialframe_proofs.
From NX Require Frame Request Gen_types StreamTypes Stream Reasm_proofs.
From NX Require Import Bytes_proofs Src_stream_float Src_stream_utf8 Src_stream_vals Src_stream_proofs
  Src_stream_model Src_recvpath_stream.
From NX Require Src_reasm_proofs.
Import ListNotations.
Import StreamTypes.
Open Scope string_scope.
Open Scope list_scope.
Open Scope Z_scope.

(** * Objects *)
(** a subscriber queue: its serial number (the harness names the queues) and what it holds *)
Definition subq := (Z * list pv)%type.
Definition subq_pv (q : subq) : pv := PObj "SubQueue" [("serial", PInt (fst q)); ("items", PList (snd q))].
Definition row_pv (row : list subq) : pv := PList (map subq_pv row).

(** the client's view of the channel configuration: only [en_now] is read *)
Definition chans_pv (en : list bool) (en_new div_now div_new en_sync div_sync : pv) : pv :=
  PObj "DCommChannelsData"
    [("en_now", PList (map PBool en)); ("en_new", en_new); ("div_now", div_now); ("div_new", div_new);
     ("en_sync", en_sync); ("div_sync", div_sync)].

(** the description record of the device: only [chmax] is read *)
Definition ddata_pv (cm : Z) (rest : list (string * pv)) : pv := PObj "DDeviceData" (("chmax", PInt cm) :: rest).

Definition nxh (comm : pv) (subs : list (list subq)) (ovf : Z) : pv :=
  PObj "NxscopeHandler"
    [("_connected", PBool true); ("_comm", comm); ("_sub_q", PList (map row_pv subs));
     ("_stream_started", PBool true); ("_ovf_cntr", PInt ovf)].

(** what a subscriber receives for one sample *)
Definition item_pv (s : Stream.sample) : pv :=
  PObj "DNxscopeStream" [("data", PTuple (map sval_pv (Stream.s_data s)));
                         ("meta", PTuple (map sval_pv (Stream.s_meta s)))].

(** * The delivery function (cf. model/Deliver.v: [group], [deliver_chan], [deliver]) *)
(** the samples of channel [c] of a frame, in frame order, if [c] is enabled in the client's view *)
Definition group (en : list bool) (ss : list Stream.sample) (c : nat) : list pv :=
  if nth c en false then map item_pv (filter (fun s => Stream.s_chan s =? Z.of_nat c) ss) else [].

Definition put_all (g : list pv) (row : list subq) : list subq :=
  map (fun q => (fst q, snd q ++ [PList g])) row.

Definition deliver_row (g : list pv) (row : list subq) : list subq :=
  match g with [] => row | _ => put_all g row end.

Fixpoint deliver_from (en : list bool) (ss : list Stream.sample) (c : nat) (subs : list (list subq))
  : list (list subq) :=
  match subs with
  | [] => []
  | row :: r => deliver_row (group en ss c) row :: deliver_from en ss (S c) r
  end.
Definition deliver (en : list bool) (ss : list Stream.sample) (subs : list (list subq)) : list (list subq) :=
  deliver_from en ss O subs.

(** * List facts *)
Lemma list_set_map {A B} (f : A -> B) (l : list A) k x : list_set (map f l) k (f x) = map f (list_set l k x).
Proof. revert k. induction l as [|a l IH]; intros [|k]; cbn; try reflexivity. rewrite IH. reflexivity. Qed.

Lemma list_set_length {A} (l : list A) k x : List.length (list_set l k x) = List.length l.
Proof. revert k. induction l as [|a l IH]; intros [|k]; cbn; try reflexivity. rewrite IH. reflexivity. Qed.

Lemma nth_list_set {A} (l : list A) k j x d :
  nth j (list_set l k x) d = if Nat.eqb j k then (if (k <? List.length l)%nat then x else d) else nth j l d.
Proof.
  revert k j. induction l as [|a l IH]; intros k j; cbn [list_set List.length].
  - destruct k, j; cbn; try reflexivity. destruct (Nat.eqb j k); reflexivity.
  - destruct k as [|k], j as [|j]; cbn [nth Nat.eqb]; try reflexivity.
    rewrite IH. destruct (Nat.eqb j k); [|reflexivity].
    replace (S k <? S (List.length l))%nat with (k <? List.length l)%nat by (apply eq_true_iff_eq; lia).
    reflexivity.
Qed.

Lemma nth_error_map_nth {A B} (f : A -> B) (l : list A) k d :
  (k < List.length l)%nat -> nth_error (map f l) k = Some (f (nth k l d)).
Proof.
  revert k. induction l as [|a l IH]; intros [|k] H; cbn in *; try lia; [reflexivity|]. apply IH. lia.
Qed.

Lemma norm_index_in n c : 0 <= c < Z.of_nat n -> norm_index n c = Some (Z.to_nat c).
Proof. intros H. unfold norm_index. replace ((0 <=? c) && (c <? Z.of_nat n)) with true by lia. reflexivity. Qed.

Lemma py_index_map {A} (f : A -> pv) (l : list A) c d :
  0 <= c < Z.of_nat (List.length l) ->
  py_index (PList (map f l)) (PInt c) = PyLite.Ok (f (nth (Z.to_nat c) l d)).
Proof.
  intros H. unfold py_index. cbn [as_int]. rewrite map_length, norm_index_in by exact H.
  rewrite <- (map_nth f l d). rewrite (nth_indep _ PNone (f d)) by (rewrite map_length; lia). reflexivity.
Qed.

(** * Set-up of the executor *)
#[local] Hint Unfold perr_obj frame_obj squeue sitem_pv stream_frame subq_pv : dl_model.
Ltac py_unfold_hook ::= autounfold with dl_model.
#[local] Arguments enum_id : simpl never.
#[local] Arguments norm_index : simpl never.
#[local] Arguments py_index : simpl never.
#[local] Arguments Frame.id_of : simpl never.
#[local] Arguments decode_result : simpl never.
#[local] Arguments range_list : simpl never.

Lemma py_is_none x : py_is x PNone = Some (match x with PNone => true | _ => false end).
Proof. destruct x; reflexivity. Qed.

(** * The callees *)
Section Callees.
Variables (dd_rest : list (string * pv)) (cfgs : list chan_cfg) (en : list bool)
          (en_new div_now div_new en_sync div_sync : pv).
Let cm : Z := Z.of_nat (List.length cfgs).
Let dv : pv := dev_obj (ddata_pv cm dd_rest) cfgs.
Let chans : pv := chans_pv en en_new div_now div_new en_sync div_sync.
Let comm (qs : list sitem) : pv := sch dv chans qs.

Lemma comm_dev_func n qs :
  call_func program (S n) CommHandler_dev [comm qs] [] = PyLite.Ok (dv, Some (comm qs)).
Proof. apply dev_func. Qed.

Lemma nx_dev_func n qs subs ovf :
  call_func program (S (S n)) NxscopeHandler_dev [nxh (comm qs) subs ovf] [] =
  PyLite.Ok (dv, Some (nxh (comm qs) subs ovf)).
Proof. pose proof comm_dev_func as H. pystart. pysteps. all: try reflexivity. Qed.

Lemma dev_data_func n :
  call_func program (S n) Device_data [dv] [] = PyLite.Ok (ddata_pv cm dd_rest, Some dv).
Proof. pystart. pyrun. Qed.

Lemma overflow_func n qs fl :
  call_func program (S n) CommHandler_flags_is_overflow [comm qs; PInt fl] [] =
  PyLite.Ok (PBool (negb (Z.land fl 1 =? 0)), Some (comm qs)).
Proof. pystart. pyrun. Qed.

Lemma is_enabled_func n qs c :
  0 <= c < Z.of_nat (List.length en) ->
  call_func program (S n) CommHandler_ch_is_enabled [comm qs; PInt c] [] =
  PyLite.Ok (PBool (nth (Z.to_nat c) en false), Some (comm qs)).
Proof.
  intros H. pose proof (py_index_map PBool en c false H) as E0. pystart. pyrun.
Qed.

Lemma subq_put_func n q x :
  call_func program (S n) SubQueue_put [subq_pv q; x] [] =
  PyLite.Ok (PNone, Some (subq_pv (fst q, snd q ++ [x]))).
Proof. pystart. pyrun. Qed.

End Callees.

Import Src_reasm_proofs.
From NX Require Import Src_stream_enc_lib.

(** the hooks again (the imports above must not change them) *)
Ltac py_unfold_hook ::= autounfold with dl_model.
Ltac py_stuck_hook h ::=
  lazymatch h with
  | py_is _ PNone => rewrite py_is_none
  end.

(** * The loops of the method, taken out of the generated AST *)
Fixpoint find_for (ss : stmts) : option (target * expr * stmts * stmts) :=   (* target, iterable, body, rest *)
  match ss with
  | Snil => None
  | Scons (SFor t it b) r => Some (t, it, b, r)
  | Scons (SIf _ a Snil) r => match find_for a with Some x => Some x | None => find_for r end
  | Scons _ r => find_for r
  end.
Fixpoint find_forwb (ss : stmts) : option (string * expr * stmts) :=
  match ss with
  | Snil => None
  | Scons (SForWB x it b) _ => Some (x, it, b)
  | Scons (SIf _ a Snil) r => match find_forwb a with Some x => Some x | None => find_forwb r end
  | Scons (SFor _ _ b) r => match find_forwb b with Some x => Some x | None => find_forwb r end
  | Scons _ r => find_forwb r
  end.

Definition th_body : stmts := f_body NxscopeHandler__stream_thread.
Definition l1 := match find_for th_body with Some x => x | None => (TName "", EConst PNone, Snil, Snil) end.
Definition l1_t : target := Eval cbv in fst (fst (fst l1)).
Definition l1_b : stmts := Eval cbv in snd (fst l1).
Definition l2 := match find_for (snd l1) with Some x => x | None => (TName "", EConst PNone, Snil, Snil) end.
Definition l2_t : target := Eval cbv in fst (fst (fst l2)).
Definition l2_b : stmts := Eval cbv in snd (fst l2).
Definition l3 := match find_forwb th_body with Some x => x | None => ("", EConst PNone, Snil) end.
Definition l3_x : string := Eval cbv in fst (fst l3).
Definition l3_it : expr := Eval cbv in snd (fst l3).
Definition l3_b : stmts := Eval cbv in snd l3.

(** one step: a comprehension / the statement with write-back is named before reduction can open it *)
Ltac wb_step :=
  lazymatch goal with
  | |- ?L = _ =>
      let h := head_of L in
      lazymatch h with
      | exec_block _ _ _ _ (Scons (SForWB _ _ _) _) => rewrite exec_block_SForWB
      | exec_block _ _ _ _ (Scons (SAssign _ (EComp _ _ _ _)) _) => rewrite exec_block_cons, exec_SAssign_EComp
      end
  end.
Ltac dstep1 := first [ wb_step | estep1 ].
Ltac dsteps := repeat dstep1; pynorm_head.

(** the global names the code refers to must not be shadowed *)
Definition genv3 (e : env) : Prop :=
  lookup "len" e = None /\ lookup "range" e = None /\ lookup "DNxscopeStream" e = None.
Ltac genv3_split := repeat match goal with H : genv3 _ |- _ => destruct H as (? & ? & ?) end.
Ltac genv3_solve := repeat split; env_rw; first [assumption | reflexivity].

Lemma comp_empty_lists P cf e1 x : forall l,
  comp_loop P cf e1 x (EList Enil) l = PyLite.Ok (map (fun _ => PList []) l).
Proof. induction l as [|y r IH]; [reflexivity|]. rewrite comp_loop_cons, IH. reflexivity. Qed.

Lemma empty_lists_repeat cmz :
  map (fun _ : pv => PList []) (range_list 0 cmz) = map PList (repeat [] (Z.to_nat cmz)).
Proof.
  unfold range_list. rewrite Z.sub_0_r, map_map. generalize (Z.to_nat cmz) as m. intros m.
  generalize 0%nat as s. induction m as [|m IH]; intros s; cbn [seq map repeat]; [reflexivity|].
  rewrite IH. reflexivity.
Qed.

Section Thread.
Variables (dd_rest : list (string * pv)) (cfgs : list chan_cfg) (en : list bool)
          (en_new div_now div_new en_sync div_sync : pv).
Let cm : Z := Z.of_nat (List.length cfgs).
Let dv : pv := dev_obj (ddata_pv cm dd_rest) cfgs.
Let chans : pv := chans_pv en en_new div_now div_new en_sync div_sync.
Let comm (qs : list sitem) : pv := sch dv chans qs.
Hypothesis Hen : List.length en = List.length cfgs.

#[local] Hint Resolve comm_dev_func nx_dev_func dev_data_func overflow_func is_enabled_func subq_put_func : pyspec.

(** ** loop 1: the samples of the frame are sorted into the per-channel lists *)
Definition step1 (acc : list (list pv)) (s : Stream.sample) : list (list pv) :=
  let k := Z.to_nat (Stream.s_chan s) in
  if nth k en false then list_set acc k (nth k acc [] ++ [item_pv s])%list else acc.

Lemma step1_length acc s : List.length (step1 acc s) = List.length acc.
Proof. unfold step1. destruct (nth _ en false); [apply list_set_length|reflexivity]. Qed.

Lemma loop1 n qs subs ovf sd : forall ss acc e,
  Forall (fun s => 0 <= Stream.s_chan s < cm) ss -> List.length acc = List.length cfgs ->
  genv3 e -> lookup "self" e = Some (nxh (comm qs) subs ovf) -> lookup "samples" e = Some (PList (map PList acc)) ->
  lookup "sdata" e = Some sd -> lookup "chmax" e = Some (PInt cm) ->
  exists e', for_loop program (call_func program (S (S n))) (S (S n)) l1_t l1_b (map sample_pv ss) e = PyLite.Ok (ONorm e') /\
    genv3 e' /\ lookup "self" e' = Some (nxh (comm qs) subs ovf) /\
    lookup "samples" e' = Some (PList (map PList (fold_left step1 ss acc))) /\
    lookup "sdata" e' = Some sd /\ lookup "chmax" e' = Some (PInt cm).
Proof.
  induction ss as [|s ss IH]; intros acc e Hr Hacc Hg Hs Hsm Hsd Hcm.
  - exists e. rewrite for_loop_nil. cbn [fold_left]. auto 10.
  - inversion Hr as [|? ? Hs0 Hr']; subst. genv3_split.
    assert (Hc : 0 <= Stream.s_chan s < Z.of_nat (List.length en)) by (rewrite Hen; exact Hs0).
    assert (Hc2 : 0 <= Stream.s_chan s < Z.of_nat (List.length acc)) by (rewrite Hacc; exact Hs0).
    pose proof (py_index_map PList acc (Stream.s_chan s) [] Hc2) as EI.
    cbn [map fold_left].
    destruct (nth (Z.to_nat (Stream.s_chan s)) en false) eqn:Een.
    + eassert (HX : for_loop program (call_func program (S (S n))) (S (S n)) l1_t l1_b
                      (sample_pv s :: map sample_pv ss) e = _).
      { rewrite for_loop_cons. cbv delta [l1_t l1_b]. unfold sample_pv at 1, sample_obj. dsteps.
        rewrite map_length, (norm_index_in _ _ Hc2). cbv iota.
        rewrite (nth_error_map_nth PList acc _ []) by lia. cbv iota.
        reflexivity. }
      rewrite HX.
      match type of HX with
      | _ = for_loop _ _ _ _ _ _ ?e2 =>
          destruct (IH (step1 acc s) e2) as (e' & HL & Hg' & HI);
            [ exact Hr' | rewrite step1_length; exact Hacc | genv3_solve | lk
            | env_rw; unfold step1; rewrite Een; fold (item_pv s);
              rewrite <- (list_set_map PList); reflexivity
            | lk | lk | ]
      end.
      exists e'. split; [exact HL|]. split; [exact Hg'|exact HI].
    + eassert (HX : for_loop program (call_func program (S (S n))) (S (S n)) l1_t l1_b
                      (sample_pv s :: map sample_pv ss) e = _).
      { rewrite for_loop_cons. cbv delta [l1_t l1_b]. unfold sample_pv at 1, sample_obj. dsteps. reflexivity. }
      rewrite HX.
      match type of HX with
      | _ = for_loop _ _ _ _ _ _ ?e2 =>
          destruct (IH (step1 acc s) e2) as (e' & HL & Hg' & HI);
            [ exact Hr' | rewrite step1_length; exact Hacc | genv3_solve | lk
            | env_rw; unfold step1; rewrite Een; reflexivity
            | lk | lk | ]
      end.
      exists e'. split; [exact HL|]. split; [exact Hg'|exact HI].
Qed.
End Thread.

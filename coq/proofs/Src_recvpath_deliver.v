(** The body of the STREAM THREAD of the client, [NxscopeHandler._stream_thread] (nxscope.py), as
    INTERPRETED SOURCE: the next stream frame of the scripted stream-frame queue is decoded
    ([CommHandler.stream_data], proofs/Src_recvpath_stream.v) and its samples are fanned out to the
    subscriber queues -- the harness stub SubQueue, reached through the loop variable of
    [for que in self._sub_q[chan]: que.put(samples[chan])], an [SForWB] loop (py/PyLite.v).

    One call, for a frame whose payload the model decoder accepts: for every channel c < chmax every
    queue of [_sub_q[c]] receives exactly ONE item, the list of the samples of channel c of that frame
    in frame order, iff that list is not empty and c is enabled in the client's view ([_channels.en_now]);
    no other queue changes; [_ovf_cntr] is incremented iff the overflow flag (bit 0) is set. *)
From Coq Require Import String Ascii List ZArith NArith Bool Lia ZifyBool ZifyNat ZifyN.
From NX Require Import Bytes PyStruct Utf8 Rn53 PyLite PyLite_tactics PyLite_tactics_ext PyLite_while PyLite_forwb
  Src_iframe Src_dev Src_iparse Src_parse Src_comm Src_nxscope Src_prelude Src_all Src_serialframe_proofs.
From NX Require Frame Request Gen_types StreamTypes Stream Reasm_proofs.
From NX Require Import Bytes_proofs Src_stream_float Src_stream_utf8 Src_stream_vals Src_stream_proofs
  Src_stream_model Src_recvpath_stream.
From NX Require Src_reasm_proofs.
Import ListNotations.
Import StreamTypes.
Open Scope string_scope.
Open Scope list_scope.
Open Scope Z_scope.

(** * Objects *)
(** a subscriber queue: its serial number (the harness names the queues) and what it holds *)
Definition subq := (Z * list pv)%type.
Definition subq_pv (q : subq) : pv := PObj "SubQueue" [("serial", PInt (fst q)); ("items", PList (snd q))].
Definition row_pv (row : list subq) : pv := PList (map subq_pv row).

(** the client's view of the channel configuration: only [en_now] is read *)
Definition chans_pv (en : list bool) (en_new div_now div_new en_sync div_sync : pv) : pv :=
  PObj "DCommChannelsData"
    [("en_now", PList (map PBool en)); ("en_new", en_new); ("div_now", div_now); ("div_new", div_new);
     ("en_sync", en_sync); ("div_sync", div_sync)].

(** the description record of the device: only [chmax] is read *)
Definition ddata_pv (cm : Z) (rest : list (string * pv)) : pv := PObj "DDeviceData" (("chmax", PInt cm) :: rest).

Definition nxh (comm : pv) (subs : list (list subq)) (ovf : Z) : pv :=
  PObj "NxscopeHandler"
    [("_connected", PBool true); ("_comm", comm); ("_sub_q", PList (map row_pv subs));
     ("_stream_started", PBool true); ("_ovf_cntr", PInt ovf)].

(** what a subscriber receives for one sample *)
Definition item_pv (s : Stream.sample) : pv :=
  PObj "DNxscopeStream" [("data", PTuple (map sval_pv (Stream.s_data s)));
                         ("meta", PTuple (map sval_pv (Stream.s_meta s)))].

(** * The delivery function (cf. model/Deliver.v: [group], [deliver_chan], [deliver]) *)
(** the samples of channel [c] of a frame, in frame order, if [c] is enabled in the client's view *)
Definition group (en : list bool) (ss : list Stream.sample) (c : nat) : list pv :=
  if nth c en false then map item_pv (filter (fun s => Stream.s_chan s =? Z.of_nat c) ss) else [].

Definition put_all (g : list pv) (row : list subq) : list subq :=
  map (fun q => (fst q, snd q ++ [PList g])) row.

Definition deliver_row (g : list pv) (row : list subq) : list subq :=
  match g with [] => row | _ => put_all g row end.

Fixpoint deliver_from (en : list bool) (ss : list Stream.sample) (c : nat) (subs : list (list subq))
  : list (list subq) :=
  match subs with
  | [] => []
  | row :: r => deliver_row (group en ss c) row :: deliver_from en ss (S c) r
  end.
Definition deliver (en : list bool) (ss : list Stream.sample) (subs : list (list subq)) : list (list subq) :=
  deliver_from en ss O subs.

(** * List facts *)
Lemma list_set_map {A B} (f : A -> B) (l : list A) k x : list_set (map f l) k (f x) = map f (list_set l k x).
Proof. revert k. induction l as [|a l IH]; intros [|k]; cbn; try reflexivity. rewrite IH. reflexivity. Qed.

Lemma list_set_length {A} (l : list A) k x : List.length (list_set l k x) = List.length l.
Proof. revert k. induction l as [|a l IH]; intros [|k]; cbn; try reflexivity. rewrite IH. reflexivity. Qed.

Lemma nth_list_set {A} (l : list A) k j x d :
  nth j (list_set l k x) d = if Nat.eqb j k then (if (k <? List.length l)%nat then x else d) else nth j l d.
Proof.
  revert k j. induction l as [|a l IH]; intros k j; cbn [list_set List.length].
  - destruct k, j; cbn; try reflexivity. destruct (Nat.eqb j k); reflexivity.
  - destruct k as [|k], j as [|j]; cbn [nth Nat.eqb]; try reflexivity.
    rewrite IH. destruct (Nat.eqb j k); [|reflexivity].
    replace (S k <? S (List.length l))%nat with (k <? List.length l)%nat by (apply eq_true_iff_eq; lia).
    reflexivity.
Qed.

Lemma nth_error_map_nth {A B} (f : A -> B) (l : list A) k d :
  (k < List.length l)%nat -> nth_error (map f l) k = Some (f (nth k l d)).
Proof.
  revert k. induction l as [|a l IH]; intros [|k] H; cbn in *; try lia; [reflexivity|]. apply IH. lia.
Qed.

Lemma norm_index_in n c : 0 <= c < Z.of_nat n -> norm_index n c = Some (Z.to_nat c).
Proof. intros H. unfold norm_index. replace ((0 <=? c) && (c <? Z.of_nat n)) with true by lia. reflexivity. Qed.

Lemma py_index_map {A} (f : A -> pv) (l : list A) c d :
  0 <= c < Z.of_nat (List.length l) ->
  py_index (PList (map f l)) (PInt c) = PyLite.Ok (f (nth (Z.to_nat c) l d)).
Proof.
  intros H. unfold py_index. cbn [as_int]. rewrite map_length, norm_index_in by exact H.
  rewrite <- (map_nth f l d). rewrite (nth_indep _ PNone (f d)) by (rewrite map_length; lia). reflexivity.
Qed.

Lemma list_set_twice {A} (l : list A) k x y : list_set (list_set l k x) k y = list_set l k y.
Proof. revert k. induction l as [|a l IH]; intros [|k]; cbn; try reflexivity. rewrite IH. reflexivity. Qed.

Lemma list_set_same {A} (l : list A) k x : nth_error l k = Some x -> list_set l k x = l.
Proof. apply list_set_nth_error. Qed.

Lemma nth_error_list_set {A} (l : list A) k x : (k < List.length l)%nat -> nth_error (list_set l k x) k = Some x.
Proof. revert k. induction l as [|a l IH]; intros [|k] H; cbn in *; try lia; [reflexivity|]. apply IH. lia. Qed.

Lemma firstn_S_list_set {A} (l : list A) k x :
  (k < List.length l)%nat -> firstn (S k) (list_set l k x) = firstn k l ++ [x].
Proof.
  revert k. induction l as [|a l IH]; intros [|k] H; cbn [List.length] in *; try lia; [reflexivity|].
  cbn [list_set]. change (firstn (S (S k)) (a :: list_set l k x)) with (a :: firstn (S k) (list_set l k x)).
  rewrite IH by lia. reflexivity.
Qed.

Lemma skipn_S_list_set {A} (l : list A) k x : skipn (S k) (list_set l k x) = skipn (S k) l.
Proof. revert k. induction l as [|a l IH]; intros [|k]; cbn [list_set skipn]; try reflexivity. apply IH. Qed.

Lemma skipn_cons_inv {A} (l : list A) k x r :
  skipn k l = x :: r -> (k < List.length l)%nat /\ nth_error l k = Some x /\ skipn (S k) l = r.
Proof.
  revert k. induction l as [|a l IH]; intros [|k] H; cbn [skipn] in H; try discriminate.
  - inversion H; subst. cbn. repeat split; lia.
  - destruct (IH k H) as (H1 & H2 & H3). cbn [List.length nth_error skipn]. repeat split; try assumption; lia.
Qed.

Lemma skipn_nil_firstn {A} (l : list A) k : skipn k l = [] -> firstn k l = l.
Proof.
  intros H. pose proof (firstn_skipn k l) as E. rewrite H, app_nil_r in E. exact E.
Qed.

(** * Set-up of the executor *)
#[local] Hint Unfold perr_obj frame_obj squeue sitem_pv stream_frame subq_pv : dl_model.
Ltac py_unfold_hook ::= autounfold with dl_model.
#[local] Arguments enum_id : simpl never.
#[local] Arguments norm_index : simpl never.
#[local] Arguments py_index : simpl never.
#[local] Arguments Frame.id_of : simpl never.
#[local] Arguments decode_result : simpl never.
#[local] Arguments range_list : simpl never.

Lemma py_is_none x : py_is x PNone = Some (match x with PNone => true | _ => false end).
Proof. destruct x; reflexivity. Qed.

(** * The callees *)
Section Callees.
Variables (dd_rest : list (string * pv)) (cfgs : list chan_cfg) (en : list bool)
          (en_new div_now div_new en_sync div_sync : pv).
Let cm : Z := Z.of_nat (List.length cfgs).
Let dv : pv := dev_obj (ddata_pv cm dd_rest) cfgs.
Let chans : pv := chans_pv en en_new div_now div_new en_sync div_sync.
Let comm (qs : list sitem) : pv := sch dv chans qs.

Lemma comm_dev_func n qs :
  call_func program (S n) CommHandler_dev [comm qs] [] = PyLite.Ok (dv, Some (comm qs)).
Proof. apply dev_func. Qed.

Lemma nx_dev_func n qs subs ovf :
  call_func program (S (S n)) NxscopeHandler_dev [nxh (comm qs) subs ovf] [] =
  PyLite.Ok (dv, Some (nxh (comm qs) subs ovf)).
Proof. pose proof comm_dev_func as H. pystart. pysteps. all: try reflexivity. Qed.

Lemma dev_data_func n :
  call_func program (S n) Device_data [dv] [] = PyLite.Ok (ddata_pv cm dd_rest, Some dv).
Proof. pystart. pyrun. Qed.

Lemma overflow_func n qs fl :
  call_func program (S n) CommHandler_flags_is_overflow [comm qs; PInt fl] [] =
  PyLite.Ok (PBool (negb (Z.land fl 1 =? 0)), Some (comm qs)).
Proof. pystart. pyrun. Qed.

Lemma is_enabled_func n qs c :
  0 <= c < Z.of_nat (List.length en) ->
  call_func program (S n) CommHandler_ch_is_enabled [comm qs; PInt c] [] =
  PyLite.Ok (PBool (nth (Z.to_nat c) en false), Some (comm qs)).
Proof.
  intros H. pose proof (py_index_map PBool en c false H) as E0. pystart. pyrun.
Qed.

Lemma subq_put_func n q x :
  call_func program (S n) SubQueue_put [subq_pv q; x] [] =
  PyLite.Ok (PNone, Some (subq_pv (fst q, snd q ++ [x]))).
Proof. pystart. pyrun. Qed.

End Callees.

Import Src_reasm_proofs.
From NX Require Import Src_stream_enc_lib.

(** the hooks again (the imports above must not change them) *)
Ltac py_unfold_hook ::= autounfold with dl_model.
Ltac py_stuck_hook h ::=
  lazymatch h with
  | py_is _ PNone => rewrite py_is_none
  end.

(** * The loops of the method, taken out of the generated AST *)
Fixpoint find_for (ss : stmts) : option (target * expr * stmts * stmts) :=   (* target, iterable, body, rest *)
  match ss with
  | Snil => None
  | Scons (SFor t it b) r => Some (t, it, b, r)
  | Scons (SIf _ a Snil) r => match find_for a with Some x => Some x | None => find_for r end
  | Scons _ r => find_for r
  end.
Fixpoint find_forwb (ss : stmts) : option (string * expr * stmts) :=
  match ss with
  | Snil => None
  | Scons (SForWB x it b) _ => Some (x, it, b)
  | Scons (SIf _ a Snil) r => match find_forwb a with Some x => Some x | None => find_forwb r end
  | Scons (SFor _ _ b) r => match find_forwb b with Some x => Some x | None => find_forwb r end
  | Scons _ r => find_forwb r
  end.

Definition th_body : stmts := f_body NxscopeHandler__stream_thread.
Definition l1 := match find_for th_body with Some x => x | None => (TName "", EConst PNone, Snil, Snil) end.
Definition l1_t : target := Eval cbv in fst (fst (fst l1)).
Definition l1_b : stmts := Eval cbv in snd (fst l1).
Definition l2 := match find_for (snd l1) with Some x => x | None => (TName "", EConst PNone, Snil, Snil) end.
Definition l2_t : target := Eval cbv in fst (fst (fst l2)).
Definition l2_b : stmts := Eval cbv in snd (fst l2).
Definition l3 := match find_forwb th_body with Some x => x | None => ("", EConst PNone, Snil) end.
Definition l3_x : string := Eval cbv in fst (fst l3).
Definition l3_it : expr := Eval cbv in snd (fst l3).
Definition l3_b : stmts := Eval cbv in snd l3.

(** ** The local variables the invariants speak about, computed from the AST (never written as literals:
    renaming a local of nxscope.py must not break the proofs) *)
Fixpoint assigned_names (ss : stmts) : list string :=
  match ss with
  | Snil => []
  | Scons (SAssign (TName x) _) r => x :: assigned_names r
  | Scons _ r => assigned_names r
  end.
Definition tname (t : target) : string := match t with TName x => x | _ => "" end.
Definition v_self : string := Eval cbv in match f_params NxscopeHandler__stream_thread with (x, _) :: _ => x | [] => "" end.
Definition v_chmax : string := Eval cbv in nth 0 (assigned_names th_body) "".
Definition v_samples : string := Eval cbv in nth 1 (assigned_names th_body) "".
Definition v_sdata : string := Eval cbv in nth 2 (assigned_names th_body) "".
Definition v_data : string := Eval cbv in tname l1_t.
Definition v_chan : string := Eval cbv in tname l2_t.
(** the names as literals, for the look-up rewriting (which is syntactic) *)
Ltac names := cbv delta [v_self v_chmax v_samples v_sdata v_data v_chan l3_x] in *.

(** one step: a comprehension / the statement with write-back is named before reduction can open it *)
Ltac wb_step :=
  lazymatch goal with
  | |- ?L = _ =>
      let h := head_of L in
      lazymatch h with
      | exec_block _ _ _ _ (Scons (SForWB _ _ _) _) => rewrite exec_block_SForWB
      | exec _ _ _ _ (SIf _ _ _) => rewrite exec_SIf
      | exec_block _ _ _ _ (Scons (SAssign _ (EComp _ _ _ _)) _) => rewrite exec_block_cons, exec_SAssign_EComp
      end
  end.
Ltac dstep1 :=
  first [ wb_step
        | pynorm_head;
          first [ wb_step
                | progress env_rw
                | lazymatch goal with
                  | |- ?L = _ =>
                      let h := head_of L in
                      tryif is_result h then fail "the left-hand side is a result"
                      else lazymatch h with
                           | forwb_loop _ _ _ _ _ _ _ _ _ => fail "loop with write-back (use the invariant lemma)"
                           | _ => pystep_head h
                           end
                  end ] ].
Ltac dsteps := repeat dstep1; pynorm_head.

(** the global names the code refers to must not be shadowed *)
Definition genv3 (e : env) : Prop :=
  lookup "len" e = None /\ lookup "range" e = None /\ lookup "DNxscopeStream" e = None.
Ltac genv3_split := repeat match goal with H : genv3 _ |- _ => destruct H as (? & ? & ?) end.
Ltac genv3_solve := repeat split; env_rw; first [assumption | reflexivity].

Lemma comp_empty_lists P cf e1 x : forall l,
  comp_loop P cf e1 x (EList Enil) l = PyLite.Ok (map (fun _ => PList []) l).
Proof. induction l as [|y r IH]; [reflexivity|]. rewrite comp_loop_cons, IH. reflexivity. Qed.

Lemma empty_lists_repeat cmz :
  map (fun _ : pv => PList []) (range_list 0 cmz) = map PList (repeat [] (Z.to_nat cmz)).
Proof.
  unfold range_list. rewrite Z.sub_0_r, map_map. generalize (Z.to_nat cmz) as m. intros m.
  generalize 0%nat as s. induction m as [|m IH]; intros s; cbn [seq map repeat]; [reflexivity|].
  rewrite IH. reflexivity.
Qed.

Section Thread.
Variables (dd_rest : list (string * pv)) (cfgs : list chan_cfg) (en : list bool)
          (en_new div_now div_new en_sync div_sync : pv).
Let cm : Z := Z.of_nat (List.length cfgs).
Let dv : pv := dev_obj (ddata_pv cm dd_rest) cfgs.
Let chans : pv := chans_pv en en_new div_now div_new en_sync div_sync.
Let comm (qs : list sitem) : pv := sch dv chans qs.
Hypothesis Hen : List.length en = List.length cfgs.

#[local] Hint Resolve comm_dev_func nx_dev_func dev_data_func overflow_func is_enabled_func subq_put_func : pyspec.

(** ** loop 1: the samples of the frame are sorted into the per-channel lists *)
Definition step1 (acc : list (list pv)) (s : Stream.sample) : list (list pv) :=
  let k := Z.to_nat (Stream.s_chan s) in
  if nth k en false then list_set acc k (nth k acc [] ++ [item_pv s])%list else acc.

Lemma step1_length acc s : List.length (step1 acc s) = List.length acc.
Proof. unfold step1. destruct (nth _ en false); [apply list_set_length|reflexivity]. Qed.

Lemma loop1 n qs subs ovf sd : forall ss acc e,
  Forall (fun s => 0 <= Stream.s_chan s < cm) ss -> List.length acc = List.length cfgs ->
  genv3 e -> lookup v_self e = Some (nxh (comm qs) subs ovf) -> lookup v_samples e = Some (PList (map PList acc)) ->
  lookup v_sdata e = Some sd -> lookup v_chmax e = Some (PInt cm) ->
  exists e', for_loop program (call_func program (S (S n))) (S (S n)) l1_t l1_b (map sample_pv ss) e = PyLite.Ok (ONorm e') /\
    genv3 e' /\ lookup v_self e' = Some (nxh (comm qs) subs ovf) /\
    lookup v_samples e' = Some (PList (map PList (fold_left step1 ss acc))) /\
    lookup v_sdata e' = Some sd /\ lookup v_chmax e' = Some (PInt cm).
Proof.
  names.
  induction ss as [|s ss IH]; intros acc e Hr Hacc Hg Hs Hsm Hsd Hcm.
  - exists e. rewrite for_loop_nil. cbn [fold_left]. auto 10.
  - inversion Hr as [|? ? Hs0 Hr']; subst. genv3_split.
    assert (Hc : 0 <= Stream.s_chan s < Z.of_nat (List.length en)) by (rewrite Hen; exact Hs0).
    assert (Hc2 : 0 <= Stream.s_chan s < Z.of_nat (List.length acc)) by (rewrite Hacc; exact Hs0).
    pose proof (py_index_map PList acc (Stream.s_chan s) [] Hc2) as EI.
    cbn [map fold_left].
    destruct (nth (Z.to_nat (Stream.s_chan s)) en false) eqn:Een.
    + eassert (HX : for_loop program (call_func program (S (S n))) (S (S n)) l1_t l1_b
                      (sample_pv s :: map sample_pv ss) e = _).
      { rewrite for_loop_cons. cbv delta [l1_t l1_b]. unfold sample_pv at 1, sample_obj. dsteps.
        rewrite map_length, (norm_index_in _ _ Hc2). cbv iota.
        rewrite (nth_error_map_nth PList acc _ []) by lia. cbv iota.
        reflexivity. }
      rewrite HX.
      match type of HX with
      | _ = for_loop _ _ _ _ _ _ ?e2 =>
          destruct (IH (step1 acc s) e2) as (e' & HL & Hg' & HI);
            [ exact Hr' | rewrite step1_length; exact Hacc | genv3_solve | lk
            | env_rw; unfold step1; rewrite Een; fold (item_pv s);
              rewrite <- (list_set_map PList); reflexivity
            | lk | lk | ]
      end.
      exists e'. split; [exact HL|]. split; [exact Hg'|exact HI].
    + eassert (HX : for_loop program (call_func program (S (S n))) (S (S n)) l1_t l1_b
                      (sample_pv s :: map sample_pv ss) e = _).
      { rewrite for_loop_cons. cbv delta [l1_t l1_b]. unfold sample_pv at 1, sample_obj. dsteps. reflexivity. }
      rewrite HX.
      match type of HX with
      | _ = for_loop _ _ _ _ _ _ ?e2 =>
          destruct (IH (step1 acc s) e2) as (e' & HL & Hg' & HI);
            [ exact Hr' | rewrite step1_length; exact Hacc | genv3_solve | lk
            | env_rw; unfold step1; rewrite Een; reflexivity
            | lk | lk | ]
      end.
      exists e'. split; [exact HL|]. split; [exact Hg'|exact HI].
Qed.
(** ** the write-back of the subscriber loop: the queue [que] stands for [self._sub_q[chan][k]] *)
Lemma wb_subq e2 qs rows ovf c rowc k q' :
  lookup l3_x e2 = Some (subq_pv q') -> lookup v_self e2 = Some (nxh (comm qs) rows ovf) ->
  lookup v_chan e2 = Some (PInt (Z.of_nat c)) ->
  nth_error rows c = Some rowc -> (k < List.length rowc)%nat ->
  forwb_wb program l3_x l3_it k e2 =
  PyLite.Ok (update v_self (nxh (comm qs) (list_set rows c (list_set rowc k q')) ovf) e2).
Proof.
  names. intros Hq Hs Hc Hr Hk.
  assert (Hcl : (c < List.length rows)%nat) by (apply nth_error_Some; congruence).
  unfold forwb_wb. rewrite Hq. cbv delta [l3_it]. cbn [path_set path_get idx_val as_int].
  rewrite Hs, Hc. unfold nxh at 1 2 3. cbn [field_name lookup String.eqb Ascii.eqb Bool.eqb andb as_int].
  rewrite map_length, norm_index_in by lia. rewrite Nat2Z.id.
  rewrite (map_nth_error row_pv _ _ Hr). unfold row_pv at 1. rewrite map_length, norm_index_in by lia.
  rewrite Nat2Z.id. cbn [update String.eqb Ascii.eqb Bool.eqb andb].
  rewrite (list_set_map subq_pv). fold (row_pv (list_set rowc k q')). rewrite (list_set_map row_pv).
  reflexivity.
Qed.

(** ** loop 3 (the loop with write-back): every queue of the row gets the group *)
Lemma put_all_cons g q r : put_all g (q :: r) = (fst q, snd q ++ [PList g])%list :: put_all g r.
Proof. reflexivity. Qed.

Lemma loop3 n qs ovf c acc : forall rest k rows rowc e,
  nth_error rows c = Some rowc -> skipn k rowc = rest -> (c < List.length acc)%nat ->
  genv3 e -> lookup v_self e = Some (nxh (comm qs) rows ovf) -> lookup v_chan e = Some (PInt (Z.of_nat c)) ->
  lookup v_samples e = Some (PList (map PList acc)) ->
  exists e', forwb_loop program (call_func program (S (S n))) (S (S n)) l3_x l3_it l3_b k (map subq_pv rest) e =
             PyLite.Ok (ONorm e') /\
    genv3 e' /\
    lookup v_self e' = Some (nxh (comm qs) (list_set rows c (firstn k rowc ++ put_all (nth c acc []) rest)%list) ovf) /\
    lookup v_samples e' = Some (PList (map PList acc)).
Proof.
  names.
  induction rest as [|q rest IH]; intros k rows rowc e Hr Hsk Hc Hg Hs Hch Hsm.
  - exists e. rewrite forwb_loop_nil. split; [reflexivity|]. split; [exact Hg|]. split; [|exact Hsm].
    cbn [put_all map]. rewrite app_nil_r, (skipn_nil_firstn _ _ Hsk), (list_set_same _ _ _ Hr). exact Hs.
  - destruct (skipn_cons_inv _ _ _ _ Hsk) as (Hk & Hq & Hsk'). genv3_split.
    assert (Hc2 : 0 <= Z.of_nat c < Z.of_nat (List.length acc)) by lia.
    pose proof (py_index_map PList acc (Z.of_nat c) [] Hc2) as EI. rewrite Nat2Z.id in EI.
    cbn [map]. rewrite forwb_loop_cons.
    eassert (HX : exec_block program (call_func program (S (S n))) (S (S n)) (update l3_x (subq_pv q) e) l3_b = _).
    { cbv delta [l3_x l3_b]. dsteps. reflexivity. }
    names. rewrite HX. clear HX. cbv iota.
    erewrite wb_subq; [| names; lk | names; lk | names; lk | exact Hr | exact Hk ].
    names.
    cbn [bind].
    match goal with
    | |- context [forwb_loop _ _ _ _ _ _ _ _ ?e2] =>
        destruct (IH (S k) (list_set rows c (list_set rowc k (fst q, (snd q ++ [PList (nth c acc [])])%list)))
                    (list_set rowc k (fst q, (snd q ++ [PList (nth c acc [])])%list)) e2)
          as (e' & HL & Hg' & Hs' & Hsm');
          [ apply nth_error_list_set; apply nth_error_Some; congruence
          | rewrite skipn_S_list_set; exact Hsk' | exact Hc | genv3_solve | lk | lk | lk | ]
    end.
    exists e'. split; [exact HL|]. split; [exact Hg'|]. split; [|exact Hsm'].
    rewrite Hs'. rewrite list_set_twice, firstn_S_list_set by exact Hk.
    rewrite put_all_cons, <- app_assoc. reflexivity.
Qed.
(** ** loop 2: the channels in order *)
Fixpoint deliver_rows (acc : list (list pv)) (c : nat) (rows : list (list subq)) : list (list subq) :=
  match rows with
  | [] => []
  | row :: r => deliver_row (nth c acc []) row :: deliver_rows acc (S c) r
  end.

Lemma firstn_S_nth_error {A} (l : list A) k x : nth_error l k = Some x -> firstn (S k) l = (firstn k l ++ [x])%list.
Proof.
  revert k. induction l as [|a l IH]; intros [|k] H; cbn in *; try discriminate.
  - inversion H. reflexivity.
  - rewrite (IH k H). reflexivity.
Qed.

Lemma firstn_S_list_set' {A} (l : list A) k x :
  (k < List.length l)%nat -> firstn (S k) (list_set l k x) = (firstn k l ++ [x])%list.
Proof. apply firstn_S_list_set. Qed.

Lemma loop2 n qs ovf acc : forall m c rows e,
  (c + m = List.length cfgs)%nat -> List.length rows = List.length cfgs -> List.length acc = List.length cfgs ->
  genv3 e -> lookup v_self e = Some (nxh (comm qs) rows ovf) -> lookup v_samples e = Some (PList (map PList acc)) ->
  exists e', for_loop program (call_func program (S (S n))) (S (S n)) l2_t l2_b
               (map (fun k => PInt (0 + Z.of_nat k)) (seq c m)) e = PyLite.Ok (ONorm e') /\
    lookup v_self e' = Some (nxh (comm qs) (firstn c rows ++ deliver_rows acc c (skipn c rows))%list ovf).
Proof.
  names.
  induction m as [|m IH]; intros c rows e Hcm Hrows Hacc Hg Hs Hsm.
  - exists e. cbn [seq map]. rewrite for_loop_nil. split; [reflexivity|].
    rewrite skipn_all2 by lia. cbn [deliver_rows]. rewrite app_nil_r, firstn_all2 by lia. exact Hs.
  - genv3_split.
    assert (Hc : (c < List.length rows)%nat) by lia.
    destruct (nth_error rows c) as [rowc|] eqn:Hr; [|apply nth_error_None in Hr; lia].
    assert (Hc2 : 0 <= Z.of_nat c < Z.of_nat (List.length acc)) by lia.
    pose proof (py_index_map PList acc (Z.of_nat c) [] Hc2) as EI. rewrite Nat2Z.id in EI.
    assert (Hc3 : 0 <= Z.of_nat c < Z.of_nat (List.length rows)) by lia.
    pose proof (py_index_map row_pv rows (Z.of_nat c) [] Hc3) as EI2. rewrite Nat2Z.id in EI2.
    rewrite (nth_error_nth _ _ [] Hr) in EI2.
    assert (Hsk : skipn c rows = rowc :: skipn (S c) rows).
    { clear -Hr. revert c Hr. induction rows as [|a l IHl]; intros [|c] Hr; cbn in *; try discriminate.
      - inversion Hr. reflexivity.
      - apply IHl. exact Hr. }
    cbn [seq map]. rewrite Z.add_0_l.
    destruct (nth c acc []) as [|x g] eqn:Eg.
    + (* nothing for this channel *)
      eassert (HX : for_loop program (call_func program (S (S n))) (S (S n)) l2_t l2_b
                      (PInt (Z.of_nat c) :: map (fun k => PInt (0 + Z.of_nat k)) (seq (S c) m)) e = _).
      { rewrite for_loop_cons. cbv delta [l2_t l2_b]. dsteps. reflexivity. }
      rewrite HX. clear HX.
      match goal with
      | |- context [for_loop _ _ _ _ _ _ ?e2] =>
          destruct (IH (S c) rows e2) as (e' & HL & Hs'); [lia | exact Hrows | exact Hacc | genv3_solve | lk | lk |]
      end.
      exists e'. split; [exact HL|]. rewrite Hs'. rewrite Hsk. cbn [deliver_rows]. rewrite Eg. cbn [deliver_row].
      rewrite (firstn_S_nth_error _ _ _ Hr) at 1. rewrite <- app_assoc. reflexivity.
    + (* a group: every queue of the row gets it *)
      assert (Ez : (0 <? zlen (x :: g)) = true) by (unfold zlen; cbn [List.length]; lia).
      destruct (loop3 n qs ovf c acc rowc 0%nat rows rowc (update v_chan (PInt (Z.of_nat c)) e))
        as (e3 & HL3 & Hg3 & Hs3 & Hsm3); names; [exact Hr | reflexivity | lia | genv3_solve | lk | lk | lk |].
      rewrite Eg in Hs3. cbn [firstn app] in Hs3.
      eassert (HX : for_loop program (call_func program (S (S n))) (S (S n)) l2_t l2_b
                      (PInt (Z.of_nat c) :: map (fun k => PInt (0 + Z.of_nat k)) (seq (S c) m)) e = _).
      { rewrite for_loop_cons. cbv delta [l2_t l2_b]. dsteps.
        match goal with
        | |- context [forwb_loop ?a ?b ?c0 ?d ?e0 ?f ?g0 ?h ?i] =>
            replace (forwb_loop a b c0 d e0 f g0 h i) with (PyLite.Ok (ONorm e3)) by (symmetry; exact HL3)
        end.
        dsteps. reflexivity. }
      rewrite HX. clear HX.
      destruct (IH (S c) (list_set rows c (put_all (x :: g) rowc)) e3) as (e' & HL & Hs');
        [lia | rewrite list_set_length; exact Hrows | exact Hacc | exact Hg3 | exact Hs3 | exact Hsm3 |].
      exists e'. split; [exact HL|]. rewrite Hs'.
      rewrite firstn_S_list_set by exact Hc. rewrite skipn_S_list_set, Hsk. cbn [deliver_rows]. rewrite Eg.
      cbn [deliver_row]. rewrite <- app_assoc. reflexivity.
Qed.
(** ** the whole method, for a frame the decoder accepts *)
Definition acc_of (ss : list Stream.sample) : list (list pv) :=
  fold_left step1 ss (repeat [] (List.length cfgs)).

Lemma fold_step1_length ss : forall acc, List.length (fold_left step1 ss acc) = List.length acc.
Proof. induction ss as [|s ss IH]; intros acc; cbn [fold_left]; [reflexivity|]. rewrite IH. apply step1_length. Qed.

Ltac thread_tac ss n r subs fl Hr Hsubs Hrange :=
  dsteps; rewrite comp_empty_lists, empty_lists_repeat, Nat2Z.id; dsteps;
  match goal with
  | |- context [for_loop ?a ?b ?c ?d ?e0 (map sample_pv ss) ?g] =>
      match g with
      | context [("_ovf_cntr", PInt ?ov)] =>
          let e1 := fresh "e1" in let HL1 := fresh "HL1" in let Hg1 := fresh "Hg1" in let Hs1 := fresh "Hs1" in
          let Hsm1 := fresh "Hsm1" in let Hsd1 := fresh "Hsd1" in let Hcm1 := fresh "Hcm1" in
          destruct (loop1 (S (S (S n))) r subs ov (stream_obj fl (map sample_pv ss)) ss
                      (repeat [] (List.length cfgs)) g) as (e1 & HL1 & Hg1 & Hs1 & Hsm1 & Hsd1 & Hcm1); names;
          [ exact Hr | apply repeat_length | repeat split; reflexivity | reflexivity | reflexivity | reflexivity
          | reflexivity | ];
          replace (for_loop a b c d e0 (map sample_pv ss) g) with (PyLite.Ok (ONorm e1)) by (symmetry; exact HL1);
          genv3_split; dsteps; rewrite Hrange;
          match goal with
          | |- context [for_loop ?a2 ?b2 ?c2 ?d2 ?e02 ?l2 ?g2] =>
              let e2 := fresh "e2" in let HL2 := fresh "HL2" in let Hs2 := fresh "Hs2" in
              destruct (loop2 (S (S (S n))) r ov (acc_of ss) (List.length cfgs) 0%nat subs g2) as (e2 & HL2 & Hs2); names;
              [ reflexivity | exact Hsubs | unfold acc_of; rewrite fold_step1_length; apply repeat_length
              | repeat split; assumption | exact Hs1 | exact Hsm1 | ];
              replace (for_loop a2 b2 c2 d2 e02 l2 g2) with (PyLite.Ok (ONorm e2)) by (symmetry; exact HL2);
              dsteps; try rewrite Hs2; cbn [firstn skipn app]; reflexivity
          end
      end
  end.

Lemma stream_thread_frame_func n data r subs ovf fl ss :
  Forall cfg_ok cfgs -> List.length subs = List.length cfgs ->
  decode_result cfgs data (S (S (S n))) = PyLite.Ok (stream_obj fl (map sample_pv ss)) ->
  Forall (fun s => 0 <= Stream.s_chan s < cm) ss ->
  call_func program (S (S (S (S (S (S n)))))) NxscopeHandler__stream_thread
    [nxh (comm (SFrame 1 data :: r)) subs ovf] [] =
  PyLite.Ok (PNone, Some (nxh (comm r) (deliver_rows (acc_of ss) 0 subs)
                               (if Z.land fl 1 =? 0 then ovf else ovf + 1))).
Proof.
  intros F Hsubs HD Hr.
  pose proof (stream_data_func (S n) (ddata_pv cm dd_rest) cfgs chans (SFrame 1 data :: r) F) as HSD.
  unfold sd_out in HSD. rewrite id_stream_1 in HSD. cbn [Z.eqb Pos.eqb] in HSD. rewrite HD in HSD.
  cbn [attach bind] in HSD.
  assert (Hrange : range_list 0 cm = map (fun k => PInt (0 + Z.of_nat k)) (seq 0 (List.length cfgs))).
  { unfold range_list, cm. rewrite Z.sub_0_r, Nat2Z.id. reflexivity. }
  pystart.
  destruct (Z.land fl 1 =? 0) eqn:Eov.
  - thread_tac ss n r subs fl Hr Hsubs Hrange.
  - thread_tac ss n r subs fl Hr Hsubs Hrange.
Qed.
(** ** the per-channel lists are the groups of the delivery function *)
Lemma nth_step1 acc s c :
  0 <= Stream.s_chan s -> (c < List.length acc)%nat -> (Z.to_nat (Stream.s_chan s) < List.length acc)%nat ->
  nth c (step1 acc s) [] =
  (nth c acc [] ++ (if nth c en false && (Stream.s_chan s =? Z.of_nat c) then [item_pv s] else []))%list.
Proof.
  intros H0 Hc Hk. unfold step1.
  destruct (Stream.s_chan s =? Z.of_nat c) eqn:E.
  - assert (Ek : Z.to_nat (Stream.s_chan s) = c) by lia. rewrite Ek.
    destruct (nth c en false); cbn [andb]; [|rewrite app_nil_r; reflexivity].
    rewrite nth_list_set, Nat.eqb_refl. replace (c <? List.length acc)%nat with true by (symmetry; apply Nat.ltb_lt; exact Hc).
    reflexivity.
  - rewrite andb_false_r, app_nil_r.
    destruct (nth (Z.to_nat (Stream.s_chan s)) en false); [|reflexivity].
    rewrite nth_list_set. replace (Nat.eqb c (Z.to_nat (Stream.s_chan s))) with false by (symmetry; apply Nat.eqb_neq; lia).
    reflexivity.
Qed.

Lemma nth_fold_step1 c : forall ss acc,
  Forall (fun s => 0 <= Stream.s_chan s < Z.of_nat (List.length acc)) ss -> (c < List.length acc)%nat ->
  nth c (fold_left step1 ss acc) [] = (nth c acc [] ++ group en ss c)%list.
Proof.
  induction ss as [|s ss IH]; intros acc Hr Hc; cbn [fold_left].
  - unfold group. cbn [filter map]. destruct (nth c en false); rewrite app_nil_r; reflexivity.
  - inversion Hr as [|? ? Hs Hr']; subst.
    rewrite IH; [| rewrite step1_length; exact Hr' | rewrite step1_length; exact Hc ].
    rewrite nth_step1 by lia. rewrite <- app_assoc. f_equal.
    unfold group. cbn [filter]. destruct (nth c en false); cbn [andb]; [|reflexivity].
    destruct (Stream.s_chan s =? Z.of_nat c); reflexivity.
Qed.

Lemma nth_acc_of ss c :
  Forall (fun s => 0 <= Stream.s_chan s < cm) ss -> (c < List.length cfgs)%nat ->
  nth c (acc_of ss) [] = group en ss c.
Proof.
  intros Hr Hc. unfold acc_of. rewrite nth_fold_step1; [| rewrite repeat_length; exact Hr | rewrite repeat_length; exact Hc ].
  rewrite nth_repeat. reflexivity.
Qed.

Lemma deliver_rows_eq ss : Forall (fun s => 0 <= Stream.s_chan s < cm) ss ->
  forall rows c, (c + List.length rows <= List.length cfgs)%nat ->
  deliver_rows (acc_of ss) c rows = deliver_from en ss c rows.
Proof.
  intros Hr. induction rows as [|row rows IH]; intros c Hc; cbn [deliver_rows deliver_from]; [reflexivity|].
  cbn [List.length] in Hc. rewrite nth_acc_of by (try exact Hr; lia). rewrite IH by lia. reflexivity.
Qed.

(** ** [_stream_thread] at the [call_func] level, in terms of the delivery function *)
Lemma stream_thread_deliver_func n data r subs ovf fl ss :
  Forall cfg_ok cfgs -> List.length subs = List.length cfgs ->
  decode_result cfgs data (S (S (S n))) = PyLite.Ok (stream_obj fl (map sample_pv ss)) ->
  Forall (fun s => 0 <= Stream.s_chan s < cm) ss ->
  call_func program (S (S (S (S (S (S n)))))) NxscopeHandler__stream_thread
    [nxh (comm (SFrame 1 data :: r)) subs ovf] [] =
  PyLite.Ok (PNone, Some (nxh (comm r) (deliver en ss subs) (if Z.land fl 1 =? 0 then ovf else ovf + 1))).
Proof.
  intros F Hsubs HD Hr. rewrite (stream_thread_frame_func n data r subs ovf fl ss F Hsubs HD Hr).
  unfold deliver. rewrite deliver_rows_eq by (try exact Hr; lia). reflexivity.
Qed.

(** nothing to deliver: a time-out (or an empty script), or a frame with an empty payload *)
Lemma stream_thread_idle_func n qs subs ovf :
  Forall cfg_ok cfgs -> s_head qs = PNone ->
  call_func program (S (S (S (S (S (S n)))))) NxscopeHandler__stream_thread [nxh (comm qs) subs ovf] [] =
  PyLite.Ok (PNone, Some (nxh (comm (tl qs)) subs ovf)).
Proof.
  intros F Hh.
  pose proof (stream_data_func (S n) (ddata_pv cm dd_rest) cfgs chans qs F) as HSD.
  unfold sd_out in HSD. destruct qs as [|[|fid data] r]; try discriminate; cbn [tl] in *.
  all: pystart; dsteps; rewrite comp_empty_lists; dsteps; reflexivity.
Qed.

Lemma stream_thread_empty_func n r subs ovf :
  Forall cfg_ok cfgs ->
  call_func program (S (S (S (S (S (S n)))))) NxscopeHandler__stream_thread
    [nxh (comm (SFrame 1 [] :: r)) subs ovf] [] =
  PyLite.Ok (PNone, Some (nxh (comm r) subs ovf)).
Proof.
  intros F.
  pose proof (stream_data_func (S n) (ddata_pv cm dd_rest) cfgs chans (SFrame 1 [] :: r) F) as HSD.
  unfold sd_out in HSD. rewrite id_stream_1 in HSD. cbn [Z.eqb Pos.eqb] in HSD.
  change (decode_result cfgs [] (S (S (S n)))) with (@PyLite.Ok pv PNone) in HSD. cbn [attach bind] in HSD.
  pystart; dsteps; rewrite comp_empty_lists; dsteps; reflexivity.
Qed.
End Thread.

(** * The samples the model decoder produces carry the channel numbers of the description *)
Lemma decode_one_chan lay user rest s r' :
  Stream.decode_one lay user rest = Frame.Ok (s, r') ->
  exists k ch, Stream.nth_chan lay k = Some ch /\ Stream.s_chan s = Stream.l_chan ch.
Proof.
  unfold Stream.decode_one. destruct rest as [|chb r0]; [discriminate|].
  destruct (Stream.nth_chan lay (N.to_nat chb)) as [ch|] eqn:E; [|discriminate].
  intros H. exists (N.to_nat chb), ch. split; [exact E|].
  repeat match type of H with
         | Request.bind ?x _ = _ => destruct x eqn:?; cbn [Request.bind] in H; try discriminate
         | (let '(_, _) := ?x in _) = _ => destruct x
         | match ?x with _ => _ end = _ => destruct x eqn:?; try discriminate
         end.
  all: inversion H; reflexivity.
Qed.

Lemma decode_samples_chan lay user : forall f rest ss,
  Stream.decode_samples f lay user rest = Frame.Ok ss ->
  Forall (fun s => exists k ch, Stream.nth_chan lay k = Some ch /\ Stream.s_chan s = Stream.l_chan ch) ss.
Proof.
  induction f as [|f IH]; intros rest ss H; destruct rest as [|b rest]; cbn [Stream.decode_samples] in H;
    try (inversion H; subst; constructor); try discriminate.
  destruct (Stream.decode_one lay user (b :: rest)) as [[s r]| |] eqn:E1; cbn [Request.bind] in H; try discriminate.
  destruct (Stream.decode_samples f lay user r) as [t| |] eqn:E2; cbn [Request.bind] in H; try discriminate.
  inversion H; subst. constructor; [eapply decode_one_chan; exact E1 | eapply IH; exact E2].
Qed.

(** the description numbers its channels by their position (what [_devinfo_get] builds: channel [i]
    is decoded with [chan = i]) *)
Definition indexed (cfgs : list chan_cfg) : Prop :=
  forall k cc, nth_error cfgs k = Some cc -> cc_chan cc = Z.of_nat k.

Lemma stream_decode_in_range cfgs data fl ss :
  indexed cfgs -> Stream.stream_decode (lay_of cfgs) [] data = Frame.Ok (Some (fl, ss)) ->
  Forall (fun s => 0 <= Stream.s_chan s < Z.of_nat (List.length cfgs)) ss.
Proof.
  intros Hi H. unfold Stream.stream_decode in H. destruct data as [|flags rest]; [discriminate|].
  destruct (Stream.decode_samples _ _ _ rest) as [t| |] eqn:E; cbn [Request.bind] in H; try discriminate.
  inversion H; subst. apply decode_samples_chan in E.
  eapply Forall_impl; [|exact E]. intros s (k & ch & Hk & Hs). cbv beta.
  rewrite nth_chan_map in Hk. destruct (nth_error cfgs k) as [cc|] eqn:Ek; [|discriminate].
  inversion Hk; subst. rewrite Hs. cbn [chan_l_of Stream.l_chan]. rewrite (Hi k cc Ek).
  assert ((k < List.length cfgs)%nat) by (apply nth_error_Some; congruence). lia.
Qed.

(** * The theorems at the entry point: every fuel above a linear bound *)
Section Main.
Variables (dd_rest : list (string * pv)) (cfgs : list chan_cfg) (en : list bool)
          (en_new div_now div_new en_sync div_sync : pv).
Let cm : Z := Z.of_nat (List.length cfgs).
Let dv : pv := dev_obj (ddata_pv cm dd_rest) cfgs.
Let chans : pv := chans_pv en en_new div_now div_new en_sync div_sync.
Let comm (qs : list sitem) : pv := sch dv chans qs.
Hypothesis Hen : List.length en = List.length cfgs.
Hypothesis Hok : Forall cfg_ok cfgs.

(** what the interpreted decoder returns where the model decoder accepts the payload *)
Lemma decode_result_model n data fl ss :
  Stream.stream_decode (lay_of cfgs) [] data = Frame.Ok (Some (fl, ss)) -> existsb sample_lossy ss = false ->
  decode_result cfgs data (S (S (S (List.length data + n)))) = PyLite.Ok (stream_obj fl (map sample_pv ss)).
Proof.
  intros HM HL.
  pose proof (frame_stream_decode_ok (1 + n) PNone cfgs data fl ss Hok HM HL) as H.
  replace (3 + List.length data + (1 + n))%nat with (3 + (List.length data + (1 + n)))%nat in H by lia.
  rewrite frame_stream_decode_exact in H by exact Hok.
  replace (2 + (List.length data + (1 + n)))%nat with (S (S (S (List.length data + n)))) in H by lia.
  destruct (decode_result cfgs data (S (S (S (List.length data + n))))) as [v| | | |]; cbn [bind] in H; try discriminate.
  inversion H. reflexivity.
Qed.

(** ONE CALL, a frame the decoder accepts: the delivery function *)
Theorem stream_thread_frame n data r subs ovf fl ss :
  indexed cfgs -> List.length subs = List.length cfgs ->
  Stream.stream_decode (lay_of cfgs) [] data = Frame.Ok (Some (fl, ss)) -> existsb sample_lossy ss = false ->
  call_method program (6 + List.length data + n) (nxh (comm (SFrame 1 data :: r)) subs ovf) "_stream_thread" [] =
  PyLite.Ok (PNone, nxh (comm r) (deliver en ss subs) (if Z.land fl 1 =? 0 then ovf else ovf + 1)).
Proof.
  intros Hi Hsubs HM HL.
  pose proof (stream_thread_deliver_func dd_rest cfgs en en_new div_now div_new en_sync div_sync Hen
                (List.length data + n) data r subs ovf fl ss Hok Hsubs (decode_result_model n data fl ss HM HL)
                (stream_decode_in_range cfgs data fl ss Hi HM)) as HX.
  replace (6 + List.length data + n)%nat with (S (S (S (S (S (S (List.length data + n))))))) by lia.
  pystart. pyrun.
Qed.

(** ONE CALL, nothing to deliver: a time-out / an empty script, or a stream frame without payload *)
Theorem stream_thread_idle n qs subs ovf :
  s_head qs = PNone ->
  call_method program (6 + n) (nxh (comm qs) subs ovf) "_stream_thread" [] =
  PyLite.Ok (PNone, nxh (comm (tl qs)) subs ovf).
Proof.
  intros Hh.
  pose proof (stream_thread_idle_func dd_rest cfgs en en_new div_now div_new en_sync div_sync n qs subs ovf Hok Hh) as HX.
  pystart. pyrun.
Qed.

Theorem stream_thread_empty_payload n r subs ovf :
  call_method program (6 + n) (nxh (comm (SFrame 1 [] :: r)) subs ovf) "_stream_thread" [] =
  PyLite.Ok (PNone, nxh (comm r) subs ovf).
Proof.
  pose proof (stream_thread_empty_func dd_rest cfgs en en_new div_now div_new en_sync div_sync n r subs ovf Hok) as HX.
  pystart. pyrun.
Qed.
End Main.

(** * The calls that raise: nothing is delivered, the exception leaves the method *)
Section Raises.
Variables (dd_rest : list (string * pv)) (cfgs : list chan_cfg) (en : list bool)
          (en_new div_now div_new en_sync div_sync : pv).
Let cm : Z := Z.of_nat (List.length cfgs).
Let dv : pv := dev_obj (ddata_pv cm dd_rest) cfgs.
Let chans : pv := chans_pv en en_new div_now div_new en_sync div_sync.
Let comm (qs : list sitem) : pv := sch dv chans qs.
Hypothesis Hok : Forall cfg_ok cfgs.

#[local] Hint Resolve comm_dev_func nx_dev_func dev_data_func : pyspec.

(** a frame that is not a stream frame on the stream queue *)
Theorem stream_thread_other_id n fid data r subs ovf :
  fid <> 1 ->
  call_method program (6 + n) (nxh (comm (SFrame fid data :: r)) subs ovf) "_stream_thread" [] =
  Exc "AssertionError".
Proof.
  intros Hf.
  pose proof (stream_data_func (S n) (ddata_pv cm dd_rest) cfgs chans (SFrame fid data :: r) Hok) as HSD.
  unfold sd_out in HSD. rewrite id_stream_1 in HSD. replace (fid =? 1) with false in HSD by lia.
  pystart. dsteps. rewrite comp_empty_lists. dsteps. reflexivity.
Qed.

(** the decoder raises (truncated sample, unknown channel, ...) *)
Theorem stream_thread_decode_raises n data r subs ovf w :
  decode_result cfgs data (S (S (S n))) = Exc w ->
  call_method program (6 + n) (nxh (comm (SFrame 1 data :: r)) subs ovf) "_stream_thread" [] = Exc w.
Proof.
  intros HD.
  pose proof (stream_data_func (S n) (ddata_pv cm dd_rest) cfgs chans (SFrame 1 data :: r) Hok) as HSD.
  unfold sd_out in HSD. rewrite id_stream_1 in HSD. cbn [Z.eqb Pos.eqb] in HSD. rewrite HD in HSD.
  cbn [attach bind] in HSD.
  pystart. dsteps. rewrite comp_empty_lists. dsteps. reflexivity.
Qed.
End Raises.

(** no device description: the first assertion fails *)
Theorem stream_thread_no_dev n chans qs subs ovf :
  call_method program (3 + n) (nxh (sch PNone chans qs) subs ovf) "_stream_thread" [] = Exc "AssertionError".
Proof. pystart. pyrun. Qed.

(** * What each queue sees (the property text, per queue) *)
Section PerQueue.
Variables (en : list bool) (ss : list Stream.sample).

Lemma deliver_from_length : forall subs c, List.length (deliver_from en ss c subs) = List.length subs.
Proof. induction subs as [|row r IH]; intros c; cbn [deliver_from List.length]; [reflexivity|]. rewrite IH. reflexivity. Qed.

Lemma deliver_from_nth : forall subs c0 c,
  nth c (deliver_from en ss c0 subs) [] = deliver_row (group en ss (c0 + c)) (nth c subs []).
Proof.
  induction subs as [|row r IH]; intros c0 c; cbn [deliver_from].
  - destruct c; cbn [nth]; unfold deliver_row, put_all; destruct (group en ss _); reflexivity.
  - destruct c as [|c]; cbn [nth]; [rewrite Nat.add_0_r; reflexivity|].
    rewrite IH. replace (S c0 + c)%nat with (c0 + S c)%nat by lia. reflexivity.
Qed.

(** the queues of channel [c] after the call: each one got exactly one item, the group of [c], iff the
    group is not empty; serial numbers, order and number of the queues are unchanged *)
Theorem deliver_row_spec subs c :
  nth c (deliver en ss subs) [] =
  match group en ss c with
  | [] => nth c subs []
  | g => map (fun q => (fst q, snd q ++ [PList g])%list) (nth c subs [])
  end.
Proof. unfold deliver. rewrite deliver_from_nth. cbn [Nat.add]. unfold deliver_row, put_all. destruct (group en ss c); reflexivity. Qed.

(** a channel that is not enabled in the client's view, or has no sample in the frame: untouched *)
Corollary deliver_disabled subs c : nth c en false = false -> nth c (deliver en ss subs) [] = nth c subs [].
Proof. intros H. rewrite deliver_row_spec. unfold group. rewrite H. reflexivity. Qed.

Corollary deliver_no_samples subs c :
  (forall s, In s ss -> Stream.s_chan s <> Z.of_nat c) -> nth c (deliver en ss subs) [] = nth c subs [].
Proof.
  intros H. rewrite deliver_row_spec. unfold group.
  assert (E : filter (fun s => Stream.s_chan s =? Z.of_nat c) ss = []).
  { clear -H. induction ss as [|s t IH]; [reflexivity|]. cbn [filter].
    replace (Stream.s_chan s =? Z.of_nat c) with false by (symmetry; apply Z.eqb_neq; apply H; left; reflexivity).
    apply IH. intros s' Hs'. apply H. right. exact Hs'. }
  rewrite E. destruct (nth c en false); reflexivity.
Qed.

(** a frame without samples (only the flags byte, e.g. only the overflow flag) disturbs no queue *)
Corollary deliver_nil_frame subs : ss = [] -> deliver en ss subs = subs.
Proof.
  intros ->. unfold deliver. generalize 0%nat. induction subs as [|row r IH]; intros c; cbn [deliver_from]; [reflexivity|].
  rewrite IH. unfold group. cbn [filter map]. destruct (nth c en false); reflexivity.
Qed.
End PerQueue.

(** the hooks are global Ltac state: restore the defaults for whoever loads this file *)
Ltac py_stuck_hook h ::= fail.
Ltac py_unfold_hook ::= idtac.

(** * Audit *)
Print Assumptions stream_thread_frame.
Print Assumptions stream_thread_idle.
Print Assumptions stream_thread_empty_payload.
Print Assumptions stream_thread_other_id.
Print Assumptions stream_thread_decode_raises.
Print Assumptions stream_thread_no_dev.
Print Assumptions deliver_row_spec.
Print Assumptions stream_decode_in_range.

(** The interpreted source of the device-side stream encoder
    (nxslib.proto.parserecv.ParseRecv._stream_bytes_get, _stream_data_encode,
    frame_stream_encode, and proto.iparse.msfmt_get / dsfmt_get; ASTs of
    gen/Src_parserecv.v, gen/Src_iparse.v run by the PyLite interpreter)
    computes the hand model of model/Stream.v (stream_bytes_get,
    encode_samples, stream_data_encode, frame_stream_encode, msfmt_get,
    dsfmt_get).

    SCOPE.  Receiver with [_user_types = None] (model: user table []).  Sample
    values: integers [EVInt z |-> PInt z]; fixed-point values [EVFix raw |->]
    the float raw / 2^k (PDy of [dyad_norm raw k]) in a row whose scale is the
    float 2^k, 1 <= k <= 64, |raw| <= 2^53; text [EVText cps |-> PStr] of the
    UTF-8 bytes, valid code points; [EVBytes b |-> PBytes b].  IEEE floats
    given as bit patterns (EVF32/EVF64) are outside this embedding (PyLite packs
    a finite float, [PDy |-> VDy], but relating the model's bit pattern to the
    interpreter's dyadic needs decode-then-encode = identity, not proved here);
    an integer on a FLOAT/DOUBLE row is inside (struct converts it).  An integer in a
    row with a float scale 2^k, k >= 1, needs |z| <= 2^53 (the source converts
    it to a float before multiplying).  [e_vdim], [e_mlen] >= 0 (findings 1, 2
    at the end of the file: the model and the source differ below 0).

    Sections: per-sample lemma ([bytes_get_func], any row in [row_ok]);
    msfmt_get/dsfmt_get ([msfmt_get_func], [dsfmt_get_func]); the loop
    ([loop_spec], inside Section [Enc], whose hypotheses [Hms]/[Hds] are the
    statements of the two look-up lemmas, so that they can be discharged by
    other proofs of the same statements as well); closed theorems; findings. *)
From Coq Require Import String Ascii List ZArith NArith Bool Lia ZifyBool.
From NX Require Import Bytes PyStruct Crc Utf8 Rn53 StreamTypes PyLite PyLite_tactics.
From NX Require Import Src_iparse Src_serialframe Src_parserecv Src_all.
From NX Require Import Src_stream_enc_lib.
From NX Require Frame Request Stream Gen_frame Gen_types Src_serialframe_proofs.
Import ListNotations.
Import Stream(evalue, EVInt, EVF32, EVF64, EVFix, EVText, EVBytes, esample, mkESample,
              e_chan, e_type, e_vdim, e_mlen, e_data, e_meta).
Open Scope string_scope.
Open Scope Z_scope.
Set Warnings "-variable-collision".

(** * The embedding of the model's values *)
Definition sf : pv := Src_serialframe_proofs.sf.
Definition pr (cbv : pv) : pv :=
  PObj "ParseRecv" [("_recv_cb", cbv); ("_frame", sf); ("_user_types", PNone)].

(** a row of the type table, as the DsfmtItem the source builds *)
Definition kind_obj (k : Z) : pv :=
  match enum_by_value Gen_types.data_kinds k with
  | Some n => PEnum "EParseDataType" n k true
  | None => PNone
  end.
Definition scale_obj (s : scale) : pv :=
  match s with
  | SNone => PNone
  | SInt z => PInt z
  | SFloat z => let '(n, e) := dyad_norm z 0 in PDy n e
  end.
Definition row_obj (rw : row) : pv :=
  PObj "DsfmtItem" [("slen", PInt (r_slen rw)); ("dsfmt", PStr (r_fmt rw)); ("scale", scale_obj (r_scale rw));
                    ("dtype", kind_obj (r_kind rw)); ("cdecode", PNone); ("user", PBool false)].

(** a sample value: integers as ints, a fixed-point raw word as the float
    raw / scale (the row's scale being 2^k), text as a str *)
Definition ev_pv (sc : scale) (v : evalue) : pv :=
  match v with
  | EVInt z => PInt z
  | EVFix raw =>
      match sc with
      | SFloat s => match pow2_log s with
                    | Some k => let '(n, e) := dyad_norm raw k in PDy n e
                    | None => PNone
                    end
      | _ => PNone
      end
  | EVText cps => PStr (bytes_str (utf8_enc cps))
  | EVBytes b => PBytes b
  | EVF32 _ | EVF64 _ => PNone          (* bit-pattern floats: outside this embedding *)
  end.

Definition samp_obj (sc : scale) (s : esample) : pv :=
  PObj "DParseStreamData"
       [("chan", PInt (e_chan s)); ("dtype", PInt (e_type s)); ("vdim", PInt (e_vdim s)); ("mlen", PInt (e_mlen s));
        ("data", PTuple (map (ev_pv sc) (e_data s))); ("meta", PTuple (map PInt (e_meta s)))].

(** * The domain *)
Definition scale_ok (sc : scale) : Prop :=
  match sc with
  | SNone | SInt _ => True
  | SFloat z => exists k, 0 <= k <= 64 /\ z = 2 ^ k
  end.
(** a text row's format is one struct code (so that "<B" + str(vdim) + code
    parses: see finding on the order of errors) *)
Definition one_code (f : string) : Prop :=
  exists a c, f = String a "" /\ code_of_ascii a = Some c /\ digit_of_ascii a = None /\ is_space a = false.
Definition row_ok (rw : row) : Prop :=
  (r_kind rw = 0 \/ r_kind rw = 1 \/ r_kind rw = 2 \/ r_kind rw = 3) /\ scale_ok (r_scale rw) /\
  (r_kind rw = 2 -> one_code (r_fmt rw)).

(** numerical rows: ints (|z| <= 2^53 when the row has a float scale other
    than 1: the source converts z to a float first), and fixed-point values
    raw / scale with |raw| <= 2^53 *)
Definition num_ok (sc : scale) (v : evalue) : Prop :=
  match v with
  | EVInt z => match sc with SFloat s => s = 1 \/ Z.abs z <= 2 ^ 53 | _ => True end
  | EVFix raw => match sc with SFloat s => s <> 1 /\ Z.abs raw <= 2 ^ 53 | _ => False end
  | _ => False
  end.
Definition is_int (v : evalue) : Prop := match v with EVInt _ => True | _ => False end.

Definition data_ok (rw : row) (d : list evalue) : Prop :=
  if r_kind rw =? 1 then Forall (num_ok (r_scale rw)) d
  else if r_kind rw =? 2 then
    match d with
    | [] => True
    | EVText cps :: _ => forallb valid_cp cps = true
    | _ => False
    end
  else if r_kind rw =? 3 then Forall is_int d
  else True.

Definition emb_bytes (self : pv) (r : Frame.res bytes) : PyLite.res (pv * option pv) :=
  match r with
  | Frame.Ok b => PyLite.Ok (PBytes b, Some self)
  | Frame.Raise w => ExcS w (self_st self)
  | Frame.Err _ => Unsupported ""
  end.

(** * Set-up of the executor *)
#[local] Hint Unfold
  Gen_types.enc_le_prefix Gen_types.enc_chan_code Gen_types.enc_unit_scale Gen_types.enc_flags_fmt
  Gen_types.data_kinds Stream.kind_of Stream.sfmt_parse Request.bind
  sf Src_serialframe_proofs.sf pr kind_obj scale_obj row_obj samp_obj emb_bytes : stream_model.
Ltac py_unfold_hook ::= autounfold with stream_model.

#[local] Arguments Stream.str_of_Z : simpl never.
#[local] Arguments dyad_norm : simpl never.
#[local] Arguments pow2_log : simpl never.
#[local] Arguments utf8_enc : simpl never.
#[local] Arguments bytes_str : simpl never.
#[local] Arguments str_bytes : simpl never.

Ltac py_stuck_hook h ::=
  lazymatch h with
  | native_safe ?f =>
      match goal with E : parse_fmt (String "<" _) = Some f |- _ => rewrite (parse_le_safe _ _ E) end
  end.

Lemma pow2_log_pow2 k : 0 <= k -> pow2_log (2 ^ k) = Some k.
Proof.
  intros Hk. unfold pow2_log. rewrite Z.log2_pow2 by exact Hk. rewrite Z.shiftl_1_l, Z.eqb_refl.
  assert (0 < 2 ^ k) by (apply Z.pow_pos_nonneg; lia).
  replace (0 <? 2 ^ k) with true by lia. reflexivity.
Qed.

(** what the source hands to struct.pack for a numerical row *)
Definition num_z (sc : option Z) (v : evalue) : Z :=
  match v with
  | EVInt z => match sc with Some s => z * s | None => z end
  | EVFix raw => raw
  | _ => 0
  end.

Definition model_sc (sc : scale) : option Z :=
  match sc with
  | SNone => None
  | SInt z | SFloat z => if (z =? 0) || (z =? 1) then None else Some z
  end.

Lemma model_sc_pow2 k : 1 <= k -> model_sc (SFloat (2 ^ k)) = Some (2 ^ k).
Proof.
  intros Hk. unfold model_sc.
  assert (2 ^ 1 <= 2 ^ k) by (apply Z.pow_le_mono_r; lia). change (2 ^ 1) with 2 in H.
  replace ((2 ^ k =? 0) || (2 ^ k =? 1)) with false by lia. reflexivity.
Qed.

Lemma mapM_num_value sc l :
  scale_ok sc -> Forall (num_ok sc) l ->
  Stream.mapM (Stream.num_value (model_sc sc)) l = Frame.Ok (map (fun v => VInt (num_z (model_sc sc) v)) l).
Proof.
  intros Hsc. induction 1 as [|v l Hv _ IH]; cbn [Stream.mapM map]; [reflexivity|].
  rewrite IH. destruct v as [z| | |raw| |]; cbn [num_ok] in Hv; try contradiction.
  - destruct (model_sc sc); reflexivity.
  - destruct sc as [| |s]; try contradiction. destruct Hv as [Hs _].
    destruct Hsc as (k & Hk & ->). rewrite model_sc_pow2; [reflexivity|].
    destruct (Z.eq_dec k 0) as [->|]; [contradiction Hs; reflexivity|lia].
Qed.

#[local] Arguments model_sc : simpl never.
#[local] Arguments num_z : simpl never.
#[local] Arguments dy_align : simpl never.

Lemma dy_align_scale k : 0 <= k -> dy_align 1 (- k) 1 0 = (2 ^ k, 1).
Proof.
  intros Hk. unfold dy_align. replace (Z.max (- k) 0) with 0 by lia.
  replace (0 - - k) with k by lia. rewrite Z.mul_1_l. reflexivity.
Qed.

Lemma dy_round_0 n : dy_round n 0 = n.
Proof. unfold dy_round. cbn. lia. Qed.

Lemma scale_cases sc : scale_ok sc ->
  (model_sc sc = None /\ (sc = SNone \/ sc = SInt 0 \/ sc = SInt 1 \/ sc = SFloat 1)) \/
  (exists z, sc = SInt z /\ z <> 0 /\ z <> 1 /\ model_sc sc = Some z) \/
  (exists k, 1 <= k <= 64 /\ sc = SFloat (2 ^ k) /\ model_sc sc = Some (2 ^ k)).
Proof.
  destruct sc as [|z|z]; cbn [scale_ok].
  - intros _. left. split; [reflexivity|auto].
  - intros _. destruct (Z.eq_dec z 0) as [->|N0]; [left; split; [reflexivity|auto]|].
    destruct (Z.eq_dec z 1) as [->|N1]; [left; split; [reflexivity|auto]|].
    right. left. exists z. repeat split; try assumption. unfold model_sc.
    replace ((z =? 0) || (z =? 1)) with false by lia. reflexivity.
  - intros (k & Hk & ->). destruct (Z.eq_dec k 0) as [->|N0].
    + left. split; [reflexivity|auto].
    + right. right. exists k. split; [lia|]. split; [reflexivity|]. apply model_sc_pow2. lia.
Qed.

Lemma to_sv_unscaled sc l :
  model_sc sc = None -> scale_ok sc -> Forall (num_ok sc) l ->
  map_res to_sv (map (ev_pv sc) l) = PyLite.Ok (map (fun v => VInt (num_z (model_sc sc) v)) l).
Proof.
  intros Em Hsc. induction 1 as [|v l Hv _ IH]; cbn [map map_res]; [reflexivity|].
  rewrite IH. destruct v as [z| | |raw| |]; cbn [num_ok] in Hv; try contradiction.
  - rewrite Em. reflexivity.
  - destruct sc as [| |z]; try contradiction. destruct Hv as [Hs _]. destruct Hsc as (k & Hk & ->).
    rewrite model_sc_pow2 in Em; [discriminate|]. destruct (Z.eq_dec k 0) as [->|]; [contradiction Hs; reflexivity|lia].
Qed.

Lemma to_sv_ints sc l :
  Forall is_int l -> map_res to_sv (map (ev_pv sc) l) = PyLite.Ok (map (fun v => VInt (num_z None v)) l).
Proof.
  induction 1 as [|v l Hv _ IH]; cbn [map map_res]; [reflexivity|].
  rewrite IH. destruct v; try contradiction. reflexivity.
Qed.

Lemma no_pdy_unscaled sc l :
  model_sc sc = None -> scale_ok sc -> Forall (num_ok sc) l -> existsb is_pdy (map (ev_pv sc) l) = false.
Proof.
  intros Em Hsc. induction 1 as [|v l Hv _ IH]; cbn [map existsb]; [reflexivity|].
  rewrite IH. destruct v as [z| | |raw| |]; cbn [num_ok] in Hv; try contradiction.
  - reflexivity.
  - destruct sc as [| |z]; try contradiction. destruct Hv as [Hs _]. destruct Hsc as (k & Hk & ->).
    rewrite model_sc_pow2 in Em; [discriminate|]. destruct (Z.eq_dec k 0) as [->|]; [contradiction Hs; reflexivity|lia].
Qed.

Lemma no_pdy_is_int sc l : Forall is_int l -> existsb is_pdy (map (ev_pv sc) l) = false.
Proof.
  induction 1 as [|v l Hv _ IH]; cbn [map existsb]; [reflexivity|].
  rewrite IH. destruct v; try contradiction. reflexivity.
Qed.

Lemma mapM_raw_ints l :
  Forall is_int l -> Stream.mapM Stream.raw_value l = Frame.Ok (map (fun v => VInt (num_z None v)) l).
Proof.
  induction 1 as [|v l Hv _ IH]; cbn [map Stream.mapM]; [reflexivity|].
  rewrite IH. destruct v; try contradiction. reflexivity.
Qed.

(** one element of [round(x * decode.scale) for x in sample.data] *)
Ltac num_finish :=
  unfold num_z;
  repeat match goal with
         | E : model_sc _ = _ |- _ => rewrite E
         | E : dy_round _ _ = _ |- _ => rewrite E
         end;
  rewrite ?dy_round_0; reflexivity.

Ltac num_elem y Hy :=
  destruct y; cbn [num_ok ev_pv] in Hy |- *; try contradiction;
  lazymatch goal with
  | |- context [pow2_log (2 ^ ?k)] =>
      rewrite (pow2_log_pow2 k) by lia;
      lazymatch goal with
      | |- context [dyad_norm ?raw k] =>
          let n := fresh "n" in let e := fresh "e" in let En := fresh "En" in
          let n' := fresh "n'" in let e' := fresh "e'" in let Eb := fresh "Eb" in let Er := fresh "Er" in
          destruct (round_scale_fix raw k) as (n & e & En & n' & e' & Eb & Er); [lia|lia|];
          rewrite En; pyrun; num_finish
      end
  | |- context [py_binop OMul (PInt ?z) (PDy 1 (- ?k))] =>
      let n' := fresh "n'" in let e' := fresh "e'" in let Eb := fresh "Eb" in let Er := fresh "Er" in
      destruct (round_scale_int z k) as (n' & e' & Eb & Er); [lia|lia|];
      pyrun; num_finish
  | _ => pyrun; num_finish
  end.

Ltac py_stuck_hook h ::=
  lazymatch h with
  | context [str_bytes (bytes_str (utf8_enc ?cps))] => rewrite (str_bytes_utf8 cps) by assumption
  | native_safe ?f =>
      match goal with E : parse_fmt (String "<" _) = Some f |- _ => rewrite (parse_le_safe _ _ E) end
  | norm_index (S ?a) 0 => rewrite (norm_index_S_0 a)
  | nth O (_ :: _) _ => cbn [nth]
  | @norm_index ?a ?b => is_nat_lit a; is_Z_lit b; pyfold2 norm_index a b
  | parse_fmt (String "<" (String "B" (string_of_Z ?z ++ String ?a ""))) =>
      match goal with
      | Hc : code_of_ascii a = Some ?c |- _ =>
          let f := fresh "f" in let E := fresh "E" in
          destruct (parse_chan_counted z a c) as [f E]; [assumption..|]; rewrite E
      end
  | dy_align 1 (- ?k) 1 0 => rewrite (dy_align_scale k) by lia
  | dy_align 1 0 1 0 => change (dy_align 1 0 1 0) with (1, 1)
  | map_res to_sv (map (ev_pv ?sc) ?l) =>
      first [ rewrite (to_sv_unscaled sc l) by assumption | rewrite (to_sv_ints sc l) by assumption ]
  | existsb is_pdy (map (ev_pv ?sc) ?l) =>
      first [ rewrite (no_pdy_unscaled sc l) by assumption | rewrite (no_pdy_is_int sc l) by assumption ]
  | existsb is_pdy (map (fun y => PInt _) ?l) => rewrite no_pdy_ints
  | existsb is_pdy (map PInt ?l) => rewrite no_pdy_PInt
  | Stream.mapM Stream.raw_value ?l => rewrite (mapM_raw_ints l) by assumption
  | map_res to_sv (map (fun y => PInt _) ?l) => rewrite map_res_to_sv_ints
  | map_res to_sv (map PInt ?l) => rewrite map_res_to_sv_PInt
  | ?f (map (ev_pv ?sc) ?l) =>
      pycomp_by (num_ok sc) (ev_pv sc) (fun v => PInt (num_z (model_sc sc) v)) ltac:(fun y Hy => num_elem y Hy)
  end.

Lemma bytes_get_func n cbv rw s :
  row_ok rw -> 0 <= e_vdim s -> data_ok rw (e_data s) ->
  call_func program (S n) ParseRecv__stream_bytes_get [pr cbv; row_obj rw; samp_obj (r_scale rw) s] [] =
  emb_bytes (pr cbv) (Stream.stream_bytes_get rw false s).
Proof.
  intros (Hk & Hsc & Hf) Hv Hd. destruct rw as [slen fmt sc kind]. destruct s as [chan ty vdim mlen data meta].
  cbn [r_kind r_scale r_fmt r_slen e_chan e_type e_vdim e_mlen e_data e_meta] in *.
  unfold Stream.stream_bytes_get. cbn [r_kind r_scale r_fmt r_slen e_chan e_type e_vdim e_mlen e_data e_meta].
  rewrite <- (string_of_Z_nonneg vdim) by exact Hv.
  change (match sc with SNone => None | SInt z0 | SFloat z0 =>
            if (z0 =? 0) || (z0 =? Gen_types.enc_unit_scale) then None else Some z0 end) with (model_sc sc).
  destruct Hk as [-> | [-> | [-> | ->]]]; unfold data_ok in Hd; cbn [r_kind r_scale Z.eqb Pos.eqb] in Hd.
  - pystart. pyrun.
  - rewrite (mapM_num_value sc data Hsc Hd).
    destruct (scale_cases sc Hsc) as [[Em Hc] | [(z & -> & N0 & N1 & Em) | (k & Hk & -> & Em)]].
    + pystart. unfold row_obj, scale_obj. cbn [r_scale].
      destruct Hc as [-> | [-> | [-> | ->]]]; try change (dyad_norm 1 0) with (1, 0); pyrun.
    + pystart. pyrun.
    + pystart. unfold row_obj, scale_obj. cbn [r_scale]. rewrite dyad_norm_pow2 by lia.
      assert (P2 : 2 <= 2 ^ k) by (change 2 with (2 ^ 1) at 1; apply Z.pow_le_mono_r; lia).
      pyrun.
  - destruct (Hf eq_refl) as (a & c & -> & Hc & Hdg & Hsp).
    destruct data as [|v rest]; [|destruct v; try contradiction]; pystart; pyrun.
  - pystart. pyrun.
Qed.

#[local] Hint Resolve bytes_get_func : pyspec.

(** * The rows of the type table are in the domain *)
#[local] Arguments Stream.dsfmt_get : simpl never.
#[local] Arguments Stream.msfmt_get : simpl never.
#[local] Arguments Stream.stream_bytes_get : simpl never.
#[local] Arguments Stream.encode_samples : simpl never.

Lemma zassoc_In {A} k (l : list (Z * A)) v : Stream.zassoc k l = Some v -> In (k, v) l.
Proof.
  induction l as [|[k' v'] r IH]; cbn [Stream.zassoc]; [discriminate|].
  destruct (k' =? k) eqn:E.
  - intros H. inversion H. subst. left. f_equal. lia.
  - intros H. right. apply IH, H.
Qed.

Lemma dsfmt_get_row t rw u : Stream.dsfmt_get t [] = Frame.Ok (rw, u) -> u = false /\ row_ok rw.
Proof.
  unfold Stream.dsfmt_get. destruct (Stream.zassoc t Gen_types.dsfmt_rows) as [r|] eqn:E; [|discriminate].
  intros H. inversion H. subst. split; [reflexivity|].
  apply zassoc_In in E. unfold Gen_types.dsfmt_rows in E. cbn [In] in E.
  repeat (destruct E as [E|E]; [inversion E; subst; clear E|]); [..|contradiction].
  all: (split; [cbn; tauto|]); (split; [cbn [r_scale scale_ok]|cbn [r_kind r_fmt]; intros; try discriminate]);
    try exact I.
  all: try (exists 0; split; [lia|reflexivity]).
  all: try (exists 8; split; [lia|reflexivity]).
  all: try (exists 16; split; [lia|reflexivity]).
  all: try (exists 32; split; [lia|reflexivity]).
  all: try (exists "s"%char, Cs; repeat split; reflexivity).
Qed.

(** * The loop of _stream_data_encode *)

(** the first [for] statement of a block: target, iterated expression, body *)
Fixpoint first_for (ss : stmts) : option (target * expr * stmts) :=
  match ss with
  | Snil => None
  | Scons (SFor t it b) _ => Some (t, it, b)
  | Scons _ r => first_for r
  end.
Definition loop_t : target :=
  match first_for (f_body ParseRecv__stream_data_encode) with Some (t, _, _) => t | None => TName "" end.
Definition loop_b : stmts :=
  match first_for (f_body ParseRecv__stream_data_encode) with Some (_, _, b) => b | None => Snil end.

(** the row a sample's type selects (the first row stands in for unknown types:
    the source raises KeyError before it looks at the values) *)
Definition row_of (t : Z) : row :=
  match Stream.dsfmt_get t [] with
  | Frame.Ok (rw, _) => rw
  | _ => mkRow 0 "" SNone 0
  end.
Definition samp_pv (s : esample) : pv := samp_obj (r_scale (row_of (e_type s))) s.

Definition skipped (s : esample) : bool := Stream.is_nil (e_data s) && Stream.is_nil (e_meta s).

Definition sample_ok (s : esample) : Prop :=
  skipped s = true \/
  match Stream.dsfmt_get (e_type s) [] with
  | Frame.Ok (rw, _) => 0 <= e_vdim s /\ 0 <= e_mlen s /\ data_ok rw (e_data s)
  | _ => True
  end.

(** loop state: the accumulated bytes, the counter, and the loop's own
    variables (absent before the first iteration / the first sample that is
    not skipped) *)
Definition lvars : Type := option (pv * option (pv * pv)).
Definition env_of (cbv dv : pv) (st : bytes * Z * lvars) : env :=
  let '(b, c, v) := st in
  ([("self", pr cbv); ("data", dv); ("flags", PInt 0); ("_bytes", PBytes b); ("cntr", PInt c)]
   ++ match v with
      | None => []
      | Some (sp, dm) =>
          ("sample", sp) :: match dm with None => [] | Some (d, m) => [("decode", d); ("msfmt", m)] end
      end)%list.

Definition step_vars (v : lvars) (s : esample) : lvars :=
  if skipped s then Some (samp_pv s, match v with Some (_, dm) => dm | None => None end)
  else Some (samp_pv s, Some (row_obj (row_of (e_type s)), PStr (Stream.msfmt_get (e_mlen s)))).

(** what one sample that is not skipped contributes (the model's step) *)
Definition meta_bytes (s : esample) : Frame.res bytes :=
  let msfmt := Stream.msfmt_get (e_mlen s) in
  if String.eqb msfmt "" then Frame.Ok []
  else Request.bind (Stream.sfmt_parse msfmt)
         (fun fm => match pack fm (map VInt (e_meta s)) with
                    | Some m => Frame.Ok m
                    | None => Frame.Raise "struct.error"
                    end).
Definition enc_one (rw : row) (s : esample) : Frame.res bytes :=
  Request.bind (Stream.stream_bytes_get rw false s)
    (fun b => Request.bind (meta_bytes s) (fun m => Frame.Ok (b ++ m)%list)).

Lemma encode_samples_cons s r :
  Stream.encode_samples [] (s :: r) =
  if skipped s then Stream.encode_samples [] r
  else Request.bind (Stream.dsfmt_get (e_type s) [])
         (fun du => Request.bind (enc_one (fst du) s)
            (fun bm => Request.bind (Stream.encode_samples [] r)
               (fun t => Frame.Ok ((bm ++ fst t)%list, 1 + snd t)))).
Proof.
  unfold Stream.encode_samples at 1. fold (Stream.encode_samples [] r). fold (skipped s).
  destruct (skipped s); [reflexivity|].
  destruct (Stream.dsfmt_get (e_type s) []) as [[rw u]| |] eqn:Eds; cbn [Request.bind fst]; try reflexivity.
  destruct (dsfmt_get_row _ _ _ Eds) as [-> _].
  unfold enc_one, meta_bytes. destruct (Stream.stream_bytes_get rw false s); cbn [Request.bind]; try reflexivity.
  match goal with |- Request.bind ?M1 _ = Request.bind (Request.bind ?M2 _) _ => change M1 with M2; destruct M2 end;
    cbn [Request.bind]; try reflexivity.
  destruct (Stream.encode_samples [] r) as [[bs k]| |]; cbn [Request.bind fst snd]; try reflexivity.
  rewrite app_assoc. reflexivity.
Qed.

Lemma length_map_is_nil {A B} (g : A -> B) l : Nat.eqb (List.length (map g l)) 0 = Stream.is_nil l.
Proof. destruct l; reflexivity. Qed.

Lemma msfmt_cases m :
  In (Stream.msfmt_get m) (map snd Gen_types.msfmt_rows) \/
  Stream.msfmt_get m = Stream.str_of_Z m ++ "B".
Proof.
  unfold Stream.msfmt_get. destruct (Stream.zassoc m Gen_types.msfmt_rows) as [s|] eqn:E; [left|right; reflexivity].
  apply zassoc_In in E. apply (in_map snd) in E. exact E.
Qed.

Lemma msfmt_len_pos m :
  (0 <? str_len (Stream.msfmt_get m)) = negb (String.eqb (Stream.msfmt_get m) "").
Proof.
  destruct (msfmt_cases m) as [H|H].
  - cbn in H. repeat (destruct H as [H|H]; [rewrite <- H; reflexivity|]). contradiction.
  - rewrite H. pose proof (str_len_app_pos (Stream.str_of_Z m) "B"%char eq_refl) as P.
    replace (0 <? str_len (Stream.str_of_Z m ++ "B")) with true by lia.
    destruct (Stream.str_of_Z m); reflexivity.
Qed.

Lemma msfmt_safe m f : parse_fmt (Stream.msfmt_get m) = Some f -> native_safe f = true.
Proof.
  destruct (msfmt_cases m) as [H|H].
  - cbn in H. repeat (destruct H as [H|H]; [rewrite <- H; intros E; vm_compute in E; inversion E; reflexivity|]).
    contradiction.
  - rewrite H. apply (native_counted_safe m "B"%char CB); reflexivity.
Qed.

Definition emb_opt (self : pv) (r : Frame.res (option bytes)) : PyLite.res (pv * option pv) :=
  match r with
  | Frame.Ok None => PyLite.Ok (PNone, Some self)
  | Frame.Ok (Some b) => PyLite.Ok (PBytes b, Some self)
  | Frame.Raise w => ExcS w (self_st self)
  | Frame.Err _ => Unsupported ""
  end.
#[local] Hint Unfold emb_opt Request.spack : stream_model.

(** SerialFrame.frame_create with the id given as an IntEnum member (the
    statement of Src_serialframe_proofs.frame_create_enum_spec at [call_func] level) *)
#[local] Hint Unfold
  Frame.crc16 Frame.crc_p Frame.id_of
  Gen_frame.sof Gen_frame.parse_ids Gen_frame.crc_poly Gen_frame.crc_init Gen_frame.crc_rev Gen_frame.crc_xorout
  Gen_frame.create_fid_max Gen_frame.create_len_base Gen_frame.create_hdr_fmt Gen_frame.create_foot_fmt
  : stream_model.

Lemma frame_create_func n name fid data :
  call_func program (S n) SerialFrame_frame_create [sf; PEnum "EParseId" name fid true; PBytes data] [] =
  emb_bytes sf (Frame.frame_create fid data).
Proof. pystart. unfold Frame.frame_create. pyrun. Qed.
#[local] Arguments Frame.frame_create : simpl never.
#[local] Hint Resolve frame_create_func : pyspec.

Lemma iter_then {X Y Z'} (A : PyLite.res X) (B : X -> PyLite.res Y) (K : Y -> PyLite.res Z') R :
  (do e1 <- A; do o <- B e1; PyLite.Ok o) = R ->
  (do e1 <- A; do o <- B e1; K o) = (do o <- R; K o).
Proof. intros <-. destruct A as [a| | | |]; cbn [bind]; try reflexivity. destruct (B a); reflexivity. Qed.

Lemma dsfmt_get_no_err t e : Stream.dsfmt_get t [] <> Frame.Err e.
Proof.
  unfold Stream.dsfmt_get. destruct (Stream.zassoc t Gen_types.dsfmt_rows); cbn [Stream.zassoc]; discriminate.
Qed.

(** * msfmt_get / dsfmt_get (proto/iparse.py) against the model's tables *)
Lemma zassoc_cons_sym {A} k k' (v : A) r :
  Stream.zassoc k ((k', v) :: r) = if k =? k' then Some v else Stream.zassoc k r.
Proof. cbn [Stream.zassoc]. rewrite Z.eqb_sym. reflexivity. Qed.

Lemma msfmt_get_func n mlen :
  0 <= mlen ->
  call_func program (S (S n)) Src_iparse.fn_msfmt_get [PInt mlen] [] =
  PyLite.Ok (PStr (Stream.msfmt_get mlen), Some (PInt mlen)).
Proof.
  intros Hm. pystart. unfold Stream.msfmt_get, Gen_types.msfmt_rows, Gen_types.msfmt_default_suffix.
  rewrite !zassoc_cons_sym. rewrite <- (string_of_Z_nonneg mlen) by exact Hm. pyrun.
Qed.

Lemma dsfmt_get_func n dtype :
  call_func program (S (S (S n))) Src_iparse.fn_dsfmt_get [PInt dtype; PNone] [] =
  match Stream.dsfmt_get dtype [] with
  | Frame.Ok (rw, _) => PyLite.Ok (row_obj rw, Some (PInt dtype))
  | Frame.Raise w => ExcS w (self_st (PInt dtype))
  | Frame.Err _ => Unsupported ""
  end.
Proof.
  pystart. unfold Stream.dsfmt_get, Gen_types.dsfmt_rows.
  rewrite !zassoc_cons_sym. pyrun.
Qed.

Section Enc.
  (** the two look-up functions of proto/iparse.py against the model's
      (proved by a colleague; premises of the theorems below) *)
  Hypothesis Hms : forall n mlen, 0 <= mlen ->
    call_func program (S (S n)) Src_iparse.fn_msfmt_get [PInt mlen] [] =
    PyLite.Ok (PStr (Stream.msfmt_get mlen), Some (PInt mlen)).
  Hypothesis Hds : forall n dtype,
    call_func program (S (S (S n))) Src_iparse.fn_dsfmt_get [PInt dtype; PNone] [] =
    match Stream.dsfmt_get dtype [] with
    | Frame.Ok (rw, _) => PyLite.Ok (row_obj rw, Some (PInt dtype))
    | Frame.Raise w => ExcS w (self_st (PInt dtype))
    | Frame.Err _ => Unsupported ""
    end.
  #[local] Hint Resolve Hms Hds : pyspec.

  Ltac py_stuck_hook h ::=
    lazymatch h with
    | context [str_bytes (bytes_str (utf8_enc ?cps))] => rewrite (str_bytes_utf8 cps) by assumption
    | native_safe ?f =>
        match goal with
        | E : parse_fmt (String "<" _) = Some f |- _ => rewrite (parse_le_safe _ _ E)
        | E : parse_fmt (Stream.msfmt_get _) = Some f |- _ => rewrite (msfmt_safe _ _ E)
        end
    | Nat.eqb (List.length (map ?g ?l)) 0 => rewrite (length_map_is_nil g l)
    | Z.ltb 0 (str_len (Stream.msfmt_get ?m)) => rewrite (msfmt_len_pos m)
    | map_res to_sv (map PInt ?l) => rewrite map_res_to_sv_PInt
    | existsb is_pdy (map PInt ?l) => rewrite no_pdy_PInt
    end.

  Variables (n : nat) (cbv dv : pv).
  Let cf := call_func program (S (S (S n))).

  Lemma iter_skip lf sc s b c v :
    Stream.is_nil (e_data s) = true -> Stream.is_nil (e_meta s) = true ->
    (do e1 <- attach (env_of cbv dv (b, c, v)) (assign program cf (env_of cbv dv (b, c, v)) loop_t (samp_obj sc s));
     do o <- exec_block program cf lf e1 loop_b; PyLite.Ok o) =
    PyLite.Ok (OCont (env_of cbv dv (b, c, Some (samp_obj sc s, match v with Some (_, dm) => dm | None => None end)))).
  Proof.
    intros Hd Hm. unfold cf, loop_t, loop_b. cbn [first_for f_body ParseRecv__stream_data_encode].
    destruct v as [[sp [[d m]|]]|]; cbn [env_of app]; pyrun.
  Qed.

  Lemma iter_raise lf sc s b c v w :
    skipped s = false -> Stream.dsfmt_get (e_type s) [] = Frame.Raise w ->
    (do e1 <- attach (env_of cbv dv (b, c, v)) (assign program cf (env_of cbv dv (b, c, v)) loop_t (samp_obj sc s));
     do o <- exec_block program cf lf e1 loop_b; PyLite.Ok o) =
    ExcS w (env_of cbv dv (b, c + 1, Some (samp_obj sc s, match v with Some (_, dm) => dm | None => None end))).
  Proof.
    intros Hs Eds. unfold cf, loop_t, loop_b. cbn [first_for f_body ParseRecv__stream_data_encode].
    unfold skipped in Hs.
    destruct (Stream.is_nil (e_data s)) eqn:Hd; destruct (Stream.is_nil (e_meta s)) eqn:Hm; try discriminate Hs;
      destruct v as [[sp [[d m]|]]|]; cbn [env_of app]; pyrun.
  Qed.

  Lemma iter_main lf s b c v rw u :
    skipped s = false -> Stream.dsfmt_get (e_type s) [] = Frame.Ok (rw, u) ->
    0 <= e_vdim s -> 0 <= e_mlen s -> data_ok rw (e_data s) ->
    (do e1 <- attach (env_of cbv dv (b, c, v))
                     (assign program cf (env_of cbv dv (b, c, v)) loop_t (samp_obj (r_scale rw) s));
     do o <- exec_block program cf lf e1 loop_b; PyLite.Ok o) =
    let v' := Some (samp_obj (r_scale rw) s, Some (row_obj rw, PStr (Stream.msfmt_get (e_mlen s)))) in
    match Stream.stream_bytes_get rw false s with
    | Frame.Ok bb =>
        match meta_bytes s with
        | Frame.Ok m => PyLite.Ok (ONorm (env_of cbv dv (((b ++ bb) ++ m)%list, c + 1, v')))
        | Frame.Raise w => ExcS w (env_of cbv dv ((b ++ bb)%list, c + 1, v'))   (* struct.pack of the metadata *)
        | Frame.Err _ => Unsupported ""
        end
    | Frame.Raise w => ExcS w (env_of cbv dv (b, c + 1, v'))                    (* _stream_bytes_get *)
    | Frame.Err _ => Unsupported ""
    end.
  Proof.
    intros Hs Eds Hv Hl Hdo. destruct (dsfmt_get_row _ _ _ Eds) as [-> Hrw]. cbv zeta.
    unfold cf, loop_t, loop_b. cbn [first_for f_body ParseRecv__stream_data_encode].
    unfold skipped in Hs. unfold meta_bytes.
    destruct (Stream.is_nil (e_data s)) eqn:Hd; destruct (Stream.is_nil (e_meta s)) eqn:Hm; try discriminate Hs;
      destruct v as [[sp [[d m]|]]|]; cbn [env_of app]; pyrun.
  Qed.

  (** when the model raises, the loop raises in the environment of some loop state *)
  Lemma loop_spec lf l :
    Forall sample_ok l -> forall b c v, exists st,
    for_loop program cf lf loop_t loop_b (map samp_pv l) (env_of cbv dv (b, c, v)) =
    match Stream.encode_samples [] l with
    | Frame.Ok (bs, k) => PyLite.Ok (ONorm (env_of cbv dv ((b ++ bs)%list, c + k, fold_left step_vars l v)))
    | Frame.Raise w => ExcS w (env_of cbv dv st)
    | Frame.Err _ => Unsupported ""
    end.
  Proof.
    induction 1 as [|s r Hs _ IH]; intros b c v.
    - exists (b, c, v).
      rewrite for_loop_nil. change (Stream.encode_samples [] []) with (@Frame.Ok (bytes * Z) ([], 0)).
      cbn beta iota. rewrite app_nil_r, Z.add_0_r. reflexivity.
    - cbn [map fold_left]. rewrite for_loop_cons, encode_samples_cons. unfold samp_pv at 1. unfold step_vars at 2.
      destruct (skipped s) eqn:Esk.
      + apply andb_prop in Esk. destruct Esk as [E1 E2].
        edestruct IH as [st E]. exists st.
        rewrite (iter_then _ _ _ _ (iter_skip lf _ s b c v E1 E2)). cbn [bind loop_next]. apply E.
      + destruct Hs as [Hs|Hs]; [congruence|]. unfold samp_pv, row_of.
        destruct (Stream.dsfmt_get (e_type s) []) as [[rw u]|e|w] eqn:Eds.
        * destruct Hs as (Hv & Hl & Hd).
          pose proof (iter_main lf s b c v rw u Esk Eds Hv Hl Hd) as HI. cbv zeta in HI.
          cbn [Request.bind fst]. unfold enc_one.
          destruct (Stream.stream_bytes_get rw false s) as [bb| |]; cbn [Request.bind].
          2:{ exists (b, c, v). rewrite (iter_then _ _ _ _ HI). reflexivity. }
          2:{ eexists. rewrite (iter_then _ _ _ _ HI). reflexivity. }
          destruct (meta_bytes s) as [m| |]; cbn [Request.bind].
          2:{ exists (b, c, v). rewrite (iter_then _ _ _ _ HI). reflexivity. }
          2:{ eexists. rewrite (iter_then _ _ _ _ HI). reflexivity. }
          edestruct IH as [st E]. exists st.
          rewrite (iter_then _ _ _ _ HI). cbn [bind loop_next].
          rewrite E. destruct (Stream.encode_samples [] r) as [[bs k]| |]; cbn [Request.bind fst snd]; try reflexivity.
          rewrite <- !app_assoc, Z.add_assoc. reflexivity.
        * exfalso. exact (dsfmt_get_no_err _ _ Eds).
        * eexists. rewrite (iter_then _ _ _ _ (iter_raise lf _ s b c v w Esk Eds)). reflexivity.
  Qed.

  Lemma data_encode_func l :
    iter_list dv = PyLite.Ok (map samp_pv l) -> Forall sample_ok l ->
    call_func program (S (S (S (S n)))) ParseRecv__stream_data_encode [pr cbv; dv] [] =
    emb_opt (pr cbv) (Stream.stream_data_encode [] l).
  Proof.
    intros Hdv Hl. pystart. unfold Stream.stream_data_encode. pysteps.
    all: try match goal with
         | |- context [for_loop ?P0 ?c0 ?lf ?t0 ?b0 ?l0 ?e] =>
             match e with
             | context [("_bytes", PBytes ?B)] =>
                 change (for_loop P0 c0 lf t0 b0 l0 e)
                   with (for_loop program cf lf loop_t loop_b (map samp_pv l) (env_of cbv dv (B, 0, None)));
                 let Hst := fresh "Hst" in
                 (* the loop state is left to unification: the pair in the goal and the one
                    in [loop_spec] differ in their (convertible) type arguments *)
                 edestruct (loop_spec lf l Hl) as [[[? ?] ?] Hst]; rewrite Hst; clear Hst
             end
         end.
    all: pyrun.
  Qed.
  #[local] Hint Resolve data_encode_func : pyspec.
  #[local] Arguments Stream.stream_data_encode : simpl never.

  Lemma frame_encode_func l :
    iter_list dv = PyLite.Ok (map samp_pv l) -> Forall sample_ok l ->
    call_func program (S (S (S (S (S n))))) ParseRecv_frame_stream_encode [pr cbv; dv] [] =
    emb_opt (pr cbv) (Stream.frame_stream_encode [] l).
  Proof. intros Hdv Hl. pystart. unfold Stream.frame_stream_encode. pyrun. Qed.
End Enc.

(** * The theorems (closed: the two look-up functions are proved above) *)
Definition emb_bytes_m (self : pv) (r : Frame.res bytes) : PyLite.res (pv * pv) :=
  match r with
  | Frame.Ok b => PyLite.Ok (PBytes b, self)
  | Frame.Raise w => Exc w
  | Frame.Err _ => Unsupported ""
  end.
Definition emb_opt_m (self : pv) (r : Frame.res (option bytes)) : PyLite.res (pv * pv) :=
  match r with
  | Frame.Ok None => PyLite.Ok (PNone, self)
  | Frame.Ok (Some b) => PyLite.Ok (PBytes b, self)
  | Frame.Raise w => Exc w
  | Frame.Err _ => Unsupported ""
  end.
#[local] Hint Unfold emb_bytes_m emb_opt_m : stream_model.

Definition data_encode_func' := data_encode_func msfmt_get_func dsfmt_get_func.
Definition frame_encode_func' := frame_encode_func msfmt_get_func dsfmt_get_func.
Definition data_encode_list n cbv l := data_encode_func' n cbv (PList (map samp_pv l)) l eq_refl.
Definition data_encode_tuple n cbv l := data_encode_func' n cbv (PTuple (map samp_pv l)) l eq_refl.
Definition frame_encode_list n cbv l := frame_encode_func' n cbv (PList (map samp_pv l)) l eq_refl.
Definition frame_encode_tuple n cbv l := frame_encode_func' n cbv (PTuple (map samp_pv l)) l eq_refl.
#[local] Hint Resolve data_encode_list data_encode_tuple frame_encode_list frame_encode_tuple : pyspec.
#[local] Arguments Stream.stream_data_encode : simpl never.
#[local] Arguments Stream.frame_stream_encode : simpl never.

(** _stream_bytes_get, for any row in the domain *)
Theorem stream_bytes_get_spec n cbv rw s :
  row_ok rw -> 0 <= e_vdim s -> data_ok rw (e_data s) ->
  call_method program (1 + n) (pr cbv) "_stream_bytes_get" [row_obj rw; samp_obj (r_scale rw) s] =
  emb_bytes_m (pr cbv) (Stream.stream_bytes_get rw false s).
Proof. pystart. pyrun. Qed.

(** ... in particular for the row that dsfmt_get selects *)
Corollary stream_bytes_get_table_spec n cbv s rw u :
  Stream.dsfmt_get (e_type s) [] = Frame.Ok (rw, u) ->
  0 <= e_vdim s -> data_ok rw (e_data s) ->
  call_method program (1 + n) (pr cbv) "_stream_bytes_get" [row_obj rw; samp_pv s] =
  emb_bytes_m (pr cbv) (Stream.stream_bytes_get rw u s).
Proof.
  intros Eds Hv Hd. destruct (dsfmt_get_row _ _ _ Eds) as [-> Hrw].
  unfold samp_pv, row_of. rewrite Eds. apply stream_bytes_get_spec; assumption.
Qed.

(** _stream_data_encode: a list or a tuple of samples *)
Theorem stream_data_encode_spec n cbv l :
  Forall sample_ok l ->
  call_method program (4 + n) (pr cbv) "_stream_data_encode" [PList (map samp_pv l)] =
  emb_opt_m (pr cbv) (Stream.stream_data_encode [] l).
Proof. pystart. pyrun. Qed.

Theorem stream_data_encode_tuple_spec n cbv l :
  Forall sample_ok l ->
  call_method program (4 + n) (pr cbv) "_stream_data_encode" [PTuple (map samp_pv l)] =
  emb_opt_m (pr cbv) (Stream.stream_data_encode [] l).
Proof. pystart. pyrun. Qed.

(** frame_stream_encode *)
Theorem frame_stream_encode_spec n cbv l :
  Forall sample_ok l ->
  call_method program (5 + n) (pr cbv) "frame_stream_encode" [PList (map samp_pv l)] =
  emb_opt_m (pr cbv) (Stream.frame_stream_encode [] l).
Proof. pystart. pyrun. Qed.

Theorem frame_stream_encode_tuple_spec n cbv l :
  Forall sample_ok l ->
  call_method program (5 + n) (pr cbv) "frame_stream_encode" [PTuple (map samp_pv l)] =
  emb_opt_m (pr cbv) (Stream.frame_stream_encode [] l).
Proof. pystart. pyrun. Qed.

(** * Findings: where the model and the source differ (outside the domain above)
    Each is a closed computation on both sides. *)

(** (1) negative vdim.  The model formats the count with [str_of_Z], which
    clamps negatives to "0"; Python's str gives "-1" and struct rejects the
    format.  Sample: chan 0, UINT8, vdim -1, no data, one byte of metadata. *)
Example finding_negative_vdim :
  let rw := mkRow 1 "B" (SInt 1) 1 in
  let s := mkESample 0 2 (-1) 1 [] [7] in
  Stream.stream_bytes_get rw false s = Frame.Ok [0%N] /\
  call_method program 5 (pr PNone) "_stream_bytes_get" [row_obj rw; samp_obj (SInt 1) s] = Exc "struct.error".
Proof. split; vm_compute; reflexivity. Qed.

(** (2) negative mlen: the same clamp in [msfmt_get] ("0B" against "-1B"). *)
Example finding_negative_mlen :
  let s := mkESample 0 2 1 (-1) [EVInt 5] [] in
  Stream.stream_data_encode [] [s] = Frame.Ok (Some [0; 0; 5]%N) /\
  call_method program 10 (pr PNone) "_stream_data_encode" [PList [samp_pv s]] = Exc "struct.error".
Proof. split; vm_compute; reflexivity. Qed.

(** (3) order of errors in a text row: the source indexes sample.data[0]
    (IndexError) before struct.pack sees the format; the model parses the
    format first.  Only visible with a row whose format does not parse, which
    the built-in table does not have (hence [one_code] in [row_ok]). *)
Example finding_error_order :
  let rw := mkRow 1 "!" SNone 2 in
  let s := mkESample 0 18 1 0 [] [7] in
  Stream.stream_bytes_get rw false s = Frame.Raise "struct.error" /\
  call_method program 5 (pr PNone) "_stream_bytes_get" [row_obj rw; samp_obj SNone s] = Exc "IndexError".
Proof. split; vm_compute; reflexivity. Qed.

(** (4) an int too large for a float in a fixed-point row: the model multiplies
    exactly and reports struct.error; CPython raises OverflowError in
    [x * decode.scale]; PyLite puts it outside the subset. *)
Example finding_int_overflow :
  let s := mkESample 0 12 1 0 [EVInt (2 ^ 1030)] [] in
  Stream.stream_data_encode [] [s] = Frame.Raise "struct.error" /\
  call_method program 10 (pr PNone) "_stream_data_encode" [PList [samp_pv s]] =
  Unsupported "int too large for float".
Proof. split; vm_compute; reflexivity. Qed.

(** * Audit *)
Print Assumptions bytes_get_func.
Print Assumptions msfmt_get_func.
Print Assumptions dsfmt_get_func.
Print Assumptions data_encode_func.
Print Assumptions frame_encode_func.
Print Assumptions stream_bytes_get_spec.
Print Assumptions stream_bytes_get_table_spec.
Print Assumptions stream_data_encode_spec.
Print Assumptions stream_data_encode_tuple_spec.
Print Assumptions frame_stream_encode_spec.
Print Assumptions frame_stream_encode_tuple_spec.
Print Assumptions finding_negative_vdim.
Print Assumptions finding_negative_mlen.
Print Assumptions finding_error_order.
Print Assumptions finding_int_overflow.

(** nxslib/thread.py (class ThreadCommon) as INTERPRETED SOURCE: the ASTs of
    gen/Src_thread.v run by the PyLite interpreter, with [threading.Event] /
    [threading.Thread] mapped by the translator to the stub classes [SimEvent] /
    [SimThread] of tools/harness/prelude_py.py (gen/Src_prelude.v) and the
    callbacks init / target / final being counting callables [SimCb].

    This file: the embedding of the stub states, the stubs' methods, and every
    method of ThreadCommon except [_thread_loop] (proofs/Src_worker_loop.v):
    the constructor with its assertions, [_stop_is_set], [_stop_clear],
    [stop_set], [thread_is_alive], [thread_start], [thread_stop].

    All statements are for ALL stub states and all fuel above a constant.
    The worker's position is the model's own [Worker.wpc]: the stub thread's
    [state] string is [pc_str p]. *)
From Coq Require Import String Ascii List ZArith NArith Bool Lia ZifyBool.
From NX Require Import Bytes PyLite PyLite_tactics Src_thread Src_prelude Src_all.
From NX Require Import Worker.
Import ListNotations.
Open Scope string_scope.
Open Scope Z_scope.

(** * The embedding *)
(** [SimEvent]: the flag and the scripted answers of [is_set] *)
Definition ev (flag : bool) (script : list bool) : pv :=
  PObj "SimEvent" [("flag", PBool flag); ("script", PList (map PBool script))].

(** [SimCb]: calls so far, the call number at which it raises (0: never) *)
Definition cb (calls fail_at : Z) : pv :=
  PObj "SimCb" [("calls", PInt calls); ("fail_at", PInt fail_at)].

(** [SimThread]: where the worker stands, as the model's program counter *)
Definition pc_str (p : wpc) : string :=
  match p with
  | WCreated => "created" | WInit => "init" | WTest => "test"
  | WTarget => "target" | WFinal => "final" | WDone => "done"
  end.

Definition thr (tgt nm : pv) (p : wpc) (joins : Z) : pv :=
  PObj "SimThread" [("target", tgt); ("name", nm); ("state", PStr (pc_str p)); ("joins", PInt joins)].

(** what [self._thread_loop] evaluates to: the bound method as a value *)
Definition bound_loop : pv := PBuiltin "$bound _thread_loop".

(** [ThreadCommon]: callbacks, handle, stop flag, name -- in the order in which
    [__init__] assigns them *)
Definition tc (tgt ini fin h e nm : pv) : pv :=
  PObj "ThreadCommon"
    [("_target", tgt); ("_init", ini); ("_final", fin); ("_thrd", h); ("_stop_flag", e); ("_name", nm)].

(** the handle: [None], or a thread made by [thread_start] *)
Definition handle (nm : pv) (h : option (wpc * Z)) : pv :=
  match h with Some (p, j) => thr bound_loop nm p j | None => PNone end.

#[global] Hint Unfold ev cb thr bound_loop tc handle : wk_model.
Ltac py_unfold_hook ::= autounfold with wk_model.

Lemma norm_index_S0 len : norm_index (S len) 0 = Some O.
Proof. unfold norm_index. replace ((0 <=? 0) && (0 <? Z.of_nat (S len))) with true by lia. reflexivity. Qed.
Lemma slice_from_cons1 {A} (x : A) r : slice_from (x :: r) 1 = r.
Proof.
  unfold slice_from, clip_index. cbn [List.length].
  replace (1 <? 0) with false by lia. replace (Z.of_nat (S (List.length r)) <? 1) with false by lia. reflexivity.
Qed.
#[local] Arguments norm_index : simpl never.

Ltac py_stuck_hook h ::=
  lazymatch h with
  | norm_index (S _) 0 => rewrite norm_index_S0
  | context [nth ?k (_ :: _) _] => is_nat_lit k; progress cbn [nth]
  | context [slice_from (_ :: _) 1] => rewrite slice_from_cons1
  end.

(** * 1. The stubs *)
Lemma ev_set_func n f s :
  call_func program (S n) SimEvent_set [ev f s] [] = PyLite.Ok (PNone, Some (ev true s)).
Proof. pystart. pyrun. Qed.

Lemma ev_clear_func n f s :
  call_func program (S n) SimEvent_clear [ev f s] [] = PyLite.Ok (PNone, Some (ev false s)).
Proof. pystart. pyrun. Qed.

(** [is_set]: the head of the script, consumed; the flag once the script is exhausted *)
Definition ev_answer (f : bool) (s : list bool) : bool := match s with b :: _ => b | [] => f end.

Lemma ev_is_set_func n f s :
  call_func program (S n) SimEvent_is_set [ev f s] [] = PyLite.Ok (PBool (ev_answer f s), Some (ev f (tl s))).
Proof.
  pystart. destruct s as [|b r]; cbn [map tl ev_answer]; pyrun.
  rewrite slice_from_cons1. reflexivity.
Qed.

(** [start]: a created thread stands at the first line of the loop; anything else: RuntimeError *)
Lemma thr_start_func n tgt nm p j :
  call_func program (S n) SimThread_start [thr tgt nm p j] [] =
  match p with
  | WCreated => PyLite.Ok (PNone, Some (thr tgt nm WInit j))
  | _ => ExcS "RuntimeError" (self_st (thr tgt nm p j))
  end.
Proof. pystart. destruct p; pyrun. Qed.

Lemma thr_is_alive_func n tgt nm p j :
  call_func program (S n) SimThread_is_alive [thr tgt nm p j] [] =
  PyLite.Ok (PBool (alive p), Some (thr tgt nm p j)).
Proof. pystart. destruct p; pyrun. Qed.

(** [join]: returns on a finished thread; "would block" on a running one (counted, BlockingIOError);
    RuntimeError before [start] *)
Lemma thr_join_func n tgt nm p j :
  call_func program (S n) SimThread_join [thr tgt nm p j] [] =
  match p with
  | WCreated => ExcS "RuntimeError" (self_st (thr tgt nm p j))
  | WDone => PyLite.Ok (PNone, Some (thr tgt nm p (j + 1)))
  | _ => ExcS "BlockingIOError" (self_st (thr tgt nm p (j + 1)))
  end.
Proof. pystart. destruct p; pyrun. Qed.

(** a callback: counts, raises at call number [fail_at] *)
Lemma cb_call_func n c f :
  call_func program (S n) SimCb_DcallD [cb c f] [] =
  if c + 1 =? f then ExcS "RuntimeError" (self_st (cb (c + 1) f))
  else PyLite.Ok (PNone, Some (cb (c + 1) f)).
Proof. pystart. pyrun. Qed.

#[global] Hint Resolve ev_set_func ev_clear_func ev_is_set_func thr_start_func thr_is_alive_func thr_join_func
  cb_call_func : pyspec.

(** * 2. The flag methods of ThreadCommon *)
Lemma stop_is_set_func n tgt ini fin h f s nm :
  call_func program (S (S n)) ThreadCommon__stop_is_set [tc tgt ini fin h (ev f s) nm] [] =
  PyLite.Ok (PBool (ev_answer f s), Some (tc tgt ini fin h (ev f (tl s)) nm)).
Proof. pystart. pyrun. Qed.

Lemma stop_clear_func n tgt ini fin h f s nm :
  call_func program (S (S n)) ThreadCommon__stop_clear [tc tgt ini fin h (ev f s) nm] [] =
  PyLite.Ok (PNone, Some (tc tgt ini fin h (ev false s) nm)).
Proof. pystart. pyrun. Qed.

Lemma stop_set_func n tgt ini fin h f s nm :
  call_func program (S (S n)) ThreadCommon_stop_set [tc tgt ini fin h (ev f s) nm] [] =
  PyLite.Ok (PNone, Some (tc tgt ini fin h (ev true s) nm)).
Proof. pystart. pyrun. Qed.

(** * 3. thread_is_alive *)
Definition h_alive (h : option (wpc * Z)) : bool := match h with Some (p, _) => alive p | None => false end.

Lemma thread_is_alive_func n tgt ini fin h e nm :
  call_func program (S (S n)) ThreadCommon_thread_is_alive [tc tgt ini fin (handle nm h) e nm] [] =
  PyLite.Ok (PBool (h_alive h), Some (tc tgt ini fin (handle nm h) e nm)).
Proof. pystart. destruct h as [[p j]|]; cbn [handle h_alive]; pyrun. Qed.

#[global] Hint Resolve stop_is_set_func stop_clear_func stop_set_func thread_is_alive_func : pyspec.

(** * 4. thread_start
    A handle is present: NOTHING changes (the flag is not cleared, no thread
    is made).  No handle: the flag is cleared (the script is left alone), a
    thread object is made with target = the bound [_thread_loop] and the name
    given to the constructor, started (it stands at [WInit]) and stored. *)
Definition start_result (nm : pv) (h : option (wpc * Z)) (f : bool) : option (wpc * Z) * bool :=
  match h with
  | Some x => (Some x, f)
  | None => (Some (WInit, 0), false)
  end.

Lemma thread_start_func n tgt ini fin h f s nm :
  call_func program (S (S (S n))) ThreadCommon_thread_start [tc tgt ini fin (handle nm h) (ev f s) nm] [] =
  PyLite.Ok (PNone, Some (tc tgt ini fin (handle nm (fst (start_result nm h f)))
                             (ev (snd (start_result nm h f)) s) nm)).
Proof. pystart. destruct h as [[p j]|]; cbn [handle start_result fst snd]; pyrun. Qed.

(** * 5. thread_stop
    No handle: NOTHING changes (the flag is NOT set).  A handle: the flag is
    set; [join] is called iff the thread is alive -- on a running worker the
    stub's join "would block": the call stops there with BlockingIOError, the
    flag set, the handle still in place and the join counted; otherwise (never
    started, or done) the handle is cleared without a join. *)
Definition stop_outcome (tgt ini fin : pv) (h : option (wpc * Z)) (f : bool) (s : list bool) (nm : pv)
  : PyLite.res (pv * option pv) :=
  match h with
  | None => PyLite.Ok (PNone, Some (tc tgt ini fin PNone (ev f s) nm))
  | Some (p, j) =>
      if alive p
      then ExcS "BlockingIOError" (self_st (tc tgt ini fin (thr bound_loop nm p (j + 1)) (ev true s) nm))
      else PyLite.Ok (PNone, Some (tc tgt ini fin PNone (ev true s) nm))
  end.

Lemma thread_stop_func n tgt ini fin h f s nm :
  call_func program (S (S (S n))) ThreadCommon_thread_stop [tc tgt ini fin (handle nm h) (ev f s) nm] [] =
  stop_outcome tgt ini fin h f s nm.
Proof. pystart. unfold stop_outcome. destruct h as [[p j]|]; cbn [handle]; [destruct p|]; pyrun. Qed.

(** a thread that is done but whose handle is still there is joined... never:
    [thread_is_alive] is false, the join is skipped.  The line
    [self._thrd.join()] taken alone (the model's CT4) on every handle state: *)
Lemma join_line n tgt nm p j :
  call_method program (S n) (thr tgt nm p j) "join" [] =
  match p with
  | WCreated => Exc "RuntimeError"
  | WDone => PyLite.Ok (PNone, thr tgt nm p (j + 1))
  | _ => Exc "BlockingIOError"
  end.
Proof. pystart. destruct p; pyrun. Qed.

(** the line [self._thrd.start()] taken alone (the model's CS4) on every handle state *)
Lemma start_line n tgt nm p j :
  call_method program (S n) (thr tgt nm p j) "start" [] =
  match p with
  | WCreated => PyLite.Ok (PNone, thr tgt nm WInit j)
  | _ => Exc "RuntimeError"
  end.
Proof. pystart. destruct p; pyrun. Qed.

(** * 6. The constructor and its assertions *)
(** what [callable] says of a value: PyLite's [py_callable] (added for this class) *)
Definition is_callable (v : pv) : bool := py_callable program v.

Definition ctor_ok (tgt ini fin : pv) : bool :=
  is_callable tgt && (negb (truthy ini) || is_callable ini) && (negb (truthy fin) || is_callable fin).

#[local] Arguments py_callable : simpl never.
#[local] Arguments truthy : simpl never.

(** [target] must be callable; [init] / [final] must be callable unless FALSY
    (not: unless None -- [if init:] lets 0, "" ... through unchecked) *)
Theorem ctor_spec n tgt ini fin nm :
  construct program (3 + n) "ThreadCommon" [tgt; ini; fin; nm] =
  if ctor_ok tgt ini fin then PyLite.Ok (tc tgt ini fin PNone (ev false []) nm) else Exc "AssertionError".
Proof.
  pystart. unfold ctor_ok, is_callable.
  destruct (py_callable program tgt) eqn:Ct; destruct (truthy ini) eqn:Ti; destruct (truthy fin) eqn:Tf;
    destruct (py_callable program ini) eqn:Ci; destruct (py_callable program fin) eqn:Cf;
    cbn [andb orb negb]; timeout 600 pyrun.
Qed.
#[local] Arguments truthy : simpl nomatch.

(** with the stubs: a counting callable passes, [None] passes for init / final, not for target *)
Lemma is_callable_cb c f : is_callable (cb c f) = true.
Proof. reflexivity. Qed.

(** * 7. The entry points (what the property theorems cite) *)
Theorem thread_start_spec n tgt ini fin h f s nm :
  call_method program (3 + n) (tc tgt ini fin (handle nm h) (ev f s) nm) "thread_start" [] =
  PyLite.Ok (PNone, match h with
                    | Some _ => tc tgt ini fin (handle nm h) (ev f s) nm
                    | None => tc tgt ini fin (thr bound_loop nm WInit 0) (ev false s) nm
                    end).
Proof. pystart. destruct h as [[p j]|]; cbn [handle]; pyrun. Qed.

Theorem thread_stop_spec n tgt ini fin h f s nm :
  call_method program (3 + n) (tc tgt ini fin (handle nm h) (ev f s) nm) "thread_stop" [] =
  match h with
  | None => PyLite.Ok (PNone, tc tgt ini fin PNone (ev f s) nm)
  | Some (p, _) => if alive p then Exc "BlockingIOError" else PyLite.Ok (PNone, tc tgt ini fin PNone (ev true s) nm)
  end.
Proof. pystart. destruct h as [[p j]|]; cbn [handle]; [destruct p|]; pyrun. Qed.

Theorem thread_is_alive_spec n tgt ini fin h e nm :
  call_method program (2 + n) (tc tgt ini fin (handle nm h) e nm) "thread_is_alive" [] =
  PyLite.Ok (PBool (h_alive h), tc tgt ini fin (handle nm h) e nm).
Proof. pystart. destruct h as [[p j]|]; cbn [handle h_alive]; pyrun. Qed.

Theorem stop_set_spec n tgt ini fin h f s nm :
  call_method program (2 + n) (tc tgt ini fin h (ev f s) nm) "stop_set" [] =
  PyLite.Ok (PNone, tc tgt ini fin h (ev true s) nm).
Proof. pystart. pyrun. Qed.

(** * Non-vacuity *)
Example ctor_ex :
  construct program 10 "ThreadCommon" [cb 0 0; PNone; cb 0 0; PStr "w"] =
  PyLite.Ok (tc (cb 0 0) PNone (cb 0 0) PNone (ev false []) (PStr "w")).
Proof. vm_compute. reflexivity. Qed.
Example ctor_bad_target : construct program 10 "ThreadCommon" [PNone; PNone; PNone; PNone] = Exc "AssertionError".
Proof. vm_compute. reflexivity. Qed.
Example ctor_bad_init : construct program 10 "ThreadCommon" [cb 0 0; PInt 7; PNone; PNone] = Exc "AssertionError".
Proof. vm_compute. reflexivity. Qed.
(** a falsy non-callable init is accepted (and never called) *)
Example ctor_falsy_init :
  construct program 10 "ThreadCommon" [cb 0 0; PInt 0; PNone; PNone] =
  PyLite.Ok (tc (cb 0 0) (PInt 0) PNone PNone (ev false []) PNone).
Proof. vm_compute. reflexivity. Qed.

Example start_ex :
  call_method program 10 (tc (cb 0 0) PNone PNone PNone (ev true [true]) (PStr "w")) "thread_start" [] =
  PyLite.Ok (PNone, tc (cb 0 0) PNone PNone (thr bound_loop (PStr "w") WInit 0) (ev false [true]) (PStr "w")).
Proof. vm_compute. reflexivity. Qed.
Example start_again_ex :
  let w := tc (cb 0 0) PNone PNone (thr bound_loop (PStr "w") WDone 0) (ev true []) (PStr "w") in
  call_method program 10 w "thread_start" [] = PyLite.Ok (PNone, w).
Proof. vm_compute. reflexivity. Qed.
Example stop_ex :
  call_method program 10 (tc (cb 0 0) PNone PNone (thr bound_loop PNone WDone 0) (ev false []) PNone) "thread_stop" [] =
  PyLite.Ok (PNone, tc (cb 0 0) PNone PNone PNone (ev true []) PNone).
Proof. vm_compute. reflexivity. Qed.
Example stop_nothing_ex :
  let w := tc (cb 0 0) PNone PNone PNone (ev false []) PNone in
  call_method program 10 w "thread_stop" [] = PyLite.Ok (PNone, w).
Proof. vm_compute. reflexivity. Qed.
Example stop_blocks_ex :
  call_method program 10 (tc (cb 0 0) PNone PNone (thr bound_loop PNone WTarget 0) (ev false []) PNone) "thread_stop" [] =
  Exc "BlockingIOError".
Proof. vm_compute. reflexivity. Qed.

(** the hooks are global Ltac state: restore the defaults for whoever loads this file *)
Ltac py_stuck_hook h ::= fail.
Ltac py_unfold_hook ::= idtac.

(** * Audit *)
Print Assumptions ctor_spec.
Print Assumptions thread_start_spec.
Print Assumptions thread_stop_spec.
Print Assumptions thread_is_alive_spec.
Print Assumptions stop_set_spec.
Print Assumptions thread_start_func.
Print Assumptions thread_stop_func.
Print Assumptions join_line.
Print Assumptions start_line.

(** CRC-16/XMODEM algebra: GF(2)-linearity of the bit-serial CRC, and
    detection of the error classes of [ErrClass] (weight 1, weight 2,
    odd weight, bursts of length <= 16) for patterns up to 32760 bits. *)
From Coq Require Import Lia ZifyBool ZifyNat ZifyN.
From NX Require Import Bytes Crc ErrClass Bytes_proofs Crc_proofs.
Ltac Zify.zify_post_hook ::= Z.to_euclidean_division_equations.
Open Scope N_scope.

(** * Part 1: linearity over xor *)

Definition sh (s : N) : N := (s * 2) mod mask16.
Definition bv (b : bool) : N := if b then xpoly else 0.

Lemma sh_lxor s t : sh (N.lxor s t) = N.lxor (sh s) (sh t).
Proof.
  unfold sh, mask16. change 65536 with (2 ^ 16).
  change (N.lxor s t * 2) with (N.lxor s t * 2 ^ 1).
  change (s * 2) with (s * 2 ^ 1). change (t * 2) with (t * 2 ^ 1).
  rewrite <- !N.shiftl_mul_pow2.
  apply N.bits_inj. intro n. rewrite N.lxor_spec.
  destruct (N.lt_ge_cases n 16) as [Hlt|Hge].
  - rewrite !N.mod_pow2_bits_low by exact Hlt.
    rewrite N.shiftl_lxor, N.lxor_spec. reflexivity.
  - rewrite !N.mod_pow2_bits_high by exact Hge. reflexivity.
Qed.

Lemma T0_eq s : T0 s = N.lxor (sh s) (bv (N.testbit s 15)).
Proof.
  unfold T0, sh, bv. cbv zeta.
  destruct (N.testbit s 15); [reflexivity|now rewrite N.lxor_0_r].
Qed.

Lemma bv_xorb a b : bv (xorb a b) = N.lxor (bv a) (bv b).
Proof. destruct a, b; reflexivity. Qed.

Lemma lxor_swap4 a b c d :
  N.lxor (N.lxor a b) (N.lxor c d) = N.lxor (N.lxor a c) (N.lxor b d).
Proof.
  apply N.bits_inj. intro n. rewrite !N.lxor_spec.
  destruct (N.testbit a n), (N.testbit b n), (N.testbit c n), (N.testbit d n);
    reflexivity.
Qed.

Lemma T0_lxor s t : T0 (N.lxor s t) = N.lxor (T0 s) (T0 t).
Proof.
  rewrite !T0_eq, sh_lxor, N.lxor_spec, bv_xorb. apply lxor_swap4.
Qed.

Lemma crc_step_eq s b : crc_step s b = N.lxor (T0 s) (bv b).
Proof.
  unfold crc_step, bv. destruct b; [reflexivity|now rewrite N.lxor_0_r].
Qed.

Lemma crc_step_lxor s t a b :
  crc_step (N.lxor s t) (xorb a b) = N.lxor (crc_step s a) (crc_step t b).
Proof. rewrite !crc_step_eq, T0_lxor, bv_xorb. apply lxor_swap4. Qed.

Lemma crc_bits_cons s b l : crc_bits s (b :: l) = crc_bits (crc_step s b) l.
Proof. reflexivity. Qed.

(** pointwise xor of two bit lists *)
Definition xorl (a b : list bool) : list bool :=
  map (fun p => xorb (fst p) (snd p)) (combine a b).

Lemma xorl_cons x y a b : xorl (x :: a) (y :: b) = xorb x y :: xorl a b.
Proof. reflexivity. Qed.

Lemma crc_bits_xorl a : forall b s t, length a = length b ->
  crc_bits (N.lxor s t) (xorl a b) = N.lxor (crc_bits s a) (crc_bits t b).
Proof.
  induction a as [|x a IH]; intros [|y b] s t H; try discriminate H.
  - reflexivity.
  - rewrite xorl_cons, !crc_bits_cons, crc_step_lxor. apply IH.
    injection H as H. exact H.
Qed.

Lemma xorl_app a1 : forall b1 a2 b2, length a1 = length b1 ->
  xorl (a1 ++ a2) (b1 ++ b2) = xorl a1 b1 ++ xorl a2 b2.
Proof.
  induction a1 as [|x a1 IH]; intros [|y b1] a2 b2 H; try discriminate H.
  - reflexivity.
  - rewrite <- !app_comm_cons, !xorl_cons, <- app_comm_cons. f_equal.
    apply IH. injection H as H. exact H.
Qed.

Lemma byte_bits_lxor x y :
  byte_bits (N.lxor x y) = xorl (byte_bits x) (byte_bits y).
Proof.
  unfold byte_bits, xorl. cbn [combine map fst snd].
  rewrite !N.lxor_spec. reflexivity.
Qed.

Lemma bits_of_cons x d : bits_of (x :: d) = byte_bits x ++ bits_of d.
Proof. reflexivity. Qed.

Lemma bits_of_length d : length (bits_of d) = (8 * length d)%nat.
Proof.
  induction d as [|x d IH]; [reflexivity|].
  rewrite bits_of_cons, app_length, IH. cbn [length byte_bits]. lia.
Qed.

Lemma bits_of_xor a : forall b, length a = length b ->
  bits_of (xor_bytes a b) = xorl (bits_of a) (bits_of b).
Proof.
  induction a as [|x a IH]; intros [|y b] H; try discriminate H.
  - reflexivity.
  - change (xor_bytes (x :: a) (y :: b)) with (N.lxor x y :: xor_bytes a b).
    rewrite !bits_of_cons, byte_bits_lxor, xorl_app by reflexivity.
    f_equal. apply IH. injection H as H. exact H.
Qed.

(* linearity of the CRC over GF(2) for equal-length messages (init 0) *)
Theorem crc_spec_xor : forall a b : bytes,
  length a = length b -> wf_bytes a -> wf_bytes b ->
  crc_spec (xor_bytes a b) = N.lxor (crc_spec a) (crc_spec b).
Proof.
  intros a b H _ _. unfold crc_spec. rewrite bits_of_xor by exact H.
  assert (L : length (bits_of a) = length (bits_of b))
    by (rewrite !bits_of_length, H; reflexivity).
  exact (crc_bits_xorl (bits_of a) (bits_of b) 0 0 L).
Qed.

(** * Part 2: detection *)

(** ** [T0] is a bijection of the 16-bit states fixing 0 *)
Definition T0inv (t : N) : N :=
  if N.testbit t 0 then N.lxor t xpoly / 2 + 32768 else t / 2.

Definition T0inv_ok (s : N) : bool := T0inv (T0 s) =? s.

Lemma T0inv_sweep : all_bits 16 0 T0inv_ok = true.
Proof. vm_compute. reflexivity. Qed.

Lemma T0_inv s : s < 65536 -> T0inv (T0 s) = s.
Proof.
  intros H. apply N.eqb_eq.
  apply (all_below_pow2 16 T0inv_ok T0inv_sweep s). exact H.
Qed.

Lemma T0_inj s t : s < 65536 -> t < 65536 -> T0 s = T0 t -> s = t.
Proof.
  intros Hs Ht E. rewrite <- (T0_inv s Hs), <- (T0_inv t Ht), E. reflexivity.
Qed.

Lemma T0_0 : T0 0 = 0.
Proof. reflexivity. Qed.

Lemma T0_nz s : s < 65536 -> s <> 0 -> T0 s <> 0.
Proof.
  intros Hs Hn E. apply Hn. apply T0_inj; [exact Hs|reflexivity|].
  rewrite E, T0_0. reflexivity.
Qed.

Notation zs := (repeat false).

Lemma crc_bits_zs_0 k : crc_bits 0 (zs k) = 0.
Proof.
  induction k as [|k IH]; [reflexivity|].
  cbn [repeat]. rewrite crc_bits_cons. exact IH.
Qed.

Lemma crc_bits_zs_nz k : forall s, s < 65536 -> s <> 0 -> crc_bits s (zs k) <> 0.
Proof.
  induction k as [|k IH]; intros s Hs Hn; [exact Hn|].
  cbn [repeat]. rewrite crc_bits_cons. apply IH.
  - apply crc_step_lt.
  - apply T0_nz; assumption.
Qed.

Lemma crc_bits_zs_T0 k : forall s,
  T0 (crc_bits s (zs k)) = crc_bits (T0 s) (zs k).
Proof.
  induction k as [|k IH]; intros s; [reflexivity|].
  cbn [repeat]. rewrite !crc_bits_cons. apply IH.
Qed.

(** ** list decomposition *)
Lemma weight_cons_true l : weight (true :: l) = S (weight l).
Proof. unfold weight. apply count_occ_cons_eq. reflexivity. Qed.

Lemma weight_cons_false l : weight (false :: l) = weight l.
Proof. unfold weight. apply count_occ_cons_neq. discriminate. Qed.

Lemma weight0 l : weight l = 0%nat -> l = zs (length l).
Proof.
  induction l as [|[|] l IH]; intros H.
  - reflexivity.
  - rewrite weight_cons_true in H. discriminate H.
  - rewrite weight_cons_false in H. cbn [length repeat]. f_equal. apply IH, H.
Qed.

Lemma first_one l : (1 <= weight l)%nat ->
  exists i rest, l = zs i ++ true :: rest /\ weight l = S (weight rest).
Proof.
  induction l as [|[|] l IH]; intros H.
  - exfalso. unfold weight in H. cbn in H. lia.
  - exists 0%nat, l. split; [reflexivity|apply weight_cons_true].
  - rewrite weight_cons_false in H. destruct (IH H) as (i & rest & E & W).
    exists (S i), rest. split.
    + cbn [repeat app]. f_equal. exact E.
    + rewrite weight_cons_false. exact W.
Qed.

Lemma allfalse l : (forall j, nth j l false <> true) -> l = zs (length l).
Proof.
  induction l as [|b l IH]; intros H; [reflexivity|].
  cbn [length repeat]. f_equal.
  - specialize (H 0%nat). cbn [nth] in H. destruct b; [exfalso; apply H|]; reflexivity.
  - apply IH. intros j. exact (H (S j)).
Qed.

Lemma nth_skipn_add {A} n : forall (l : list A) j d,
  nth j (skipn n l) d = nth (n + j) l d.
Proof.
  induction n as [|n IH]; intros l j d; [reflexivity|].
  destruct l as [|a l]; [destruct j; reflexivity|].
  cbn [skipn Nat.add nth]. apply IH.
Qed.

Lemma nth_zs_one i rest : nth i (zs i ++ true :: rest) false = true.
Proof.
  rewrite app_nth2 by (rewrite repeat_length; lia).
  rewrite repeat_length, Nat.sub_diag. reflexivity.
Qed.

Lemma nth_zs_rest i rest j :
  nth (i + S j) (zs i ++ true :: rest) false = nth j rest false.
Proof.
  rewrite app_nth2 by (rewrite repeat_length; lia).
  rewrite repeat_length. replace (i + S j - i)%nat with (S j) by lia.
  reflexivity.
Qed.

(** ** odd weight: parity of the state tracks parity of the number of 1-bits *)
Fixpoint par (k : nat) (s : N) : bool :=
  match k with
  | O => false
  | S k' => xorb (N.testbit s (N.of_nat k')) (par k' s)
  end.
Definition parity (s : N) : bool := par 16 s.

Definition parity_ok (s : N) : bool :=
  Bool.eqb (parity (crc_step s true)) (negb (parity s)) &&
  Bool.eqb (parity (crc_step s false)) (parity s).

Lemma parity_sweep : all_bits 16 0 parity_ok = true.
Proof. vm_compute. reflexivity. Qed.

Lemma parity_step s b : s < 65536 -> parity (crc_step s b) = xorb (parity s) b.
Proof.
  intros H.
  pose proof (all_below_pow2 16 parity_ok parity_sweep s H) as E.
  unfold parity_ok in E. apply andb_prop in E. destruct E as [E1 E2].
  apply Bool.eqb_prop in E1, E2.
  destruct b; [rewrite E1|rewrite E2]; destruct (parity s); reflexivity.
Qed.

Lemma parity_bits l : forall s, s < 65536 ->
  parity (crc_bits s l) = xorb (parity s) (Nat.odd (weight l)).
Proof.
  induction l as [|b l IH]; intros s Hs.
  - change (crc_bits s []) with s. change (Nat.odd (weight [])) with false.
    now rewrite xorb_false_r.
  - rewrite crc_bits_cons, IH by apply crc_step_lt.
    rewrite parity_step by exact Hs.
    destruct b.
    + rewrite weight_cons_true, Nat.odd_succ, <- Nat.negb_odd.
      destruct (parity s), (Nat.odd (weight l)); reflexivity.
    + rewrite weight_cons_false. now rewrite xorb_false_r.
Qed.

Lemma detect_odd l : Nat.odd (weight l) = true -> crc_bits 0 l <> 0.
Proof.
  intros H E.
  pose proof (parity_bits l 0 eq_refl) as P. rewrite E, H in P.
  discriminate P.
Qed.

(** ** weight 2: the orbit of [xpoly] under [T0] does not return early *)
Fixpoint orb (fuel : nat) (s : N) : bool :=
  match fuel with
  | O => true
  | S f => let s' := T0 s in negb (s' =? xpoly) && orb f s'
  end.

Lemma orb_spec fuel : forall s, orb fuel s = true ->
  forall d, (d < fuel)%nat -> crc_bits (T0 s) (zs d) <> xpoly.
Proof.
  induction fuel as [|f IH]; intros s H d Hd; [lia|].
  cbn [orb] in H. cbv zeta in H. apply andb_prop in H. destruct H as [H1 H2].
  destruct d as [|d].
  - change (crc_bits (T0 s) (zs 0)) with (T0 s).
    intros E. rewrite E in H1. discriminate H1.
  - cbn [repeat]. rewrite crc_bits_cons. apply IH; [exact H2|lia].
Qed.

Lemma orb_sweep : orb (N.to_nat 32766) xpoly = true.
Proof. vm_compute. reflexivity. Qed.

Lemma big_bound : N.of_nat 32760%nat = 32760.
Proof. vm_compute. reflexivity. Qed.

Lemma detect_two l : (length l <= 32760)%nat -> weight l = 2%nat ->
  crc_bits 0 l <> 0.
Proof.
  intros HL HW.
  destruct (first_one l) as (i & r1 & E1 & W1); [lia|].
  destruct (first_one r1) as (d & r2 & E2 & W2); [lia|].
  assert (W0 : weight r2 = 0%nat) by lia.
  apply weight0 in W0. set (k := length r2) in W0.
  subst l. rewrite W0 in E2. subst r1.
  rewrite !app_length in HL. cbn [length] in HL. rewrite !app_length in HL.
  cbn [length] in HL. rewrite !repeat_length in HL.
  pose proof big_bound as BB.
  assert (Hd : (d < N.to_nat 32766)%nat) by lia.
  clear HL BB W1 W2 HW W0.
  rewrite crc_bits_app, crc_bits_zs_0, crc_bits_cons.
  change (crc_step 0 true) with xpoly.
  rewrite crc_bits_app, crc_bits_cons.
  apply crc_bits_zs_nz; [apply crc_step_lt|].
  change (crc_step (crc_bits xpoly (zs d)) true)
    with (N.lxor (T0 (crc_bits xpoly (zs d))) xpoly).
  rewrite crc_bits_zs_T0. intros E. apply N.lxor_eq in E.
  exact (orb_spec _ _ orb_sweep d Hd E).
Qed.

(** ** bursts: every nonzero window starting with a 1-bit gives a nonzero state *)
Fixpoint all_st (k : nat) (s : N) : bool :=
  negb (s =? 0) &&
  match k with
  | O => true
  | S k' => all_st k' (crc_step s true) && all_st k' (crc_step s false)
  end.

Lemma all_st_spec k : forall s, all_st k s = true ->
  forall w, (length w <= k)%nat -> crc_bits s w <> 0.
Proof.
  induction k as [|k IH]; intros s H w Hw.
  - destruct w; [|cbn [length] in Hw; lia].
    cbn [all_st] in H. apply andb_prop in H. destruct H as [H _].
    intros E. change (crc_bits s []) with s in E. rewrite E in H. discriminate H.
  - cbn [all_st] in H. apply andb_prop in H. destruct H as [H0 H].
    apply andb_prop in H. destruct H as [H1 H2].
    destruct w as [|b w].
    + intros E. change (crc_bits s []) with s in E. rewrite E in H0. discriminate H0.
    + rewrite crc_bits_cons. cbn [length] in Hw.
      destruct b; apply IH; try assumption; lia.
Qed.

Lemma burst_sweep : all_st 15 xpoly = true.
Proof. vm_compute. reflexivity. Qed.

Lemma detect_burst l : (1 <= weight l)%nat -> burst_le 16 l -> crc_bits 0 l <> 0.
Proof.
  intros HW [i0 HB].
  destruct (first_one l HW) as (i & rest & E & _).
  assert (Hi : (i0 <= i)%nat).
  { specialize (HB i). rewrite E in HB. specialize (HB (nth_zs_one i rest)). lia. }
  assert (HF : skipn 15 rest = zs (length (skipn 15 rest))).
  { apply allfalse. intros j Hj. rewrite nth_skipn_add in Hj.
    rewrite <- (nth_zs_rest i) in Hj. rewrite <- E in Hj.
    apply HB in Hj. lia. }
  rewrite E. rewrite <- (firstn_skipn 15 rest).
  rewrite crc_bits_app, crc_bits_zs_0, crc_bits_cons, crc_bits_app.
  change (crc_step 0 true) with xpoly.
  rewrite HF. apply crc_bits_zs_nz.
  - apply crc_bits_lt. reflexivity.
  - apply (all_st_spec 15 xpoly burst_sweep). rewrite firstn_length. lia.
Qed.

(* no error pattern of the named classes, up to 32760 bits long, has CRC 0 *)
Theorem crc_detect : forall l : list bool,
  (length l <= 32760)%nat -> err_class l -> crc_bits 0 l <> 0%N.
Proof.
  intros l HL [H|[H|[H|[H1 H2]]]].
  - apply detect_odd. rewrite H. reflexivity.
  - apply detect_two; assumption.
  - apply detect_odd. exact H.
  - apply detect_burst; assumption.
Qed.

Print Assumptions crc_spec_xor.
Print Assumptions crc_detect.

(** The reassembly methods [CommHandler._read_hdr] / [_read_frame] on a receiver that ALSO carries
    the fields the receive thread needs ([_dev], [_q], [_q_stream], any values): the same refinement
    to model/Reasm.v as proofs/Src_reasm_proofs.v (whose receiver [ch] has exactly the three fields
    the two methods touch), re-run on the wider object; the extra fields come back unchanged.
    Model-side lemmas, loop bodies, names of locals and tactics are those of Src_reasm_proofs.v. *)
From Coq Require Import String Ascii List ZArith NArith Bool Lia ZifyBool.
From NX Require Import Bytes PyStruct Crc PyLite PyLite_tactics
  Src_iframe Src_serialframe Src_parse Src_comm Src_prelude Src_all.
From NX Require Frame Gen_frame Reasm Reasm_proofs.
From NX Require Import Src_serialframe_proofs Src_reasm_proofs.
Import ListNotations.
Import Frame(EHDR, EFOOT).
Open Scope string_scope.
Open Scope list_scope.
Open Scope Z_scope.

#[local] Hint Unfold
  Frame.hdr_len Frame.foot_len Frame.sof_byte Frame.crc16 Frame.crc_p
  Gen_frame.sof Gen_frame.hdr_end Gen_frame.foot Gen_frame.parse_ids
  Gen_frame.crc_poly Gen_frame.crc_init Gen_frame.crc_rev Gen_frame.crc_xorout
  Gen_frame.hdr_decode_fmt Gen_frame.crc_residue Gen_frame.decode_foot_off
  enum_id perr_obj hdr_obj frame_obj emb_hdr emb_frame : rp_model.

#[local] Arguments Frame.known_id : simpl never.
#[local] Arguments Frame.hdr_find : simpl never.
#[local] Arguments Frame.hdr_decode : simpl never.
#[local] Arguments Frame.frame_decode : simpl never.
#[local] Arguments Reasm.accumulate : simpl never.
#[local] Arguments Reasm.fill : simpl never.
#[local] Arguments Reasm.read_hdr : simpl never.
#[local] Arguments Reasm.read_frame : simpl never.
#[local] Arguments hdr_prev : simpl never.
#[local] Arguments hdr_rest : simpl never.
#[local] Arguments mfuel : simpl never.

Ltac py_unfold_hook ::= autounfold with rp_model.
Ltac py_stuck_hook h ::=
  lazymatch h with
  | norm_index (S _) 0 => rewrite norm_index_0
  | Frame.known_id _ => rewrite known_id_enum
  end.

#[local] Hint Resolve intf_read_func parser_frame_func hdr_find_kw_func hdr_decode_kw_func
  hdr_len_func frame_decode_func : pyspec.

(** the wide receiver: the three fields of [Src_reasm_proofs.ch], then the device description and
    the two queues (arbitrary values: the two methods never look at them) *)
Definition wch (dv xq xqs : pv) (prev : bytes) (l : Reasm.link) : pv :=
  PObj "CommHandler" [("_prev_read", PBytes prev); ("_intf", intf l); ("_parse", pa);
                      ("_dev", dv); ("_q", xq); ("_q_stream", xqs)].

Section Wide.
Variables dv xq xqs : pv.
Notation wch := (wch dv xq xqs).

(** * The accumulation loop of _read_hdr *)


Lemma acc_loop_w n lf : forall l k p0 buf e,
  (List.length l < k)%nat -> genv e ->
  lookup v_self e = Some (wch p0 l) -> lookup v_buf e = Some (PBytes buf) ->
  exists e', genv e' /\
    match Reasm.accumulate (S (List.length l)) 4 buf l with
    | (None, b', l') =>
        while_loop program (call_func program (S n)) lf acc_c acc_b k e =
          PyLite.Ok (ORet (PTuple [PNone; PNone]) e') /\
        lookup v_self e' = Some (wch b' l')
    | (Some b', _, l') =>
        while_loop program (call_func program (S n)) lf acc_c acc_b k e = PyLite.Ok (ONorm e') /\
        lookup v_self e' = Some (wch p0 l') /\ lookup v_buf e' = Some (PBytes b')
    end.
Proof.
  names.
  induction l as [|c r IH]; intros k p0 buf e Hk Hg Hs Hb; genv_split;
    (destruct k as [|k]; [cbn [List.length] in Hk; lia|]);
    rewrite accumulate_S; cbn [List.length] in *;
    (destruct (zlen buf <? 4) eqn:E;
     [| loop_iter HX; rewrite HX; exists e; split; [genv_solve|auto] ]).
  - loop_iter HX. rewrite HX.
    eexists; split; [|split; [reflexivity|]]; [genv_solve | env_rw; reflexivity].
  - destruct c as [|x c].
    + loop_iter HX. rewrite HX.
      eexists; split; [|split; [reflexivity|]]; [genv_solve | env_rw; reflexivity].
    + loop_iter HX. rewrite HX.
      match type of HX with
      | _ = while_loop _ _ _ _ _ _ ?e2 =>
          destruct (IH k p0 (buf ++ x :: c) e2) as (e' & Hg' & HI);
            [lia | genv_solve | env_rw; reflexivity | env_rw; reflexivity |]
      end.
      exists e'. split; [exact Hg'|]. exact HI.
Qed.

(** * The fill loop of _read_frame *)
Lemma fill_loop_w n lf fid flen err : forall l k p0 buf e,
  (List.length l < k)%nat -> genv e ->
  lookup v_fself e = Some (wch p0 l) -> lookup v_fbuf e = Some (PBytes buf) ->
  lookup v_fhdr e = Some (hdr_obj fid flen err) ->
  exists e', genv e' /\
    while_loop program (call_func program (S n)) lf fill_c fill_b k e = PyLite.Ok (ONorm e') /\
    lookup v_fself e' = Some (wch p0 (snd (Reasm.fill (S (List.length l)) flen buf l))) /\
    lookup v_fbuf e' = Some (PBytes (fst (Reasm.fill (S (List.length l)) flen buf l))) /\
    lookup v_fhdr e' = Some (hdr_obj fid flen err).
Proof.
  names.
  induction l as [|c r IH]; intros k p0 buf e Hk Hg Hs Hb Hh; genv_split;
    (destruct k as [|k]; [cbn [List.length] in Hk; lia|]);
    rewrite fill_S; cbn [List.length] in *;
    (destruct (zlen buf <? flen) eqn:E;
     [| loop_iter HX; rewrite HX; exists e; split; [genv_solve|auto] ]).
  - loop_iter HX. rewrite HX. cbn [fst snd].
    eexists; split; [|split; [reflexivity|]]; [genv_solve | repeat split; env_rw; reflexivity].
  - destruct c as [|x c].
    + loop_iter HX. rewrite HX. cbn [fst snd].
      eexists; split; [|split; [reflexivity|]]; [genv_solve | repeat split; env_rw; reflexivity].
    + loop_iter HX. rewrite HX.
      match type of HX with
      | _ = while_loop _ _ _ _ _ _ ?e2 =>
          destruct (IH k p0 (buf ++ x :: c) e2) as (e' & Hg' & HI);
            [lia | genv_solve | env_rw; reflexivity | env_rw; reflexivity | env_rw; reflexivity |]
      end.
      exists e'. split; [exact Hg'|]. exact HI.
Qed.

(** * _read_hdr *)
(** [pl], [ll]: the buffer and the unread chunks of the receiver when the
    method stops without having assigned [_prev_read] ([hdr_prev], [hdr_rest]):
    the receiver on the [HFound] path, and at the raise on the [HRaise] path
    (the raise of [SerialFrame.hdr_decode], which changes nothing) *)
Definition emb_hdr_out_w (pl : bytes) (ll : Reasm.link) (o : Reasm.hdr_out) : PyLite.res (pv * option pv) :=
  match o with
  | Reasm.HNone p l' => PyLite.Ok (PTuple [PNone; PNone], Some (wch p l'))
  | Reasm.HFound fid flen b l' =>
      PyLite.Ok (PTuple [hdr_obj (enum_id fid) flen (perr_obj "NOERR" 0); PBytes b], Some (wch pl l'))
  | Reasm.HRaise w => ExcS w (self_st (wch pl ll))
  | Reasm.HFuel => Fuel
  end.

(** what [call_func] keeps of the outcome of a body *)
Definition obs_w (r : PyLite.res out) : PyLite.res (pv * option pv) :=
  match r with
  | PyLite.Ok (ONorm e') => PyLite.Ok (PNone, lookup v_self e')
  | PyLite.Ok (ORet v e') => PyLite.Ok (v, lookup v_self e')
  | PyLite.Ok (OBrk _) | PyLite.Ok (OCont _) => Unsupported "break outside loop"
  | Exc c => Exc c
  | ExcS c e' => ExcS c (match lookup v_self e' with Some v => self_st v | None => [] end)
  | Fuel => Fuel
  | Unsupported w => Unsupported w
  end.

Lemma hdr_loop_w n lf : forall f k p l e,
  (Reasm_proofs.nbytes p l < f)%nat -> (f <= k)%nat -> (List.length l < lf)%nat ->
  genv e -> lookup v_self e = Some (wch p l) ->
  obs_w (while_loop program (call_func program (S (S n))) lf hdr_c hdr_b k e) =
  emb_hdr_out_w (hdr_prev f p l) (hdr_rest f p l) (Reasm.read_hdr f p l).
Proof.
  induction f as [|f IH]; intros k p l e Hf Hk Hl Hg Hs; [lia|].
  destruct k as [|k]; [lia|]. genv_split.
  rewrite read_hdr_S, hdr_prev_S, hdr_rest_S, while_loop_S. unfold obs_w, hdr_c, hdr_b. names.
  esteps.
  lazymatch goal with
  | |- ?L = _ =>
      let h := head_of L in
      lazymatch h with
      | while_loop _ _ _ _ _ _ ?e1 =>
          destruct (acc_loop_w (S n) lf l lf p p e1) as (e' & Hg' & HI);
            [lia | genv_solve | names; lk | names; lk |];
          names;
          destruct (Reasm.accumulate (S (List.length l)) 4 p l) as [[[buf|] bx] l'] eqn:EA;
          [ destruct HI as (HW & Hs' & Hb'); fast_rw h (PyLite.Ok (ONorm e')) ltac:(exact HW)
          | destruct HI as (HW & Hs'); fast_rw h (PyLite.Ok (ORet (PTuple [PNone; PNone]) e')) ltac:(exact HW) ]
      end
  end; genv_split.
  - destruct (accumulate_inv _ _ _ _ _ _ _ EA) as (Hcat & Hlen & Hsome).
    destruct (Hsome buf eq_refl) as [Ebx Hz]. subst bx.
    apply (f_equal (@List.length _)) in Hcat. rewrite !app_length in Hcat.
    pose proof (length_slice_from_le buf (Frame.hdr_find buf)) as Hsl.
    pose proof (length_slice_from_1 (slice_from buf (Frame.hdr_find buf))) as Hsl1.
    esteps;
      lazymatch goal with
      | |- match while_loop _ _ _ _ _ ?k ?e2 with _ => _ end = _ =>
          refine (IH k _ _ e2 _ _ _ _ _);
            [ unfold Reasm_proofs.nbytes, zlen in *; lia | lia | lia | genv_solve | env_rw; reflexivity ]
      | |- _ => reflexivity
      end.
  - esteps. reflexivity.
Qed.


Lemma obs_call_w (r : PyLite.res out) :
  obs_w (do o <- r; match o with ONorm e1 => PyLite.Ok (ONorm e1) | _ => PyLite.Ok o end) = obs_w r.
Proof. destruct r as [[]| | | |]; reflexivity. Qed.

Lemma read_hdr_func_w n p l :
  call_func program (S (S (S (mfuel p l + n)))) CommHandler__read_hdr [wch p l] [] =
  emb_hdr_out_w (hdr_prev (mfuel p l) p l) (hdr_rest (mfuel p l) p l) (Reasm.read_hdr (mfuel p l) p l).
Proof.
  assert (Hm : (Reasm_proofs.nbytes p l < mfuel p l)%nat /\ (List.length l < mfuel p l)%nat)
    by (unfold Reasm_proofs.nbytes, mfuel; lia).
  destruct Hm as [Hm1 Hm2]. pystart. esteps.
  lazymatch goal with
  | |- ?L = _ =>
      let h := head_of L in
      transitivity (obs_w h); [ generalize h; intros r; destruct r as [[]| | | |]; reflexivity | ]
  end.
  apply hdr_loop_w; [exact Hm1 | lia | lia | split; reflexivity | reflexivity].
Qed.

#[local] Hint Resolve read_hdr_func_w : pyspec.
#[local] Hint Unfold emb_hdr_out_w : rp_model.

(** * _read_frame *)
(** the receiver when _read_frame raises: [_prev_read] has not been assigned
    ([hdr_prev]); the unread chunks are those _read_hdr left when it raised
    ([hdr_rest]), resp. those the fill loop left when [frame_decode] raises *)
Definition frame_raise_self_w (p : bytes) (l : Reasm.link) : pv :=
  match Reasm.read_hdr (mfuel p l) p l with
  | Reasm.HFound fid flen b l' =>
      wch (hdr_prev (mfuel p l) p l) (snd (Reasm.fill (S (List.length l')) flen b l'))
  | _ => wch (hdr_prev (mfuel p l) p l) (hdr_rest (mfuel p l) p l)
  end.

Definition emb_frame_out_w (rs : pv) (o : Reasm.frame_out) : PyLite.res (pv * option pv) :=
  match o with
  | Reasm.FNone p l' => PyLite.Ok (PNone, Some (wch p l'))
  | Reasm.FFrame fid payload p l' =>
      PyLite.Ok (frame_obj (enum_id fid) payload (perr_obj "NOERR" 0), Some (wch p l'))
  | Reasm.FRaise w => ExcS w (self_st rs)
  | Reasm.FFuel => Fuel
  end.

Lemma read_frame_func_w n p l :
  call_func program (S (S (S (S (mfuel p l + n))))) CommHandler__read_frame [wch p l] [] =
  emb_frame_out_w (frame_raise_self_w p l) (Reasm.read_frame p l).
Proof.
  pystart. unfold Reasm.read_frame, frame_raise_self_w.
  change (S (List.length p + List.length (List.concat l) + List.length l)) with (mfuel p l).
  pose proof (read_hdr_inv (mfuel p l) p l) as [_ Hle];
    [unfold Reasm_proofs.nbytes, mfuel; lia|].
  assert (Hm : (List.length l < mfuel p l)%nat) by (unfold mfuel; lia).
  esteps; try reflexivity.
  lazymatch goal with
  | |- ?L = _ =>
      let h := head_of L in
      lazymatch h with
      | while_loop _ (call_func _ (S ?m)) ?lf _ _ ?k ?e1 =>
          let xs := eval cbv in v_fself in
          let xb := eval cbv in v_fbuf in
          let xh := eval cbv in v_fhdr in
          lazymatch e1 with
          | context [(xs, wch ?pp ?ll)] =>
          lazymatch e1 with
          | context [(xb, PBytes ?bb)] =>
          lazymatch e1 with
          | context [(xh, PObj "DParseHdr" [("fid", ?fidv); ("flen", PInt ?fl); ("err", ?er)])] =>
              destruct (fill_loop_w m lf fidv fl er ll k pp bb e1) as (e' & Hg' & HW & Hs' & Hb' & Hh');
                [lia | split; reflexivity | reflexivity | reflexivity | reflexivity |];
              names;
              pose proof (fill_inv (S (List.length ll)) fl bb ll) as Hfl;
              destruct (Reasm.fill (S (List.length ll)) fl bb ll) as [b2 l2] eqn:EF;
              cbn [fst snd] in Hs', Hb';
              fast_rw h (PyLite.Ok (ONorm e')) ltac:(exact HW)
          end end end
      end
  end; genv_split.
  esteps; reflexivity.
Qed.

#[local] Hint Resolve read_frame_func_w : pyspec.
#[local] Hint Unfold emb_frame_out_w : rp_model.
End Wide.

(** the hooks are global Ltac state: restore the defaults for whoever loads this file *)
Ltac py_stuck_hook h ::= fail.
Ltac py_unfold_hook ::= idtac.

Print Assumptions read_hdr_func_w.
Print Assumptions read_frame_func_w.

(** Device-side stream encoder (C15): empty samples are left out, no frame when
    nothing remains, and what the encoder packs for a sample is read back by the
    decoder's format as the same values. *)
From Coq Require Import Lia ZifyBool ZifyNat ZifyN String.
From NX Require Import Bytes PyStruct StructCanon Request Utf8 StreamTypes Rn53 Stream Bytes_proofs
  PyStruct_proofs Frame_proofs Stream_proofs.
From NX Require Gen_types.
Open Scope string_scope.
Open Scope list_scope.
Open Scope Z_scope.

Definition empty_sample (s : esample) : Prop := e_data s = [] /\ e_meta s = [].

Lemma encode_skip user s r : empty_sample s -> encode_samples user (s :: r) = encode_samples user r.
Proof. intros [H1 H2]. cbn [encode_samples]. rewrite H1, H2. reflexivity. Qed.

Lemma encode_all_empty user l : Forall empty_sample l -> encode_samples user l = Ok ([], 0).
Proof.
  induction 1 as [|s l Hs Hl IH]; [reflexivity|]. rewrite encode_skip by exact Hs. exact IH.
Qed.

Lemma gen_flags_byte : spack Gen_types.enc_flags_fmt [VInt 0] = Ok [0%N].
Proof. reflexivity. Qed.

(** if no sample carries data or metadata, no frame is produced *)
Theorem encode_none user l : Forall empty_sample l -> frame_stream_encode user l = Ok None.
Proof.
  intros H. unfold frame_stream_encode, stream_data_encode. rewrite gen_flags_byte. cbn [bind].
  rewrite encode_all_empty by exact H. reflexivity.
Qed.

(** the count returned by [encode_samples] is the number of non-empty samples *)
Lemma encode_count user l b n : encode_samples user l = Ok (b, n) ->
  n = Z.of_nat (List.length (filter (fun s => negb (is_nil (e_data s) && is_nil (e_meta s))) l)).
Proof.
  revert b n. induction l as [|s l IH]; intros b n H.
  - inversion H. reflexivity.
  - cbn [encode_samples] in H. cbn [filter].
    destruct (is_nil (e_data s) && is_nil (e_meta s)) eqn:E; cbn [negb].
    + eapply IH. exact H.
    + destruct (dsfmt_get (e_type s) user) as [[rw usr]| |]; try discriminate. cbn [bind] in H.
      destruct (stream_bytes_get rw usr s); try discriminate. cbn [bind] in H.
      match type of H with bind ?m _ = _ => destruct m; try discriminate end. cbn [bind] in H.
      destruct (encode_samples user l) as [[b' n']| |]; try discriminate. cbn [bind] in H.
      cbn [fst snd] in H. assert (Hn : n = 1 + n') by congruence.
      cbn [List.length]. pose proof (IH b' n' eq_refl) as E2. lia.
Qed.

(** a frame is produced iff some sample carries data or metadata (given that encoding succeeds) *)
Theorem encode_some user l b n :
  encode_samples user l = Ok (b, n) ->
  (exists s, In s l /\ ~ empty_sample s) ->
  stream_data_encode user l = Ok (Some (0%N :: b)).
Proof.
  intros H (s & Hin & Hne).
  unfold stream_data_encode. rewrite gen_flags_byte. cbn [bind]. rewrite H. cbn [bind fst snd].
  pose proof (encode_count user l b n H) as Hn.
  assert (Hpos : (0 < List.length (filter (fun s0 => negb (is_nil (e_data s0) && is_nil (e_meta s0))) l))%nat).
  { assert (Hf : In s (filter (fun s0 => negb (is_nil (e_data s0) && is_nil (e_meta s0))) l)).
    { apply filter_In. split; [exact Hin|]. unfold empty_sample in Hne.
      destruct (e_data s) eqn:Ed; destruct (e_meta s) eqn:Em; cbn; try reflexivity. exfalso; apply Hne; split; reflexivity. }
    destruct (filter _ l); [destruct Hf|cbn; lia]. }
  replace (n =? 0) with false by lia. reflexivity.
Qed.

(** the channel-id byte: "<B..." packs the id in front of what "<..." packs *)
Lemma parse_chan_prefix X its :
  parse_fmt ("<" ^^ X) = Some (mkFmt LE false its) ->
  parse_fmt ("<" ^^ "B" ^^ X) = Some (mkFmt LE false (mkItem 1 CB :: its)).
Proof.
  unfold parse_fmt. cbn [String.append list_ascii_of_string].
  destruct (parse_items (list_ascii_of_string X) None) as [l|] eqn:E; cbn [option_map]; [|discriminate].
  intros H. inversion H; subst. cbn [parse_items digit_of_ascii is_space code_of_ascii].
  rewrite E. reflexivity.
Qed.

Lemma pack_chan_cons e nat its chan vs b :
  pack (mkFmt e nat (mkItem 1 CB :: its)) (VInt chan :: vs) = Some b ->
  0 <= chan < 256 /\ exists db, b = Z.to_N chan :: db /\ pack (mkFmt e nat its) vs = Some db.
Proof.
  unfold pack. cbn [fend fitems pack_items pack_item icode icnt pack_many].
  destruct (Z_lt_ge_dec chan 0) as [Hneg|Hpos].
  { assert (E : pack_one e CB (VInt chan) = None).
    { unfold pack_one. cbn [int_of_value code_size code_signed]. unfold in_unsigned.
      replace ((0 <=? chan) && (chan <? Z.of_N (pow256 1))) with false by lia. reflexivity. }
    rewrite E. discriminate. }
  destruct (Z_lt_ge_dec chan 256) as [Hlt|Hge].
  - rewrite (pack_u8 e chan) by lia. cbn [app].
    destruct (pack_items e its vs) as [db|]; [|discriminate].
    intros H. inversion H. split; [lia|]. exists db. split; reflexivity.
  - assert (E : pack_one e CB (VInt chan) = None).
    { unfold pack_one. cbn [int_of_value code_size code_signed]. unfold in_unsigned.
      change (pow256 1) with 256%N.
      replace ((0 <=? chan) && (chan <? Z.of_N 256)) with false by lia. reflexivity. }
    rewrite E. discriminate.
Qed.

(** what the encoder packs for a sample's data is read back by the decoder's
    format as the same (canonical) values, with exactly calcsize bytes *)
Theorem data_roundtrip its chan vs b :
  pack (mkFmt LE false (mkItem 1 CB :: its)) (VInt chan :: vs) = Some b ->
  exists db, b = Z.to_N chan :: db /\
             unpack (mkFmt LE false its) db = Some (canon_items its vs) /\
             List.length db = calcsize (mkFmt LE false its).
Proof.
  intros H. destruct (pack_chan_cons _ _ _ _ _ _ H) as (_ & db & -> & Hp).
  exists db. split; [reflexivity|]. split.
  - apply (unpack_pack _ _ _ Hp).
  - apply (pack_length _ _ _ Hp).
Qed.

(** metadata: native-mode format on the device, "<" on the client: same items *)
Theorem meta_roundtrip its nat vs mb :
  pack (mkFmt LE nat its) vs = Some mb ->
  unpack (mkFmt LE false its) mb = Some (canon_items its vs) /\ List.length mb = calcsize (mkFmt LE false its).
Proof.
  intros H. assert (H' : pack (mkFmt LE false its) vs = Some mb) by exact H.
  split; [apply (unpack_pack _ _ _ H')|apply (pack_length _ _ _ H')].
Qed.

(** * integer samples on FLOAT / DOUBLE rows
    The simulated device puts Python ints on float channels; [num_value] hands
    them to struct.pack as they are and the 'f' / 'd' code converts them
    (float(z), for 'f' then narrowed to single).  So such a sample is not
    refused: it is packed as the float it rounds to, and the client's format
    reads that float's bit pattern back. *)
Theorem double_row_int e z : Z.abs z < 2 ^ 1023 ->
  exists b, Float.f64_of_int z = Some b /\
            pack_one e Cd (VInt z) = Some (enc e 8 (Z.to_N b)) /\
            unpack_one e Cd (enc e 8 (Z.to_N b)) = VF64 (Z.to_N b).
Proof.
  intros H. destruct (pack_d_int e z H) as (b & Hb & Hr & Hp & Hc).
  exists b. split; [exact Hb|]. split; [exact Hp|].
  rewrite (unpack_pack_one _ _ _ _ Hp). exact Hc.
Qed.

(** (the integers a double holds exactly; larger ones are first rounded to a double) *)
Theorem float_row_int e z : Z.abs z <= 2 ^ 53 ->
  exists b, Float.f32_encode z 0 = Some b /\
            pack_one e Cf (VInt z) = Some (enc e 4 (Z.to_N b)) /\
            unpack_one e Cf (enc e 4 (Z.to_N b)) = VF32 (Z.to_N b).
Proof.
  intros H. destruct (pack_f_int e z H) as (b & Hb & Hr & Hp & Hc).
  exists b. split; [exact Hb|]. split; [exact Hp|].
  rewrite (unpack_pack_one _ _ _ _ Hp). exact Hc.
Qed.

(** worked instance: ints 5, -1 on a FLOAT channel (type 10) and 5 on a DOUBLE
    channel (type 11, one metadata byte), encoded by the device and decoded by
    the client: 5.0f = 0x40a00000, -1.0f = 0xbf800000, 5.0 = 0x4014000000000000 *)
Example float_rows_example :
  stream_data_encode [] [mkESample 3 10 2 0 [EVInt 5; EVInt (-1)] []; mkESample 4 11 1 1 [EVInt 5] [7]] =
  Ok (Some [0; 3; 0; 0; 160; 64; 0; 0; 128; 191; 4; 0; 0; 0; 0; 0; 0; 20; 64; 7]%N) /\
  stream_decode [mkChanL 3 1 0 0; mkChanL 3 1 0 1; mkChanL 3 1 0 2; mkChanL 10 2 0 3; mkChanL 11 1 1 4] []
    [0; 3; 0; 0; 160; 64; 0; 0; 128; 191; 4; 0; 0; 0; 0; 0; 0; 20; 64; 7]%N =
  Ok (Some (0, [mkSample 3 1 2 0 [SVF32 1084227584; SVF32 3212836864] [];
                mkSample 4 1 1 1 [SVF64 4617315517961601024] [SVInt 7]])).
Proof. vm_compute. split; reflexivity. Qed.

Print Assumptions double_row_int.
Print Assumptions float_row_int.

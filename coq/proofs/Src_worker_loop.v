(** [ThreadCommon._thread_loop] (nxslib/thread.py) as INTERPRETED SOURCE, run
    sequentially with a scripted stop flag ([SimEvent.is_set] answers from a
    script) and counting callbacks ([SimCb], which can be told to raise at a
    given call).

    The model of the run IS the hand model's worker: [wrun] iterates
    [Worker.wstep] from [WInit], executing at each program counter the effect
    of that source line on the stub state ([line]).  Theorem
    [worker_loop_refines]: the interpreted method computes exactly that, for
    every stub state and every fuel >= (number of worker steps) + 3. *)
From Coq Require Import String Ascii List ZArith NArith Bool Lia ZifyBool Wf_nat.
From NX Require Import Bytes PyLite PyLite_tactics Src_thread Src_prelude Src_all.
From NX Require Import Worker Src_worker_base.
Import ListNotations.
Open Scope string_scope.
Open Scope Z_scope.

(** * The worker's view of the object *)
(** a callback: (calls so far, the call number at which it raises) *)
Record ws := mkWs
  { w_t : Z * Z;                 (* target *)
    w_i : option (Z * Z);        (* init, if present *)
    w_fi : option (Z * Z);       (* final, if present *)
    w_fl : bool;                 (* the flag *)
    w_sc : list bool }.          (* the answers [is_set] will give *)

Definition ocb (o : option (Z * Z)) : pv := match o with Some c => cb (fst c) (snd c) | None => PNone end.

(** the handle [h] and the name [nm] are not looked at by the loop: any values *)
Definition wk (x : ws) (h nm : pv) : pv :=
  tc (cb (fst (w_t x)) (snd (w_t x))) (ocb (w_i x)) (ocb (w_fi x)) h (ev (w_fl x) (w_sc x)) nm.

(** * The lines of [_thread_loop], by the model's program counter *)
Definition bump (c : Z * Z) : Z * Z := (fst c + 1, snd c).
Definition fails (c : Z * Z) : bool := fst c + 1 =? snd c.

(** effect of the line at [p]: the state after it, the flag value read (at
    [WTest]; [false] elsewhere), whether the line raised *)
Definition line (p : wpc) (x : ws) : ws * bool * bool :=
  match p with
  | WInit =>       (* if self._init: self._init() *)
      match w_i x with
      | Some c => (mkWs (w_t x) (Some (bump c)) (w_fi x) (w_fl x) (w_sc x), false, fails c)
      | None => (x, false, false)
      end
  | WTest =>       (* while not self._stop_is_set() *)
      (mkWs (w_t x) (w_i x) (w_fi x) (w_fl x) (tl (w_sc x)), ev_answer (w_fl x) (w_sc x), false)
  | WTarget =>     (* self._target() *)
      (mkWs (bump (w_t x)) (w_i x) (w_fi x) (w_fl x) (w_sc x), false, fails (w_t x))
  | WFinal =>      (* if self._final: self._final() *)
      match w_fi x with
      | Some c => (mkWs (w_t x) (w_i x) (Some (bump c)) (w_fl x) (w_sc x), false, fails c)
      | None => (x, false, false)
      end
  | WCreated | WDone => (x, false, false)
  end.

Inductive outcome := Done (x : ws) | Raised (x : ws) | OutOfFuel.

(** the worker of model/Worker.v, executing the lines: [k] bounds the number of steps *)
Fixpoint wrun (k : nat) (p : wpc) (x : ws) : outcome :=
  match k with
  | O => OutOfFuel
  | S k' =>
      let '(x', b, r) := line p x in
      if r then Raised x'
      else match wstep b p with
           | Some p' => wrun k' p' x'
           | None => Done x'
           end
  end.

(** the program counters visited (the [wstep] sequence itself) *)
Fixpoint wtrace (k : nat) (p : wpc) (x : ws) : list wpc :=
  match k with
  | O => []
  | S k' =>
      let '(x', b, r) := line p x in
      p :: (if r then []
            else match wstep b p with
                 | Some p' => wtrace k' p' x'
                 | None => []
                 end)
  end.

(** * The same run, by the structure of the source (what the interpreter is compared with) *)
Definition line_out (p : wpc) (x : ws) : outcome :=
  let '(x', _, r) := line p x in if r then Raised x' else Done x'.
Definition after (o : outcome) (f : ws -> outcome) : outcome := match o with Done x => f x | o' => o' end.

Fixpoint loop_model (j : nat) (x : ws) : outcome :=
  match j with
  | O => OutOfFuel
  | S j' =>
      let x1 := fst (fst (line WTest x)) in
      if ev_answer (w_fl x) (w_sc x) then Done x1
      else if fails (w_t x1) then Raised (fst (fst (line WTarget x1)))
      else loop_model j' (fst (fst (line WTarget x1)))
  end.

Definition body_model (j : nat) (x : ws) : outcome :=
  after (line_out WInit x) (fun x1 => after (loop_model j x1) (line_out WFinal)).

Lemma wrun_test_body : forall k x r,
  wrun k WTest x = r -> r <> OutOfFuel ->
  forall j, (k <= j)%nat -> after (loop_model j x) (line_out WFinal) = r.
Proof.
  induction k as [k IH] using lt_wf_ind. intros x r H NF j Hj.
  destruct k as [|k1]; [cbn in H; congruence|].
  destruct j as [|j1]; [lia|].
  cbn [wrun line] in H. cbn [loop_model line fst].
  destruct (ev_answer (w_fl x) (w_sc x)) eqn:A; cbn [wstep] in H.
  - (* the flag is seen set: final, done *)
    cbn [after]. destruct k1 as [|k2]; [cbn in H; congruence|].
    unfold line_out. cbn [wrun] in H.
    destruct (line WFinal _) as [[x2 b2] r2]. destruct r2; [exact H|].
    cbn [wstep] in H. destruct k2 as [|k3]; [cbn in H; congruence|]. cbn in H. exact H.
  - destruct k1 as [|k2]; [cbn in H; congruence|].
    cbn [wrun line] in H.
    destruct (fails (w_t _)) eqn:F.
    + cbn [after]. exact H.
    + cbn [wstep] in H. eapply IH; [|exact H|exact NF|]; lia.
Qed.

Lemma wrun_body k x r :
  wrun k WInit x = r -> r <> OutOfFuel -> forall j, (k <= j)%nat -> body_model j x = r.
Proof.
  intros H NF j Hj. destruct k as [|k1]; [cbn in H; congruence|].
  unfold body_model, line_out. cbn [wrun] in H.
  destruct (line WInit x) as [[x1 b1] r1]. destruct r1; [exact H|].
  cbn [wstep after] in H |- *. eapply wrun_test_body; [exact H|exact NF|lia].
Qed.

(** * The interpreter *)
Fixpoint nth_stmt (k : nat) (ss : stmts) : stmt :=
  match ss, k with
  | Scons s _, O => s
  | Scons _ r, S k' => nth_stmt k' r
  | Snil, _ => SPass
  end.
Definition while_c (s : stmt) : expr := match s with SWhile c _ => c | _ => EConst PNone end.
Definition while_b (s : stmt) : stmts := match s with SWhile _ b => b | _ => Snil end.
Definition param0 (f : func) : string := match f_params f with (x, _) :: _ => x | [] => "" end.

(** the loop statement and the name of the receiver, computed from the AST *)
Definition wl : stmt := nth_stmt 1 (f_body ThreadCommon__thread_loop).
Definition v_self : string := Eval cbv in param0 ThreadCommon__thread_loop.

#[global] Hint Unfold ocb wk : wk_model.
Ltac py_unfold_hook ::= autounfold with wk_model.

Definition emb_loop (h nm : pv) (o : outcome) : PyLite.res out :=
  match o with
  | Done x' => PyLite.Ok (ONorm [(v_self, wk x' h nm)])
  | Raised x' => ExcS "RuntimeError" [(v_self, wk x' h nm)]
  | OutOfFuel => Fuel
  end.

Lemma loop_lemma m lf h nm : forall j x,
  while_loop program (call_func program (S (S m))) lf (while_c wl) (while_b wl) j [(v_self, wk x h nm)] =
  emb_loop h nm (loop_model j x).
Proof.
  induction j as [|j IH]; intros x; [reflexivity|].
  destruct x as [[tcn tfl] i fi fl sc].
  specialize (IH (mkWs (tcn + 1, tfl) i fi fl (tl sc))).
  cbv [wl nth_stmt while_c while_b f_body ThreadCommon__thread_loop] in *.
  rewrite while_loop_S. cbn [loop_model line fst snd w_t w_i w_fi w_fl w_sc].
  unfold fails, bump in *. cbn [fst snd] in *.
  unfold v_self in *. unfold wk at 1. cbn [w_t w_i w_fi w_fl w_sc fst snd].
  destruct (ev_answer fl sc) eqn:A; [|destruct (tcn + 1 =? tfl) eqn:F]; timeout 600 pysteps.
  - reflexivity.
  - reflexivity.
  - etransitivity; [|exact IH]. reflexivity.
Qed.

Lemma loop_model_S j x :
  loop_model (S j) x =
  let x1 := fst (fst (line WTest x)) in
  if ev_answer (w_fl x) (w_sc x) then Done x1
  else if fails (w_t x1) then Raised (fst (fst (line WTarget x1)))
  else loop_model j (fst (fst (line WTarget x1))).
Proof. reflexivity. Qed.
#[local] Arguments loop_model : simpl never.

Definition emb_out (h nm : pv) (o : outcome) : PyLite.res (pv * option pv) :=
  match o with
  | Done x' => PyLite.Ok (PNone, Some (wk x' h nm))
  | Raised x' => ExcS "RuntimeError" (self_st (wk x' h nm))
  | OutOfFuel => Fuel
  end.

Ltac loop_env x h nm :=
  lazymatch goal with
  | |- context [while_loop ?P ?cf ?lf ?cc ?b ?k ?e] =>
      change (while_loop P cf lf cc b k e) with (while_loop P cf lf (while_c wl) (while_b wl) k [(v_self, wk x h nm)])
  end.

(** the last statement: [if self._final: self._final()] from the state the loop leaves *)
Lemma final_part m lf x h nm :
  match exec_block program (call_func program (S (S m))) lf [(v_self, wk x h nm)]
          (Scons (nth_stmt 2 (f_body ThreadCommon__thread_loop)) Snil) with
  | PyLite.Ok (ONorm e') => PyLite.Ok (PNone, lookup v_self e')
  | PyLite.Ok (ORet v e') => PyLite.Ok (v, lookup v_self e')
  | PyLite.Ok (OBrk _) | PyLite.Ok (OCont _) => Unsupported "break outside loop"
  | Exc c => Exc c
  | ExcS c e' => ExcS c (self_state ThreadCommon__thread_loop e')
  | Fuel => Fuel
  | Unsupported w => Unsupported w
  end = emb_out h nm (line_out WFinal x).
Proof.
  destruct x as [[tcn tfl] i fi fl sc]. unfold line_out, v_self, wk.
  cbv [nth_stmt f_body ThreadCommon__thread_loop].
  destruct fi as [[fcn ffl]|]; cbn [ocb line w_t w_i w_fi w_fl w_sc fst snd]; unfold fails, bump; cbn [fst snd].
  - destruct (fcn + 1 =? ffl) eqn:Ff; timeout 600 pysteps; reflexivity.
  - timeout 600 pysteps. reflexivity.
Qed.

Lemma thread_loop_func m x h nm :
  call_func program (S (S (S m))) ThreadCommon__thread_loop [wk x h nm] [] =
  emb_out h nm (body_model (S (S m)) x).
Proof.
  destruct x as [[tcn tfl] i fi fl sc]. pystart. unfold body_model, line_out.
  destruct i as [[icn ifl]|]; cbn [line w_t w_i w_fi w_fl w_sc fst snd]; unfold fails at 1, bump at 1; cbn [fst snd].
  - unfold wk at 1. cbn [w_t w_i w_fi w_fl w_sc fst snd ocb].
    destruct (icn + 1 =? ifl) eqn:Fi; timeout 600 pysteps; [reflexivity|].
    loop_env (mkWs (tcn, tfl) (Some (icn + 1, ifl)) fi fl sc) h nm.
    rewrite loop_lemma. cbn [after].
    destruct (loop_model (S (S m)) _) as [x'|x'|]; cbn [emb_loop after emb_out bind];
      [|timeout 600 pysteps; reflexivity|reflexivity].
    apply (final_part m (S (S m)) x' h nm).
  - unfold wk at 1. cbn [w_t w_i w_fi w_fl w_sc fst snd ocb].
    timeout 600 pysteps.
    loop_env (mkWs (tcn, tfl) None fi fl sc) h nm.
    rewrite loop_lemma. cbn [after].
    destruct (loop_model (S (S m)) _) as [x'|x'|]; cbn [emb_loop after emb_out bind];
      [|timeout 600 pysteps; reflexivity|reflexivity].
    apply (final_part m (S (S m)) x' h nm).
Qed.

(** * The theorem *)
Definition emb_res (h nm : pv) (o : outcome) : PyLite.res (pv * pv) :=
  match o with
  | Done x' => PyLite.Ok (PNone, wk x' h nm)
  | Raised _ => Exc "RuntimeError"
  | OutOfFuel => Fuel
  end.

Lemma loop_entry F x h nm :
  call_method_value program (call_func program F) (wk x h nm) "_thread_loop" [] [] =
  match call_func program F ThreadCommon__thread_loop [wk x h nm] [] with
  | PyLite.Ok r => PyLite.Ok (fst r, match snd r with Some s => s | None => wk x h nm end)
  | Exc c => Exc c
  | ExcS c st => ExcS c st
  | Fuel => Fuel
  | Unsupported w => Unsupported w
  end.
Proof. apply call_method_value_obj; reflexivity. Qed.

(** with the state at the raise (the form callers rewrite with) *)
Theorem worker_loop_refines_func k x h nm n :
  wrun k WInit x <> OutOfFuel -> (k <= n)%nat ->
  call_func program (3 + n) ThreadCommon__thread_loop [wk x h nm] [] = emb_out h nm (wrun k WInit x).
Proof.
  intros NF Hk. cbn [Nat.add]. rewrite thread_loop_func.
  rewrite (wrun_body k x _ eq_refl NF (S (S n))) by lia. reflexivity.
Qed.

(** the interpreted [_thread_loop] executes exactly the model worker's step
    sequence [WInit, WTest, (WTarget, WTest)*, WFinal, WDone] with the effect
    of each source line on the callbacks and the flag script: for EVERY stub
    state, whenever [k] worker steps suffice, for all fuel >= k + 3 *)
Theorem worker_loop_refines k x h nm n :
  wrun k WInit x <> OutOfFuel -> (k + 3 <= n)%nat ->
  call_method program n (wk x h nm) "_thread_loop" [] = emb_res h nm (wrun k WInit x).
Proof.
  intros NF Hk. replace n with (3 + (n - 3))%nat by lia.
  pose proof (worker_loop_refines_func k x h nm (n - 3) NF ltac:(lia)) as H.
  unfold call_method. cbn [Nat.add] in *.
  rewrite (loop_entry (S (S (S (n - 3))))).
  rewrite H. destruct (wrun k WInit x); reflexivity.
Qed.

(** * Closed forms *)
(** a script of [k] times False, then True, and no callback is told to fail
    within this run: init once iff present, target exactly [k] times, final
    once iff present; [2k + 4] worker steps *)
Definition obump (o : option (Z * Z)) : option (Z * Z) := option_map bump o.
Definition ofails (o : option (Z * Z)) : bool := match o with Some c => fails c | None => false end.

Fixpoint target_ok (k : nat) (c : Z * Z) : bool :=
  match k with O => true | S k' => negb (fails c) && target_ok k' (bump c) end.

Lemma wrun_test_closed : forall k t i fi fl rest,
  target_ok k t = true -> ofails fi = false ->
  wrun (2 * k + 3) WTest (mkWs t i fi fl (repeat false k ++ true :: rest)) =
  Done (mkWs (fst t + Z.of_nat k, snd t) i (obump fi) fl rest).
Proof.
  induction k as [|k IH]; intros t i fi fl rest Ht Hf.
  - cbn [repeat app Nat.mul Nat.add wrun line ev_answer w_fl w_sc w_t w_i w_fi tl wstep].
    destruct fi as [c|]; cbn [ofails obump option_map] in *.
    + rewrite Hf. cbn [wstep wrun line]. rewrite Z.add_0_r. destruct t; reflexivity.
    + cbn [wstep wrun line]. rewrite Z.add_0_r. destruct t; reflexivity.
  - replace (2 * S k + 3)%nat with (S (S (2 * k + 3))) by lia.
    cbn [target_ok] in Ht. apply andb_prop in Ht. destruct Ht as [Ht1 Ht2]. apply negb_true_iff in Ht1.
    cbn [repeat app wrun line ev_answer w_fl w_sc w_t w_i w_fi tl wstep].
    rewrite Ht1. cbn [wstep]. rewrite (IH (bump t) i fi fl rest Ht2 Hf).
    unfold bump. cbn [fst snd]. do 2 f_equal. f_equal. lia.
Qed.

Lemma wrun_closed k t i fi fl rest :
  ofails i = false -> target_ok k t = true -> ofails fi = false ->
  wrun (2 * k + 4) WInit (mkWs t i fi fl (repeat false k ++ true :: rest)) =
  Done (mkWs (fst t + Z.of_nat k, snd t) (obump i) (obump fi) fl rest).
Proof.
  intros Hi Ht Hf. replace (2 * k + 4)%nat with (S (2 * k + 3)) by lia.
  cbn [wrun line w_i].
  destruct i as [c|]; cbn [ofails obump option_map] in *.
  - rewrite Hi. cbn [wstep]. apply wrun_test_closed; assumption.
  - cbn [wstep]. apply wrun_test_closed; assumption.
Qed.

(** callbacks that never fail *)
Lemma target_ok_never k c : snd c = 0 -> 0 <= fst c -> target_ok k c = true.
Proof.
  revert c. induction k as [|k IH]; intros [a b] Hb Ha; [reflexivity|].
  cbn [target_ok fst snd] in *. subst b. unfold fails. cbn [fst snd].
  replace (a + 1 =? 0) with false by lia. cbn [negb andb]. apply IH; cbn [bump fst snd]; lia.
Qed.

Theorem thread_loop_counts k n tc ic fc fl rest h nm :
  0 <= tc -> (2 * k + 7 <= n)%nat ->
  let cnt (o : option Z) := option_map (fun c => (c, 0)) o in
  let cnt' (o : option Z) := option_map (fun c => (c + 1, 0)) o in
  (forall c, ic = Some c -> 0 <= c) -> (forall c, fc = Some c -> 0 <= c) ->
  call_method program n (wk (mkWs (tc, 0) (cnt ic) (cnt fc) fl (repeat false k ++ true :: rest)) h nm) "_thread_loop" [] =
  PyLite.Ok (PNone, wk (mkWs (tc + Z.of_nat k, 0) (cnt' ic) (cnt' fc) fl rest) h nm).
Proof.
  intros Htc Hn cnt cnt' Hic Hfc.
  assert (W : wrun (2 * k + 4) WInit (mkWs (tc, 0) (cnt ic) (cnt fc) fl (repeat false k ++ true :: rest)) =
              Done (mkWs (tc + Z.of_nat k, 0) (cnt' ic) (cnt' fc) fl rest)).
  { rewrite wrun_closed.
    - cbn [fst snd]. subst cnt cnt'. destruct ic, fc; reflexivity.
    - subst cnt. destruct ic as [c|]; [|reflexivity]. cbn. specialize (Hic c eq_refl). unfold fails. cbn [fst snd]. lia.
    - apply target_ok_never; cbn [fst snd]; lia.
    - subst cnt. destruct fc as [c|]; [|reflexivity]. cbn. specialize (Hfc c eq_refl). unfold fails. cbn [fst snd]. lia. }
  rewrite (worker_loop_refines (2 * k + 4)); [rewrite W; reflexivity | rewrite W; discriminate | lia].
Qed.

(** the program counters visited in that run *)
Lemma wtrace_closed_test : forall k t i fi fl rest,
  target_ok k t = true -> ofails fi = false ->
  wtrace (2 * k + 3) WTest (mkWs t i fi fl (repeat false k ++ true :: rest)) =
  (List.concat (repeat [WTest; WTarget] k) ++ [WTest; WFinal; WDone])%list.
Proof.
  induction k as [|k IH]; intros t i fi fl rest Ht Hf.
  - cbn [repeat app Nat.mul Nat.add wtrace line ev_answer w_fl w_sc w_t w_i w_fi tl wstep List.concat].
    destruct fi as [c|]; cbn [ofails] in *; [rewrite Hf|]; reflexivity.
  - replace (2 * S k + 3)%nat with (S (S (2 * k + 3))) by lia.
    cbn [target_ok] in Ht. apply andb_prop in Ht. destruct Ht as [Ht1 Ht2]. apply negb_true_iff in Ht1.
    cbn [repeat app wtrace line ev_answer w_fl w_sc w_t w_i w_fi tl wstep List.concat].
    rewrite Ht1. cbn [wstep]. rewrite (IH (bump t) i fi fl rest Ht2 Hf). reflexivity.
Qed.

(** * An exception of init / target propagates; final is NOT called *)
(** init raises at this call: nothing else happens -- the flag is not even tested *)
Theorem thread_loop_init_raises n t c fi fl sc h nm :
  fails c = true ->
  call_func program (4 + n) ThreadCommon__thread_loop [wk (mkWs t (Some c) fi fl sc) h nm] [] =
  ExcS "RuntimeError" (self_st (wk (mkWs t (Some (bump c)) fi fl sc) h nm)).
Proof.
  intros F. change (4 + n)%nat with (3 + S n)%nat. rewrite (worker_loop_refines_func 1); [|cbn [wrun line w_i]; rewrite F; discriminate|lia].
  cbn [wrun line w_i w_t w_fi w_fl w_sc]. rewrite F. reflexivity.
Qed.

(** target raises at its [j+1]-th call of this run ([j] False answers consumed
    before, one more for the iteration that raises): the counter shows [j+1]
    calls, init has run, final has NOT, the rest of the script is untouched *)
Lemma wrun_test_target_raises : forall j t i fi fl rest,
  target_ok j t = true -> fails (fst t + Z.of_nat j, snd t) = true ->
  wrun (2 * j + 2) WTest (mkWs t i fi fl (repeat false (S j) ++ rest)) =
  Raised (mkWs (fst t + Z.of_nat j + 1, snd t) i fi fl rest).
Proof.
  induction j as [|j IH]; intros t i fi fl rest Ht F.
  - cbn [repeat app Nat.mul Nat.add wrun line ev_answer w_fl w_sc w_t w_i w_fi tl wstep].
    rewrite Z.add_0_r in F. destruct t as [a b]. cbn [fst snd] in *. rewrite F.
    unfold bump. cbn [fst snd]. rewrite Z.add_0_r. reflexivity.
  - replace (2 * S j + 2)%nat with (S (S (2 * j + 2))) by lia.
    cbn [target_ok] in Ht. apply andb_prop in Ht. destruct Ht as [Ht1 Ht2]. apply negb_true_iff in Ht1.
    change (repeat false (S (S j)) ++ rest)%list with (false :: (repeat false (S j) ++ rest))%list.
    cbn [wrun line ev_answer w_fl w_sc w_t w_i w_fi tl wstep].
    rewrite Ht1. cbn [wstep]. rewrite (IH (bump t) i fi fl rest Ht2).
    + unfold bump. cbn [fst snd]. do 2 f_equal. f_equal. lia.
    + unfold bump. cbn [fst snd]. rewrite <- F. f_equal. f_equal. lia.
Qed.

Theorem thread_loop_target_raises n j t i fi fl rest h nm :
  ofails i = false -> target_ok j t = true -> fails (fst t + Z.of_nat j, snd t) = true ->
  (2 * j + 3 <= n)%nat ->
  call_func program (3 + n) ThreadCommon__thread_loop [wk (mkWs t i fi fl (repeat false (S j) ++ rest)) h nm] [] =
  ExcS "RuntimeError" (self_st (wk (mkWs (fst t + Z.of_nat j + 1, snd t) (obump i) fi fl rest) h nm)).
Proof.
  intros Hi Ht F Hn.
  assert (W : wrun (2 * j + 3) WInit (mkWs t i fi fl (repeat false (S j) ++ rest)) =
              Raised (mkWs (fst t + Z.of_nat j + 1, snd t) (obump i) fi fl rest)).
  { replace (2 * j + 3)%nat with (S (2 * j + 2)) by lia. cbn [wrun line w_i].
    destruct i as [c|]; cbn [ofails obump option_map] in *.
    - rewrite Hi. cbn [wstep]. apply wrun_test_target_raises; assumption.
    - cbn [wstep]. apply wrun_test_target_raises; assumption. }
  rewrite (worker_loop_refines_func (2 * j + 3)); [rewrite W; reflexivity | rewrite W; discriminate | lia].
Qed.

(** * Never stopping: all answers False, the flag not set -- out of fuel for every fuel *)
Lemma loop_model_never : forall j t i fi sc,
  snd t = 0 -> 0 <= fst t -> forallb negb sc = true ->
  loop_model j (mkWs t i fi false sc) = OutOfFuel.
Proof.
  induction j as [|j IH]; intros [a b] i fi sc Hb Ha Hs; [reflexivity|].
  cbn [fst snd] in *. subst b.
  rewrite loop_model_S. cbn [line fst snd w_t w_i w_fi w_fl w_sc].
  assert (A : ev_answer false sc = false).
  { destruct sc as [|x r]; [reflexivity|]. cbn [forallb ev_answer] in *. apply andb_prop in Hs. destruct Hs as [Hx _].
    destruct x; [discriminate|reflexivity]. }
  rewrite A. unfold fails. cbn [fst snd]. replace (a + 1 =? 0) with false by lia.
  apply IH; cbn [bump fst snd]; try lia.
  destruct sc as [|x r]; [reflexivity|]. cbn [forallb tl] in *. apply andb_prop in Hs. apply Hs.
Qed.

Theorem thread_loop_never_stops n tc ic fi sc h nm :
  0 <= tc -> (forall c, ic = Some c -> 0 <= c) -> forallb negb sc = true ->
  call_method program (3 + n) (wk (mkWs (tc, 0) (option_map (fun c => (c, 0)) ic) fi false sc) h nm) "_thread_loop" [] = Fuel.
Proof.
  intros Htc Hic Hs. unfold call_method. cbn [Nat.add].
  rewrite loop_entry, thread_loop_func. unfold body_model, line_out.
  destruct ic as [c|]; cbn [option_map line w_i w_t w_fi w_fl w_sc].
  - specialize (Hic c eq_refl). unfold fails. cbn [fst snd]. replace (c + 1 =? 0) with false by lia.
    cbn [after]. rewrite loop_model_never; cbn [fst snd bump]; try lia; try assumption; reflexivity.
  - cbn [after]. rewrite loop_model_never; cbn [fst snd]; try lia; try assumption; reflexivity.
Qed.

(** * Non-vacuity *)
Example loop_ex :
  call_method program 20 (wk (mkWs (0, 0) (Some (0, 0)) (Some (0, 0)) false [false; false; false; true; false]) PNone PNone)
    "_thread_loop" [] =
  PyLite.Ok (PNone, wk (mkWs (3, 0) (Some (1, 0)) (Some (1, 0)) false [false]) PNone PNone).
Proof. vm_compute. reflexivity. Qed.
Example loop_ex_model :
  wrun 10 WInit (mkWs (0, 0) (Some (0, 0)) (Some (0, 0)) false [false; false; false; true; false]) =
  Done (mkWs (3, 0) (Some (1, 0)) (Some (1, 0)) false [false]).
Proof. vm_compute. reflexivity. Qed.
Example loop_ex_trace :
  wtrace 10 WInit (mkWs (0, 0) (Some (0, 0)) None false [false; true]) =
  [WInit; WTest; WTarget; WTest; WFinal; WDone].
Proof. vm_compute. reflexivity. Qed.
(** no init, no final; the exhausted script lets the flag answer *)
Example loop_ex_flag :
  call_method program 20 (wk (mkWs (5, 0) None None true []) PNone PNone) "_thread_loop" [] =
  PyLite.Ok (PNone, wk (mkWs (5, 0) None None true []) PNone PNone).
Proof. vm_compute. reflexivity. Qed.
(** target raises at its 2nd call: final not called *)
Example loop_ex_raise :
  call_func program 20 ThreadCommon__thread_loop
    [wk (mkWs (0, 2) (Some (0, 0)) (Some (0, 0)) false [false; false; false; true]) PNone PNone] [] =
  ExcS "RuntimeError" (self_st (wk (mkWs (2, 2) (Some (1, 0)) (Some (0, 0)) false [false; true]) PNone PNone)).
Proof. vm_compute. reflexivity. Qed.
Example loop_ex_init_raise :
  call_func program 20 ThreadCommon__thread_loop
    [wk (mkWs (0, 0) (Some (0, 1)) (Some (0, 0)) false [true]) PNone PNone] [] =
  ExcS "RuntimeError" (self_st (wk (mkWs (0, 0) (Some (1, 1)) (Some (0, 0)) false [true]) PNone PNone)).
Proof. vm_compute. reflexivity. Qed.
Example loop_ex_fuel :
  call_method program 30 (wk (mkWs (0, 0) None None false [false; false]) PNone PNone) "_thread_loop" [] = Fuel.
Proof. vm_compute. reflexivity. Qed.

Ltac py_stuck_hook h ::= fail.
Ltac py_unfold_hook ::= idtac.

(** * Audit *)
Print Assumptions worker_loop_refines.
Print Assumptions worker_loop_refines_func.
Print Assumptions thread_loop_counts.
Print Assumptions wtrace_closed_test.
Print Assumptions thread_loop_init_raises.
Print Assumptions thread_loop_target_raises.
Print Assumptions thread_loop_never_stops.

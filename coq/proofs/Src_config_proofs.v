(** Buffered channel configuration of nxslib.comm.CommHandler, INTERPRETED
    SOURCE against model/Config.v -- part 4 of 4: the theorems at the entry
    point [call_method], and against the model.

    1. setters/readers: [ch_*_spec] (Python's index rules), [ch_*_model]
       (in range = [Config.step]), the out-of-range / negative-index /
       channel-count differences;
    2. [_get_ack]: [get_ack_spec] (any script), [get_ack_answer] (the model's
       answers), [get_ack_kinds], [get_ack_unsupported];
    3. [_nxslib_channels_enable/_div]: [*_spec] (= [src_write_*], any script),
       [*_model] (= [Config.write_enable]/[write_div] on the client, the bytes
       of the request the model chooses written, the answer's items consumed,
       the mirror updated iff the model says ok);
    4. [channels_write]: [channels_write_spec], [channels_write_model_div],
       [channels_write_model_nodiv], [channels_write_model] (= [Config.step ..
       (OpWrite a1 a2)], no hypothesis on the builders: 1..255 channels,
       dividers in 0..255);
    D1-D4: differences between model and source, each with its input. *)
From Coq Require Import String Ascii List ZArith NArith Bool Lia ZifyBool.
From NX Require Import Bytes PyStruct Crc PyLite PyLite_tactics PyLite_tactics_ext
  Src_dev Src_iparse Src_parse Src_comm Src_prelude Src_all
  Src_serialframe_proofs Src_parse_req_lemmas Src_records_proofs
  Src_config_base Src_config_req Src_config_write.
From NX Require Src_parse_req_proofs Src_info_proofs.
From NX Require Frame Request Info Info_proofs PyStruct_proofs Request_proofs Config Config_proofs Gen_frame Gen_req.
Import ListNotations.
Open Scope string_scope.
Open Scope Z_scope.

#[local] Hint Unfold pa RQ.pa IN.pa sf chans_obj intf_obj queue_obj comm
  dev_obj dev_obj' IN.ack_obj frame_obj perr_obj item_pv emb_ack emb_req
  emb_wres write_step src_write_enable src_write_div src_write IN.emb_opt RQ.emb_f : cfg_model.
Ltac py_unfold_hook ::= autounfold with cfg_model.
#[local] Arguments norm_index : simpl never.
#[local] Arguments enum_id : simpl never.
#[local] Arguments dev_rec : simpl never.
#[local] Arguments div_sup : simpl never.
#[local] Arguments ack_sup : simpl never.
#[local] Arguments set_at : simpl never.
#[local] Arguments is_none !x /.
#[local] Arguments ack_step : simpl never.
#[local] Arguments Request.frame_enable : simpl never.
#[local] Arguments Request.frame_div : simpl never.
#[local] Arguments Request.frame_start : simpl never.
#[local] Arguments Info.frame_ack_decode : simpl never.
Ltac py_stuck_hook h ::=
  lazymatch h with
  | norm_index (List.length (map _ _)) _ => rewrite map_length
  | get_attr _ _ (dev_rec _ _ _) "chmax" => rewrite dev_rec_chmax
  | get_attr _ _ (dev_rec _ _ _) "div_supported" => rewrite dev_rec_div
  | get_attr _ _ (dev_rec _ _ _) "ack_supported" => rewrite dev_rec_ack
  end.

(** * The answers of the model as script items *)
Definition ack_payload (r : Z) : bytes :=
  match pack (mkFmt LE true [mkItem 1 Ci]) [VInt r] with Some b => b | None => [] end.

Lemma ack_payload_decode r :
  Info_proofs.i32 r ->
  Info.frame_ack_decode 4 (ack_payload r) = Frame.Ok (Some (if r =? 0 then (true, 0) else (false, r))).
Proof.
  unfold Info_proofs.i32. intros Hr.
  assert (Hin : in_signed 4 r = true).
  { unfold in_signed. change (pow256 4) with 4294967296%N. lia. }
  destruct (PyStruct_proofs.pack_ints_ok LE Ci 1 [r] eq_refl eq_refl) as (b & Hb & Hub).
  { constructor; [exact Hin|constructor]. }
  cbn [map] in Hb, Hub.
  assert (Hlen : List.length b = 4%nat).
  { pose proof (PyStruct_proofs.pack_many_length LE Ci 1 [VInt r] b [] Hb) as L. exact L. }
  assert (Hwf : wf_bytes b) by (apply (PyStruct_proofs.pack_many_wf LE Ci 1 [VInt r] b [] Hb)).
  assert (Hp : ack_payload r = b).
  { unfold ack_payload, pack. cbn [fend fitems pack_items pack_item icode icnt]. rewrite Hb. rewrite app_nil_r. reflexivity. }
  rewrite Hp.
  unfold Info.frame_ack_decode. change (Frame.id_of "ACK") with 4. cbn [Z.eqb Pos.eqb negb].
  unfold Request.sunpack. rewrite Info_proofs.gen_ack_dec_fmt. unfold unpack.
  cbn [calcsize fitems fold_right item_size icnt icode code_size Nat.mul Nat.add].
  rewrite Hlen. cbn [Nat.eqb].
  replace (wf_bytesb b) with true by (symmetry; apply Bytes_proofs.wf_bytesb_iff; exact Hwf).
  cbn [andb fend fitems unpack_items unpack_item icode icnt item_size code_size Nat.mul Nat.add].
  rewrite firstn_all2 by lia. rewrite Hub. cbn [app Request.bind]. reflexivity.
Qed.

(** the script items of one answer: nothing when the device does not acknowledge *)
Definition answer_items (acs : bool) (a : Config.answer) : list qitem :=
  if acs then
    match a with
    | Config.Ack => [QFrame 4 (ack_payload 0)]
    | Config.Nack r => [QFrame 4 (ack_payload r)]
    | Config.LostReq | Config.LostAck => [QTimeout]
    end
  else [].

(** a negative acknowledgement carries a non-zero int32 code *)
Definition wf_answer (a : Config.answer) : Prop :=
  match a with Config.Nack r => r <> 0 /\ Info_proofs.i32 r | _ => True end.

(** the ParseAck that _get_ack returns *)
Definition ack_of (acs : bool) (a : Config.answer) : bool * Z :=
  if negb acs then (true, 0) else
  match a with
  | Config.Ack => (true, 0)
  | Config.Nack r => (false, r)
  | Config.LostReq | Config.LostAck => (false, -1)
  end.

Lemma ack_step_answer acs a rest :
  wf_answer a -> ack_step acs (answer_items acs a ++ rest) = (Frame.Ok (ack_of acs a), rest).
Proof.
  unfold ack_step, answer_items, ack_of. destruct acs; cbn [negb]; [|reflexivity].
  destruct a as [|r| |]; cbn [app wf_answer]; intros H; try reflexivity.
  destruct H as [H0 H32]. rewrite ack_payload_decode by exact H32.
    replace (r =? 0) with false by lia. reflexivity.
Qed.

(** [ack_of] is the model's "the client sees a positive acknowledgement" *)
Lemma ack_of_transmit d r a :
  fst (ack_of (Config.d_ack_supported d) a) = snd (Config.transmit d r a).
Proof. unfold ack_of, Config.transmit. destruct (Config.d_ack_supported d), a; reflexivity. Qed.

(** * The model's side of a write request *)
Definition model_en_req (c : Config.client) : Config.req :=
  let '(j, k) := Config.diff_scan Bool.eqb (Config.en_new c) (Config.en_now c) 0 0 0 in
  if Nat.eqb j 1 && Config.en_sync c then Config.RqEnSingle k (nth k (Config.en_new c) false)
  else Config.RqEnVec (Config.en_new c).
Definition model_div_req (c : Config.client) : Config.req :=
  let '(j, k) := Config.diff_scan Z.eqb (Config.div_new c) (Config.div_now c) 0 0 0 in
  if Nat.eqb j 1 && Config.div_sync c then Config.RqDivSingle k (nth k (Config.div_new c) 0)
  else Config.RqDivVec (Config.div_new c).

(** the request in the form the builders take it *)
Definition wire_en (r : Config.req) : option Request.en_req :=
  match r with
  | Config.RqEnSingle k v => Some (Request.EnSingle (Z.of_nat k) v)
  | Config.RqEnVec l => Some (Request.EnVec l)
  | _ => None
  end.
Definition wire_div (r : Config.req) : option Request.div_req :=
  match r with
  | Config.RqDivSingle k v => Some (Request.DivSingle (Z.of_nat k) v)
  | Config.RqDivVec l => Some (Request.DivVec l)
  | _ => None
  end.

Lemma en_request_model c : wire_en (model_en_req c) = Some (en_request c).
Proof. unfold model_en_req, en_request. destruct (Config.diff_scan _ _ _ _ _ _) as [j k]. destruct (_ && _); reflexivity. Qed.
Lemma div_request_model c : wire_div (model_div_req c) = Some (div_request c).
Proof. unfold model_div_req, div_request. destruct (Config.diff_scan _ _ _ _ _ _) as [j k]. destruct (_ && _); reflexivity. Qed.

Lemma write_enable_model c d a :
  Config.write_enable c d a =
  (if snd (Config.transmit d (model_en_req c) a) then en_done c else en_failed c,
   fst (Config.transmit d (model_en_req c) a)).
Proof.
  unfold Config.write_enable, model_en_req. destruct (Config.diff_scan _ _ _ _ _ _) as [j k].
  destruct (Config.transmit d _ a) as [d' ok]. destruct ok; reflexivity.
Qed.
Lemma write_div_model c d a :
  Config.write_div c d a =
  (if snd (Config.transmit d (model_div_req c) a) then div_done c else div_failed c,
   fst (Config.transmit d (model_div_req c) a)).
Proof.
  unfold Config.write_div, model_div_req. destruct (Config.diff_scan _ _ _ _ _ _) as [j k].
  destruct (Config.transmit d _ a) as [d' ok]. destruct ok; reflexivity.
Qed.

(** ** the source-level model against Config, for the answers of the model *)
Lemma src_write_enable_model cm flags c d chans w a rest b :
  Config.d_ack_supported d = ack_sup flags -> wf_answer a ->
  List.length (Config.en_new c) = List.length chans ->
  Request.frame_enable (en_request c) cm = Frame.Ok b ->
  src_write_enable cm flags c chans w (answer_items (ack_sup flags) a ++ rest) =
  WOk (fst (Config.write_enable c d a))
      (if snd (Config.transmit d (model_en_req c) a) then zipw set_en chans (Config.en_new c) else chans)
      (w ++ [b]) rest.
Proof.
  intros Hacs Ha Hl Hb. unfold src_write_enable, write_step. rewrite Hb, ack_step_answer by exact Ha.
  cbn [fst snd]. rewrite write_enable_model. cbn [fst]. rewrite <- Hacs, (ack_of_transmit d (model_en_req c) a).
  destruct (snd (Config.transmit d (model_en_req c) a)); [|reflexivity].
  rewrite Hl, Nat.eqb_refl. reflexivity.
Qed.

Lemma src_write_div_model cm flags c d chans w a rest b :
  Config.d_ack_supported d = ack_sup flags -> wf_answer a ->
  List.length (Config.div_new c) = List.length chans ->
  Request.frame_div (div_request c) cm = Frame.Ok b ->
  src_write_div cm flags c chans w (answer_items (ack_sup flags) a ++ rest) =
  WOk (fst (Config.write_div c d a))
      (if snd (Config.transmit d (model_div_req c) a) then zipw set_div chans (Config.div_new c) else chans)
      (w ++ [b]) rest.
Proof.
  intros Hacs Ha Hl Hb. unfold src_write_div, write_step. rewrite Hb, ack_step_answer by exact Ha.
  cbn [fst snd]. rewrite write_div_model. cbn [fst]. rewrite <- Hacs, (ack_of_transmit d (model_div_req c) a).
  destruct (snd (Config.transmit d (model_div_req c) a)); [|reflexivity].
  rewrite Hl, Nat.eqb_refl. reflexivity.
Qed.

(** the view of the enable vectors is not touched by a divider request *)
Lemma write_div_en c d a :
  Config.en_new (fst (Config.write_div c d a)) = Config.en_new c /\
  Config.en_now (fst (Config.write_div c d a)) = Config.en_now c /\
  en_request (fst (Config.write_div c d a)) = en_request c /\
  model_en_req (fst (Config.write_div c d a)) = model_en_req c.
Proof. rewrite write_div_model. cbn [fst]. destruct (snd _); repeat split; reflexivity. Qed.

Definition ack_ok (acs : bool) (a : Config.answer) : bool := fst (ack_of acs a).

Lemma ack_ok_transmit d r a : snd (Config.transmit d r a) = ack_ok (Config.d_ack_supported d) a.
Proof. symmetry. apply ack_of_transmit. Qed.

(** channels_write, dividers supported: two requests, divider first *)
Lemma src_write_model_div cm flags c d chans w a1 a2 rest b1 b2 :
  Config.d_div_supported d = true -> div_sup flags = true ->
  Config.d_ack_supported d = ack_sup flags -> wf_answer a1 -> wf_answer a2 ->
  List.length (Config.en_new c) = List.length chans -> List.length (Config.div_new c) = List.length chans ->
  Request.frame_div (div_request c) cm = Frame.Ok b1 ->
  Request.frame_enable (en_request c) cm = Frame.Ok b2 ->
  src_write cm flags c chans w
    (answer_items (ack_sup flags) a1 ++ answer_items (ack_sup flags) a2 ++ rest) =
  WOk (fst (Config.write c d a1 a2))
      (let ch1 := if ack_ok (ack_sup flags) a1 then zipw set_div chans (Config.div_new c) else chans in
       if ack_ok (ack_sup flags) a2 then zipw set_en ch1 (Config.en_new c) else ch1)
      (w ++ [b1; b2]) rest.
Proof.
  intros Hd Hds Hacs Ha1 Ha2 Hle Hld Hb1 Hb2.
  unfold src_write, Config.write. rewrite Hds, Hd.
  rewrite (src_write_div_model cm flags c d chans w a1 (answer_items (ack_sup flags) a2 ++ rest) b1) by assumption.
  destruct (write_div_en c d a1) as (E1 & E2 & E3 & E4).
  pose proof (Config_proofs.transmit_flags d (model_div_req c) a1) as [_ Hf].
  rewrite write_div_model in *. cbn [fst snd] in *.
  set (d1 := fst (Config.transmit d (model_div_req c) a1)) in *.
  set (c1 := if snd (Config.transmit d (model_div_req c) a1) then div_done c else div_failed c) in *.
  set (ch1 := if snd (Config.transmit d (model_div_req c) a1) then zipw set_div chans (Config.div_new c) else chans).
  rewrite (src_write_enable_model cm flags c1 d1 ch1 (w ++ [b1]) a2 rest b2).
  - subst ch1. rewrite <- app_assoc. cbn [app]. rewrite E4, E1, !ack_ok_transmit, Hf, Hacs. reflexivity.
  - rewrite Hf. exact Hacs.
  - exact Ha2.
  - rewrite E1. subst ch1. destruct (snd _); [rewrite zipw_length|]; exact Hle.
  - rewrite E3. exact Hb2.
Qed.

(** dividers not supported: only the enable request *)
Lemma src_write_model_nodiv cm flags c d chans w a1 a2 rest b2 :
  Config.d_div_supported d = false -> div_sup flags = false ->
  Config.d_ack_supported d = ack_sup flags -> wf_answer a2 ->
  List.length (Config.en_new c) = List.length chans ->
  Request.frame_enable (en_request c) cm = Frame.Ok b2 ->
  src_write cm flags c chans w (answer_items (ack_sup flags) a2 ++ rest) =
  WOk (fst (Config.write c d a1 a2))
      (if ack_ok (ack_sup flags) a2 then zipw set_en chans (Config.en_new c) else chans)
      (w ++ [b2]) rest.
Proof.
  intros Hd Hds Hacs Ha2 Hle Hb2. unfold src_write, Config.write. rewrite Hds, Hd.
  rewrite (src_write_enable_model cm flags c d chans w a2 rest b2) by assumption.
  rewrite ack_ok_transmit, Hacs. reflexivity.
Qed.

(** * MAIN THEOREMS, at the entry point [call_method] *)
#[local] Hint Resolve dev_func device_data_func dev_func_r
  ch_is_enabled_func ch_div_get_func
  ch_enable_int_func ch_enable_list_func ch_disable_int_func ch_disable_list_func
  ch_divider_int_func ch_divider_list_func
  ch_enable_all_func ch_disable_all_func ch_divider_default_func channels_default_cfg_func
  queue_get_func intf_write_func get_frame_func get_ack_func IN.ack_decode_func IN.ack_decode_func_None
  channel_enable_single_func channel_enable_vec_func channel_div_single_func channel_div_vec_func
  stream_start_func stream_stop_func
  RQ.frame_enable_single_func RQ.frame_enable_vec_func RQ.frame_div_single_func RQ.frame_div_vec_func
  RQ.frame_start_func : pyspec.

(** ** 1. setters and readers *)

(** general form: Python's index rules ([set_at]: negative indices count from
    the end, anything else out of range raises IndexError) *)
Theorem ch_enable_int_spec n c dev w q k :
  call_method program (1 + n) (comm c dev w q) "ch_enable" [PInt k] =
  match set_at (Config.en_new c) k true with
  | Some l => PyLite.Ok (PNone, comm (Config.upd_en c l) dev w q)
  | None => Exc "IndexError"
  end.
Proof. pystart. pyrun. Qed.

Theorem ch_enable_list_spec n c dev w q ks :
  call_method program (1 + n) (comm c dev w q) "ch_enable" [PList (map PInt ks)] =
  match set_many_at (Config.en_new c) ks true with
  | inl l => PyLite.Ok (PNone, comm (Config.upd_en c l) dev w q)
  | inr _ => Exc "IndexError"
  end.
Proof. pystart. pyrun. Qed.

Theorem ch_disable_int_spec n c dev w q k :
  call_method program (1 + n) (comm c dev w q) "ch_disable" [PInt k] =
  match set_at (Config.en_new c) k false with
  | Some l => PyLite.Ok (PNone, comm (Config.upd_en c l) dev w q)
  | None => Exc "IndexError"
  end.
Proof. pystart. pyrun. Qed.

Theorem ch_disable_list_spec n c dev w q ks :
  call_method program (1 + n) (comm c dev w q) "ch_disable" [PList (map PInt ks)] =
  match set_many_at (Config.en_new c) ks false with
  | inl l => PyLite.Ok (PNone, comm (Config.upd_en c l) dev w q)
  | inr _ => Exc "IndexError"
  end.
Proof. pystart. pyrun. Qed.

Theorem ch_divider_int_spec n c flags rxp chans w q k v :
  call_method program (2 + n) (comm c (dev_obj flags rxp chans) w q) "ch_divider" [PInt k; PInt v] =
  if (v <? 0) || (255 <? v) then Exc "ValueError" else
  match set_at (Config.div_new c) k v with
  | Some l => PyLite.Ok (PNone, comm (Config.upd_div c l) (dev_obj flags rxp chans) w q)
  | None => Exc "IndexError"
  end.
Proof. pystart. pyrun. Qed.

Theorem ch_divider_list_spec n c flags rxp chans w q ks v :
  call_method program (2 + n) (comm c (dev_obj flags rxp chans) w q) "ch_divider" [PList (map PInt ks); PInt v] =
  if (v <? 0) || (255 <? v) then Exc "ValueError" else
  match set_many_at (Config.div_new c) ks v with
  | inl l => PyLite.Ok (PNone, comm (Config.upd_div c l) (dev_obj flags rxp chans) w q)
  | inr _ => Exc "IndexError"
  end.
Proof. pystart. pyrun. Qed.

(** in range: exactly the model's step (receiver = the embedded result,
    nothing written, queue untouched); [d] is any model device: the setters
    do not look at it *)
Definition in_range {A} (l : list A) (cs : list nat) : Prop := Forall (fun k => (k < List.length l)%nat) cs.

Theorem ch_enable_model n c d dev w q cs :
  in_range (Config.en_new c) cs ->
  call_method program (1 + n) (comm c dev w q) "ch_enable" [PList (map PInt (map Z.of_nat cs))] =
  PyLite.Ok (PNone, comm (fst (Config.step (c, d) (Config.OpEnable cs))) dev w q).
Proof. intros H. rewrite ch_enable_list_spec, set_many_at_in_range by exact H. reflexivity. Qed.

Theorem ch_enable_int_model n c d dev w q k :
  (k < List.length (Config.en_new c))%nat ->
  call_method program (1 + n) (comm c dev w q) "ch_enable" [PInt (Z.of_nat k)] =
  PyLite.Ok (PNone, comm (fst (Config.step (c, d) (Config.OpEnable [k]))) dev w q).
Proof.
  intros H. rewrite ch_enable_int_spec, set_at_in_range by (unfold zlen; lia). rewrite Nat2Z.id. reflexivity.
Qed.

Theorem ch_disable_model n c d dev w q cs :
  in_range (Config.en_new c) cs ->
  call_method program (1 + n) (comm c dev w q) "ch_disable" [PList (map PInt (map Z.of_nat cs))] =
  PyLite.Ok (PNone, comm (fst (Config.step (c, d) (Config.OpDisable cs))) dev w q).
Proof. intros H. rewrite ch_disable_list_spec, set_many_at_in_range by exact H. reflexivity. Qed.

Theorem ch_disable_int_model n c d dev w q k :
  (k < List.length (Config.en_new c))%nat ->
  call_method program (1 + n) (comm c dev w q) "ch_disable" [PInt (Z.of_nat k)] =
  PyLite.Ok (PNone, comm (fst (Config.step (c, d) (Config.OpDisable [k]))) dev w q).
Proof.
  intros H. rewrite ch_disable_int_spec, set_at_in_range by (unfold zlen; lia). rewrite Nat2Z.id. reflexivity.
Qed.

Theorem ch_divider_model n c d flags rxp chans w q cs v :
  in_range (Config.div_new c) cs -> 0 <= v <= 255 ->
  call_method program (2 + n) (comm c (dev_obj flags rxp chans) w q) "ch_divider"
    [PList (map PInt (map Z.of_nat cs)); PInt v] =
  PyLite.Ok (PNone, comm (fst (Config.step (c, d) (Config.OpDivider cs v))) (dev_obj flags rxp chans) w q).
Proof.
  intros H Hv. rewrite ch_divider_list_spec, set_many_at_in_range by exact H.
  replace ((v <? 0) || (255 <? v)) with false by lia. reflexivity.
Qed.

Theorem ch_divider_int_model n c d flags rxp chans w q k v :
  (k < List.length (Config.div_new c))%nat -> 0 <= v <= 255 ->
  call_method program (2 + n) (comm c (dev_obj flags rxp chans) w q) "ch_divider" [PInt (Z.of_nat k); PInt v] =
  PyLite.Ok (PNone, comm (fst (Config.step (c, d) (Config.OpDivider [k] v))) (dev_obj flags rxp chans) w q).
Proof.
  intros H Hv. rewrite ch_divider_int_spec, set_at_in_range by (unfold zlen; lia). rewrite Nat2Z.id.
  replace ((v <? 0) || (255 <? v)) with false by lia. reflexivity.
Qed.

Theorem ch_divider_bad_value n c flags rxp chans w q ks k v :
  v < 0 \/ 255 < v ->
  call_method program (2 + n) (comm c (dev_obj flags rxp chans) w q) "ch_divider" [PInt k; PInt v] = Exc "ValueError" /\
  call_method program (2 + n) (comm c (dev_obj flags rxp chans) w q) "ch_divider" [PList (map PInt ks); PInt v] =
  Exc "ValueError".
Proof.
  intros H. rewrite ch_divider_int_spec, ch_divider_list_spec.
  replace ((v <? 0) || (255 <? v)) with true by lia. split; reflexivity.
Qed.

(** OUT OF RANGE (difference to the model, whose [set_nth] ignores such an
    index): IndexError ... *)
Theorem ch_enable_out_of_range n c dev w q k :
  k < - zlen (Config.en_new c) \/ zlen (Config.en_new c) <= k ->
  call_method program (1 + n) (comm c dev w q) "ch_enable" [PInt k] = Exc "IndexError".
Proof. intros H. rewrite ch_enable_int_spec, set_at_out by exact H. reflexivity. Qed.

(** ... a NEGATIVE index down to [-len] is not an error: it counts from the end *)
Theorem ch_enable_negative n c d dev w q k :
  - zlen (Config.en_new c) <= k < 0 ->
  call_method program (1 + n) (comm c dev w q) "ch_enable" [PInt k] =
  PyLite.Ok (PNone, comm (fst (Config.step (c, d) (Config.OpEnable [Z.to_nat (k + zlen (Config.en_new c))]))) dev w q).
Proof. intros H. rewrite ch_enable_int_spec, set_at_negative by exact H. reflexivity. Qed.

(** ... in a list, the first index out of range raises; at the [call_func]
    level ([ch_enable_list_func]) the receiver at the raise has the indices
    before it applied: [comm (step c (OpEnable cs)) ..] *)
Theorem ch_enable_list_out_of_range n c dev w q cs k r :
  in_range (Config.en_new c) cs ->
  k < - zlen (Config.en_new c) \/ zlen (Config.en_new c) <= k ->
  call_method program (1 + n) (comm c dev w q) "ch_enable" [PList (map PInt (map Z.of_nat cs ++ k :: r))] =
  Exc "IndexError".
Proof. intros H Hk. rewrite ch_enable_list_spec, set_many_at_first_out by assumption. reflexivity. Qed.

Lemma ch_enable_list_partial n c d dev w q cs k r :
  in_range (Config.en_new c) cs ->
  k < - zlen (Config.en_new c) \/ zlen (Config.en_new c) <= k ->
  call_func program (S n) CommHandler_ch_enable [comm c dev w q; PList (map PInt (map Z.of_nat cs ++ k :: r))] [] =
  ExcS "IndexError" (self_st (comm (fst (Config.step (c, d) (Config.OpEnable cs))) dev w q)).
Proof. intros H Hk. rewrite ch_enable_list_func, set_many_at_first_out by assumption. reflexivity. Qed.

(** the same three facts hold for ch_disable and ch_divider (same [set_at] / [set_many_at]) *)
Theorem ch_disable_out_of_range n c dev w q k :
  k < - zlen (Config.en_new c) \/ zlen (Config.en_new c) <= k ->
  call_method program (1 + n) (comm c dev w q) "ch_disable" [PInt k] = Exc "IndexError".
Proof. intros H. rewrite ch_disable_int_spec, set_at_out by exact H. reflexivity. Qed.

Theorem ch_divider_out_of_range n c flags rxp chans w q k v :
  0 <= v <= 255 -> k < - zlen (Config.div_new c) \/ zlen (Config.div_new c) <= k ->
  call_method program (2 + n) (comm c (dev_obj flags rxp chans) w q) "ch_divider" [PInt k; PInt v] = Exc "IndexError".
Proof.
  intros Hv H. rewrite ch_divider_int_spec, set_at_out by exact H.
  replace ((v <? 0) || (255 <? v)) with false by lia. reflexivity.
Qed.

(** ** ch_enable_all / ch_disable_all / channels_default_cfg: the loop runs over
    [range(self.dev.data.chmax)]; it is the model's step when the vectors have
    the mirror's channel count *)
Theorem ch_enable_all_spec n c cm flags rxp chans w q :
  call_method program (2 + n) (comm c (dev_obj' cm flags rxp chans) w q) "ch_enable_all" [] =
  match set_many_at (Config.en_new c) (range_ix cm) true with
  | inl l => PyLite.Ok (PNone, comm (Config.upd_en c l) (dev_obj' cm flags rxp chans) w q)
  | inr _ => Exc "IndexError"
  end.
Proof. pystart. pyrun. Qed.

Theorem ch_disable_all_spec n c cm flags rxp chans w q :
  call_method program (2 + n) (comm c (dev_obj' cm flags rxp chans) w q) "ch_disable_all" [] =
  match set_many_at (Config.en_new c) (range_ix cm) false with
  | inl l => PyLite.Ok (PNone, comm (Config.upd_en c l) (dev_obj' cm flags rxp chans) w q)
  | inr _ => Exc "IndexError"
  end.
Proof. pystart. pyrun. Qed.

Theorem channels_default_cfg_spec n c cm flags rxp chans w q :
  call_method program (3 + n) (comm c (dev_obj' cm flags rxp chans) w q) "channels_default_cfg" [] =
  match set_many_at (Config.en_new c) (range_ix cm) false with
  | inl l => PyLite.Ok (PNone, comm (Config.upd_div (Config.upd_en c l) (map (fun _ => 0) (Config.div_new c)))
                                 (dev_obj' cm flags rxp chans) w q)
  | inr _ => Exc "IndexError"
  end.
Proof. pystart. pyrun. Qed.

Theorem ch_enable_all_model n c d flags rxp chans w q :
  List.length (Config.en_new c) = List.length chans ->
  call_method program (2 + n) (comm c (dev_obj flags rxp chans) w q) "ch_enable_all" [] =
  PyLite.Ok (PNone, comm (fst (Config.step (c, d) Config.OpEnableAll)) (dev_obj flags rxp chans) w q).
Proof.
  intros H. unfold dev_obj. rewrite ch_enable_all_spec.
  replace (zlen chans) with (zlen (Config.en_new c)) by (unfold zlen; lia).
  rewrite set_many_at_range_all. reflexivity.
Qed.

Theorem ch_disable_all_model n c d flags rxp chans w q :
  List.length (Config.en_new c) = List.length chans ->
  call_method program (2 + n) (comm c (dev_obj flags rxp chans) w q) "ch_disable_all" [] =
  PyLite.Ok (PNone, comm (fst (Config.step (c, d) Config.OpDisableAll)) (dev_obj flags rxp chans) w q).
Proof.
  intros H. unfold dev_obj. rewrite ch_disable_all_spec.
  replace (zlen chans) with (zlen (Config.en_new c)) by (unfold zlen; lia).
  rewrite set_many_at_range_all. reflexivity.
Qed.

Theorem channels_default_cfg_model n c d flags rxp chans w q :
  List.length (Config.en_new c) = List.length chans ->
  call_method program (3 + n) (comm c (dev_obj flags rxp chans) w q) "channels_default_cfg" [] =
  PyLite.Ok (PNone, comm (fst (Config.step (c, d) Config.OpDefault)) (dev_obj flags rxp chans) w q).
Proof.
  intros H. unfold dev_obj. rewrite channels_default_cfg_spec.
  replace (zlen chans) with (zlen (Config.en_new c)) by (unfold zlen; lia).
  rewrite set_many_at_range_all. reflexivity.
Qed.

(** the mirror's channel count differs from the length of the vectors
    (difference to the model, which maps over the whole vector): fewer ->
    only the first [chmax] entries; more -> IndexError after all of them *)
Theorem ch_enable_all_short n c cm flags rxp chans w q :
  0 <= cm <= zlen (Config.en_new c) ->
  call_method program (2 + n) (comm c (dev_obj' cm flags rxp chans) w q) "ch_enable_all" [] =
  PyLite.Ok (PNone, comm (Config.upd_en c (repeat true (Z.to_nat cm) ++ skipn (Z.to_nat cm) (Config.en_new c))%list)
                      (dev_obj' cm flags rxp chans) w q).
Proof. intros H. rewrite ch_enable_all_spec, set_many_at_range_short by exact H. reflexivity. Qed.

Theorem ch_enable_all_long n c cm flags rxp chans w q :
  zlen (Config.en_new c) < cm ->
  call_method program (2 + n) (comm c (dev_obj' cm flags rxp chans) w q) "ch_enable_all" [] = Exc "IndexError".
Proof. intros H. rewrite ch_enable_all_spec, set_many_at_range_long by exact H. reflexivity. Qed.

(** ** the readers *)
Theorem ch_is_enabled_spec n c dev w q k :
  call_method program (1 + n) (comm c dev w q) "ch_is_enabled" [PInt k] =
  match norm_index (List.length (Config.en_now c)) k with
  | Some i => PyLite.Ok (PBool (nth i (Config.en_now c) false), comm c dev w q)
  | None => Exc "IndexError"
  end.
Proof. pystart. pyrun. Qed.

Theorem ch_div_get_spec n c dev w q k :
  call_method program (1 + n) (comm c dev w q) "ch_div_get" [PInt k] =
  match norm_index (List.length (Config.div_now c)) k with
  | Some i => PyLite.Ok (PInt (nth i (Config.div_now c) 0), comm c dev w q)
  | None => Exc "IndexError"
  end.
Proof. pystart. pyrun. Qed.

Corollary ch_is_enabled_in_range n c dev w q k :
  (k < List.length (Config.en_now c))%nat ->
  call_method program (1 + n) (comm c dev w q) "ch_is_enabled" [PInt (Z.of_nat k)] =
  PyLite.Ok (PBool (nth k (Config.en_now c) false), comm c dev w q).
Proof. intros H. rewrite ch_is_enabled_spec, norm_index_nat by exact H. reflexivity. Qed.

Corollary ch_div_get_in_range n c dev w q k :
  (k < List.length (Config.div_now c))%nat ->
  call_method program (1 + n) (comm c dev w q) "ch_div_get" [PInt (Z.of_nat k)] =
  PyLite.Ok (PInt (nth k (Config.div_now c) 0), comm c dev w q).
Proof. intros H. rewrite ch_div_get_spec, norm_index_nat by exact H. reflexivity. Qed.

(** ** 2. _get_ack *)
Theorem get_ack_spec n c cm flags rxp chans w its :
  call_method program (3 + n) (comm c (dev_obj' cm flags rxp chans) w (map item_pv its)) "_get_ack" [] =
  match fst (ack_step (ack_sup flags) its) with
  | Frame.Ok t => PyLite.Ok (IN.ack_obj t, comm c (dev_obj' cm flags rxp chans) w (map item_pv (snd (ack_step (ack_sup flags) its))))
  | Frame.Raise e => Exc e
  | Frame.Err _ => Unsupported "Err"
  end.
Proof.
  pystart. unfold ack_step. destruct its as [|[|fid data] r]; cbn [map item_pv]. all: pyrun.
Qed.

(** for each answer of the model *)
Theorem get_ack_answer n c cm flags rxp chans w a rest :
  wf_answer a ->
  call_method program (3 + n)
    (comm c (dev_obj' cm flags rxp chans) w (map item_pv (answer_items (ack_sup flags) a ++ rest))) "_get_ack" [] =
  PyLite.Ok (IN.ack_obj (ack_of (ack_sup flags) a), comm c (dev_obj' cm flags rxp chans) w (map item_pv rest)).
Proof. intros H. rewrite get_ack_spec, ack_step_answer by exact H. reflexivity. Qed.

(** no ACK support: success without looking at the queue, whatever is in it *)
Theorem get_ack_unsupported n c cm flags rxp chans w its :
  ack_sup flags = false ->
  call_method program (3 + n) (comm c (dev_obj' cm flags rxp chans) w (map item_pv its)) "_get_ack" [] =
  PyLite.Ok (IN.ack_obj (true, 0), comm c (dev_obj' cm flags rxp chans) w (map item_pv its)).
Proof. intros H. rewrite get_ack_spec, H. reflexivity. Qed.

(** with ACK support, kind by kind *)
Theorem get_ack_kinds n c cm flags rxp chans w rest :
  ack_sup flags = true ->
  let self its := comm c (dev_obj' cm flags rxp chans) w (map item_pv its) in
  call_method program (3 + n) (self (QFrame 4 (ack_payload 0) :: rest)) "_get_ack" [] =
    PyLite.Ok (IN.ack_obj (true, 0), self rest) /\
  (forall r, r <> 0 -> Info_proofs.i32 r ->
     call_method program (3 + n) (self (QFrame 4 (ack_payload r) :: rest)) "_get_ack" [] =
     PyLite.Ok (IN.ack_obj (false, r), self rest)) /\
  call_method program (3 + n) (self (QTimeout :: rest)) "_get_ack" [] =
    PyLite.Ok (IN.ack_obj (false, -1), self rest) /\
  call_method program (3 + n) (self []) "_get_ack" [] = PyLite.Ok (IN.ack_obj (false, -1), self []) /\
  (forall fid data, fid <> 4 ->
     call_method program (3 + n) (self (QFrame fid data :: rest)) "_get_ack" [] =
     PyLite.Ok (IN.ack_obj (false, -2), self rest)).
Proof.
  intros H self. unfold self. repeat split; intros; rewrite get_ack_spec, H.
  - pose proof (ack_step_answer true Config.Ack rest I) as Ha. cbn [answer_items app] in Ha. rewrite Ha. reflexivity.
  - unfold ack_step. cbn [negb fst snd]. rewrite ack_payload_decode by assumption.
    replace (r =? 0) with false by lia. reflexivity.
  - reflexivity.
  - reflexivity.
  - unfold ack_step, Info.frame_ack_decode. cbn [negb fst snd]. change (Frame.id_of "ACK") with 4.
    replace (fid =? 4) with false by lia. reflexivity.
Qed.

(** ** 3./4. the write requests *)
Definition emb_wres_top (cm flags rxp : Z) (r : wres) : PyLite.res (pv * pv) :=
  match r with
  | WOk c chans w its => PyLite.Ok (PNone, comm c (dev_obj' cm flags rxp chans) w (map item_pv its))
  | WExc e _ _ _ _ => Exc e
  | WUnsup s => Unsupported s
  end.
#[local] Hint Unfold emb_wres_top : cfg_model.
#[local] Hint Resolve nxslib_channels_enable_func nxslib_channels_div_func channels_write_func : pyspec.

Lemma cmv_comm cf c dev w q m f :
  match comm c dev w q with PObj _ fs => lookup m fs | _ => None end = None ->
  find_method program mro_depth "CommHandler" m = Some f ->
  call_method_value program cf (comm c dev w q) m [] [] =
  match cf f [comm c dev w q] [] with
  | PyLite.Ok x => PyLite.Ok (fst x, match snd x with Some s => s | None => comm c dev w q end)
  | Exc e => Exc e
  | ExcS e st => ExcS e st
  | Fuel => Fuel
  | Unsupported u => Unsupported u
  end.
Proof. intros H1 H2. unfold comm in *. apply call_method_value_obj; assumption. Qed.

(** general form: the interpreted source computes the source-level model
    [src_write_enable] / [src_write_div] / [src_write] (any script, any
    result of the request builder) *)
Theorem nxslib_channels_enable_spec n c cm flags rxp chans w its :
  List.length (Config.en_new c) = List.length (Config.en_now c) ->
  call_method program (5 + n) (comm c (dev_obj' cm flags rxp chans) w (map item_pv its)) "_nxslib_channels_enable" [] =
  emb_wres_top cm flags rxp (src_write_enable cm flags c chans w its).
Proof.
  intros H. pystart.
  rewrite (cmv_comm _ _ _ _ _ _ CommHandler__nxslib_channels_enable) by reflexivity.
  rewrite nxslib_channels_enable_func by exact H.
  destruct (src_write_enable cm flags c chans w its); reflexivity.
Qed.

Theorem nxslib_channels_div_spec n c cm flags rxp chans w its :
  List.length (Config.div_new c) = List.length (Config.div_now c) ->
  call_method program (5 + n) (comm c (dev_obj' cm flags rxp chans) w (map item_pv its)) "_nxslib_channels_div" [] =
  emb_wres_top cm flags rxp (src_write_div cm flags c chans w its).
Proof.
  intros H. pystart.
  rewrite (cmv_comm _ _ _ _ _ _ CommHandler__nxslib_channels_div) by reflexivity.
  rewrite nxslib_channels_div_func by exact H.
  destruct (src_write_div cm flags c chans w its); reflexivity.
Qed.

Theorem channels_write_spec n c cm flags rxp chans w its :
  List.length (Config.en_new c) = List.length (Config.en_now c) ->
  List.length (Config.div_new c) = List.length (Config.div_now c) ->
  call_method program (6 + n) (comm c (dev_obj' cm flags rxp chans) w (map item_pv its)) "channels_write" [] =
  emb_wres_top cm flags rxp (src_write cm flags c chans w its).
Proof.
  intros H1 H2. pystart.
  rewrite (cmv_comm _ _ _ _ _ _ CommHandler_channels_write) by reflexivity.
  rewrite channels_write_func by assumption.
  destruct (src_write cm flags c chans w its); reflexivity.
Qed.

(** ** against model/Config.v

    The model's device [d] enters only through [d_ack_supported d] and
    [d_div_supported d], tied to the flags of the client's mirror; its vectors
    and its log are abstract (the bytes written are those of the request the
    model logs, [en_request_model]/[div_request_model]).  The mirror
    ([self.dev]) is updated exactly when the model says "acknowledged". *)
Definition mirror_en (ok : bool) (chans : list chan_desc) (l : list bool) : list chan_desc :=
  if ok then zipw set_en chans l else chans.
Definition mirror_div (ok : bool) (chans : list chan_desc) (l : list Z) : list chan_desc :=
  if ok then zipw set_div chans l else chans.

Lemma mirror_en_length ok chans l : List.length (mirror_en ok chans l) = List.length chans.
Proof. destruct ok; [apply zipw_length | reflexivity]. Qed.
Lemma mirror_div_length ok chans l : List.length (mirror_div ok chans l) = List.length chans.
Proof. destruct ok; [apply zipw_length | reflexivity]. Qed.

Lemma dev_obj_len flags rxp (chans chans' : list chan_desc) :
  List.length chans' = List.length chans -> dev_obj' (zlen chans) flags rxp chans' = dev_obj flags rxp chans'.
Proof. intros H. unfold dev_obj, zlen. rewrite H. reflexivity. Qed.

Theorem nxslib_channels_enable_model n c d flags rxp chans w a rest b :
  List.length (Config.en_new c) = List.length (Config.en_now c) ->
  List.length (Config.en_new c) = List.length chans ->
  Config.d_ack_supported d = ack_sup flags -> wf_answer a ->
  Request.frame_enable (en_request c) (zlen chans) = Frame.Ok b ->
  call_method program (5 + n)
    (comm c (dev_obj flags rxp chans) w (map item_pv (answer_items (ack_sup flags) a ++ rest)))
    "_nxslib_channels_enable" [] =
  PyLite.Ok (PNone,
             comm (fst (Config.write_enable c d a))
                  (dev_obj flags rxp (mirror_en (snd (Config.transmit d (model_en_req c) a)) chans (Config.en_new c)))
                  (w ++ [b]) (map item_pv rest)).
Proof.
  intros H1 H2 H3 H4 H5. unfold dev_obj at 1.
  rewrite nxslib_channels_enable_spec by exact H1.
  rewrite (src_write_enable_model (zlen chans) flags c d chans w a rest b) by assumption.
  cbn [emb_wres_top]. fold (mirror_en (snd (Config.transmit d (model_en_req c) a)) chans (Config.en_new c)).
  rewrite dev_obj_len by apply mirror_en_length. reflexivity.
Qed.

Theorem nxslib_channels_div_model n c d flags rxp chans w a rest b :
  List.length (Config.div_new c) = List.length (Config.div_now c) ->
  List.length (Config.div_new c) = List.length chans ->
  Config.d_ack_supported d = ack_sup flags -> wf_answer a ->
  Request.frame_div (div_request c) (zlen chans) = Frame.Ok b ->
  call_method program (5 + n)
    (comm c (dev_obj flags rxp chans) w (map item_pv (answer_items (ack_sup flags) a ++ rest)))
    "_nxslib_channels_div" [] =
  PyLite.Ok (PNone,
             comm (fst (Config.write_div c d a))
                  (dev_obj flags rxp (mirror_div (snd (Config.transmit d (model_div_req c) a)) chans (Config.div_new c)))
                  (w ++ [b]) (map item_pv rest)).
Proof.
  intros H1 H2 H3 H4 H5. unfold dev_obj at 1.
  rewrite nxslib_channels_div_spec by exact H1.
  rewrite (src_write_div_model (zlen chans) flags c d chans w a rest b) by assumption.
  cbn [emb_wres_top]. fold (mirror_div (snd (Config.transmit d (model_div_req c) a)) chans (Config.div_new c)).
  rewrite dev_obj_len by apply mirror_div_length. reflexivity.
Qed.

(** channels_write, dividers supported: the divider request, then the enable request *)
Theorem channels_write_model_div n c d flags rxp chans w a1 a2 rest b1 b2 :
  List.length (Config.en_new c) = List.length (Config.en_now c) ->
  List.length (Config.div_new c) = List.length (Config.div_now c) ->
  List.length (Config.en_new c) = List.length chans -> List.length (Config.div_new c) = List.length chans ->
  Config.d_div_supported d = true -> div_sup flags = true ->
  Config.d_ack_supported d = ack_sup flags -> wf_answer a1 -> wf_answer a2 ->
  Request.frame_div (div_request c) (zlen chans) = Frame.Ok b1 ->
  Request.frame_enable (en_request c) (zlen chans) = Frame.Ok b2 ->
  call_method program (6 + n)
    (comm c (dev_obj flags rxp chans) w
       (map item_pv (answer_items (ack_sup flags) a1 ++ answer_items (ack_sup flags) a2 ++ rest)))
    "channels_write" [] =
  PyLite.Ok (PNone,
             comm (fst (Config.write c d a1 a2))
                  (dev_obj flags rxp
                     (mirror_en (ack_ok (ack_sup flags) a2)
                        (mirror_div (ack_ok (ack_sup flags) a1) chans (Config.div_new c)) (Config.en_new c)))
                  (w ++ [b1; b2]) (map item_pv rest)).
Proof.
  intros L1 L2 L3 L4 Hd Hds Hacs Ha1 Ha2 Hb1 Hb2. unfold dev_obj at 1.
  rewrite channels_write_spec by assumption.
  rewrite (src_write_model_div _ _ c d chans w a1 a2 rest b1 b2) by assumption.
  cbn [emb_wres_top]. cbv zeta.
  fold (mirror_div (ack_ok (ack_sup flags) a1) chans (Config.div_new c)).
  fold (mirror_en (ack_ok (ack_sup flags) a2) (mirror_div (ack_ok (ack_sup flags) a1) chans (Config.div_new c)) (Config.en_new c)).
  rewrite dev_obj_len by (rewrite mirror_en_length; apply mirror_div_length). reflexivity.
Qed.

(** dividers not supported: only the enable request is written; [a1] is not consumed *)
Theorem channels_write_model_nodiv n c d flags rxp chans w a1 a2 rest b2 :
  List.length (Config.en_new c) = List.length (Config.en_now c) ->
  List.length (Config.div_new c) = List.length (Config.div_now c) ->
  List.length (Config.en_new c) = List.length chans ->
  Config.d_div_supported d = false -> div_sup flags = false ->
  Config.d_ack_supported d = ack_sup flags -> wf_answer a2 ->
  Request.frame_enable (en_request c) (zlen chans) = Frame.Ok b2 ->
  call_method program (6 + n)
    (comm c (dev_obj flags rxp chans) w (map item_pv (answer_items (ack_sup flags) a2 ++ rest)))
    "channels_write" [] =
  PyLite.Ok (PNone,
             comm (fst (Config.write c d a1 a2))
                  (dev_obj flags rxp (mirror_en (ack_ok (ack_sup flags) a2) chans (Config.en_new c)))
                  (w ++ [b2]) (map item_pv rest)).
Proof.
  intros L1 L2 L3 Hd Hds Hacs Ha2 Hb2. unfold dev_obj at 1.
  rewrite channels_write_spec by assumption.
  rewrite (src_write_model_nodiv _ _ c d chans w a1 a2 rest b2) by assumption.
  cbn [emb_wres_top]. fold (mirror_en (ack_ok (ack_sup flags) a2) chans (Config.en_new c)).
  rewrite dev_obj_len by apply mirror_en_length. reflexivity.
Qed.

(** ** when the request builders succeed: 1..255 channels, dividers in 0..255 *)
Lemma delivered_ok r fr p : Request_proofs.delivered r fr p -> exists b, fr = Frame.Ok b.
Proof. intros (fid & E & _). eauto. Qed.

Lemma en_request_builds c (chans : list chan_desc) :
  List.length (Config.en_new c) = List.length (Config.en_now c) ->
  List.length (Config.en_new c) = List.length chans -> 1 <= zlen chans <= 255 ->
  exists b, Request.frame_enable (en_request c) (zlen chans) = Frame.Ok b.
Proof.
  intros H1 H2 Hn. unfold en_request.
  pose proof (diff_scan_k Bool.eqb (Config.en_new c) (Config.en_now c) 0 0 0 H1) as Hk.
  destruct (Config.diff_scan _ _ _ _ _ _) as [j k]. cbn [fst snd] in Hk.
  assert (Hz : zlen chans = zlen (Config.en_new c)) by (unfold zlen; lia). rewrite Hz in *.
  destruct (Nat.eqb j 1 && Config.en_sync c) eqn:E.
  - assert (j = 1%nat) by lia. subst j.
    destruct (Request_proofs.enable_single_delivered (Config.en_new c) (Z.of_nat k) (nth k (Config.en_new c) false))
      as (cur' & Hd & _); [unfold zlen; lia | lia |]. exact (delivered_ok _ _ _ Hd).
  - destruct (Request_proofs.enable_vec_delivered (Config.en_new c) (Config.en_new c) eq_refl Hn) as (p & Hd & _).
    exact (delivered_ok _ _ _ Hd).
Qed.

Lemma div_request_builds c (chans : list chan_desc) :
  List.length (Config.div_new c) = List.length (Config.div_now c) ->
  List.length (Config.div_new c) = List.length chans -> 1 <= zlen chans <= 255 ->
  Request_proofs.all_u8 (Config.div_new c) ->
  exists b, Request.frame_div (div_request c) (zlen chans) = Frame.Ok b.
Proof.
  intros H1 H2 Hn Hu. unfold div_request.
  pose proof (diff_scan_k Z.eqb (Config.div_new c) (Config.div_now c) 0 0 0 H1) as Hk.
  destruct (Config.diff_scan _ _ _ _ _ _) as [j k]. cbn [fst snd] in Hk.
  assert (Hz : zlen chans = zlen (Config.div_new c)) by (unfold zlen; lia). rewrite Hz in *.
  destruct (Nat.eqb j 1 && Config.div_sync c) eqn:E.
  - assert (j = 1%nat) by lia. subst j.
    assert (Hv : 0 <= nth k (Config.div_new c) 0 < 256).
    { unfold Request_proofs.all_u8 in Hu. rewrite Forall_forall in Hu. apply Hu. apply nth_In. lia. }
    destruct (Request_proofs.div_single_delivered (Config.div_new c) (Z.of_nat k) (nth k (Config.div_new c) 0))
      as (cur' & Hd & _); [unfold zlen; lia | lia | exact Hv |]. exact (delivered_ok _ _ _ Hd).
  - destruct (Request_proofs.div_vec_delivered (Config.div_new c) (Config.div_new c) eq_refl Hn Hu) as (p & Hd & _).
    exact (delivered_ok _ _ _ Hd).
Qed.

(** the whole of [OpWrite] without hypotheses about the builders *)
Theorem channels_write_model n c d flags rxp chans w a1 a2 rest :
  List.length (Config.en_new c) = List.length (Config.en_now c) ->
  List.length (Config.div_new c) = List.length (Config.div_now c) ->
  List.length (Config.en_new c) = List.length chans -> List.length (Config.div_new c) = List.length chans ->
  1 <= zlen chans <= 255 -> Request_proofs.all_u8 (Config.div_new c) ->
  Config.d_div_supported d = div_sup flags -> Config.d_ack_supported d = ack_sup flags ->
  wf_answer a1 -> wf_answer a2 ->
  exists b1 b2,
    Request.frame_div (div_request c) (zlen chans) = Frame.Ok b1 /\
    Request.frame_enable (en_request c) (zlen chans) = Frame.Ok b2 /\
    call_method program (6 + n)
      (comm c (dev_obj flags rxp chans) w
         (map item_pv ((if div_sup flags then answer_items (ack_sup flags) a1 else [])
                         ++ answer_items (ack_sup flags) a2 ++ rest)))
      "channels_write" [] =
    PyLite.Ok (PNone,
               comm (fst (Config.step (c, d) (Config.OpWrite a1 a2)))
                    (dev_obj flags rxp
                       (mirror_en (ack_ok (ack_sup flags) a2)
                          (if div_sup flags then mirror_div (ack_ok (ack_sup flags) a1) chans (Config.div_new c) else chans)
                          (Config.en_new c)))
                    (w ++ (if div_sup flags then [b1; b2] else [b2])) (map item_pv rest)).
Proof.
  intros L1 L2 L3 L4 Hn Hu Hds Hacs Ha1 Ha2.
  destruct (div_request_builds c chans L2 L4 Hn Hu) as [b1 Hb1].
  destruct (en_request_builds c chans L1 L3 Hn) as [b2 Hb2].
  exists b1, b2. split; [exact Hb1|]. split; [exact Hb2|]. cbn [Config.step].
  destruct (div_sup flags) eqn:E.
  - apply channels_write_model_div; assumption.
  - cbn [app]. apply channels_write_model_nodiv; assumption.
Qed.

(** * Differences between the model and the source (each with its input) *)

(** D1. no channels: the model sends an empty vector request; the source's
    request builder raises IndexError ([enable[0]] of an empty list), before
    anything is written *)
Theorem channels_write_no_channels n es ds flags rxp w its :
  call_method program (6 + n)
    (comm (Config.mkCli [] [] [] [] es ds) (dev_obj flags rxp []) w (map item_pv its)) "channels_write" [] =
  Exc "IndexError".
Proof.
  unfold dev_obj. rewrite channels_write_spec by reflexivity.
  unfold src_write, src_write_div, src_write_enable, write_step, div_request, en_request.
  cbn [Config.diff_scan Config.div_new Config.div_now Config.en_new Config.en_now Nat.eqb andb].
  change (zlen (@nil chan_desc)) with 0.
  change (Request.frame_div (Request.DivVec []) 0) with (@Frame.Raise bytes "IndexError").
  change (Request.frame_enable (Request.EnVec []) 0) with (@Frame.Raise bytes "IndexError").
  destruct (div_sup flags); reflexivity.
Qed.

(** D2. the request builder raises (IndexError above; ValueError for a divider
    outside 0..255 in [div_new]; struct.error for a channel number that does
    not fit a byte): the exception leaves channels_write, nothing is written,
    nothing consumed, the view unchanged -- the model has no such case *)
Theorem enable_builder_raises n c cm flags rxp chans w its e :
  List.length (Config.en_new c) = List.length (Config.en_now c) ->
  Request.frame_enable (en_request c) cm = Frame.Raise e ->
  call_func program (S (S (S (S (S n))))) CommHandler__nxslib_channels_enable
    [comm c (dev_obj' cm flags rxp chans) w (map item_pv its)] [] =
  ExcS e (self_st (comm c (dev_obj' cm flags rxp chans) w (map item_pv its))).
Proof. intros H E. rewrite nxslib_channels_enable_func by exact H. unfold src_write_enable, write_step. rewrite E. reflexivity. Qed.

Theorem div_builder_raises n c cm flags rxp chans w its e :
  List.length (Config.div_new c) = List.length (Config.div_now c) ->
  Request.frame_div (div_request c) cm = Frame.Raise e ->
  call_func program (S (S (S (S (S n))))) CommHandler__nxslib_channels_div
    [comm c (dev_obj' cm flags rxp chans) w (map item_pv its)] [] =
  ExcS e (self_st (comm c (dev_obj' cm flags rxp chans) w (map item_pv its))).
Proof. intros H E. rewrite nxslib_channels_div_func by exact H. unfold src_write_div, write_step. rewrite E. reflexivity. Qed.

(** D3. the mirror has another channel count than the vectors: AssertionError
    from [Device.en_channels_update], AFTER the request went out, the answer
    was consumed and the view was advanced ([en_now := en_new], in sync) *)
Theorem enable_mirror_mismatch n c d cm flags rxp chans w a rest b :
  List.length (Config.en_new c) = List.length (Config.en_now c) ->
  List.length (Config.en_new c) <> List.length chans ->
  Config.d_ack_supported d = ack_sup flags -> wf_answer a -> snd (Config.transmit d (model_en_req c) a) = true ->
  Request.frame_enable (en_request c) cm = Frame.Ok b ->
  call_func program (S (S (S (S (S n))))) CommHandler__nxslib_channels_enable
    [comm c (dev_obj' cm flags rxp chans) w (map item_pv (answer_items (ack_sup flags) a ++ rest))] [] =
  ExcS "AssertionError" (self_st (comm (en_done c) (dev_obj' cm flags rxp chans) (w ++ [b]) (map item_pv rest))).
Proof.
  intros H Hne Hacs Ha Hok E. rewrite nxslib_channels_enable_func by exact H.
  unfold src_write_enable, write_step. rewrite E, ack_step_answer by exact Ha. cbn [fst snd].
  rewrite <- Hacs, (ack_of_transmit d (model_en_req c) a), Hok.
  apply Nat.eqb_neq in Hne. rewrite Hne. reflexivity.
Qed.

(** D4. an ACK frame whose payload is not 4 bytes: struct.error leaves
    _get_ack (and channels_write), the frame is consumed -- outside the
    model's four answers *)
Theorem get_ack_malformed n c cm flags rxp chans w rest :
  ack_sup flags = true ->
  call_method program (3 + n) (comm c (dev_obj' cm flags rxp chans) w (map item_pv (QFrame 4 [] :: rest))) "_get_ack" [] =
  Exc "struct.error".
Proof. intros H. rewrite get_ack_spec, H. reflexivity. Qed.

(** * The remaining small methods *)
Theorem get_frame_spec n c dev w q :
  call_method program (2 + n) (comm c dev w q) "_get_frame" [] =
  PyLite.Ok (match fst (q_pop q) with Some x => x | None => PNone end, comm c dev w (snd (q_pop q))).
Proof. pystart. destruct q as [|x r]; unfold q_pop; pyrun. Qed.

Definition emb_req_top (self : list bytes -> list qitem -> pv) (w : list bytes) (its : list qitem) (acs : bool)
           (fr : Frame.res bytes) : PyLite.res (pv * pv) :=
  match fr with
  | Frame.Ok b =>
      match fst (ack_step acs its) with
      | Frame.Ok t => PyLite.Ok (IN.ack_obj t, self (w ++ [b])%list (snd (ack_step acs its)))
      | Frame.Raise e => Exc e
      | Frame.Err _ => Unsupported "Err"
      end
  | Frame.Raise e => Exc e
  | Frame.Err _ => Unsupported ""
  end.
#[local] Hint Unfold emb_req_top : cfg_model.

Theorem channel_enable_single_spec n c cm flags rxp chans w its k v :
  call_method program (4 + n) (comm c (dev_obj' cm flags rxp chans) w (map item_pv its)) "_channel_enable"
    [PTuple [PInt k; PBool v]] =
  emb_req_top (fun w' its' => comm c (dev_obj' cm flags rxp chans) w' (map item_pv its')) w its (ack_sup flags)
    (Request.frame_enable (Request.EnSingle k v) cm).
Proof. pystart. pyrun. Qed.

Theorem channel_enable_vec_spec n c cm flags rxp chans w its l :
  call_method program (4 + n) (comm c (dev_obj' cm flags rxp chans) w (map item_pv its)) "_channel_enable"
    [PList (map PBool l)] =
  emb_req_top (fun w' its' => comm c (dev_obj' cm flags rxp chans) w' (map item_pv its')) w its (ack_sup flags)
    (Request.frame_enable (Request.EnVec l) cm).
Proof. pystart. pyrun. Qed.

Theorem channel_div_single_spec n c cm flags rxp chans w its k v :
  call_method program (4 + n) (comm c (dev_obj' cm flags rxp chans) w (map item_pv its)) "_channel_div"
    [PTuple [PInt k; PInt v]] =
  emb_req_top (fun w' its' => comm c (dev_obj' cm flags rxp chans) w' (map item_pv its')) w its (ack_sup flags)
    (Request.frame_div (Request.DivSingle k v) cm).
Proof. pystart. pyrun. Qed.

Theorem channel_div_vec_spec n c cm flags rxp chans w its l :
  call_method program (4 + n) (comm c (dev_obj' cm flags rxp chans) w (map item_pv its)) "_channel_div"
    [PList (map PInt l)] =
  emb_req_top (fun w' its' => comm c (dev_obj' cm flags rxp chans) w' (map item_pv its')) w its (ack_sup flags)
    (Request.frame_div (Request.DivVec l) cm).
Proof. pystart. pyrun. Qed.

Theorem stream_start_spec n c cm flags rxp chans w its :
  call_method program (4 + n) (comm c (dev_obj' cm flags rxp chans) w (map item_pv its)) "stream_start" [] =
  emb_req_top (fun w' its' => comm c (dev_obj' cm flags rxp chans) w' (map item_pv its')) w its (ack_sup flags)
    (Request.frame_start true).
Proof. pystart. pyrun. Qed.

Theorem stream_stop_spec n c cm flags rxp chans w its :
  call_method program (4 + n) (comm c (dev_obj' cm flags rxp chans) w (map item_pv its)) "stream_stop" [] =
  emb_req_top (fun w' its' => comm c (dev_obj' cm flags rxp chans) w' (map item_pv its')) w its (ack_sup flags)
    (Request.frame_start false).
Proof. pystart. pyrun. Qed.

(** _channels_init(dev): the view after connect, [Config.connected] *)
#[local] Hint Resolve channels_en_func channels_div_func : pyspec.
Theorem channels_init_spec n c dev0 w q cm flags rxp chans ds acs :
  call_method program (3 + n) (comm c dev0 w q) "_channels_init" [dev_obj' cm flags rxp chans] =
  PyLite.Ok (PNone, comm (fst (Config.connected (map cd_en chans) (map cd_div chans) ds acs)) dev0 w q).
Proof. pystart. pyrun. cbn [Config.connected fst]. unfold comm, chans_obj. cbn. rewrite !map_map. reflexivity. Qed.

(** the hooks are global Ltac state: restore the defaults for whoever loads this file *)
Ltac py_stuck_hook h ::= fail.
Ltac py_unfold_hook ::= idtac.

(** * Audit *)
Print Assumptions ch_enable_int_spec.
Print Assumptions ch_enable_list_spec.
Print Assumptions ch_disable_int_spec.
Print Assumptions ch_disable_list_spec.
Print Assumptions ch_divider_int_spec.
Print Assumptions ch_divider_list_spec.
Print Assumptions ch_enable_model.
Print Assumptions ch_enable_int_model.
Print Assumptions ch_disable_model.
Print Assumptions ch_disable_int_model.
Print Assumptions ch_divider_model.
Print Assumptions ch_divider_int_model.
Print Assumptions ch_divider_bad_value.
Print Assumptions ch_enable_out_of_range.
Print Assumptions ch_enable_negative.
Print Assumptions ch_enable_list_out_of_range.
Print Assumptions ch_disable_out_of_range.
Print Assumptions ch_divider_out_of_range.
Print Assumptions ch_enable_all_spec.
Print Assumptions ch_disable_all_spec.
Print Assumptions channels_default_cfg_spec.
Print Assumptions ch_enable_all_model.
Print Assumptions ch_disable_all_model.
Print Assumptions channels_default_cfg_model.
Print Assumptions ch_enable_all_short.
Print Assumptions ch_enable_all_long.
Print Assumptions ch_is_enabled_spec.
Print Assumptions ch_div_get_spec.
Print Assumptions ch_is_enabled_in_range.
Print Assumptions ch_div_get_in_range.
Print Assumptions get_ack_spec.
Print Assumptions get_ack_answer.
Print Assumptions get_ack_unsupported.
Print Assumptions get_ack_kinds.
Print Assumptions nxslib_channels_enable_spec.
Print Assumptions nxslib_channels_div_spec.
Print Assumptions channels_write_spec.
Print Assumptions nxslib_channels_enable_model.
Print Assumptions nxslib_channels_div_model.
Print Assumptions channels_write_model_div.
Print Assumptions channels_write_model_nodiv.
Print Assumptions channels_write_model.
Print Assumptions channels_write_no_channels.
Print Assumptions enable_builder_raises.
Print Assumptions div_builder_raises.
Print Assumptions enable_mirror_mismatch.
Print Assumptions get_ack_malformed.
Print Assumptions get_frame_spec.
Print Assumptions channel_enable_single_spec.
Print Assumptions channel_enable_vec_spec.
Print Assumptions channel_div_single_spec.
Print Assumptions channel_div_vec_spec.
Print Assumptions stream_start_spec.
Print Assumptions stream_stop_spec.
Print Assumptions channels_init_spec.
Print Assumptions ack_payload_decode.
Print Assumptions en_request_builds.
Print Assumptions div_request_builds.
Print Assumptions ch_enable_list_partial.

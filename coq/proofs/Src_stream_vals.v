(** What [struct.unpack] returns for the formats of the standard stream rows:
    integers below 2^64 for the fixed-point rows, one bytes item for the CHAR
    rows -- the side conditions under which the interpreted
    [_stream_data_get] and the model's [stream_data_get] agree. *)
From Coq Require Import String List ZArith NArith Bool Lia ZifyBool ZifyN ZifyNat.
From NX Require Import Bytes PyStruct Rn53 StreamTypes PyLite Stream Bytes_proofs PyStruct_proofs
  Stream_values Src_stream_float.
From NX Require Gen_types.
Import ListNotations.
Ltac Zify.zify_post_hook ::= Z.to_euclidean_division_equations.
Open Scope string_scope.
Open Scope list_scope.
Open Scope Z_scope.

Lemma string_of_Z_str_of_Z z : 0 <= z -> string_of_Z z = Stream.str_of_Z z.
Proof. intros H. destruct z; [reflexivity | reflexivity | lia]. Qed.

Definition vals_ok (r : row) (vals : list value) : Prop :=
  match (if r_kind r =? Stream.kind_of "NUM" then Stream.scale_divides (r_scale r) else None) with
  | Some _ => exists zs, vals = map VInt zs /\ Forall small_int zs
  | None => if r_kind r =? Stream.kind_of "CHAR"
            then (exists b, vals = [VBytes b]) \/ zlen vals <> 1
            else True
  end.

Lemma pow256_le_8 k : (k <= 8)%nat -> (pow256 k <= 2 ^ 64)%N.
Proof.
  intros H. unfold pow256. apply N.pow_le_mono_r; lia.
Qed.

Lemma int_code_size_le c : code_is_int c = true -> (code_size c <= 8)%nat.
Proof. destruct c; cbn; intros; try discriminate; lia. Qed.

Lemma unpack_one_small c b :
  code_is_int c = true -> wf_bytes b ->
  exists z, unpack_one LE c (firstn (code_size c) b) = VInt z /\ small_int z.
Proof.
  intros Hc Hb. rewrite unpack_one_int by exact Hc. cbn [dec].
  pose proof (le_dec_bound _ (wf_bytes_firstn (code_size c) b Hb)) as B.
  pose proof (int_code_size_le c Hc) as S8.
  assert (L : (List.length (firstn (code_size c) b) <= code_size c)%nat) by apply firstn_le_length.
  set (x := Bytes.le_dec (firstn (code_size c) b)) in *.
  assert (P1 : (pow256 (List.length (firstn (code_size c) b)) <= pow256 (code_size c))%N).
  { unfold pow256. apply N.pow_le_mono_r; lia. }
  pose proof (pow256_le_8 _ S8) as P2.
  assert (X : (x < 2 ^ 64)%N) by lia.
  change (2 ^ 64)%N with 18446744073709551616%N in *.
  destruct (code_signed c); eexists; (split; [reflexivity|]); unfold small_int.
  - unfold sgn. change (2 ^ 64) with 18446744073709551616.
    pose proof (pow256_pos (code_size c)).
    destruct (x <? pow256 (code_size c) / 2)%N eqn:EE; lia.
  - change (2 ^ 64) with 18446744073709551616. lia.
Qed.

Lemma unpack_many_small c : code_is_int c = true -> forall n b, wf_bytes b ->
  exists zs, unpack_many LE c n b = map VInt zs /\ Forall small_int zs.
Proof.
  intros Hc. induction n as [|n IH]; intros b Hb; cbn [unpack_many].
  - exists []. split; [reflexivity|constructor].
  - destruct (unpack_one_small c b Hc Hb) as (z & E & S).
    destruct (IH (skipn (code_size c) b) (wf_bytes_skipn _ _ Hb)) as (zs & E2 & S2).
    exists (z :: zs). rewrite E, E2. split; [reflexivity|constructor; assumption].
Qed.

Lemma unpack_single_ints c n b vals :
  code_is_int c = true -> unpack (mkFmt LE false [mkItem n c]) b = Some vals ->
  exists zs, vals = map VInt zs /\ Forall small_int zs.
Proof.
  intros Hc. unfold unpack. destruct (_ && _) eqn:E; [|discriminate].
  apply andb_prop in E as [_ W]. apply wf_bytesb_iff in W.
  intros H. inversion H; subst. clear H.
  cbn [fend fitems unpack_items]. rewrite app_nil_r.
  rewrite unpack_item_many by (cbn [icode]; destruct c; discriminate). cbn [icode icnt].
  apply unpack_many_small; [exact Hc|]. apply wf_bytes_firstn, W.
Qed.

Lemma unpack_single_s n b vals :
  unpack (mkFmt LE false [mkItem n Cs]) b = Some vals -> exists x, vals = [VBytes x].
Proof.
  unfold unpack. destruct (_ && _); [|discriminate]. intros H. inversion H. eexists. reflexivity.
Qed.

(** the data format of a standard row: "<" + (str(vdim) if vdim else "") + code *)
Definition row_sfmt (rw : row) (vdim : Z) : string :=
  "<" ++ (if negb (vdim =? 0) then string_of_Z vdim else "") ++ r_fmt rw.

Lemma In_int_codes s c : In (s, c) int_codes -> code_is_int c = true /\ parse_fmt ("<" ++ s) = Some (mkFmt LE false [mkItem 1 c]).
Proof.
  unfold int_codes. cbn [In]. intros H.
  repeat (destruct H as [H|H]; [inversion H; subst; split; reflexivity|]). destruct H.
Qed.

Lemma int_row_fmt s c vdim f :
  In (s, c) int_codes -> 0 <= vdim <= 255 ->
  parse_fmt ("<" ++ (if negb (vdim =? 0) then string_of_Z vdim else "") ++ s) = Some f ->
  exists n, f = mkFmt LE false [mkItem n c] /\ code_is_int c = true.
Proof.
  intros Hin Hv. destruct (In_int_codes s c Hin) as [Hc H0].
  destruct (vdim =? 0) eqn:E; cbn [negb].
  - cbn [String.append] in *. rewrite H0. intros H. inversion H. eauto.
  - rewrite string_of_Z_str_of_Z by lia.
    destruct (int_code_parse s c vdim Hin ltac:(lia)) as [Hp _].
    unfold Stream.str_of_Z in *. cbn [String.append] in *. rewrite Hp. intros H. inversion H. eauto.
Qed.

Lemma s_row_fmt vdim f :
  0 <= vdim <= 255 ->
  parse_fmt ("<" ++ (if negb (vdim =? 0) then string_of_Z vdim else "") ++ "s") = Some f ->
  exists n, f = mkFmt LE false [mkItem n Cs].
Proof.
  intros Hv. destruct (vdim =? 0) eqn:E; cbn [negb].
  - cbn. intros H. inversion H. eauto.
  - rewrite string_of_Z_str_of_Z by lia.
    pose proof (counted_parse "s" Cs vdim counted_sweep_s ltac:(lia)) as Hp.
    cbn [String.append] in *. rewrite Hp. intros H. inversion H. eauto.
Qed.

Lemma zassoc_In {A} k (l : list (Z * A)) v : Stream.zassoc k l = Some v -> In (k, v) l.
Proof.
  induction l as [|[k' w] t IH]; cbn [zassoc]; [discriminate|].
  destruct (Z.eqb_spec k' k) as [->|N]; intros H.
  - inversion H. left. reflexivity.
  - right. exact (IH H).
Qed.

(** for every row of the table: what its format unpacks is acceptable *)
Theorem vals_ok_unpack t rw vdim f b vals :
  Stream.zassoc t Gen_types.dsfmt_rows = Some rw -> 0 <= vdim <= 255 ->
  parse_fmt (row_sfmt rw vdim) = Some f -> unpack f b = Some vals ->
  vals_ok rw vals.
Proof.
  intros Hr Hv Hf Hu. apply zassoc_In in Hr. unfold Gen_types.dsfmt_rows in Hr. cbn [In] in Hr.
  unfold row_sfmt in Hf.
  repeat (destruct Hr as [Hr|Hr]; [inversion Hr; subst t rw; clear Hr|]); try destruct Hr.
  all: unfold vals_ok; change (Stream.kind_of "NUM") with 1; change (Stream.kind_of "CHAR") with 2;
       cbn [r_kind r_scale r_fmt Z.eqb Pos.eqb] in *;
       repeat match goal with
              | |- context [Stream.scale_divides ?s] =>
                  let v := eval vm_compute in (Stream.scale_divides s) in
                  change (Stream.scale_divides s) with v
              end; cbv iota; try exact I.
  1-6: match type of Hf with
       | context [String.append _ ?s] =>
           let c := eval vm_compute in (match find (fun p => String.eqb (fst p) s) int_codes with
                                        | Some p => snd p | None => Cx end) in
           destruct (int_row_fmt s c vdim f ltac:(cbn; tauto) Hv Hf) as (n & -> & Hc);
           exact (unpack_single_ints c n b vals Hc Hu)
       end.
  all: destruct (s_row_fmt vdim f Hv Hf) as (n & ->); left; exact (unpack_single_s n b vals Hu).
Qed.

(** Generic facts used by proofs/Src_parserecv_proofs.v (nothing here mentions
    the program):
      - the format string  str(n) + code  parses to ONE item of count n
        ([parse_fmt_counted]: decimal printing against [parse_items]);
      - the values a counted "?" / "B" item unpacks to;
      - the model's [Request.list_set] against the interpreter's item
        assignment ([norm_index] / [PyLite.list_set]);
      - [x for i in range(n)] is [repeat x n]. *)
From Coq Require Import String Ascii List ZArith NArith Bool Lia DecimalString DecimalPos.
From NX Require Import Bytes PyStruct PyLite.
From NX Require Request.
Import ListNotations.
Open Scope string_scope.
Open Scope Z_scope.

(** * Decimal printing against the format parser *)
Fixpoint uvaln (d : Decimal.uint) (acc : nat) : nat :=
  match d with
  | Decimal.Nil => acc
  | Decimal.D0 l => uvaln l (10 * acc + 0)
  | Decimal.D1 l => uvaln l (10 * acc + 1)
  | Decimal.D2 l => uvaln l (10 * acc + 2)
  | Decimal.D3 l => uvaln l (10 * acc + 3)
  | Decimal.D4 l => uvaln l (10 * acc + 4)
  | Decimal.D5 l => uvaln l (10 * acc + 5)
  | Decimal.D6 l => uvaln l (10 * acc + 6)
  | Decimal.D7 l => uvaln l (10 * acc + 7)
  | Decimal.D8 l => uvaln l (10 * acc + 8)
  | Decimal.D9 l => uvaln l (10 * acc + 9)
  end%nat.

Lemma uvaln_of_lu d : forall acc acc',
  N.of_nat acc = Unsigned.of_lu acc' ->
  N.of_nat (uvaln d acc) = Unsigned.of_lu (Decimal.revapp d acc').
Proof.
  induction d; intros acc acc' H; cbn [uvaln Decimal.revapp]; [exact H| ..];
    apply IHd; cbn [Unsigned.of_lu]; lia.
Qed.

Lemma uvaln_to_uint p : uvaln (Pos.to_uint p) 0 = Pos.to_nat p.
Proof.
  pose proof (uvaln_of_lu (Pos.to_uint p) 0%nat Decimal.Nil eq_refl) as H.
  change (Decimal.revapp (Pos.to_uint p) Decimal.Nil) with (Decimal.rev (Pos.to_uint p)) in H.
  rewrite <- Unsigned.of_uint_alt, Unsigned.of_to in H. lia.
Qed.

Lemma parse_items_cons a r cnt :
  parse_items (a :: r) cnt =
  match digit_of_ascii a with
  | Some d => parse_items r (Some (match cnt with None => d | Some c => (10 * c + d)%nat end))
  | None =>
      if is_space a then match cnt with None => parse_items r None | Some _ => None end
      else match code_of_ascii a with
           | Some c =>
               match parse_items r None with
               | Some its => Some (mkItem (match cnt with None => 1%nat | Some n => n end) c :: its)
               | None => None
               end
           | None => None
           end
  end.
Proof. reflexivity. Qed.

Lemma parse_items_digits c code :
  code_of_ascii c = Some code -> digit_of_ascii c = None -> is_space c = false ->
  forall d acc,
    parse_items (String.list_ascii_of_string (NilEmpty.string_of_uint d) ++ [c]) (Some acc) =
    Some [mkItem (uvaln d acc) code].
Proof.
  intros Hc Hd Hs. induction d; intros acc;
    cbn [NilEmpty.string_of_uint String.list_ascii_of_string app uvaln].
  - rewrite parse_items_cons, Hd, Hs, Hc. reflexivity.
  - rewrite parse_items_cons. cbn [digit_of_ascii]. apply IHd.
  - rewrite parse_items_cons. cbn [digit_of_ascii]. apply IHd.
  - rewrite parse_items_cons. cbn [digit_of_ascii]. apply IHd.
  - rewrite parse_items_cons. cbn [digit_of_ascii]. apply IHd.
  - rewrite parse_items_cons. cbn [digit_of_ascii]. apply IHd.
  - rewrite parse_items_cons. cbn [digit_of_ascii]. apply IHd.
  - rewrite parse_items_cons. cbn [digit_of_ascii]. apply IHd.
  - rewrite parse_items_cons. cbn [digit_of_ascii]. apply IHd.
  - rewrite parse_items_cons. cbn [digit_of_ascii]. apply IHd.
  - rewrite parse_items_cons. cbn [digit_of_ascii]. apply IHd.
Qed.

Lemma list_ascii_of_string_app s t :
  String.list_ascii_of_string (s ++ t) = (String.list_ascii_of_string s ++ String.list_ascii_of_string t)%list.
Proof. induction s; cbn [String.append String.list_ascii_of_string app]; [reflexivity | now rewrite IHs]. Qed.

(** a non-empty digit string, then a code character: one counted item *)
Lemma parse_fmt_digits c code d :
  code_of_ascii c = Some code -> digit_of_ascii c = None -> is_space c = false ->
  d <> Decimal.Nil ->
  parse_fmt (NilEmpty.string_of_uint d ++ String c "") = Some (mk_native [mkItem (uvaln d 0) code]).
Proof.
  intros Hc Hd Hs Hn. unfold parse_fmt. rewrite list_ascii_of_string_app.
  change (String.list_ascii_of_string (String c "")) with [c].
  pose proof (parse_items_digits c code Hc Hd Hs) as P.
  destruct d; [congruence | ..];
    cbn [NilEmpty.string_of_uint String.list_ascii_of_string app];
    rewrite parse_items_cons; cbn [digit_of_ascii];
    (rewrite P; cbn [uvaln Nat.mul Nat.add option_map]; reflexivity).
Qed.

Lemma parse_fmt_counted c code z :
  code_of_ascii c = Some code -> digit_of_ascii c = None -> is_space c = false ->
  0 <= z ->
  parse_fmt (string_of_Z z ++ String c "") = Some (mk_native [mkItem (Z.to_nat z) code]).
Proof.
  intros Hc Hd Hs Hz. destruct z as [|p|p]; [| |lia].
  - change (string_of_Z 0) with (NilEmpty.string_of_uint (Decimal.D0 Decimal.Nil)).
    rewrite (parse_fmt_digits c code _ Hc Hd Hs) by discriminate. reflexivity.
  - unfold string_of_Z. cbn [Z.to_int NilZero.string_of_int Z.to_nat].
    unfold NilZero.string_of_uint.
    pose proof (Unsigned.to_uint_nonnil p) as Hn.
    destruct (Pos.to_uint p) eqn:E; [congruence | ..]; rewrite <- E in *;
      (rewrite (parse_fmt_digits c code _ Hc Hd Hs) by exact Hn; rewrite uvaln_to_uint; reflexivity).
Qed.

Lemma parse_fmt_counted_bool z : 0 <= z ->
  parse_fmt (string_of_Z z ++ "?") = Some (mkFmt LE true [mkItem (Z.to_nat z) Cbool]).
Proof. intros H. rewrite (parse_fmt_counted "?"%char Cbool) by (reflexivity || exact H). reflexivity. Qed.

Lemma parse_fmt_counted_B z : 0 <= z ->
  parse_fmt (string_of_Z z ++ "B") = Some (mkFmt LE true [mkItem (Z.to_nat z) CB]).
Proof. intros H. rewrite (parse_fmt_counted "B"%char CB) by (reflexivity || exact H). reflexivity. Qed.

(** * What a counted "?" / "B" item unpacks to *)
Definition value_int (v : PyStruct.value) : Z := match v with VInt z => z | _ => 0 end.

Lemma unpack_many_bool e n : forall b,
  map of_sv (unpack_many e Cbool n b) = map PBool (Request.bools_of (unpack_many e Cbool n b)).
Proof.
  induction n; intros b; cbn [unpack_many map Request.bools_of]; [reflexivity|].
  f_equal. apply IHn.
Qed.

Lemma unpack_items_bool e n b :
  map of_sv (unpack_items e [mkItem n Cbool] b) =
  map PBool (Request.bools_of (unpack_items e [mkItem n Cbool] b)).
Proof.
  cbn [unpack_items unpack_item icode icnt]. rewrite app_nil_r. apply unpack_many_bool.
Qed.

Lemma unpack_many_B e n : forall b,
  Request.ints_of (unpack_many e CB n b) = Frame.Ok (map value_int (unpack_many e CB n b)) /\
  map of_sv (unpack_many e CB n b) = map PInt (map value_int (unpack_many e CB n b)).
Proof.
  induction n; intros b; cbn [unpack_many map Request.ints_of]; [split; reflexivity|].
  destruct (IHn (skipn (code_size CB) b)) as [H1 H2].
  cbn [unpack_one code_signed]. cbn [Request.ints_of]. rewrite H1. cbn [Request.bind map value_int of_sv].
  split; [reflexivity|]. f_equal. exact H2.
Qed.

Lemma unpack_items_B e n b :
  Request.ints_of (unpack_items e [mkItem n CB] b) =
    Frame.Ok (map value_int (unpack_items e [mkItem n CB] b)) /\
  map of_sv (unpack_items e [mkItem n CB] b) =
    map PInt (map value_int (unpack_items e [mkItem n CB] b)).
Proof.
  cbn [unpack_items unpack_item icode icnt]. rewrite app_nil_r. apply unpack_many_B.
Qed.

(** the item-wise decoding of a two-byte "BB": both values are bytes *)
Lemma unpack_BB_range f b x y :
  fitems f = [mkItem 1 CB; mkItem 1 CB] ->
  unpack f b = Some [VInt x; VInt y] -> 0 <= x /\ 0 <= y.
Proof.
  intros Hf. unfold unpack. rewrite Hf. destruct (_ && _); [|discriminate].
  cbn [unpack_items unpack_item icode icnt unpack_many unpack_one code_signed app].
  intros H. inversion H. lia.
Qed.

(** * Item assignment *)
Lemma list_set_model {A B} (g : A -> B) (l : list A) (k : nat) (x : A) :
  match Request.list_set l k x with
  | Some l' => (k < List.length l)%nat /\ map g l' = PyLite.list_set (map g l) k (g x)
  | None => (List.length l <= k)%nat
  end.
Proof.
  revert k. induction l as [|y r IH]; intros k; cbn [Request.list_set]; [cbn; lia|].
  destruct k as [|k]; cbn [map PyLite.list_set List.length].
  - split; [lia | reflexivity].
  - specialize (IH k). destruct (Request.list_set r k x); cbn [option_map].
    + destruct IH as [H1 H2]. split; [lia|]. cbn [map]. now rewrite H2.
    + lia.
Qed.

Lemma norm_index_nonneg len z : 0 <= z ->
  norm_index len z = if z <? Z.of_nat len then Some (Z.to_nat z) else None.
Proof.
  intros H. unfold norm_index.
  destruct (z <? Z.of_nat len) eqn:E.
  - replace (0 <=? z) with true by lia. reflexivity.
  - replace ((0 <=? z) && false) with false by (destruct (0 <=? z); reflexivity).
    replace (z <? 0) with false by lia. reflexivity.
Qed.

(** * [x for i in range(n)] *)
Lemma map_const_repeat {A B} (x : B) (l : list A) : map (fun _ => x) l = repeat x (List.length l).
Proof. induction l; cbn [map List.length repeat]; [reflexivity | now rewrite IHl]. Qed.

Lemma range_list_map lo hi :
  range_list lo hi = map (fun k => PInt (lo + Z.of_nat k)) (seq 0 (Z.to_nat (hi - lo))).
Proof. reflexivity. Qed.

Lemma map_repeat {A B} (f : A -> B) x n : map f (repeat x n) = repeat (f x) n.
Proof. induction n; cbn [repeat map]; [reflexivity | now rewrite IHn]. Qed.

(** The channel object used in proofs/Src_stream_proofs.v ([chan_obj]) is what
    the interpreted constructor [DeviceChannel(chan, _type, vdim, name, en, div, mlen)]
    builds. *)
From Coq Require Import String Ascii List ZArith NArith Bool Lia ZifyBool DecimalString.
From NX Require Import Bytes PyStruct Crc Utf8 Rn53 PyLite PyLite_tactics PyLite_while
  Src_iframe Src_serialframe Src_dev Src_iparse Src_parse Src_all.
From NX Require Frame Gen_frame Gen_types StreamTypes Stream.
From NX Require Import Bytes_proofs Utf8_proofs Src_serialframe_proofs Src_stream_float Src_stream_utf8 Src_stream_vals.
From NX Require Import Src_stream_proofs Src_stream_model.
Import ListNotations.
Import StreamTypes.
Open Scope string_scope.
Open Scope list_scope.
Open Scope Z_scope.

Lemma land31 t : 0 <= Z.land t 31 <= 31.
Proof.
  split; [apply Z.land_nonneg; right; lia|].
  assert (H : Z.land t 31 = t mod 32) by (change 31 with (Z.ones 5); rewrite Z.land_ones by lia; reflexivity).
  rewrite H. pose proof (Z.mod_pos_bound t 32). lia.
Qed.

Theorem chan_construct n cc :
  construct program (4 + n) "DeviceChannel"
    [PInt (cc_chan cc); PInt (cc_type cc); PInt (cc_vdim cc); PStr (cc_name cc); PBool (cc_en cc);
     PInt (cc_div cc); PInt (cc_mlen cc)] = PyLite.Ok (chan_obj cc).
Proof.
  pystart. pose proof (land31 (cc_type cc)). pysteps.
  all: try (exfalso; lia).
  all: unfold chan_obj, chan_data_obj; cbv zeta.
  all: repeat match goal with
              | E : (_ =? _)%string = true |- _ => apply String.eqb_eq in E; rewrite <- E; clear E
              | E : (_ =? _) = _ |- _ => try rewrite E; clear E
              | E : (_ <=? _) = _ |- _ => clear E
              end; cbn [negb orb]; try reflexivity.
Qed.

Print Assumptions chan_construct.

(** C02 (dispatcher) and C05 end to end on the interpreted source: the client's
    request builders (parse.py), the device-side dispatcher with recording
    callbacks and the device-side decoders (parserecv.py), each run by the
    PyLite interpreter on its regenerated syntax, composed along the
    refinements and the "delivered" theorems of Request_proofs. *)
From Coq Require Import String List ZArith NArith Lia.
From NX Require Import Bytes PyStruct Crc PyLite Src_all Src_serialframe_proofs.
From NX Require Src_parse_req_proofs Src_parserecv_proofs.
From NX Require Frame Wire Request Request_proofs Dispatch_proofs C02_proofs C02_detect ErrClass.
Import ListNotations.
Import Frame(DNone, DCall, DAssert, RStart, RCmninfo, RChinfo, REnable, RDiv).
Open Scope string_scope.
Open Scope list_scope.
Open Scope Z_scope.

Module R := Src_parse_req_proofs.
Module D := Src_parserecv_proofs.

Definition logged (lg : list pv) (name : string) (payload : bytes) : pv :=
  D.pr (lg ++ [PTuple [PStr name; PBytes payload]]).

(** ** the dispatcher on ANY byte string *)
Lemma src_recv_handle_call n lg d r p :
  Frame.recv_dispatch d = DCall r p ->
  call_method program (4 + n) (D.pr lg) "recv_handle" [PBytes d] =
  PyLite.Ok (PNone, logged lg (D.name_of r) p).
Proof.
  intros H. rewrite D.recv_handle_gen_spec. unfold D.emb_recv.
  destruct (D.recv_raises d) eqn:E.
  - apply D.recv_raises_dispatch in E. congruence.
  - rewrite H. reflexivity.
Qed.

Theorem src_dispatch_decides n lg d :
  wf_bytes d ->
  (Frame.recv_dispatch d = DNone /\
   call_method program (4 + n) (D.pr lg) "recv_handle" [PBytes d] = PyLite.Ok (PNone, D.pr lg))
  \/
  (exists r p pre d' fid,
     d = pre ++ d' /\ Dispatch_proofs.no_sof pre /\ Wire.accepts d' fid p /\
     Frame.recv_cb_handle (Z.of_N fid) p = DCall r p /\
     call_method program (4 + n) (D.pr lg) "recv_handle" [PBytes d] =
     PyLite.Ok (PNone, logged lg (D.name_of r) p))
  \/
  (Frame.recv_dispatch d = DAssert /\
   call_method program (4 + n) (D.pr lg) "recv_handle" [PBytes d] = Exc "AssertionError").
Proof.
  intros Hw. rewrite (D.recv_handle_spec n lg d Hw).
  destruct (Frame.recv_dispatch d) as [|r p|] eqn:E.
  - left. split; reflexivity.
  - right. left.
    destruct (C02_proofs.dispatch_call_accepts d r p Hw E) as (pre & d' & fid & E1 & E2 & E3 & E4).
    exists r, p, pre, d', fid. repeat split; assumption.
  - right. right. split; reflexivity.
Qed.

(** a damaged request (error pattern of the detected classes, start byte intact) is ignored *)
Theorem src_corrupted_request_ignored n lg fid p e :
  0 <= fid <= 8 -> wf_bytes p -> zlen (Wire.wire (Z.to_N fid) p) <= 4095 ->
  length e = length (Wire.wire (Z.to_N fid) p) -> wf_bytes e ->
  C02_detect.length_intact e -> nth 0 e 0%N = 0%N -> ErrClass.err_class (bits_of e) ->
  call_method program (4 + n) (D.pr lg) "recv_handle" [PBytes (xor_bytes (Wire.wire (Z.to_N fid) p) e)] =
  PyLite.Ok (PNone, D.pr lg).
Proof.
  intros. rewrite D.recv_handle_gen_spec. unfold D.emb_recv.
  pose proof (C02_detect.corrupted_request_ignored fid p e) as Hd.
  rewrite Hd by assumption.
  destruct (D.recv_raises _) eqn:E; [|reflexivity].
  apply D.recv_raises_dispatch in E. rewrite Hd in E by assumption. discriminate.
Qed.

(** ** C05 end to end: what the client builds, the device receives and decodes *)
Lemma delivered_src n lg r fr payload :
  Request_proofs.delivered r fr payload ->
  exists f, fr = Frame.Ok f /\
    call_method program (4 + n) (D.pr lg) "recv_handle" [PBytes f] =
    PyLite.Ok (PNone, logged lg (D.name_of r) payload).
Proof.
  intros (fid & E & Hd). exists (Wire.wire fid payload). split; [exact E|].
  apply src_recv_handle_call. exact Hd.
Qed.

Theorem src_enable_vector_end_to_end n lg x chans l :
  length l = length chans -> 1 <= zlen chans <= 255 ->
  exists frame payload,
    call_method program (3 + n) R.pa "frame_enable" [PList (map PBool l); PInt (zlen chans)] =
      PyLite.Ok (PBytes frame, R.pa) /\
    call_method program (4 + n) (D.pr lg) "recv_handle" [PBytes frame] =
      PyLite.Ok (PNone, logged lg "enable" payload) /\
    call_method program (3 + n) (D.pr lg) "frame_enable_decode" [PBytes payload; D.dev_obj x chans] =
      PyLite.Ok (PList (map PBool l), D.pr lg).
Proof.
  intros Hl Hn.
  assert (Hz : zlen (map D.ch_en chans) = zlen chans) by (unfold zlen; now rewrite map_length).
  destruct (Request_proofs.enable_vec_delivered (map D.ch_en chans) l) as (payload & Hd & Hdec).
  { now rewrite map_length. } { lia. }
  rewrite Hz in Hd.
  destruct (delivered_src n lg _ _ _ Hd) as (f & Ef & Hr).
  exists f, payload. repeat split.
  - rewrite R.frame_enable_vec_spec, Ef. reflexivity.
  - exact Hr.
  - rewrite D.frame_enable_decode_spec, Hdec. reflexivity.
Qed.

Theorem src_enable_single_end_to_end n lg x chans k v :
  0 <= k < zlen chans -> zlen chans <= 255 ->
  exists frame cur',
    call_method program (3 + n) R.pa "frame_enable" [PTuple [PInt k; PBool v]; PInt (zlen chans)] =
      PyLite.Ok (PBytes frame, R.pa) /\
    call_method program (4 + n) (D.pr lg) "recv_handle" [PBytes frame] =
      PyLite.Ok (PNone, logged lg "enable" [0%N; Z.to_N k; Request.b01 v]) /\
    call_method program (3 + n) (D.pr lg) "frame_enable_decode"
      [PBytes [0%N; Z.to_N k; Request.b01 v]; D.dev_obj x chans] =
      PyLite.Ok (PList (map PBool cur'), D.pr lg) /\
    Request.list_set (map D.ch_en chans) (Z.to_nat k) v = Some cur'.
Proof.
  intros Hk Hn.
  assert (Hz : zlen (map D.ch_en chans) = zlen chans) by (unfold zlen; now rewrite map_length).
  destruct (Request_proofs.enable_single_delivered (map D.ch_en chans) k v) as (cur' & Hd & Hdec & Hset); try lia.
  rewrite Hz in Hd.
  destruct (delivered_src n lg _ _ _ Hd) as (f & Ef & Hr).
  exists f, cur'. repeat split.
  - rewrite R.frame_enable_single_spec, Ef. reflexivity.
  - exact Hr.
  - rewrite D.frame_enable_decode_spec, Hdec. reflexivity.
  - exact Hset.
Qed.

Theorem src_div_vector_end_to_end n lg x chans l :
  length l = length chans -> 1 <= zlen chans <= 255 -> Request_proofs.all_u8 l ->
  exists frame payload,
    call_method program (3 + n) R.pa "frame_div" [PList (map PInt l); PInt (zlen chans)] =
      PyLite.Ok (PBytes frame, R.pa) /\
    call_method program (4 + n) (D.pr lg) "recv_handle" [PBytes frame] =
      PyLite.Ok (PNone, logged lg "div" payload) /\
    call_method program (3 + n) (D.pr lg) "frame_div_decode" [PBytes payload; D.dev_obj x chans] =
      PyLite.Ok (PList (map PInt l), D.pr lg).
Proof.
  intros Hl Hn Hu.
  assert (Hz : zlen (map D.ch_div chans) = zlen chans) by (unfold zlen; now rewrite map_length).
  destruct (Request_proofs.div_vec_delivered (map D.ch_div chans) l) as (payload & Hd & Hdec).
  { now rewrite map_length. } { lia. } { exact Hu. }
  rewrite Hz in Hd.
  destruct (delivered_src n lg _ _ _ Hd) as (f & Ef & Hr).
  exists f, payload. repeat split.
  - rewrite R.frame_div_vec_spec, Ef. reflexivity.
  - exact Hr.
  - rewrite D.frame_div_decode_spec, Hdec. reflexivity.
Qed.

Theorem src_div_single_end_to_end n lg x chans k v :
  0 <= k < zlen chans -> zlen chans <= 255 -> 0 <= v < 256 ->
  exists frame cur',
    call_method program (3 + n) R.pa "frame_div" [PTuple [PInt k; PInt v]; PInt (zlen chans)] =
      PyLite.Ok (PBytes frame, R.pa) /\
    call_method program (4 + n) (D.pr lg) "recv_handle" [PBytes frame] =
      PyLite.Ok (PNone, logged lg "div" [0%N; Z.to_N k; Z.to_N v]) /\
    call_method program (3 + n) (D.pr lg) "frame_div_decode"
      [PBytes [0%N; Z.to_N k; Z.to_N v]; D.dev_obj x chans] =
      PyLite.Ok (PList (map PInt cur'), D.pr lg) /\
    Request.list_set (map D.ch_div chans) (Z.to_nat k) v = Some cur'.
Proof.
  intros Hk Hn Hv.
  assert (Hz : zlen (map D.ch_div chans) = zlen chans) by (unfold zlen; now rewrite map_length).
  destruct (Request_proofs.div_single_delivered (map D.ch_div chans) k v) as (cur' & Hd & Hdec & Hset); try lia.
  rewrite Hz in Hd.
  destruct (delivered_src n lg _ _ _ Hd) as (f & Ef & Hr).
  exists f, cur'. repeat split.
  - rewrite R.frame_div_single_spec, Ef. reflexivity.
  - exact Hr.
  - rewrite D.frame_div_decode_spec, Hdec. reflexivity.
  - exact Hset.
Qed.

Theorem src_start_end_to_end n lg v :
  exists frame,
    call_method program (2 + n) R.pa "frame_start" [PBool v] = PyLite.Ok (PBytes frame, R.pa) /\
    call_method program (4 + n) (D.pr lg) "recv_handle" [PBytes frame] =
      PyLite.Ok (PNone, logged lg "start" [Request.b01 v]) /\
    call_method program (1 + n) (D.pr lg) "frame_start_decode" [PBytes [Request.b01 v]] =
      PyLite.Ok (PBool v, D.pr lg).
Proof.
  destruct (Request_proofs.start_delivered v) as [Hd Hdec].
  destruct (delivered_src n lg _ _ _ Hd) as (f & Ef & Hr).
  exists f. repeat split.
  - rewrite R.frame_start_spec, Ef. reflexivity.
  - exact Hr.
  - rewrite D.frame_start_decode_spec, Hdec. reflexivity.
Qed.

Theorem src_chinfo_request_end_to_end n lg k :
  0 <= k <= 255 ->
  exists frame,
    call_method program (2 + n) R.pa "frame_chinfo" [PInt k] = PyLite.Ok (PBytes frame, R.pa) /\
    call_method program (4 + n) (D.pr lg) "recv_handle" [PBytes frame] =
      PyLite.Ok (PNone, logged lg "chinfo" [Z.to_N k]).
Proof.
  intros Hk. destruct (delivered_src n lg _ _ _ (Request_proofs.chinfo_delivered k Hk)) as (f & Ef & Hr).
  exists f. split; [rewrite R.frame_chinfo_spec, Ef; reflexivity|exact Hr].
Qed.

Theorem src_cmninfo_request_end_to_end n lg :
  exists frame,
    call_method program (2 + n) R.pa "frame_cmninfo" [] = PyLite.Ok (PBytes frame, R.pa) /\
    call_method program (4 + n) (D.pr lg) "recv_handle" [PBytes frame] =
      PyLite.Ok (PNone, logged lg "cmninfo" []).
Proof.
  destruct (delivered_src n lg _ _ _ Request_proofs.cmninfo_delivered) as (f & Ef & Hr).
  exists f. split; [rewrite R.frame_cmninfo_spec, Ef; reflexivity|exact Hr].
Qed.

(** Frame reassembly over an arbitrarily chunked link delivers exactly the
    frames of one left-to-right scan of the concatenated bytes (C03). *)
From Coq Require Import Lia ZifyBool ZifyNat ZifyN String.
From NX Require Import Bytes PyStruct Crc Frame Wire Reasm Bytes_proofs Crc_proofs Frame_proofs Dispatch_proofs C02_proofs.
From NX Require Gen_frame.
Ltac Zify.zify_post_hook ::= Z.to_euclidean_division_equations.
Open Scope Z_scope.

Definition wf_link (l : link) : Prop := Forall wf_bytes l.

Local Notation fs s := (fst (scan s)).

(** * Small helpers *)
Lemma wf_nil : wf_bytes [].
Proof. apply Forall_nil. Qed.

Lemma wf_cons_inv x r : wf_bytes (x :: r) -> (x < 256)%N /\ wf_bytes r.
Proof. unfold wf_bytes. intros H. apply Forall_cons_iff in H. exact H. Qed.

Lemma wf_app_inv a b : wf_bytes (a ++ b) -> wf_bytes a /\ wf_bytes b.
Proof. unfold wf_bytes. intros H. apply Forall_app in H. exact H. Qed.

Lemma wf_concat l : wf_link l -> wf_bytes (List.concat l).
Proof.
  induction 1 as [|c r Hc Hr IH]; cbn [List.concat]; [apply wf_nil|].
  apply wf_bytes_app; assumption.
Qed.

Lemma wf4 s lo hi f rest : wf_bytes (s :: lo :: hi :: f :: rest) ->
  (s < 256 /\ lo < 256 /\ hi < 256 /\ f < 256)%N.
Proof.
  intros H.
  apply wf_cons_inv in H as [H1 H]. apply wf_cons_inv in H as [H2 H].
  apply wf_cons_inv in H as [H3 H]. apply wf_cons_inv in H as [H4 H].
  repeat split; assumption.
Qed.

Lemma slice_to_app_le {A} (a b : list A) j :
  0 <= j <= zlen a -> slice_to (a ++ b) j = slice_to a j.
Proof.
  intros H. unfold slice_to, zlen in *.
  rewrite !clip_index_in by (rewrite ?app_length; lia).
  rewrite firstn_app.
  replace (Z.to_nat j - List.length a)%nat with O by lia.
  cbn [firstn]. apply app_nil_r.
Qed.

Lemma slice_from_app_le {A} (a b : list A) j :
  0 <= j <= zlen a -> slice_from (a ++ b) j = slice_from a j ++ b.
Proof.
  intros H. unfold slice_from, zlen in *.
  rewrite !clip_index_in by (rewrite ?app_length; lia).
  rewrite skipn_app.
  replace (Z.to_nat j - List.length a)%nat with O by lia.
  reflexivity.
Qed.

Lemma slice_from_1_cons {A} (x : A) r : slice_from (x :: r) 1 = r.
Proof.
  unfold slice_from. rewrite clip_index_in by (cbn [List.length]; lia).
  change (Z.to_nat 1) with 1%nat. reflexivity.
Qed.

Lemma zlen_cons {A} (x : A) r : zlen (x :: r) = 1 + zlen r.
Proof. unfold zlen. cbn [List.length]. lia. Qed.

Lemma zlen_slice_to {A} (l : list A) j : 0 <= j <= zlen l -> zlen (slice_to l j) = j.
Proof.
  intros H. unfold slice_to, zlen in *. rewrite clip_index_in by lia.
  rewrite firstn_length. lia.
Qed.

Lemma length_slice_from {A} (l : list A) j : 0 <= j <= zlen l ->
  (List.length (slice_from l j) = List.length l - Z.to_nat j)%nat.
Proof.
  intros H. unfold slice_from, zlen in *. rewrite clip_index_in by lia.
  apply skipn_length.
Qed.

Lemma slice_from_shorter {A} (s : list A) k :
  s <> [] -> 1 <= k -> (List.length (slice_from s k) < List.length s)%nat.
Proof.
  intros Hs Hk. unfold slice_from. rewrite skipn_length.
  assert (L : (1 <= List.length s)%nat) by (destruct s; [congruence|cbn [List.length]; lia]).
  assert (C : (1 <= clip_index (List.length s) k)%nat).
  { unfold clip_index. replace (k <? 0) with false by lia.
    replace (k <? 0) with false by lia.
    destruct (Z.of_nat (List.length s) <? k) eqn:E; lia. }
  lia.
Qed.

Lemma wf_slice_from l j : wf_bytes l -> wf_bytes (slice_from l j).
Proof. intros H. unfold slice_from. apply wf_bytes_skipn. exact H. Qed.

Lemma wf_slice_to l j : wf_bytes l -> wf_bytes (slice_to l j).
Proof. intros H. unfold slice_to. apply wf_bytes_firstn. exact H. Qed.

(** * Facts about the header decoder *)
Lemma hdr_decode_app a b : 4 <= zlen a -> hdr_decode (a ++ b) = hdr_decode a.
Proof.
  intros H. unfold hdr_decode, hdr_len. change Gen_frame.hdr_end with 4.
  rewrite zlen_app. pose proof (zlen_nonneg b) as Hb.
  replace (zlen a + zlen b <? 4) with false by lia.
  replace (zlen a <? 4) with false by lia.
  rewrite (slice_to_app_le a b 4) by lia. reflexivity.
Qed.

Lemma hdr_decode_ok_inv b fid flen : wf_bytes b -> hdr_decode b = Ok (fid, flen) ->
  (exists r, b = 85%N :: r) /\ 4 <= zlen b /\ 0 <= flen.
Proof.
  intros Hwf H.
  destruct (Z_lt_ge_dec (zlen b) 4) as [Hs|Hl].
  { rewrite hdr_decode_short in H by exact Hs. discriminate. }
  destruct b as [|s [|lo [|hi [|f rest]]]]; try (unfold zlen in Hl; cbn [List.length] in Hl; lia).
  destruct (wf4 _ _ _ _ _ Hwf) as (H1 & H2 & H3 & H4).
  rewrite hdr_decode_cons in H by assumption.
  destruct (s =? 85)%N eqn:Es; cbn [negb] in H; [|discriminate].
  apply N.eqb_eq in Es. subst s.
  destruct (negb (known_id (Z.of_N f))); [discriminate|].
  inversion H; subst fid flen.
  split; [eexists; reflexivity|]. split; lia.
Qed.

Lemma hdr_decode_no_raise b w : wf_bytes b -> hdr_decode b <> Raise w.
Proof.
  intros Hwf H.
  destruct (Z_lt_ge_dec (zlen b) 4) as [Hs|Hl].
  { rewrite hdr_decode_short in H by exact Hs. discriminate. }
  destruct b as [|s [|lo [|hi [|f rest]]]]; try (unfold zlen in Hl; cbn [List.length] in Hl; lia).
  destruct (wf4 _ _ _ _ _ Hwf) as (H1 & H2 & H3 & H4).
  rewrite hdr_decode_cons in H by assumption.
  destruct (negb (s =? 85)%N); [discriminate|].
  destruct (negb (known_id (Z.of_N f))); discriminate.
Qed.

Lemma frame_decode_no_raise d w : wf_bytes d -> frame_decode d <> Raise w.
Proof.
  intros Hwf H. destruct (frame_decode_total d Hwf) as [(fid & p & E)|[E|E]];
    rewrite E in H; discriminate.
Qed.

Lemma frame_decode_ok_len d fid p : frame_decode d = Ok (fid, p) -> 4 <= zlen d.
Proof.
  intros H. destruct (Z_lt_ge_dec (zlen d) 4) as [Hs|Hl]; [|lia].
  unfold frame_decode in H. rewrite hdr_decode_short in H by exact Hs. discriminate.
Qed.

(** first SOF of a buffer *)
Lemma sof_split (d : bytes) :
  no_sof d \/ exists pre l, d = pre ++ 85%N :: l /\ no_sof pre.
Proof.
  induction d as [|x r' IH].
  - left. intros y [].
  - destruct (N.eq_dec x 85) as [->|Nx].
    + right. exists [], r'. split; [reflexivity|intros y []].
    + destruct IH as [IH|(pre & l & E & Hpre)].
      * left. intros y [<-|Hy]; [exact Nx|apply IH; exact Hy].
      * right. exists (x :: pre), l. split; [rewrite E; reflexivity|].
        intros y [<-|Hy]; [exact Nx|apply Hpre; exact Hy].
Qed.

(** * The specification [scan] *)

(** scan does not depend on surplus fuel *)
Lemma scan_fuel_enough : forall f1 f2 s,
  (List.length s < f1)%nat -> (List.length s < f2)%nat -> scan_fuel f1 s = scan_fuel f2 s.
Proof.
  induction f1 as [|f1 IH]; intros f2 s H1 H2; [lia|].
  destruct f2 as [|f2]; [lia|].
  cbn [scan_fuel].
  destruct s as [|x r]; [reflexivity|].
  cbn [List.length] in H1, H2.
  rewrite (IH f2 r) by lia.
  destruct (negb (x =? sof_byte)%N); [reflexivity|].
  destruct (zlen (x :: r) <? hdr_len); [reflexivity|].
  destruct (hdr_decode (x :: r)) as [[fid flen]|e|w]; try reflexivity.
  destruct (zlen (x :: r) <? flen); [reflexivity|].
  destruct (frame_decode (slice_to (x :: r) flen)) as [[fid' p]|e|w]; try reflexivity.
  assert (L : (List.length (slice_from (x :: r) (Z.max 1 flen)) < List.length (x :: r))%nat)
    by (apply slice_from_shorter; [discriminate|lia]).
  cbn [List.length] in L.
  rewrite (IH f2 (slice_from (x :: r) (Z.max 1 flen))) by lia.
  reflexivity.
Qed.

(** fuel-free unfolding of [scan] *)
Lemma scan_cons x r :
  scan (x :: r) =
  if negb (x =? sof_byte)%N then scan r
  else if zlen (x :: r) <? hdr_len then ([], x :: r)
  else match hdr_decode (x :: r) with
       | Ok (fid, flen) =>
           if zlen (x :: r) <? flen then ([], x :: r)
           else match frame_decode (slice_to (x :: r) flen) with
                | Ok (fid', p) =>
                    let '(fs, rest) := scan (slice_from (x :: r) (Z.max 1 flen)) in
                    ((fid', p) :: fs, rest)
                | _ => scan r
                end
       | _ => scan r
       end.
Proof.
  unfold scan at 1. cbn [scan_fuel].
  rewrite (scan_fuel_enough (List.length (x :: r)) (S (List.length r)) r)
    by (cbn [List.length]; lia).
  fold (scan r).
  destruct (negb (x =? sof_byte)%N); [reflexivity|].
  destruct (zlen (x :: r) <? hdr_len); [reflexivity|].
  destruct (hdr_decode (x :: r)) as [[fid flen]|e|w]; try reflexivity.
  destruct (zlen (x :: r) <? flen); [reflexivity|].
  destruct (frame_decode (slice_to (x :: r) flen)) as [[fid' p]|e|w]; try reflexivity.
  assert (L : (List.length (slice_from (x :: r) (Z.max 1 flen)) < List.length (x :: r))%nat)
    by (apply slice_from_shorter; [discriminate|lia]).
  unfold scan.
  rewrite (scan_fuel_enough (List.length (x :: r))
             (S (List.length (slice_from (x :: r) (Z.max 1 flen))))
             (slice_from (x :: r) (Z.max 1 flen))) by lia.
  reflexivity.
Qed.

Lemma fs_nil : fs [] = [].
Proof. reflexivity. Qed.

Lemma fs_skip x r : x <> 85%N -> fs (x :: r) = fs r.
Proof.
  intros H. rewrite scan_cons. change sof_byte with 85%N.
  replace (negb (x =? 85)%N) with true by lia. reflexivity.
Qed.

Lemma fs_nosof a s : no_sof a -> fs (a ++ s) = fs s.
Proof.
  induction a as [|x a IH]; intros H; [reflexivity|].
  cbn [app]. rewrite fs_skip by (apply H; left; reflexivity).
  apply IH. intros y Hy. apply H. right. exact Hy.
Qed.

Lemma fs_sof_short r : zlen (85%N :: r) < 4 -> fs (85%N :: r) = [].
Proof.
  intros H. rewrite scan_cons. change sof_byte with 85%N. change hdr_len with 4.
  rewrite N.eqb_refl. cbn [negb].
  replace (zlen (85%N :: r) <? 4) with true by lia. reflexivity.
Qed.

Lemma fs_short s : zlen s < 4 -> fs s = [].
Proof.
  induction s as [|x r IH]; intros H; [reflexivity|].
  destruct (N.eq_dec x 85) as [->|Nx].
  - apply fs_sof_short. exact H.
  - rewrite fs_skip by exact Nx. apply IH. rewrite zlen_cons in H. lia.
Qed.

Lemma fs_bad_hdr r e : 4 <= zlen (85%N :: r) -> hdr_decode (85%N :: r) = Err e ->
  fs (85%N :: r) = fs r.
Proof.
  intros H E. rewrite scan_cons. change sof_byte with 85%N. change hdr_len with 4.
  rewrite N.eqb_refl. cbn [negb].
  replace (zlen (85%N :: r) <? 4) with false by lia. rewrite E. reflexivity.
Qed.

Lemma fs_pending r fid flen : 4 <= zlen (85%N :: r) ->
  hdr_decode (85%N :: r) = Ok (fid, flen) -> zlen (85%N :: r) < flen ->
  fs (85%N :: r) = [].
Proof.
  intros H E L. rewrite scan_cons. change sof_byte with 85%N. change hdr_len with 4.
  rewrite N.eqb_refl. cbn [negb].
  replace (zlen (85%N :: r) <? 4) with false by lia. rewrite E.
  replace (zlen (85%N :: r) <? flen) with true by lia. reflexivity.
Qed.

Lemma fs_bad_frame r fid flen e : 4 <= zlen (85%N :: r) ->
  hdr_decode (85%N :: r) = Ok (fid, flen) -> flen <= zlen (85%N :: r) ->
  frame_decode (slice_to (85%N :: r) flen) = Err e ->
  fs (85%N :: r) = fs r.
Proof.
  intros H E L D. rewrite scan_cons. change sof_byte with 85%N. change hdr_len with 4.
  rewrite N.eqb_refl. cbn [negb].
  replace (zlen (85%N :: r) <? 4) with false by lia. rewrite E.
  replace (zlen (85%N :: r) <? flen) with false by lia. rewrite D. reflexivity.
Qed.

Lemma fs_frame r fid flen fid' p : 4 <= zlen (85%N :: r) ->
  hdr_decode (85%N :: r) = Ok (fid, flen) -> flen <= zlen (85%N :: r) ->
  frame_decode (slice_to (85%N :: r) flen) = Ok (fid', p) ->
  fs (85%N :: r) = (fid', p) :: fs (slice_from (85%N :: r) (Z.max 1 flen)).
Proof.
  intros H E L D. rewrite scan_cons. change sof_byte with 85%N. change hdr_len with 4.
  rewrite N.eqb_refl. cbn [negb].
  replace (zlen (85%N :: r) <? 4) with false by lia. rewrite E.
  replace (zlen (85%N :: r) <? flen) with false by lia. rewrite D.
  destruct (scan (slice_from (85%N :: r) (Z.max 1 flen))) as [a b]. reflexivity.
Qed.

(** the same steps in front of arbitrary further bytes [X]: a complete
    candidate is decided the same way whatever follows *)
Lemma step_bad_hdr r e X : 4 <= zlen (85%N :: r) -> hdr_decode (85%N :: r) = Err e ->
  fs ((85%N :: r) ++ X) = fs (r ++ X).
Proof.
  intros H E. cbn [app]. apply (fs_bad_hdr (r ++ X) e).
  - change (85%N :: r ++ X) with ((85%N :: r) ++ X). rewrite zlen_app.
    pose proof (zlen_nonneg X). lia.
  - change (85%N :: r ++ X) with ((85%N :: r) ++ X). rewrite hdr_decode_app by exact H. exact E.
Qed.

Lemma step_pending r fid flen : 4 <= zlen (85%N :: r) ->
  hdr_decode (85%N :: r) = Ok (fid, flen) -> zlen (85%N :: r) < flen ->
  fs (85%N :: r) = [].
Proof. apply fs_pending. Qed.

Lemma step_bad_frame r fid flen e X : 4 <= zlen (85%N :: r) ->
  hdr_decode (85%N :: r) = Ok (fid, flen) -> 0 <= flen <= zlen (85%N :: r) ->
  frame_decode (slice_to (85%N :: r) flen) = Err e ->
  fs ((85%N :: r) ++ X) = fs (r ++ X).
Proof.
  intros H E L D. cbn [app]. pose proof (zlen_nonneg X) as HX.
  apply (fs_bad_frame (r ++ X) fid flen e);
    change (85%N :: r ++ X) with ((85%N :: r) ++ X).
  - rewrite zlen_app. lia.
  - rewrite hdr_decode_app by exact H. exact E.
  - rewrite zlen_app. lia.
  - rewrite slice_to_app_le by lia. exact D.
Qed.

Lemma step_frame r fid flen fid' p X : 4 <= zlen (85%N :: r) ->
  hdr_decode (85%N :: r) = Ok (fid, flen) -> 0 <= flen <= zlen (85%N :: r) ->
  frame_decode (slice_to (85%N :: r) flen) = Ok (fid', p) ->
  4 <= flen /\
  fs ((85%N :: r) ++ X) = (fid', p) :: fs (slice_from (85%N :: r) flen ++ X).
Proof.
  intros H E L D. pose proof (zlen_nonneg X) as HX.
  assert (F : 4 <= flen).
  { apply frame_decode_ok_len in D. rewrite zlen_slice_to in D by lia. exact D. }
  split; [exact F|].
  cbn [app].
  rewrite (fs_frame (r ++ X) fid flen fid' p);
    change (85%N :: r ++ X) with ((85%N :: r) ++ X).
  - replace (Z.max 1 flen) with flen by lia.
    rewrite slice_from_app_le by lia. reflexivity.
  - rewrite zlen_app. lia.
  - rewrite hdr_decode_app by exact H. exact E.
  - rewrite zlen_app. lia.
  - rewrite slice_to_app_le by lia. exact D.
Qed.

(** * The read loops *)
Definition nbytes (buf : bytes) (l : link) : nat :=
  (List.length buf + List.length (List.concat l))%nat.

Lemma accumulate_fill : forall f need buf l,
  accumulate f need buf l =
  let '(b2, l2) := fill f need buf l in
  (if zlen b2 <? need then None else Some b2, b2, l2).
Proof.
  induction f as [|f IH]; intros need buf l; cbn [accumulate fill].
  - destruct (zlen buf <? need) eqn:E; rewrite E; reflexivity.
  - destruct (zlen buf <? need) eqn:E; [|rewrite E; reflexivity].
    destruct l as [|c r]; cbn [read].
    + rewrite E. reflexivity.
    + destruct c as [|x c]; [rewrite E; reflexivity|]. apply IH.
Qed.

Lemma fill_spec : forall f need (buf : bytes) (l : link) (b2 : bytes) (l2 : link),
  fill f need buf l = (b2, l2) -> wf_bytes buf -> wf_link l ->
  wf_bytes b2 /\ wf_link l2 /\
  b2 ++ List.concat l2 = buf ++ List.concat l /\
  (exists c, b2 = buf ++ c) /\
  (List.length l2 <= List.length l)%nat /\
  (zlen b2 < need -> (0 < f)%nat ->
     (l = [] /\ l2 = [] /\ b2 = buf) \/ (List.length l2 < List.length l)%nat).
Proof.
  induction f as [|f IH]; intros need buf l b2 l2 H Hb Hl; cbn [fill] in H.
  - assert (E : (b2, l2) = (buf, l)) by (destruct (zlen buf <? need); congruence).
    inversion E; subst b2 l2. repeat split; try assumption; try lia.
    exists []. now rewrite app_nil_r.
  - destruct (zlen buf <? need) eqn:E.
    2:{ inversion H; subst b2 l2. repeat split; try assumption; try lia.
        exists []. now rewrite app_nil_r. }
    destruct l as [|c r]; cbn [read] in H.
    { inversion H; subst b2 l2. repeat split; try assumption; try lia.
      - exists []. now rewrite app_nil_r.
      - intros _ _. left. repeat split; reflexivity. }
    apply Forall_cons_iff in Hl as [Hc Hr].
    destruct c as [|x c].
    { inversion H; subst b2 l2. repeat split; try assumption.
      - exists []. now rewrite app_nil_r.
      - cbn [List.length]. lia.
      - intros _ _. right. cbn [List.length]. lia. }
    apply IH in H; [|apply wf_bytes_app; assumption|exact Hr].
    destruct H as (W1 & W2 & Q & (c' & Ec) & Ln & _).
    repeat split; try assumption.
    + rewrite Q. cbn [List.concat]. now rewrite <- app_assoc.
    + exists ((x :: c) ++ c'). rewrite Ec. now rewrite <- app_assoc.
    + cbn [List.length]. lia.
    + intros _ _. right. cbn [List.length]. lia.
Qed.

Lemma nbytes_eq (b2 : bytes) (l2 : link) (buf : bytes) (l : link) : b2 ++ List.concat l2 = buf ++ List.concat l ->
  nbytes b2 l2 = nbytes buf l.
Proof.
  intros H. unfold nbytes. rewrite <- !app_length. now rewrite H.
Qed.

Lemma link_nil_inv (b2 buf : bytes) (l2 : link) :
  (List.length l2 <= 0)%nat -> b2 ++ List.concat l2 = buf ++ List.concat [] ->
  l2 = [] /\ b2 = buf.
Proof.
  intros L Q. destruct l2; [|cbn [List.length] in L; lia].
  cbn [List.concat] in Q. rewrite !app_nil_r in Q. split; [reflexivity|exact Q].
Qed.

(** post-condition of [_read_hdr] *)
Definition hdr_post (prev : bytes) (l : link) (o : hdr_out) : Prop :=
  match o with
  | HNone p l' =>
      wf_bytes p /\ wf_link l' /\
      (forall X, wf_bytes X -> fs (prev ++ List.concat l ++ X) = fs (p ++ List.concat l' ++ X)) /\
      (nbytes p l' <= nbytes prev l)%nat /\ (List.length l' <= List.length l)%nat /\
      ((nbytes p l' < nbytes prev l)%nat \/ (List.length l' < List.length l)%nat \/
       (l = [] /\ p = prev /\ zlen prev < 4))
  | HFound fid flen b l' =>
      wf_bytes b /\ wf_link l' /\
      (forall X, wf_bytes X -> fs (prev ++ List.concat l ++ X) = fs (b ++ List.concat l' ++ X)) /\
      (nbytes b l' <= nbytes prev l)%nat /\ (List.length l' <= List.length l)%nat /\
      hdr_decode b = Ok (fid, flen) /\
      ((nbytes b l' < nbytes prev l)%nat \/ l <> [] \/ b = prev)
  | HRaise _ => False
  | HFuel => False
  end.

Lemma hdr_post_trans (prev : bytes) (l : link) (b : bytes) (l' : link) o :
  (forall X, wf_bytes X -> fs (prev ++ List.concat l ++ X) = fs (b ++ List.concat l' ++ X)) ->
  (nbytes b l' < nbytes prev l)%nat -> (List.length l' <= List.length l)%nat ->
  hdr_post b l' o -> hdr_post prev l o.
Proof.
  intros Hfs Hn Hc. destruct o as [p l2|fid flen b2 l2|w|]; cbn [hdr_post]; try tauto.
  - intros (W1 & W2 & F & N & C & _).
    repeat split; try assumption; try lia.
    intros X HX. rewrite Hfs by exact HX. apply F. exact HX.
  - intros (W1 & W2 & F & N & C & D & _).
    repeat split; try assumption; try lia.
    intros X HX. rewrite Hfs by exact HX. apply F. exact HX.
Qed.

Lemma read_hdr_post : forall fuel (prev : bytes) (l : link),
  wf_bytes prev -> wf_link l -> (nbytes prev l < fuel)%nat ->
  hdr_post prev l (read_hdr fuel prev l).
Proof.
  induction fuel as [|f IH]; intros prev l Hp Hl Hf; [lia|].
  cbn [read_hdr]. rewrite accumulate_fill.
  destruct (fill (S (List.length l)) hdr_len prev l) as [buf l'] eqn:EF.
  destruct (fill_spec _ _ _ _ _ _ EF Hp Hl) as (Wb & Wl & Q & (c & Ec) & Ln & St).
  pose proof (nbytes_eq _ _ _ _ Q) as NQ.
  assert (FQ : forall X, prev ++ List.concat l ++ X = buf ++ List.concat l' ++ X).
  { intros X. rewrite !app_assoc. now rewrite Q. }
  change hdr_len with 4 in *.
  destruct (zlen buf <? 4) eqn:E4.
  { (* an empty read came before 4 bytes were there *)
    cbn [hdr_post]. repeat split; try assumption; try lia.
    - intros X _. apply f_equal, f_equal. apply FQ.
    - destruct St as [(-> & -> & ->)|St]; [lia|lia| |right; left; exact St].
      right; right. repeat split; try reflexivity. lia. }
  destruct (sof_split buf) as [Hns|(pre & r & Eb & Hpre)].
  { (* no SOF at all *)
    rewrite hdr_find_none by exact Hns. cbn [Z.ltb Z.compare hdr_post].
    repeat split; try assumption; try lia.
    - apply wf_nil.
    - intros X _. rewrite FQ. cbn [app]. apply fs_nosof. exact Hns.
    - unfold nbytes in *. cbn [List.length]. unfold zlen in E4. lia.
    - left. unfold nbytes in *. cbn [List.length]. unfold zlen in E4. lia. }
  rewrite Eb. rewrite hdr_find_skip by exact Hpre.
  replace (zlen pre <? 0) with false by (pose proof (zlen_nonneg pre); lia).
  rewrite slice_from_app by reflexivity.
  set (b := 85%N :: r) in *.
  assert (Wb' : wf_bytes b) by (rewrite Eb in Wb; apply wf_app_inv in Wb; apply Wb).
  assert (Fb : forall X, wf_bytes X ->
             fs (prev ++ List.concat l ++ X) = fs (b ++ List.concat l' ++ X)).
  { intros X _. rewrite FQ, Eb, <- app_assoc. apply fs_nosof. exact Hpre. }
  assert (Nb : (nbytes b l' + List.length pre = nbytes prev l)%nat).
  { rewrite <- NQ. unfold nbytes. rewrite Eb, app_length. lia. }
  destruct (zlen b <? 4) eqn:Eb4.
  { (* candidate header incomplete: loop *)
    assert (Lp : (0 < List.length pre)%nat).
    { rewrite Eb, zlen_app in E4. unfold zlen in *. lia. }
    apply (hdr_post_trans prev l b l'); try assumption; try lia.
    apply IH; try assumption; lia. }
  destruct (hdr_decode b) as [[fid flen]|e|w] eqn:ED.
  - (* header found *)
    cbn [hdr_post]. repeat split; try assumption; try lia.
    destruct pre as [|y pre]; [|left; cbn [List.length] in Nb; lia].
    destruct l as [|c0 l0]; [|right; left; discriminate].
    right; right. cbn [app] in Eb.
    destruct (link_nil_inv buf prev l' ltac:(cbn [List.length] in Ln; lia) Q) as [_ E].
    congruence.
  - (* bad header: drop one byte, loop *)
    unfold b at 1. rewrite slice_from_1_cons.
    assert (Wr : wf_bytes r) by (apply wf_cons_inv in Wb'; apply Wb').
    apply (hdr_post_trans prev l r l'); try assumption.
    + intros X HX. rewrite Fb by exact HX.
      unfold b. apply (step_bad_hdr r e); fold b; [lia|exact ED].
    + unfold nbytes in *. unfold b in Nb. cbn [List.length] in Nb. lia.
    + apply IH; try assumption.
      unfold nbytes in *. unfold b in Nb. cbn [List.length] in Nb. lia.
  - exfalso. exact (hdr_decode_no_raise b w Wb' ED).
Qed.

(** post-condition of one call of [_read_frame] *)
Definition frame_post (prev : bytes) (l : link) (o : frame_out) : Prop :=
  match o with
  | FNone p l' =>
      wf_bytes p /\ wf_link l' /\
      (forall X, wf_bytes X -> fs (prev ++ List.concat l ++ X) = fs (p ++ List.concat l' ++ X)) /\
      (nbytes p l' <= nbytes prev l)%nat /\ (List.length l' <= List.length l)%nat /\
      ((nbytes p l' < nbytes prev l)%nat \/ (List.length l' < List.length l)%nat \/
       (l = [] /\ p = prev /\ fs prev = []))
  | FFrame fid pl p l' =>
      wf_bytes p /\ wf_link l' /\
      (forall X, wf_bytes X ->
         fs (prev ++ List.concat l ++ X) = (fid, pl) :: fs (p ++ List.concat l' ++ X)) /\
      (nbytes p l' < nbytes prev l)%nat /\ (List.length l' <= List.length l)%nat
  | FRaise _ => False
  | FFuel => False
  end.

Lemma read_frame_post (prev : bytes) (l : link) :
  wf_bytes prev -> wf_link l -> frame_post prev l (read_frame prev l).
Proof.
  intros Hp Hl. unfold read_frame.
  pose proof (read_hdr_post (S (List.length prev + List.length (List.concat l) + List.length l))
                prev l Hp Hl ltac:(unfold nbytes; lia)) as H.
  destruct (read_hdr (S (List.length prev + List.length (List.concat l) + List.length l)) prev l)
    as [p l'|fid flen b l'|w|]; cbn [hdr_post] in H; try contradiction.
  - destruct H as (W1 & W2 & F & N & C & D). cbn [frame_post].
    repeat split; try assumption.
    destruct D as [D|[D|(E1 & E2 & E3)]]; [left; exact D|right; left; exact D|].
    right; right. repeat split; try assumption. apply fs_short. exact E3.
  - destruct H as (W1 & W2 & F & N & C & ED & D).
    destruct (hdr_decode_ok_inv b fid flen W1 ED) as ((r & Er) & L4 & F0).
    destruct (fill (S (List.length l')) flen b l') as [b2 l2] eqn:EF.
    destruct (fill_spec _ _ _ _ _ _ EF W1 W2) as (Wb & Wl & Q & (c & Ec) & Ln & St).
    pose proof (nbytes_eq _ _ _ _ Q) as NQ.
    assert (F2 : forall X, wf_bytes X ->
               fs (prev ++ List.concat l ++ X) = fs (b2 ++ List.concat l2 ++ X)).
    { intros X HX. rewrite F by exact HX. rewrite !app_assoc. now rewrite Q. }
    destruct (zlen b2 <? flen) eqn:EL.
    + (* frame incomplete: pending *)
      cbn [frame_post]. repeat split; try assumption; try lia.
      destruct (St ltac:(lia) ltac:(lia)) as [(E1 & E2 & E3)|St']; [|right; left; lia].
      subst l' l2.
      destruct D as [D|[D|D]]; [left; lia| |].
      * right; left. destruct l; [congruence|cbn [List.length]; lia].
      * destruct l as [|c0 l0]; [|right; left; cbn [List.length]; lia].
        right; right. split; [reflexivity|]. split; [congruence|].
        rewrite <- D. rewrite E3 in EL. rewrite Er in *.
        apply (fs_pending r fid flen); [exact L4|exact ED|lia].
    + (* frame complete *)
      assert (ED2 : hdr_decode b2 = Ok (fid, flen)).
      { rewrite Ec. rewrite hdr_decode_app by exact L4. exact ED. }
      assert (Er2 : b2 = 85%N :: (r ++ c)) by (rewrite Ec, Er; reflexivity).
      assert (L42 : 4 <= zlen b2).
      { rewrite Ec, zlen_app. pose proof (zlen_nonneg c). lia. }
      destruct (frame_decode (slice_to b2 flen)) as [[fid' pl]|e|w] eqn:FD.
      * cbn [frame_post].
        pose proof EL as EL'.
        rewrite Er2 in ED2, L42, FD, EL.
        destruct (step_frame (r ++ c) fid flen fid' pl [] L42 ED2 ltac:(lia) FD) as [F4 _].
        repeat split; try assumption; try lia.
        -- apply wf_slice_from. exact Wb.
        -- intros X HX. rewrite F2 by exact HX. rewrite Er2.
           apply (step_frame (r ++ c) fid flen fid' pl); try assumption. lia.
        -- unfold nbytes in *. rewrite length_slice_from by lia. unfold zlen in *. lia.
      * cbn [frame_post]. rewrite Er2. rewrite slice_from_1_cons.
        assert (Wr : wf_bytes (r ++ c)) by (rewrite Er2 in Wb; apply wf_cons_inv in Wb; apply Wb).
        assert (NN : (nbytes (r ++ c) l2 < nbytes prev l)%nat).
        { unfold nbytes in *. rewrite Er2 in NQ. cbn [List.length] in NQ. lia. }
        repeat split; try assumption; try lia.
        intros X HX. rewrite F2 by exact HX. rewrite Er2.
           rewrite Er2 in ED2, L42, FD, EL.
           apply (step_bad_frame (r ++ c) fid flen e); try assumption. lia.
      * exfalso. apply (frame_decode_no_raise (slice_to b2 flen) w); [|exact FD].
        apply wf_slice_to. exact Wb.
Qed.

(** * The three per-call statements *)
Lemma read_frame_frame : forall prev l fid p prev' l',
  wf_bytes prev -> wf_link l -> read_frame prev l = FFrame fid p prev' l' ->
  wf_bytes prev' /\ wf_link l' /\
  forall fut, wf_bytes fut ->
    fst (scan (prev ++ List.concat l ++ fut)) = (fid, p) :: fst (scan (prev' ++ List.concat l' ++ fut)).
Proof.
  intros prev l fid p prev' l' Hp Hl E.
  pose proof (read_frame_post prev l Hp Hl) as H. rewrite E in H. cbn [frame_post] in H.
  destruct H as (W1 & W2 & F & _). repeat split; assumption.
Qed.

Lemma read_frame_none : forall prev l prev' l',
  wf_bytes prev -> wf_link l -> read_frame prev l = FNone prev' l' ->
  wf_bytes prev' /\ wf_link l' /\
  forall fut, wf_bytes fut ->
    fst (scan (prev ++ List.concat l ++ fut)) = fst (scan (prev' ++ List.concat l' ++ fut)).
Proof.
  intros prev l prev' l' Hp Hl E.
  pose proof (read_frame_post prev l Hp Hl) as H. rewrite E in H. cbn [frame_post] in H.
  destruct H as (W1 & W2 & F & _). repeat split; assumption.
Qed.

Lemma read_frame_total : forall prev l, wf_bytes prev -> wf_link l ->
  (exists fid p prev' l', read_frame prev l = FFrame fid p prev' l') \/
  (exists prev' l', read_frame prev l = FNone prev' l').
Proof.
  intros prev l Hp Hl.
  pose proof (read_frame_post prev l Hp Hl) as H.
  destruct (read_frame prev l) as [p l'|fid pl p l'|w|]; cbn [frame_post] in H; try contradiction.
  - right. eauto.
  - left. eexists _, _, _, _. reflexivity.
Qed.

(** * The receive loop *)
Lemma recv_loop_scan : forall fuel (prev : bytes) (l : link) acc,
  wf_bytes prev -> wf_link l ->
  (nbytes prev l + List.length l + 2 <= fuel)%nat ->
  exists rest, recv_loop fuel prev l acc = Some (acc ++ fs (prev ++ List.concat l), rest).
Proof.
  induction fuel as [|f IH]; intros prev l acc Hp Hl Hf; [lia|].
  cbn [recv_loop].
  pose proof (read_frame_post prev l Hp Hl) as H.
  assert (E0 : forall (p : bytes) (l' : link), p ++ List.concat l' ++ [] = p ++ List.concat l')
    by (intros; now rewrite app_nil_r).
  destruct (read_frame prev l) as [p l'|fid pl p l'|w|]; cbn [frame_post] in H; try contradiction.
  - destruct H as (W1 & W2 & F & N & C & D).
    specialize (F [] wf_nil). rewrite !E0 in F.
    assert (Rec : (nbytes p l' + List.length l' < nbytes prev l + List.length l)%nat ->
                  exists rest, recv_loop f p l' acc = Some (acc ++ fs (prev ++ List.concat l), rest)).
    { intros M. rewrite F. apply IH; try assumption. lia. }
    destruct l as [|c0 l0].
    + assert (El : l' = []) by (destruct l'; [reflexivity|cbn [List.length] in C; lia]).
      subst l'.
      destruct (Nat.eqb (List.length p) (List.length prev)) eqn:EQ.
      * apply Nat.eqb_eq in EQ. exists p.
        destruct D as [D|[D|(_ & E2 & E3)]].
        -- unfold nbytes in D. lia.
        -- cbn [List.length] in D. lia.
        -- cbn [List.concat]. rewrite app_nil_r, E3, app_nil_r. reflexivity.
      * apply Nat.eqb_neq in EQ. apply Rec.
        destruct D as [D|[D|(_ & E2 & _)]]; [lia|cbn [List.length] in D; lia|].
        subst p. congruence.
    + apply Rec. destruct D as [D|[D|(E1 & _)]]; [lia|lia|discriminate].
  - destruct H as (W1 & W2 & F & N & C).
    specialize (F [] wf_nil). rewrite !E0 in F.
    destruct (IH p l' (acc ++ [(fid, pl)]) W1 W2 ltac:(lia)) as [rest R].
    exists rest. rewrite R, F, <- app_assoc. reflexivity.
Qed.

(** MAIN THEOREM: for every way the transport splits the bytes into reads
    (empty reads included), the frames delivered are exactly those of one
    scan of the concatenation; in particular the loop never runs out of fuel
    and never raises. *)
Theorem recv_all_scan : forall chunks : link,
  wf_link chunks ->
  exists rest, recv_all chunks = Some (fst (scan (List.concat chunks)), rest).
Proof.
  intros chunks H. unfold recv_all.
  destruct (recv_loop_scan (2 * (List.length (List.concat chunks) + List.length chunks) + 4)
              [] chunks [] wf_nil H ltac:(unfold nbytes; cbn [List.length]; lia)) as [rest R].
  exists rest. rewrite R. reflexivity.
Qed.

Print Assumptions scan_fuel_enough.
Print Assumptions read_frame_frame.
Print Assumptions read_frame_none.
Print Assumptions read_frame_total.
Print Assumptions recv_all_scan.

(** The interpreted source of the client-side REQUEST BUILDERS of
    nxslib.proto.parse.Parser (the ASTs of gen/Src_parse.v: __init__, the
    [frame] property, _frame_set_data/_single/_bulk/_all, frame_start,
    frame_cmninfo, frame_chinfo, frame_enable, frame_div), run by the PyLite
    interpreter, computes the hand-written model of model/Request.v -- for ALL
    inputs and all fuel above a constant.

    Every proof is a run of the generic symbolic executor of
    py/PyLite_tactics.v.  The two bulk loops ([for _chan in range(chmax)] with
    [chmax] symbolic, body may raise IndexError / ValueError) go through
    [for_loop_fold_res] (proofs/Src_parse_req_lemmas.v): one symbolic
    iteration, proved by [pyrun], then [en_fold]/[div_fold] relate the fold
    over [range(chmax)] with [Request.en_bulk_bytes]/[div_bulk_bytes]. *)
From Coq Require Import String Ascii List ZArith NArith Bool Lia ZifyBool.
From NX Require Import Bytes PyStruct Crc PyLite PyLite_tactics Src_iframe Src_serialframe Src_parse Src_all.
From NX Require Frame Gen_frame Gen_req Request.
From NX Require Import Bytes_proofs Src_serialframe_proofs Src_parse_req_lemmas.
Import ListNotations.
Open Scope string_scope.
Open Scope Z_scope.

(** * The embedding *)
Definition pa : pv := PObj "Parser" [("_frame", sf); ("_user_types", PNone)].

Definition emb (r : Frame.res bytes) : PyLite.res (pv * pv) :=
  match r with
  | Frame.Ok x => PyLite.Ok (PBytes x, pa)
  | Frame.Raise w => Exc w
  | Frame.Err _ => Unsupported ""
  end.

Definition emb_f (self : pv) (r : Frame.res bytes) : PyLite.res (pv * option pv) :=
  match r with
  | Frame.Ok x => PyLite.Ok (PBytes x, Some self)
  | Frame.Raise w => ExcS w (self_st self)
  | Frame.Err _ => Unsupported ""
  end.

(** * Set-up of the executor *)
#[local] Hint Unfold
  Frame.hdr_len Frame.foot_len Frame.sof_byte Frame.crc16 Frame.crc_p
  Gen_frame.sof Gen_frame.hdr_end Gen_frame.foot Gen_frame.parse_ids
  Gen_frame.crc_poly Gen_frame.crc_init Gen_frame.crc_rev Gen_frame.crc_xorout
  Gen_frame.hdr_decode_fmt Gen_frame.crc_residue Gen_frame.decode_foot_off
  Gen_frame.create_fid_max Gen_frame.create_len_base Gen_frame.create_hdr_fmt
  Gen_frame.create_foot_fmt
  Gen_req.set_flags Gen_req.set_data_fmt Gen_req.start_fmt Gen_req.chinfo_fmt
  Gen_req.enable_true_byte Gen_req.enable_false_byte
  Request.spack Request.bind Request.b01
  emb emb_f pa sf : req_model.

#[local] Arguments Frame.frame_create : simpl never.
#[local] Arguments py_index : simpl never.
Ltac py_unfold_hook ::= autounfold with req_model.

Lemma zlen_pos_eqb {A} (d : list A) : (0 <? zlen d) = negb (zlen d =? 0).
Proof. pose proof (zlen_nonneg d). lia. Qed.
Lemma zlen_map {A B} (f : A -> B) l : zlen (map f l) = zlen l.
Proof. unfold zlen. now rewrite map_length. Qed.

(** stuck heads that the generic case split must not touch: indexing and
    [set()] of a symbolic list (rewritten with the lemmas of
    Src_parse_req_lemmas), closed [norm_index]/[nth]/[zlen] that the data
    blacklist of [pycbn_data] left standing, a boolean variable under a
    comparison *)
Ltac py_stuck_hook h ::=
  match h with
  | py_index (PList (map ?g ?l)) (PInt 0) => rewrite (py_index_map_0 g l)
  | py_index (PList (map ?g ?l)) (rng ?k) => rewrite (py_index_map_rng g l k)
  | py_index _ _ => unfold py_index
  | context [@zlen ?A [?x]] => change (@zlen A [x]) with 1
  | context [if ?b then _ else _] => is_var b; destruct b
  | context [norm_index ?a ?b] => is_nat_lit a; is_Z_lit b; pyfold2 norm_index a b
  | context [nth ?k (?x :: ?r) ?d] =>
      is_nat_lit k; let v := eval cbn [nth] in (nth k (x :: r) d) in change (nth k (x :: r) d) with v
  | context [0 <? zlen ?d] => rewrite (zlen_pos_eqb d)
  | context [zlen (map ?f ?l)] => rewrite (zlen_map f l)
  | context [dedup (map PBool ?l) []] => rewrite (dedup_PBool l)
  | context [dedup (map PInt ?l) []] => rewrite (dedup_PInt l)
  | context [zlen (dd Bool.eqb ?l []) <=? 1] => rewrite (dd_all_same_bool l)
  | context [zlen (dd Z.eqb ?l []) <=? 1] => rewrite (dd_all_same_Z l)
  end.

Theorem construct_spec n : construct program (2 + n) "Parser" [] = PyLite.Ok pa.
Proof. pystart. pyrun. Qed.

Lemma frame_create_enum_func n name fid data :
  call_func program (S n) SerialFrame_frame_create [sf; PEnum "EParseId" name fid true; PBytes data] [] =
  emb_f sf (Frame.frame_create fid data).
Proof. pystart. unfold Frame.frame_create. pyrun. Qed.

Lemma frame_create_enum_None_func n name fid :
  call_func program (S n) SerialFrame_frame_create [sf; PEnum "EParseId" name fid true; PNone] [] =
  emb_f sf (Frame.frame_create fid []).
Proof. pystart. unfold Frame.frame_create. pyrun. Qed.

#[local] Hint Resolve frame_create_enum_func frame_create_enum_None_func : pyspec.

Lemma frame_start_func n b :
  call_func program (S (S n)) Parser_frame_start [pa; PBool b] [] = emb_f pa (Request.frame_start b).
Proof. pystart. unfold Request.frame_start. pyrun. Qed.

Lemma frame_cmninfo_func n :
  call_func program (S (S n)) Parser_frame_cmninfo [pa] [] = emb_f pa Request.frame_cmninfo.
Proof. pystart. unfold Request.frame_cmninfo. pyrun. Qed.

Lemma frame_chinfo_func n chan :
  call_func program (S (S n)) Parser_frame_chinfo [pa; PInt chan] [] = emb_f pa (Request.frame_chinfo chan).
Proof. pystart. unfold Request.frame_chinfo. pyrun. Qed.

#[local] Hint Resolve frame_start_func frame_cmninfo_func frame_chinfo_func : pyspec.

Theorem frame_start_spec n b :
  call_method program (2 + n) pa "frame_start" [PBool b] = emb (Request.frame_start b).
Proof. pystart. pyrun. Qed.
Theorem frame_cmninfo_spec n :
  call_method program (2 + n) pa "frame_cmninfo" [] = emb (Request.frame_cmninfo).
Proof. pystart. pyrun. Qed.
Theorem frame_chinfo_spec n chan :
  call_method program (2 + n) pa "frame_chinfo" [PInt chan] = emb (Request.frame_chinfo chan).
Proof. pystart. pyrun. Qed.

Lemma frame_set_data_func n name fl chan :
  call_func program (S n) Parser__frame_set_data [pa; PEnum "EParseIdSetFlags" name fl true; PInt chan] [] =
  emb_f pa (Request.spack Gen_req.set_data_fmt [VInt fl; VInt chan]).
Proof. pystart. pyrun. Qed.
Lemma frame_set_data_func0 n name fl :
  call_func program (S n) Parser__frame_set_data [pa; PEnum "EParseIdSetFlags" name fl true] [] =
  emb_f pa (Request.spack Gen_req.set_data_fmt [VInt fl; VInt 0]).
Proof. pystart. pyrun. Qed.
#[local] Hint Resolve frame_set_data_func frame_set_data_func0 : pyspec.

Lemma frame_set_single_func n idn fid d chan :
  call_func program (S (S n)) Parser__frame_set_single [pa; PEnum "EParseId" idn fid true; PBytes d; PInt chan] [] =
  if zlen d =? 1 then emb_f pa (Request.frame_set fid (Request.set_flag "SINGLE") chan d)
  else ExcS "AssertionError" (self_st pa).
Proof. pystart. unfold Request.frame_set. pyrun. Qed.

Lemma frame_set_all_func n idn fid d :
  call_func program (S (S n)) Parser__frame_set_all [pa; PEnum "EParseId" idn fid true; PBytes d] [] =
  if zlen d =? 1 then emb_f pa (Request.frame_set fid (Request.set_flag "ALL") 0 d)
  else ExcS "AssertionError" (self_st pa).
Proof. pystart. unfold Request.frame_set. pyrun. Qed.

Lemma frame_set_bulk_func n idn fid d :
  call_func program (S (S n)) Parser__frame_set_bulk [pa; PEnum "EParseId" idn fid true; PBytes d] [] =
  if zlen d =? 0 then ExcS "AssertionError" (self_st pa)
  else emb_f pa (Request.frame_set fid (Request.set_flag "BULK") 0 d).
Proof. pystart. unfold Request.frame_set. pyrun. Qed.
#[local] Hint Resolve frame_set_single_func frame_set_all_func frame_set_bulk_func : pyspec.
#[local] Arguments Request.frame_set : simpl never.

#[local] Hint Unfold Request.bytes1 : req_model.

Lemma frame_enable_single_func n chan v chmax :
  call_func program (S (S (S n))) Parser_frame_enable [pa; PTuple [PInt chan; PBool v]; PInt chmax] [] =
  emb_f pa (Request.frame_enable (Request.EnSingle chan v) chmax).
Proof. pystart. unfold Request.frame_enable. pyrun. Qed.

Lemma frame_div_single_func n chan v chmax :
  call_func program (S (S (S n))) Parser_frame_div [pa; PTuple [PInt chan; PInt v]; PInt chmax] [] =
  emb_f pa (Request.frame_div (Request.DivSingle chan v) chmax).
Proof. pystart. unfold Request.frame_div. pyrun. Qed.

#[local] Arguments rng : simpl never.
#[local] Hint Unfold emb_res : req_model.

(** bring a loop [for x in range(n)] that accumulates into a [bytes] local
    (initially [b""]) into the form of [for_loop_fold_res], with the loop
    state (accumulator, loop variable) and the model step function [step ef]
    ([ef]: the embedding of the loop state into environments, which [step]
    needs to say in which environment an iteration raises);
    independent of the names and of the order of the locals *)
Ltac head_c t := lazymatch t with ?f _ => head_c f | _ => t end.
Ltac py_range_bytes_loop step :=
  lazymatch goal with
  | |- context [for_loop ?P ?cf ?lf (TName ?x) ?b (range_list 0 ?n) ?e] =>
      lazymatch e with
      | context C [PBytes []] =>
          let ef := fresh "env_of" in
          pose (ef := fun a : bytes * option pv =>
              ((ltac:(let t := context C [PBytes (fst a)] in exact t))
                 ++ match snd a with Some v => [(x, v)] | None => [] end)%list);
          change (for_loop P cf lf (TName x) b (range_list 0 n) e)
            with (for_loop P cf lf (TName x) b (map rng (seq 0 (Z.to_nat (n - 0)))) (ef (@pair bytes (option pv) [] None)));
          rewrite (for_loop_fold_res ef rng (step ef) P cf lf (TName x) b);
          [ rewrite Z.sub_0_r | intros [? [?|]] ?; let h := head_c step in unfold h ];
          subst ef; cbn [fst snd app]
      end
  end.

(** the loop as a whole:
    [lem : forall ef n s d o, exists o' d', fold_res (step ef) (seq s n) (d, o) = ...] *)
Ltac py_fold_res_spec lem :=
  lazymatch goal with
  | |- context [fold_res (_ ?ef) (seq ?s ?n) (?d, ?o)] =>
      let H := fresh "Hfold" in
      destruct (lem ef n s d o) as ([?|] & ? & H); cbn [skipn] in H; rewrite H; clear H
  end.

Lemma frame_enable_vec_func n l chmax :
  call_func program (S (S (S n))) Parser_frame_enable [pa; PList (map PBool l); PInt chmax] [] =
  emb_f pa (Request.frame_enable (Request.EnVec l) chmax).
Proof.
  pystart. unfold Request.frame_enable.
  pysteps; try solve [pyfinish];
  (py_range_bytes_loop (en_step l); [ py_fold_res_spec (en_fold l); pyrun | pyrun .. ]).
Qed.

Lemma frame_div_vec_func n l chmax :
  call_func program (S (S (S n))) Parser_frame_div [pa; PList (map PInt l); PInt chmax] [] =
  emb_f pa (Request.frame_div (Request.DivVec l) chmax).
Proof.
  pystart. unfold Request.frame_div.
  pysteps; try solve [pyfinish];
  (py_range_bytes_loop (div_step l); [ py_fold_res_spec (div_fold l); pyrun | pyrun .. ]).
Qed.

#[local] Hint Resolve frame_enable_single_func frame_enable_vec_func frame_div_single_func frame_div_vec_func : pyspec.

Theorem frame_enable_single_spec n chan v chmax :
  call_method program (3 + n) pa "frame_enable" [PTuple [PInt chan; PBool v]; PInt chmax] =
  emb (Request.frame_enable (Request.EnSingle chan v) chmax).
Proof. pystart. pyrun. Qed.

Theorem frame_enable_vec_spec n l chmax :
  call_method program (3 + n) pa "frame_enable" [PList (map PBool l); PInt chmax] =
  emb (Request.frame_enable (Request.EnVec l) chmax).
Proof. pystart. pyrun. Qed.

Theorem frame_div_single_spec n chan v chmax :
  call_method program (3 + n) pa "frame_div" [PTuple [PInt chan; PInt v]; PInt chmax] =
  emb (Request.frame_div (Request.DivSingle chan v) chmax).
Proof. pystart. pyrun. Qed.

Theorem frame_div_vec_spec n l chmax :
  call_method program (3 + n) pa "frame_div" [PList (map PInt l); PInt chmax] =
  emb (Request.frame_div (Request.DivVec l) chmax).
Proof. pystart. pyrun. Qed.

(** * The [frame] property and the private helpers, as method calls *)
Lemma frame_prop_func n :
  call_func program (S n) Parser_frame [pa] [] = PyLite.Ok (sf, Some pa).
Proof. pystart. pyrun. Qed.
#[local] Hint Resolve frame_prop_func : pyspec.

Theorem frame_prop_spec n :
  get_attr program (call_func program (1 + n)) pa "frame" = PyLite.Ok sf.
Proof. pystart. pyrun. Qed.

Theorem frame_set_data_spec n name fl chan :
  call_method program (1 + n) pa "_frame_set_data" [PEnum "EParseIdSetFlags" name fl true; PInt chan] =
  emb (Request.spack Gen_req.set_data_fmt [VInt fl; VInt chan]).
Proof. pystart. pyrun. Qed.

Theorem frame_set_single_spec n idn fid d chan :
  call_method program (2 + n) pa "_frame_set_single" [PEnum "EParseId" idn fid true; PBytes d; PInt chan] =
  if zlen d =? 1 then emb (Request.frame_set fid (Request.set_flag "SINGLE") chan d) else Exc "AssertionError".
Proof. pystart. pyrun. Qed.

Theorem frame_set_all_spec n idn fid d :
  call_method program (2 + n) pa "_frame_set_all" [PEnum "EParseId" idn fid true; PBytes d] =
  if zlen d =? 1 then emb (Request.frame_set fid (Request.set_flag "ALL") 0 d) else Exc "AssertionError".
Proof. pystart. pyrun. Qed.

Theorem frame_set_bulk_spec n idn fid d :
  call_method program (2 + n) pa "_frame_set_bulk" [PEnum "EParseId" idn fid true; PBytes d] =
  if zlen d =? 0 then Exc "AssertionError" else emb (Request.frame_set fid (Request.set_flag "BULK") 0 d).
Proof. pystart. pyrun. Qed.

(** * Audit *)
Print Assumptions construct_spec.
Print Assumptions frame_prop_spec.
Print Assumptions frame_start_spec.
Print Assumptions frame_cmninfo_spec.
Print Assumptions frame_chinfo_spec.
Print Assumptions frame_enable_single_spec.
Print Assumptions frame_enable_vec_spec.
Print Assumptions frame_div_single_spec.
Print Assumptions frame_div_vec_spec.
Print Assumptions frame_set_data_spec.
Print Assumptions frame_set_single_spec.
Print Assumptions frame_set_all_spec.
Print Assumptions frame_set_bulk_spec.
